package rules

import (
	"go/ast"
	"go/token"
	"go/types"
	"strings"

	"golang.org/x/tools/go/ssa"

	"risorcheck/core"
)

// publishBeforeErrorCheck: the value half of a (value, error) result is not
// stored into a long-lived place (a map, a sync.Map, a struct field of a
// non-fresh object) before the error half has been tested.
// (Plain struct fields are excluded: `x.f, err = g(); if err != nil { return err }` is this
// repository's idiom for state that is abandoned on error.)  A cache filled
// before the check remembers failures as if they were results: the second use
// of a malformed pattern finds a nil *Regexp in the cache.
func publishBeforeErrorCheck(c *core.Ctx, rels ...string) {
	p := c.P
	n := 0
	for _, fn := range repoFns(p, rels...) {
		idx := 0
		for _, b := range fn.Blocks {
			for _, in := range b.Instrs {
				call, ok := in.(*ssa.Call)
				if !ok {
					continue
				}
				tup, ok := call.Type().(*types.Tuple)
				if !ok || tup.Len() < 2 || !isErrorType(tup.At(tup.Len()-1).Type()) {
					continue
				}
				var errV ssa.Value
				var vals []ssa.Value
				if call.Referrers() == nil {
					continue
				}
				for _, r := range *call.Referrers() {
					if ex, ok := r.(*ssa.Extract); ok {
						if ex.Index == tup.Len()-1 {
							errV = ex
						} else {
							vals = append(vals, ex)
						}
					}
				}
				if errV == nil || len(vals) == 0 {
					continue
				}
				for _, v := range vals {
					if v.Referrers() == nil {
						continue
					}
					var visit func(x ssa.Value, depth int)
					visit = func(x ssa.Value, depth int) {
						if depth > 2 || x.Referrers() == nil {
							return
						}
						for _, r := range *x.Referrers() {
							var at ssa.Instruction
							what := ""
							switch u := r.(type) {
							case *ssa.MapUpdate:
								if u.Value == x {
									at, what = u, "stored in a map"
								}
							case *ssa.Store:
								if u.Val == x {
									// plain fields are "assign, then check and bail out" in this code base;
									// caches are maps, sync.Maps and package-level variables
									if _, ok := u.Addr.(*ssa.Global); ok {
										at, what = u, "stored in a package-level variable"
									}
								}
							case *ssa.Call:
								if cal := u.Call.StaticCallee(); cal != nil && cal.Name() == "Store" && cal.Signature.Recv() != nil && core.IsNamed(cal.Signature.Recv().Type(), "sync", "Map") {
									at, what = u, "stored in a sync.Map"
								}
							case *ssa.MakeInterface:
								visit(u, depth+1)
							case *ssa.ChangeInterface:
								visit(u, depth+1)
							}
							if at == nil {
								continue
							}
							n++
							idx++
							okc := core.NilCheckedErrDominates(errV, at.Block())
							name := "call"
							if cal := call.Call.StaticCallee(); cal != nil {
								name = cal.Name()
							} else if call.Call.IsInvoke() {
								name = call.Call.Method.Name()
							}
							c.Check(okc, core.SSAName(fn)+"|"+name+"#"+itoa(idx)+"|published-after-error-check", p.Pos(at.Pos()),
								"the result of "+name+" is "+what+" only after its error was found nil"+ifs(!okc, ": here it is published first, so a failed "+name+" is remembered as a (nil) result"))
						}
					}
					visit(v, 0)
				}
			}
		}
	}
	c.Stat("published_results", n)
}

// jsonMarshalersUseJSON (C19-R7): a MarshalJSON method that encodes a Go value
// returns bytes produced by encoding/json.  Go-syntax quoting (%q,
// strconv.Quote) escapes control characters and invalid UTF-8 in ways JSON does
// not accept, so the value neither parses nor agrees with Go's encoder.
func jsonMarshalersUseJSON(c *core.Ctx) {
	p := c.P
	n := 0
	for _, fn := range repoFns(p) {
		if fn.Name() != "MarshalJSON" || fn.Signature.Recv() == nil {
			continue
		}
		n++
		bad := ""
		for _, b := range fn.Blocks {
			for _, in := range b.Instrs {
				ci, ok := in.(ssa.CallInstruction)
				if !ok {
					continue
				}
				cal := ci.Common().StaticCallee()
				if cal == nil || cal.Pkg == nil || cal.Pkg.Pkg == nil {
					continue
				}
				path, name := cal.Pkg.Pkg.Path(), cal.Name()
				if path == "strconv" && (strings.HasPrefix(name, "Quote") || strings.HasPrefix(name, "AppendQuote")) {
					bad = "strconv." + name + " at " + p.Pos(in.Pos())
				}
				if path == "fmt" && len(ci.Common().Args) > 0 {
					for _, a := range ci.Common().Args {
						if k, ok := a.(*ssa.Const); ok && k.Value != nil && strings.Contains(k.Value.ExactString(), "%q") {
							bad = "fmt." + name + " with %q at " + p.Pos(in.Pos())
						}
					}
				}
			}
		}
		// raw text returned as JSON: []byte(s) of a string that is not a formatted number or a constant
		for _, b := range fn.Blocks {
			for _, in := range b.Instrs {
				cv, ok := in.(*ssa.Convert)
				if !ok || !core.IsStringType(cv.X.Type()) {
					continue
				}
				if _, isBytes := cv.Type().Underlying().(*types.Slice); !isBytes {
					continue
				}
				for _, o := range core.Origins(cv.X) {
					switch x := o.(type) {
					case *ssa.Const:
					case *ssa.Call:
						cal := x.Call.StaticCallee()
						okNum := cal != nil && cal.Pkg != nil && ((cal.Pkg.Pkg.Path() == "fmt" && cal.Name() == "Sprintf") || (cal.Pkg.Pkg.Path() == "strconv" && (strings.HasPrefix(cal.Name(), "Format") || cal.Name() == "Itoa")))
						if !okNum {
							bad = "the text of " + x.String() + " is returned as JSON without quoting, at " + p.Pos(cv.Pos())
						}
					default:
						bad = "a string is returned as JSON without quoting, at " + p.Pos(cv.Pos())
					}
				}
			}
		}
		recv := core.NamedOf(fn.Signature.Recv().Type())
		rn := "?"
		if recv != nil {
			rn = recv.Obj().Name()
		}
		c.Check(bad == "", "object."+rn+".MarshalJSON|json-quoting", p.Pos(fn.Pos()),
			rn+".MarshalJSON quotes text with encoding/json, not with Go syntax"+ifs(bad != "", ": "+bad))
	}
	c.Stat("marshalers", n)
}

// intNotThroughFloat (C08-R10): an integer handed back to Go does not pass
// through float64.  A conversion float64→integer whose operand was itself
// produced by converting an integer (directly, or inside a repository helper
// that returns float64) loses every value above 2^53.
func intNotThroughFloat(c *core.Ctx) {
	p := c.P
	isFloat := func(t types.Type) bool {
		b, ok := t.Underlying().(*types.Basic)
		return ok && b.Info()&types.IsFloat != 0
	}
	// helpers returning a float that may come from an integer
	fromInt := map[*ssa.Function]bool{}
	fns := repoFns(p, "object")
	intToFloat := func(v ssa.Value) bool {
		cv, ok := v.(*ssa.Convert)
		return ok && isFloat(cv.Type()) && isIntegerType(cv.X.Type())
	}
	for changed := true; changed; {
		changed = false
		for _, fn := range fns {
			if fromInt[fn] || fn.Signature.Results().Len() == 0 || !isFloat(fn.Signature.Results().At(0).Type()) {
				continue
			}
			for _, b := range fn.Blocks {
				for _, in := range b.Instrs {
					r, ok := in.(*ssa.Return)
					if !ok {
						continue
					}
					rv := spilledResult(b, r.Results[0])
					if intToFloat(rv) || core.DependsOn(rv, func(w ssa.Value) bool {
						if intToFloat(w) {
							return true
						}
						if call, ok := w.(*ssa.Call); ok {
							if cal := call.Call.StaticCallee(); cal != nil && fromInt[cal] {
								return true
							}
						}
						return false
					}) {
						fromInt[fn] = true
						changed = true
					}
				}
			}
		}
	}
	n := 0
	for _, fn := range fns {
		if !strings.HasSuffix(p.Fset.Position(fn.Pos()).Filename, "typeconv.go") {
			continue
		}
		bad := ""
		has := false
		for _, b := range fn.Blocks {
			for _, in := range b.Instrs {
				cv, ok := in.(*ssa.Convert)
				if !ok || !isIntegerType(cv.Type()) || !isFloat(cv.X.Type()) {
					continue
				}
				has = true
				for _, o := range core.Origins(cv.X) {
					if intToFloat(o) {
						bad = p.Pos(cv.Pos())
					}
					var call *ssa.Call
					if ex, ok := o.(*ssa.Extract); ok {
						call, _ = ex.Tuple.(*ssa.Call)
					} else {
						call, _ = o.(*ssa.Call)
					}
					if call != nil {
						if cal := call.Call.StaticCallee(); cal != nil && fromInt[cal] {
							bad = p.Pos(cv.Pos()) + " (through " + cal.Name() + ")"
						}
					}
				}
			}
		}
		if !has {
			continue
		}
		n++
		c.Check(bad == "", core.SSAName(fn)+"|int-not-through-float64", p.Pos(fn.Pos()),
			fn.Name()+" converts to an integer only from values that were floats to begin with"+ifs(bad != "", "; at "+bad+" the float was made from an integer first"))
	}
	c.Stat("float_to_int_sites", n)
}

// mountPathCleaned (C13-R9): what findMount compares with the mount points is a
// cleaned path on every route — the result of filepath.Clean or filepath.Join —
// so that "//pub/x", "/./pub/x" and "/pub/../priv/x" select the mount their
// meaning names, not the one their spelling starts with.
func mountPathCleaned(c *core.Ctx) {
	p := c.P
	ros := p.Pkg("os")
	vT := core.MustType(ros, "VirtualOS")
	m := core.Method(vT, "findMount")
	if m == nil {
		core.Undecidedf("VirtualOS.findMount not found")
	}
	sf := p.SSAFunc(m)
	cleaned := func(v ssa.Value) (bool, string) {
		why := ""
		var walk func(v ssa.Value, depth int) bool
		walk = func(v ssa.Value, depth int) bool {
			if depth > 6 {
				return false
			}
			for _, o := range core.Origins(v) {
				switch x := o.(type) {
				case *ssa.Call:
					cal := x.Call.StaticCallee()
					if cal != nil && cal.Pkg != nil && cal.Pkg.Pkg != nil && (cal.Pkg.Pkg.Path() == "path/filepath" || cal.Pkg.Pkg.Path() == "path") && (cal.Name() == "Clean" || cal.Name() == "Join") {
						continue
					}
					// a helper of the package that makes the path: every string it returns
					if cal != nil && cal.Blocks != nil && cal.Pkg == sf.Pkg && cal != sf && cal.Signature.Results().Len() == 1 {
						all := true
						for _, cb := range cal.Blocks {
							for _, cin := range cb.Instrs {
								if cr, ok := cin.(*ssa.Return); ok && len(cr.Results) == 1 && !walk(cr.Results[0], depth+1) {
									all = false
								}
							}
						}
						if all {
							continue
						}
						return false
					}
					why = "it can come from " + x.String()
					return false
				case *ssa.BinOp:
					// cleaned + "/"
					if x.Op == token.ADD {
						if _, isC := x.Y.(*ssa.Const); isC && walk(x.X, depth+1) {
							continue
						}
					}
					why = "it can come from " + x.String()
					return false
				case *ssa.Parameter:
					why = "it can be the path exactly as the caller spelled it"
					return false
				default:
					why = "it can come from " + o.String()
					return false
				}
			}
			return true
		}
		return walk(v, 0), why
	}
	n := 0
	for _, b := range sf.Blocks {
		for _, in := range b.Instrs {
			var operand ssa.Value
			switch x := in.(type) {
			case *ssa.Call:
				if cal := x.Call.StaticCallee(); cal != nil && cal.Pkg != nil && cal.Pkg.Pkg != nil && cal.Pkg.Pkg.Path() == "strings" && (cal.Name() == "HasPrefix" || cal.Name() == "TrimPrefix") {
					// a comparison with a mount point, not with a literal (a test for a leading slash)
					if _, isLit := x.Call.Args[1].(*ssa.Const); !isLit {
						operand = x.Call.Args[0]
					}
				}
			case *ssa.BinOp:
				if x.Op == token.EQL && core.IsStringType(x.X.Type()) {
					// key == path
					if _, isC := x.Y.(*ssa.Const); !isC {
						if _, isC2 := x.X.(*ssa.Const); !isC2 {
							operand = x.Y
						}
					}
				}
			}
			if operand == nil {
				continue
			}
			n++
			ok, why := cleaned(operand)
			c.Check(ok, "os.VirtualOS.findMount|compare#"+itoa(n)+"|cleaned-path", p.Pos(in.Pos()),
				"the path compared with the mount points has been through filepath.Clean/Join on every route"+ifs(!ok, ": "+why))
		}
	}
	if n == 0 {
		core.Undecidedf("findMount compares nothing with the mount points")
	}
}

// brokenLexicographicLess: a comparison function never has the shape
// `a.X < b.X || a.Y < b.Y`.  Without the `a.X == b.X &&` guard on the second
// term this is not an ordering at all (both less(a,b) and less(b,a) can hold),
// and a sort driven by it leaves the items in an input-dependent order.
func brokenLexicographicLess(c *core.Ctx) {
	p := c.P
	n := 0
	for _, pk := range p.Pkgs {
		info := pk.TypesInfo
		rel := core.RelPkg(pk.Types)
		funcBodies(pk, func(fn *types.Func, fd *ast.FuncDecl) {
			idx := 0
			ast.Inspect(fd.Body, func(nd ast.Node) bool {
				be, ok := nd.(*ast.BinaryExpr)
				if !ok || be.Op != token.LOR {
					return true
				}
				l, ok1 := ast.Unparen(be.X).(*ast.BinaryExpr)
				r, ok2 := ast.Unparen(be.Y).(*ast.BinaryExpr)
				if !ok1 || !ok2 {
					return true
				}
				strict := func(op token.Token) bool { return op == token.LSS || op == token.GTR }
				if !strict(l.Op) || !strict(r.Op) || l.Op != r.Op {
					return true
				}
				// two different keys of the same two operands: a.X < b.X || a.Y < b.Y
				base := func(e ast.Expr) (string, string) {
					se, ok := ast.Unparen(e).(*ast.SelectorExpr)
					if !ok {
						return "", ""
					}
					return exprStr(se.X), se.Sel.Name
				}
				la, lf := base(l.X)
				lb, lf2 := base(l.Y)
				ra, rf := base(r.X)
				rb, rf2 := base(r.Y)
				if la == "" || lb == "" || la != ra || lb != rb || lf != lf2 || rf != rf2 || lf == rf || la == lb {
					return true
				}
				if !isIntegerType(info.TypeOf(l.X)) && !core.IsStringType(info.TypeOf(l.X)) {
					if b, ok := info.TypeOf(l.X).Underlying().(*types.Basic); !ok || b.Info()&types.IsOrdered == 0 {
						return true
					}
				}
				n++
				idx++
				c.Fail(rel+"."+declName(fd)+"|lexicographic#"+itoa(idx), posOf(p, be),
					"`"+exprStr(be)+"` is not a lexicographic comparison: the second key is compared even when the first keys differ the other way (needs `"+la+"."+lf+" == "+lb+"."+lf+" &&`)")
				return true
			})
		})
	}
	if n == 0 {
		c.Pass("no-broken-lexicographic-comparison", "repo", "no comparison of the form a.X < b.X || a.Y < b.Y in the repository")
	}
}

// ctxArgsDeriveFromParam (C06-R7): in package vm, a function that was given a
// context passes on only contexts derived from it.  A context kept in a field by
// an earlier invocation carries that invocation's cancellation: threads spawned
// under it do not stop when the current call is cancelled.
func ctxArgsDeriveFromParam(c *core.Ctx) {
	p := c.P
	n := 0
	for _, fn := range repoFns(p, "vm") {
		var ctxP *ssa.Parameter
		for _, prm := range fn.Params {
			if core.IsNamed(prm.Type(), "context", "Context") {
				ctxP = prm
			}
		}
		if ctxP == nil {
			continue
		}
		bad := ""
		k := 0
		for _, b := range fn.Blocks {
			for _, in := range b.Instrs {
				ci, ok := in.(ssa.CallInstruction)
				if !ok {
					continue
				}
				for _, a := range ci.Common().Args {
					if !core.IsNamed(a.Type(), "context", "Context") {
						continue
					}
					k++
					for _, o := range core.Origins(a) {
						if o == ssa.Value(ctxP) {
							continue
						}
						if !core.DependsOn(o, func(w ssa.Value) bool { return w == ssa.Value(ctxP) }) {
							bad = p.Pos(in.Pos()) + " (" + o.String() + ")"
						}
					}
				}
			}
		}
		if k == 0 {
			continue
		}
		n++
		c.Check(bad == "", core.SSAName(fn)+"|passes-on-its-own-context", p.Pos(fn.Pos()),
			fn.Name()+" passes on the context it was given, or contexts derived from it"+ifs(bad != "", "; the context passed at "+bad+" is not derived from it"))
	}
	c.Stat("functions_passing_contexts", n)
}
