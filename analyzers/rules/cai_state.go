package rules

// CAI — counting abstract interpreter over the compile* methods of the
// compiler (DESIGN §1.3(A), C04-R2/R3).  This file: abstract values, state,
// role resolution.  Nothing of the compiler is executed; the Go AST of its
// methods is interpreted over the domain "operand-stack height of the emitted
// code as a linear expression".

import (
	"fmt"
	"go/ast"
	"go/types"
	"sort"
	"strings"

	"golang.org/x/tools/go/packages"

	"risorcheck/core"
)

type Lin = core.Lin

var (
	Const = core.Const
	Sym   = core.Sym
)

type cVal interface{}

type vInt struct{ L *Lin }
type vStr struct {
	S     string
	Known bool
	Sym   string
}
type vBool struct {
	Known bool
	B     bool
	Pred  string
	Neg   bool
}
type vNil struct{}
type vUnknown struct{ Why string }
type vNode struct {
	Sym string
	Typ types.Type
}
type vSlice struct {
	Sym  string
	Elem types.Type
	Len  *Lin
}
type vPos struct{ L *cLabel }
type vPosSet struct{ ID int }
type vElemOf struct{ ID int }
type vDelta struct{ To *cLabel }
type vLoop struct{ ID int }
type vErr struct{}
type vTuple struct{ Vs []cVal }
type vCode struct{ Cur bool } // the current code object (c.current) or another

type cLabel struct {
	ID     int
	H      *Lin
	IsJump bool
	Desc   string
	Pos    *cLabel // for jump instructions that are also back-jump targets (ForIter)
	From   *cLabel // for "here" labels made by calculateDelta(pos): the label pos
}

type posSetData struct {
	H     *Lin
	N     int
	Desc  string
	Bound bool
}

type loopRec struct {
	Sets    map[*types.Var]int   // []int fields -> position set ids
	Bools   map[*types.Var]cVal  // bool fields
	Generic bool                 // obtained from currentLoop(): members unknown
	BaseH   *Lin                 // height when the loop record was created (startLoop)
	BodyH   *Lin                 // height of the first slot compiled while the record was open
	Slots   []loopSlot
}

type loopSlot struct {
	Child string
	H     *Lin
}

type cStatus int

const (
	stNormal cStatus = iota
	stRetOK
	stRetErr
	stBrk
	stCont
)

type cState struct {
	H        *Lin
	Env      map[types.Object]cVal
	Facts    map[string]bool
	Sub      core.Subst
	Sets     map[int]*posSetData
	Loops    map[int]*loopRec
	Pending  map[int]*cLabel
	Ctx      []*Lin
	St       cStatus
	Trace    []string
	Problems []string
	SlotRecs []*caiSlot // child slots met on this path (heights resolved when the path ends)
}

func (s *cState) clone() *cState {
	n := &cState{H: s.H.Clone(), St: s.St}
	n.Env = make(map[types.Object]cVal, len(s.Env))
	for k, v := range s.Env {
		n.Env[k] = v
	}
	n.Facts = make(map[string]bool, len(s.Facts))
	for k, v := range s.Facts {
		n.Facts[k] = v
	}
	n.Sub = core.Subst{}
	for k, v := range s.Sub {
		n.Sub[k] = v
	}
	n.Sets = map[int]*posSetData{}
	for k, v := range s.Sets {
		c := *v
		n.Sets[k] = &c
	}
	n.Loops = map[int]*loopRec{}
	for k, v := range s.Loops {
		c := &loopRec{Sets: map[*types.Var]int{}, Bools: map[*types.Var]cVal{}, Generic: v.Generic, BaseH: v.BaseH, BodyH: v.BodyH, Slots: append([]loopSlot(nil), v.Slots...)}
		for f, id := range v.Sets {
			c.Sets[f] = id
		}
		for f, b := range v.Bools {
			c.Bools[f] = b
		}
		n.Loops[k] = c
	}
	n.Pending = map[int]*cLabel{}
	for k, v := range s.Pending {
		n.Pending[k] = v
	}
	n.Ctx = append([]*Lin(nil), s.Ctx...)
	n.Trace = append([]string(nil), s.Trace...)
	n.Problems = append([]string(nil), s.Problems...)
	n.SlotRecs = append([]*caiSlot(nil), s.SlotRecs...)
	return n
}

func (s *cState) learn(pred string, val bool) {
	s.substIndicator(pred, val)
	if val && strings.HasPrefix(pred, "eq:") {
		parts := strings.Split(pred, ":")
		var k int
		fmt.Sscanf(parts[len(parts)-1], "%d", &k)
		sym := strings.Join(parts[1:len(parts)-1], ":")
		s.Sub[sym] = Const(k)
		s.H = s.Sub.Apply(s.H)
	}
	if val && strings.HasPrefix(pred, "empty:") {
		sym := strings.TrimPrefix(pred, "empty:")
		if strings.HasPrefix(sym, "0+") && !strings.ContainsAny(sym[2:], "+-*") {
			s.Sub[sym[2:]] = Const(0)
			s.H = s.Sub.Apply(s.H)
		}
	}
}

func (s *cState) substIndicator(pred string, val bool) {
	if s.H == nil {
		return
	}
	k := "[" + pred + "]"
	if c, ok := s.H.T[k]; ok {
		s.H = s.H.Clone()
		delete(s.H.T, k)
		if val {
			s.H.K += c
		}
	}
}

func (s *cState) problem(format string, args ...interface{}) {
	s.Problems = append(s.Problems, fmt.Sprintf(format, args...))
}

func (s *cState) isGenericLoopSet(id int) bool {
	for _, l := range s.Loops {
		if l.Generic {
			for _, sid := range l.Sets {
				if sid == id {
					return true
				}
			}
		}
	}
	return false
}

func (s *cState) isLoopSet(id int) bool {
	for _, l := range s.Loops {
		for _, sid := range l.Sets {
			if sid == id {
				return true
			}
		}
	}
	return false
}

// ---------------------------------------------------------------- roles

type caiSlot struct {
	Fn     string // compile function
	Site   string // file:line
	Index  int    // ordinal of the call site within Fn
	Offset string // height at the call relative to function entry (linear expr) or DEAD
	OffLin *Lin
	Typ    types.Type
	Child  string
	InLoopBody bool // slot compiled between a loop's start label and its back jump
	LoopKind   string
	CtxDepth   int // number of open emission contexts (function bodies)
}

type caiResult struct {
	Fn       *types.Func
	Decl     *ast.FuncDecl
	NodeT    types.Type   // type of the node parameter (nil for helpers)
	Paths    int
	Nets     map[string]int    // rendered net (+problems) -> number of paths
	Bad      []string          // contract violations / problems, rendered
	Contract string
}

type caiAn struct {
	p    *core.Program
	pk   *packages.Package
	info *types.Info
	astP *packages.Package

	compT, codeT, loopT *types.Named
	emit, changeOperand, calcDelta, curPos, startLoop, currentLoop, dispatch *types.Func
	fCurrent, fInstr, fParent *types.Var
	methods  map[*types.Func]*ast.FuncDecl
	emitting map[*types.Func]bool
	nodeI, exprI *types.Interface
	vm       *vmTable
	opByVal  map[int64]string

	nextID int
	slots  map[string]*caiSlot
	curFn  *types.Func
	depth  int
	domain map[string]string // "T.field" -> "expr" | "any" (constructor-domain facts, for the evidence)
	sites  map[*types.Named][]ctorSite
	breakField, contField, flagField string // loop record fields, by role (from the Control compile function)
	fnOfClause map[*types.Func]*types.Named // compile function -> node type of its dispatch clause
	inferred map[*types.Named]*Lin // inferred contracts of sub-structure node types
	siteCount map[string]int
}

func (a *caiAn) id() int { a.nextID++; return a.nextID }

func (a *caiAn) pos(n ast.Node) string { return a.p.Pos(n.Pos()) }

func newCAI(p *core.Program) *caiAn {
	pk := p.Pkg("compiler")
	a := &caiAn{p: p, pk: pk, info: pk.TypesInfo, astP: p.Pkg("ast"), methods: map[*types.Func]*ast.FuncDecl{}, emitting: map[*types.Func]bool{},
		slots: map[string]*caiSlot{}, opByVal: map[int64]string{}, inferred: map[*types.Named]*Lin{}, siteCount: map[string]int{}}
	a.compT = core.MustType(pk, "Compiler")
	a.codeT = core.MustType(pk, "Code")
	a.nodeI = core.MustType(a.astP, "Node").Underlying().(*types.Interface)
	a.exprI = core.MustType(a.astP, "Expression").Underlying().(*types.Interface)
	a.vm = VMTable(p)
	for n, c := range a.vm.OpConsts {
		v, _ := constInt64(c)
		a.opByVal[v] = n
	}
	for _, m := range core.Methods(a.compT) {
		if fd := p.Decl(m); fd != nil && fd.Body != nil {
			a.methods[m] = fd
		}
	}
	a.emit = emitMethod(p)
	a.dispatch, _ = compileDispatch(p)
	// fields by role
	cst := a.codeT.Underlying().(*types.Struct)
	for i := 0; i < cst.NumFields(); i++ {
		f := cst.Field(i)
		if sl, ok := f.Type().Underlying().(*types.Slice); ok && core.IsNamed(sl.Elem(), pkgPath("op"), "Code") {
			a.fInstr = f
		}
		if core.NamedOf(f.Type()) == a.codeT {
			if _, isPtr := f.Type().(*types.Pointer); isPtr {
				if a.fParent != nil {
					core.Undecidedf("compiler.Code has two *Code fields (%s, %s): cannot resolve the parent link", a.fParent.Name(), f.Name())
				}
				a.fParent = f
			}
		}
	}
	if a.fInstr == nil || a.fParent == nil {
		core.Undecidedf("compiler.Code instruction slice / parent link not found")
	}
	// the emission context field: the *Code field of Compiler read by emit
	if fd := a.methods[a.emit]; fd != nil {
		ast.Inspect(fd.Body, func(n ast.Node) bool {
			if f := fieldOf(a.info, exprOrNil(n)); f != nil && core.NamedOf(f.Type()) == a.codeT && core.RecvNamedOfField(a.compT, f) {
				a.fCurrent = f
			}
			return true
		})
	}
	if a.fCurrent == nil {
		core.Undecidedf("emission context field (Compiler field of type *Code used by emit) not found")
	}
	// loop record type
	for _, n := range pk.Types.Scope().Names() {
		tn, ok := pk.Types.Scope().Lookup(n).(*types.TypeName)
		if !ok {
			continue
		}
		st, ok := tn.Type().Underlying().(*types.Struct)
		if !ok {
			continue
		}
		ints := 0
		for i := 0; i < st.NumFields(); i++ {
			if sl, ok := st.Field(i).Type().Underlying().(*types.Slice); ok {
				if b, ok := sl.Elem().Underlying().(*types.Basic); ok && b.Kind() == types.Int {
					ints++
				}
			}
		}
		if ints >= 2 && tn.Type() != a.codeT.Obj().Type() {
			a.loopT = tn.Type().(*types.Named)
		}
	}
	if a.loopT == nil {
		core.Undecidedf("loop record type (struct with >= 2 []int fields in package compiler) not found")
	}
	for m, fd := range a.methods {
		sig := m.Type().(*types.Signature)
		// changeOperand: writes an element of the instruction slice
		writes := false
		ast.Inspect(fd.Body, func(n ast.Node) bool {
			if as, ok := n.(*ast.AssignStmt); ok {
				for _, l := range as.Lhs {
					if ix, ok := l.(*ast.IndexExpr); ok && fieldOf(a.info, ix.X) == a.fInstr {
						writes = true
					}
				}
			}
			return true
		})
		if writes && sig.Params().Len() == 2 {
			a.changeOperand = m
		}
		if sig.Params().Len() == 1 && sig.Results().Len() == 2 && isIntType(sig.Params().At(0).Type()) && isIntType(sig.Results().At(0).Type()) && isErrorType(sig.Results().At(1).Type()) {
			if a.readsLenInstr(fd) {
				a.calcDelta = m
			}
		}
		if sig.Params().Len() == 0 && sig.Results().Len() == 1 && isIntType(sig.Results().At(0).Type()) && len(fd.Body.List) == 1 && a.readsLenInstr(fd) {
			a.curPos = m
		}
		if sig.Results().Len() == 1 && core.NamedOf(sig.Results().At(0).Type()) == a.loopT {
			hasLit := false
			ast.Inspect(fd.Body, func(n ast.Node) bool {
				if cl, ok := n.(*ast.CompositeLit); ok && core.NamedOf(a.info.TypeOf(cl)) == a.loopT {
					hasLit = true
				}
				return true
			})
			if hasLit {
				a.startLoop = m
			} else {
				a.currentLoop = m
			}
		}
	}
	if a.changeOperand == nil || a.calcDelta == nil || a.curPos == nil || a.startLoop == nil || a.currentLoop == nil {
		core.Undecidedf("compiler primitives not all resolved by role: changeOperand=%v calculateDelta=%v currentPosition=%v startLoop=%v currentLoop=%v",
			a.changeOperand != nil, a.calcDelta != nil, a.curPos != nil, a.startLoop != nil, a.currentLoop != nil)
	}
	// node type of each dispatch clause's compile function
	a.fnOfClause = map[*types.Func]*types.Named{}
	if _, ts := compileDispatch(p); ts != nil {
		for _, cc := range ts.Body.List {
			cl := cc.(*ast.CaseClause)
			if len(cl.List) != 1 {
				continue
			}
			nt := core.NamedOf(a.info.TypeOf(cl.List[0]))
			if nt == nil {
				continue
			}
			for _, st := range cl.Body {
				ast.Inspect(st, func(n ast.Node) bool {
					if ce, ok := n.(*ast.CallExpr); ok {
						if m := a.compilerMethod(ce); m != nil {
							if _, dup := a.fnOfClause[m]; !dup {
								a.fnOfClause[m] = nt
							}
						}
					}
					return true
				})
			}
		}
	}
	// emitting set
	a.emitting[a.emit] = true
	a.emitting[a.changeOperand] = true
	a.emitting[a.dispatch] = true
	for changed := true; changed; {
		changed = false
		for m, fd := range a.methods {
			if a.emitting[m] {
				continue
			}
			ast.Inspect(fd.Body, func(n ast.Node) bool {
				if ce, ok := n.(*ast.CallExpr); ok {
					if cal := a.compilerMethod(ce); cal != nil && a.emitting[cal] {
						a.emitting[m] = true
						changed = true
					}
				}
				return true
			})
		}
	}
	return a
}

func exprOrNil(n ast.Node) ast.Expr {
	if e, ok := n.(ast.Expr); ok {
		return e
	}
	return nil
}

func constInt64(c *types.Const) (int64, bool) {
	return constantInt64(c.Val())
}

func isIntType(t types.Type) bool {
	b, ok := t.Underlying().(*types.Basic)
	return ok && b.Info()&types.IsInteger != 0
}

func isErrorType(t types.Type) bool {
	return types.Identical(t, types.Universe.Lookup("error").Type())
}

func (a *caiAn) readsLenInstr(n ast.Node) bool {
	found := false
	ast.Inspect(n, func(x ast.Node) bool {
		if ce, ok := x.(*ast.CallExpr); ok && isBuiltinCall(a.info, ce, "len") && len(ce.Args) == 1 && fieldOf(a.info, ce.Args[0]) == a.fInstr {
			found = true
		}
		return true
	})
	return found
}

// compilerMethod resolves a call to a method of Compiler that has a body.
func (a *caiAn) compilerMethod(ce *ast.CallExpr) *types.Func {
	cal := calleeOf(a.info, ce)
	if cal == nil {
		return nil
	}
	if _, ok := a.methods[cal]; ok {
		return cal
	}
	return nil
}

// targets: the compile functions called from the dispatch's type switch.
func (a *caiAn) targets() []*types.Func {
	seen := map[*types.Func]bool{}
	var out []*types.Func
	ast.Inspect(a.methods[a.dispatch].Body, func(n ast.Node) bool {
		if ce, ok := n.(*ast.CallExpr); ok {
			if m := a.compilerMethod(ce); m != nil && m != a.dispatch && a.emitting[m] && !seen[m] {
				seen[m] = true
				out = append(out, m)
			}
		}
		return true
	})
	sort.Slice(out, func(i, j int) bool { return out[i].Name() < out[j].Name() })
	return out
}
