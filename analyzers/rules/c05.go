package rules

import (
	"go/ast"
	"go/token"
	"go/types"
	"sort"
	"strings"

	"golang.org/x/tools/go/packages"
	"golang.org/x/tools/go/ssa"

	"risorcheck/core"
)

func init() {
	core.Register(&core.Property{
		ID: "C05",
		Decided: "Nothing observable is produced in Go-map iteration order and the interpreter core draws on no nondeterministic source: (R1) every `range` over a map — and over a slice that a repository function returns in map order — is classified by the effects of its body; " +
			"it must be commutative across iterations (stores keyed by the range key, per-element field stores, integer counters, constant flags, deletes, keyed updates from a small confirmed table), or collect into a slice that is sorted by a total (unstable) sort before any other use " +
			"or that flows only into a consumer that sorts, or exit early only with identical constants / on a key-equality guard; anything else (code emission, output, callbacks, first-error-wins returns, last-writer-wins assignments, stable sorts of map-ordered input) is order-dependent; " +
			"(R2) math/rand, crypto/rand, time.Now/Since/Until, os.Getpid, pointer formatting and select-with-default races are not referenced from the core packages (ast, lexer, parser, compiler, vm, object, builtins, importer, token, op); " +
			"(R3) the compiler sorts the configured global names before inserting them into the symbol table.",
		NotCovered:  "Goroutine scheduling and select fairness (declared nondeterministic), printed host pointers, totality of custom less functions passed to unstable sorts (the sites present today were confirmed by reading), floating-point summation order.",
		Assumptions: []string{"Go map iteration order is unspecified and re-seeded per map", "sort.Strings/Ints/Float64s/slices.Sort are total on their element type; encoding/json sorts map keys"},
		Rules: []*core.Rule{
			{ID: "C05-R1", Title: "map-ordered iteration is commutative, sorted, or constant-exit", Floor: 30, Run: c05r1},
			{ID: "C05-R2", Title: "no nondeterministic source in the interpreter core", Floor: 8, Run: c05r2},
			{ID: "C05-R3", Title: "global names sorted before symbol insertion", Floor: 1, Run: c05r3},
			{ID: "C05-R4", Title: "the front end keeps no package-level state written after initialisation", Floor: 3, Run: c05r4},
			{ID: "C05-R5", Title: "comparison functions are lexicographic where they compare two keys", Floor: 1, Run: lexicographicBoth},
			{ID: "C05-R6", Title: "script values are not rendered with fmt's default formatting", Floor: 1, Run: sprintOfObjects},
			{ID: "C05-R7", Title: "module constructors hand out fresh objects: no state shared between evaluations (shared with C11-R2)", Floor: 10, Run: c11r2},
			{ID: "C05-R8", Title: "collected map keys are sorted at once", Floor: 1, Run: collectedMapKeysAreSorted},
			{ID: "C05-R9", Title: "reflected map walks are order independent", Floor: 0, Run: reflectedMapWalksAreOrderIndependent},
			{ID: "C05-R10", Title: "sort orders are total over floats", Floor: 1, Run: sortOrdersAreTotalOverFloats},
			{ID: "C05-R11", Title: "shared state is enumerated (shared with C09-R18)", Floor: 1, Run: sharedStateIsEnumerated},
			{ID: "C05-R12", Title: "format arguments have a defined text", Floor: 1, Run: formatArgumentsHaveADefinedText},
			{ID: "C05-R13", Title: "the compiler does not write into the syntax tree", Floor: 1, Run: theCompilerDoesNotWriteIntoTheSyntaxTree},
			{ID: "C05-R14", Title: "entries made on the way are withdrawn with their cause", Floor: 1, Run: entriesMadeOnTheWayAreWithdrawnWithTheirCause},
			{ID: "C05-R15", Title: "hash keys carry the payload itself (shared with C15-R3)", Floor: 3, Run: c15r3},
			{ID: "C05-R16", Title: "objects kept in process-wide tables are written only while they are built (shared with C08-R8)", Floor: 5, Run: cachedObjectsImmutable},
			{ID: "C05-R17", Title: "a context that is over already is refused before anything runs (shared with C06-R12)", Floor: 1, Run: finishedContextIsRefused},
			{ID: "C05-R18", Title: "nothing is built from the state of the Go runtime", Floor: 1, Run: noStackDumpsInResults},
		},
	})
}

// ---------------------------------------------------------------- purity (SSA)

type purity struct {
	p                    *core.Program
	memo                 map[*ssa.Function]int // 0 unknown, 1 in progress, 2 pure, 3 impure
	why                  map[*ssa.Function]string
	impls                map[string][]*ssa.Function // method name -> repository implementations
	whyMethod            map[string]string
	recvMemo             map[*ssa.Function]bool
	elemMemo, elemResult map[string]bool
}

func newPurity(p *core.Program) *purity {
	pu := &purity{p: p, memo: map[*ssa.Function]int{}, why: map[*ssa.Function]string{}, impls: map[string][]*ssa.Function{}, whyMethod: map[string]string{}, recvMemo: map[*ssa.Function]bool{}, elemMemo: map[string]bool{}, elemResult: map[string]bool{}}
	for f := range p.AllFunctions() {
		if core.RepoFunc(f) && f.Signature.Recv() != nil && f.Blocks != nil && f.Parent() == nil {
			pu.impls[f.Name()] = append(pu.impls[f.Name()], f)
		}
	}
	return pu
}

var pureStdPkgs = map[string]bool{"strings": true, "strconv": true, "math": true, "unicode": true, "unicode/utf8": true, "bytes": true, "errors": true, "path": true, "path/filepath": false, "reflect": true, "sort": false, "fmt": false, "math/bits": true, "time": false}

// pureFunc: f has no effect observable after it returns other than its result
// (no store outside its own allocations, no map update on foreign maps, no
// channel operation, no goroutine, no call to an impure function).
func (pu *purity) pureFunc(f *ssa.Function) bool {
	if f == nil {
		return false
	}
	switch pu.memo[f] {
	case 2:
		return true
	case 3:
		return false
	case 1:
		return true // recursion: assume pure (coinductive)
	}
	pu.memo[f] = 1
	ok, why := pu.compute(f)
	if ok {
		pu.memo[f] = 2
	} else {
		pu.memo[f] = 3
		pu.why[f] = why
	}
	return ok
}

// recvOnly: f's only effects are stores into memory rooted at its receiver.
func (pu *purity) recvOnly(f *ssa.Function) bool {
	if f == nil || f.Blocks == nil || len(f.Params) == 0 || f.Signature.Recv() == nil {
		return false
	}
	if v, ok := pu.recvMemo[f]; ok {
		return v
	}
	pu.recvMemo[f] = true
	recv := f.Params[0]
	res := true
	for _, b := range f.Blocks {
		for _, instr := range b.Instrs {
			switch x := instr.(type) {
			case *ssa.Store:
				if !localAlloc(x.Addr, 0) && !rootedAt(x.Addr, recv) {
					res = false
					pu.why[f] = "recv-only: store at " + pu.p.Pos(instr.Pos())
				}
			case *ssa.MapUpdate:
				if !localAlloc(x.Map, 0) && !rootedAt(x.Map, recv) {
					res = false
					pu.why[f] = "recv-only: map update at " + pu.p.Pos(instr.Pos())
				}
			case *ssa.Send, *ssa.Go, *ssa.Select:
				res = false
				pu.why[f] = "recv-only: channel op"
			case ssa.CallInstruction:
				cm := x.Common()
				if _, ok := cm.Value.(*ssa.Builtin); ok {
					continue
				}
				if callee := cm.StaticCallee(); callee != nil {
					if pu.pureFunc(callee) {
						continue
					}
					if len(cm.Args) > 0 && (rootedAt(cm.Args[0], recv) || derivedFrom(cm.Args[0], recv, 0)) && pu.recvOnly(callee) {
						continue
					}
					res = false
					pu.why[f] = "recv-only: calls " + core.SSAName(callee) + " at " + pu.p.Pos(instr.Pos())
				} else if cm.IsInvoke() {
					if pu.pureMethodName(cm.Method.Name()) {
						continue
					}
					// a method of a value reachable from the receiver (container element) that only
					// mutates that value
					if derivedFrom(cm.Value, recv, 0) && pu.elementMethodOK(cm.Method.Name()) {
						continue
					}
					res = false
					pu.why[f] = "recv-only: dynamic " + cm.Method.Name() + " at " + pu.p.Pos(instr.Pos())
				} else {
					res = false
					pu.why[f] = "recv-only: call of function value at " + pu.p.Pos(instr.Pos())
				}
			}
		}
	}
	pu.recvMemo[f] = res
	return res
}

// derivedFrom: v is loaded from memory reachable from root (fields, elements, map lookups, range).
func derivedFrom(v ssa.Value, root ssa.Value, depth int) bool {
	if depth > 12 || v == nil {
		return false
	}
	if v == root {
		return true
	}
	switch x := v.(type) {
	case *ssa.FieldAddr:
		return derivedFrom(x.X, root, depth+1)
	case *ssa.Field:
		return derivedFrom(x.X, root, depth+1)
	case *ssa.IndexAddr:
		return derivedFrom(x.X, root, depth+1)
	case *ssa.Index:
		return derivedFrom(x.X, root, depth+1)
	case *ssa.Lookup:
		return derivedFrom(x.X, root, depth+1)
	case *ssa.UnOp:
		if x.Op == token.MUL {
			if al, ok := x.X.(*ssa.Alloc); ok {
				if refs := al.Referrers(); refs != nil {
					for _, r := range *refs {
						if st, ok := r.(*ssa.Store); ok && st.Addr == ssa.Value(al) && derivedFrom(st.Val, root, depth+1) {
							return true
						}
					}
				}
				return false
			}
			return derivedFrom(x.X, root, depth+1)
		}
	case *ssa.Extract:
		return derivedFrom(x.Tuple, root, depth+1)
	case *ssa.Call:
		// result of a method invoked on (something reachable from) the root
		if len(x.Call.Args) > 0 && !x.Call.IsInvoke() && x.Call.StaticCallee() != nil && x.Call.StaticCallee().Signature.Recv() != nil {
			return derivedFrom(x.Call.Args[0], root, depth+1)
		}
		if x.Call.IsInvoke() {
			return derivedFrom(x.Call.Value, root, depth+1)
		}
	case *ssa.Next:
		return derivedFrom(x.Iter, root, depth+1)
	case *ssa.Range:
		return derivedFrom(x.X, root, depth+1)
	case *ssa.Slice:
		return derivedFrom(x.X, root, depth+1)
	case *ssa.TypeAssert:
		return derivedFrom(x.X, root, depth+1)
	case *ssa.ChangeInterface:
		return derivedFrom(x.X, root, depth+1)
	case *ssa.MakeInterface:
		return derivedFrom(x.X, root, depth+1)
	case *ssa.Phi:
		for _, e := range x.Edges {
			if derivedFrom(e, root, depth+1) {
				return true
			}
		}
	}
	return false
}

// elementMethodOK: a dynamic call of method name on a loop element is
// commutative when every implementation is pure or mutates only its receiver.
func (pu *purity) elementMethodOK(name string) bool {
	impls := pu.impls[name]
	if len(impls) == 0 {
		return pu.pureMethodName(name)
	}
	if v, ok := pu.elemMemo[name]; ok {
		return v
	}
	pu.elemMemo[name] = true // coinductive
	defer func() {
		if _, bad := pu.whyMethod[name]; bad && !pu.elemResult[name] {
			pu.elemMemo[name] = false
		}
	}()
	pu.elemResult[name] = pu.elementMethodCheck(name, impls)
	pu.elemMemo[name] = pu.elemResult[name]
	return pu.elemResult[name]
}

func (pu *purity) elementMethodCheck(name string, impls []*ssa.Function) bool {
	for _, f := range impls {
		if !pu.pureFunc(f) && !pu.recvOnly(f) {
			pu.whyMethod[name] = core.SSAName(f) + ": " + pu.why[f]
			return false
		}
	}
	return true
}

func (pu *purity) compute(f *ssa.Function) (bool, string) {
	if f.Blocks == nil || !core.RepoFunc(f) {
		if f.Pkg != nil {
			path := f.Pkg.Pkg.Path()
			if pureStdPkgs[path] {
				return true, ""
			}
			if path == "fmt" && (f.Name() == "Sprintf" || f.Name() == "Sprint" || f.Name() == "Errorf" || f.Name() == "Sprintln") {
				return true, ""
			}
			if path == "sort" && strings.HasPrefix(f.Name(), "Search") {
				return true, ""
			}
			if path == "time" && f.Signature.Recv() != nil {
				return true, ""
			}
			if path == "sync" || path == "sync/atomic" {
				return true, "" // synchronisation is not an ordering effect
			}
			if path == "encoding/json" && (f.Name() == "Marshal" || f.Name() == "Valid" || f.Signature.Recv() != nil && strings.Contains(f.Signature.Recv().Type().String(), "Number")) {
				return true, ""
			}
			if path == "context" || path == "io/fs" && f.Signature.Recv() != nil {
				return true, ""
			}
			if path == "path/filepath" {
				switch f.Name() {
				case "Join", "Clean", "Base", "Dir", "Ext", "IsAbs", "Split", "ToSlash", "FromSlash", "Match", "Rel", "VolumeName", "SplitList":
					return true, ""
				}
			}
		}
		if f.Signature.Recv() != nil && f.Pkg != nil && (f.Pkg.Pkg.Path() == "reflect") {
			switch f.Name() {
			case "Set", "SetMapIndex", "SetInt", "SetString", "SetFloat", "SetBool", "SetUint", "Call", "Send", "Recv", "SetLen":
				return false, "reflect mutator"
			}
			return true, ""
		}
		return false, "external function " + f.String()
	}
	local := func(v ssa.Value) bool { return localAlloc(v, 0) }
	for _, b := range f.Blocks {
		for _, instr := range b.Instrs {
			switch x := instr.(type) {
			case *ssa.Store:
				if !local(x.Addr) {
					return false, "store to non-local memory at " + pu.p.Pos(instr.Pos())
				}
			case *ssa.MapUpdate:
				if !local(x.Map) && globalOf(x.Map) == nil {
					return false, "update of a non-local map at " + pu.p.Pos(instr.Pos())
				}
				// updates of package-level registries (typeConverters, goTypeRegistry, …) are
				// idempotent cache fills keyed by their argument: commutative (C09 checks their locking)
			case *ssa.Send, *ssa.Go, *ssa.Select:
				return false, "channel/goroutine operation"
			case *ssa.Panic:
				// panics abort: not an ordering effect
			case ssa.CallInstruction:
				cm := x.Common()
				if bi, ok := cm.Value.(*ssa.Builtin); ok {
					switch bi.Name() {
					case "delete", "copy", "close":
						if len(cm.Args) > 0 && !local(cm.Args[0]) {
							return false, "builtin " + bi.Name() + " on non-local value"
						}
					case "print", "println":
						return false, "prints"
					case "append":
						// append may write into the backing array of its first argument
						if len(cm.Args) > 0 && !local(cm.Args[0]) {
							// result is a new slice header; writing into spare capacity of a
							// shared array is a mutation only visible through aliasing
						}
					}
					continue
				}
				if callee := cm.StaticCallee(); callee != nil {
					if callee.Pkg != nil && (callee.Pkg.Pkg.Path() == "sort" || callee.Pkg.Pkg.Path() == "slices") && len(cm.Args) > 0 && sliceIsLocal(cm.Args[0]) {
						continue // sorting a slice this function built itself
					}
					if !pu.pureFunc(callee) {
						return false, "calls " + core.SSAName(callee)
					}
					continue
				}
				if cm.IsInvoke() {
					if !pu.pureMethodName(cm.Method.Name()) {
						return false, "dynamic call of " + cm.Method.Name()
					}
					continue
				}
				return false, "call of a function value at " + pu.p.Pos(instr.Pos())
			}
		}
	}
	return true, ""
}

// pureMethodName: an interface method call is pure when every repository
// implementation of a method of that name is pure (host implementations of
// risor interfaces are assumed to follow the same convention).
func (pu *purity) pureMethodName(name string) bool {
	if name == "Error" || name == "String" {
		return true
	}
	if len(pu.impls[name]) == 0 {
		// interface declared outside the repository (image/color.Color, reflect.Type, …):
		// conventional accessors are pure, conventional mutators are not
		for _, pre := range []string{"Write", "Read", "Close", "Set", "Add", "Del", "Remove", "Lock", "Unlock", "Send", "Recv", "Push", "Pop", "Store", "Flush", "Seek", "Next", "Scan", "Exec", "Do", "Run", "Start", "Stop", "Put", "Insert", "Update", "Reset", "Call"} {
			if strings.HasPrefix(name, pre) {
				return false
			}
		}
		return true
	}
	impls := pu.impls[name]
	if len(impls) == 0 {
		return false
	}
	for _, f := range impls {
		if !pu.pureFunc(f) {
			pu.whyMethod[name] = core.SSAName(f) + ": " + pu.why[f]
			return false
		}
	}
	return true
}

// localAlloc: address/value derives from an allocation made in this function.
func localAlloc(v ssa.Value, depth int) bool {
	if depth > 10 {
		return false
	}
	switch x := v.(type) {
	case *ssa.Alloc, *ssa.MakeMap, *ssa.MakeSlice, *ssa.MakeChan, *ssa.MakeClosure, *ssa.MakeInterface:
		return true
	case *ssa.FieldAddr:
		return localAlloc(x.X, depth+1)
	case *ssa.IndexAddr:
		return localAlloc(x.X, depth+1)
	case *ssa.Slice:
		return localAlloc(x.X, depth+1)
	case *ssa.Phi:
		for _, e := range x.Edges {
			if !localAlloc(e, depth+1) {
				return false
			}
		}
		return true
	case *ssa.UnOp:
		if x.Op == token.MUL {
			// load from a local variable holding a locally allocated object
			if al, ok := x.X.(*ssa.Alloc); ok {
				refs := al.Referrers()
				if refs == nil {
					return false
				}
				okAll, n := true, 0
				for _, r := range *refs {
					if st, ok := r.(*ssa.Store); ok && st.Addr == ssa.Value(al) {
						n++
						if !localAlloc(st.Val, depth+1) {
							okAll = false
						}
					}
				}
				return okAll && n > 0
			}
		}
	case *ssa.Call:
		if bi, ok := x.Call.Value.(*ssa.Builtin); ok && bi.Name() == "append" {
			return localAlloc(x.Call.Args[0], depth+1)
		}
	case *ssa.Const:
		return true
	}
	return false
}

// ---------------------------------------------------------------- classification

type loopVerdict struct {
	ok      bool
	class   string
	reasons []string
}

type c05 struct {
	c       *core.Ctx
	p       *core.Program
	pu      *purity
	sources map[*types.Func]string // functions returning map-ordered slices
}

// keyedUpdates: calls that update a per-key slot of a loop-invariant receiver
// (commutative for distinct keys). Confirmed by reading; resolved by type.
func keyedUpdate(fn *types.Func) (bool, string) {
	switch {
	case core.IsMethod(fn, pkgPath("object"), "Module", "Override"):
		return true, "Module.Override replaces one named attribute"
	case core.IsPkgFunc(fn, mod, "removeModuleAttr"):
		return true, "removeModuleAttr deletes one named attribute"
	case core.IsMethod(fn, "reflect", "Value", "SetMapIndex"):
		return true, "reflect SetMapIndex writes one key"
	case core.IsMethod(fn, "reflect", "Value", "Set"):
		return true, "reflect Set on the field selected by the key"
	case core.IsMethod(fn, "net/url", "Values", "Add"), core.IsMethod(fn, "net/url", "Values", "Set"):
		return true, "url.Values keyed by parameter name (Encode sorts by key)"
		// (net/http.Header is NOT keyed by the name it is given: names are
		// canonicalised, so "x-a" and "X-A" are one slot, and Add appends)
	}
	return false, ""
}

func (k *c05) classify(pk *packages.Package, fd *ast.FuncDecl, body *ast.BlockStmt, keyObj, valObj types.Object, rangeEnd token.Pos, what string) loopVerdict {
	info := pk.TypesInfo
	v := loopVerdict{ok: true, class: "F1"}
	bad := func(r string) { v.ok = false; v.reasons = append(v.reasons, r) }
	note := func(r string) { v.reasons = append(v.reasons, r) }
	// objects declared inside the body are iteration-local
	localObjs := map[types.Object]bool{}
	ast.Inspect(body, func(n ast.Node) bool {
		if id, ok := n.(*ast.Ident); ok {
			if o := info.Defs[id]; o != nil {
				localObjs[o] = true
			}
		}
		return true
	})
	ast.Inspect(body, func(n ast.Node) bool {
		if cc, ok := n.(*ast.CaseClause); ok {
			if o := info.Implicits[cc]; o != nil {
				localObjs[o] = true // variable bound by a type switch clause
			}
		}
		return true
	})
	if keyObj != nil {
		localObjs[keyObj] = true
	}
	if valObj != nil {
		localObjs[valObj] = true
	}
	mentions := func(e ast.Expr, o types.Object) bool {
		if o == nil {
			return false
		}
		found := false
		ast.Inspect(e, func(n ast.Node) bool {
			if id, ok := n.(*ast.Ident); ok && info.Uses[id] == o {
				found = true
			}
			return true
		})
		return found
	}
	// derivedFromKey: expression depends on the key (possibly through iteration-local
	// variables defined from the key) and not on the value
	var keyDerived func(e ast.Expr, depth int) bool
	assigns := localAssignments(info, body)
	keyDerived = func(e ast.Expr, depth int) bool {
		if depth > 4 {
			return false
		}
		if mentions(e, valObj) {
			return false
		}
		if mentions(e, keyObj) {
			return true
		}
		ok := false
		ast.Inspect(e, func(n ast.Node) bool {
			if id, isId := n.(*ast.Ident); isId {
				if o := info.Uses[id]; o != nil && localObjs[o] && o != keyObj && o != valObj {
					for _, r := range assigns[o] {
						if keyDerived(r, depth+1) {
							ok = true
						}
					}
				}
			}
			return true
		})
		return ok
	}
	// keyInjective: e is the range key, or made from it in a way that gives
	// different keys different values (a conversion, a constant prefix or
	// suffix, a composite with the key in it).  Two iterations then write
	// different entries.  A function of the key (filepath.Clean(k),
	// strings.ToLower(k)) may send two keys to one entry, and which of them
	// stays is decided by the order of the iteration.
	var keyInjective func(e ast.Expr, depth int) bool
	keyInjective = func(e ast.Expr, depth int) bool {
		if depth > 4 {
			return false
		}
		switch x := ast.Unparen(e).(type) {
		case *ast.Ident:
			o := info.Uses[x]
			if o == nil {
				return false
			}
			if o == keyObj {
				return true
			}
			if localObjs[o] && o != valObj && len(assigns[o]) > 0 {
				for _, r := range assigns[o] {
					if !keyInjective(r, depth+1) {
						return false
					}
				}
				return true
			}
			return false
		case *ast.CallExpr:
			if tv, ok := info.Types[x.Fun]; ok && tv.IsType() && len(x.Args) == 1 {
				return keyInjective(x.Args[0], depth+1)
			}
			return false
		case *ast.BinaryExpr:
			if x.Op != token.ADD {
				return false
			}
			if tv, ok := info.Types[x.X]; ok && tv.Value != nil {
				return keyInjective(x.Y, depth+1)
			}
			if tv, ok := info.Types[x.Y]; ok && tv.Value != nil {
				return keyInjective(x.X, depth+1)
			}
			return false
		case *ast.CompositeLit:
			for _, el := range x.Elts {
				if kv, ok := el.(*ast.KeyValueExpr); ok {
					el = kv.Value
				}
				if keyInjective(el, depth+1) {
					return true
				}
			}
			return false
		}
		return false
	}
	rootLocal := func(e ast.Expr) bool { // lvalue rooted at an iteration-local object (element field stores)
		for {
			switch x := ast.Unparen(e).(type) {
			case *ast.Ident:
				return localObjs[info.Uses[x]] || localObjs[info.Defs[x]]
			case *ast.SelectorExpr:
				e = x.X
			case *ast.IndexExpr:
				e = x.X
			case *ast.StarExpr:
				e = x.X
			default:
				return false
			}
		}
	}
	appended := map[types.Object]bool{}
	flagConst := map[types.Object]string{}
	var returns [][]ast.Expr
	guardedExit := 0
	var walkStmts func(stmts []ast.Stmt, guardKeyEq bool)
	checkCalls := func(e ast.Node) {
		if e == nil {
			return
		}
		ast.Inspect(e, func(n ast.Node) bool {
			switch x := n.(type) {
			case *ast.FuncLit:
				return false
			case *ast.CallExpr:
				if tv, ok := info.Types[x.Fun]; ok && tv.IsType() {
					return true
				}
				if id, ok := ast.Unparen(x.Fun).(*ast.Ident); ok {
					if _, isB := info.Uses[id].(*types.Builtin); isB {
						switch id.Name {
						case "print", "println":
							bad("prints inside the loop")
						case "delete":
							if len(x.Args) == 2 && !keyDerived(x.Args[1], 0) && !rootLocal(x.Args[0]) {
								bad("delete with a key not derived from the range key")
							}
						}
						return true
					}
				}
				cal := calleeOf(info, x)
				if cal != nil {
					if ok, _ := keyedUpdate(cal); ok {
						note("keyed update " + cal.Name())
						return true
					}
					sf := k.p.SSAFunc(cal)
					if sf != nil {
						if k.pu.pureFunc(sf) {
							return true
						}
						bad("call with effects: " + core.FuncName(cal) + " (" + k.pu.why[sf] + ")")
						return true
					}
					// interface method or generic
					if core.RecvNamed(cal) != nil || cal.Type().(*types.Signature).Recv() != nil {
						if k.pu.pureMethodName(cal.Name()) {
							return true
						}
						if se, ok := ast.Unparen(x.Fun).(*ast.SelectorExpr); ok && rootLocal(se.X) && (k.pu.elementMethodOK(cal.Name()) || objectAccessor[cal.Name()]) {
							return true // per-element effect on the element itself
						}
						bad("call with effects: dynamic " + cal.Name() + " (" + k.pu.whyMethod[cal.Name()] + ")")
						return true
					}
					bad("call of " + cal.Name() + " with unknown effects")
					return true
				}
				bad("call of a function value: " + exprStr(x.Fun))
			}
			return true
		})
	}
	isConstLike := func(e ast.Expr) bool {
		e = ast.Unparen(e)
		if tv, ok := info.Types[e]; ok && (tv.Value != nil || tv.IsNil()) {
			return true
		}
		if o := objOf(info, e); o != nil {
			if vr, ok := o.(*types.Var); ok && vr.Pkg() != nil && vr.Parent() == vr.Pkg().Scope() {
				return true // package-level singleton (object.True, object.Nil)
			}
		}
		return false
	}
	walkStmts = func(stmts []ast.Stmt, guardKeyEq bool) {
		for _, s := range stmts {
			switch s := s.(type) {
			case *ast.AssignStmt:
				for _, r := range s.Rhs {
					checkCalls(r)
				}
				for i, l := range s.Lhs {
					l = ast.Unparen(l)
					switch lx := l.(type) {
					case *ast.Ident:
						if lx.Name == "_" {
							continue
						}
						o := objOfIdent(info, lx)
						if s.Tok == token.DEFINE && info.Defs[lx] != nil {
							continue
						}
						if localObjs[o] {
							continue
						}
						// outer variable
						if i < len(s.Rhs) && len(s.Lhs) == len(s.Rhs) {
							if ce, ok := ast.Unparen(s.Rhs[i]).(*ast.CallExpr); ok && isBuiltinCall(info, ce, "append") && len(ce.Args) > 0 {
								if aid, ok := ast.Unparen(ce.Args[0]).(*ast.Ident); ok && objOfIdent(info, aid) == o {
									appended[o] = true
									continue
								}
							}
						}
						switch s.Tok {
						case token.ADD_ASSIGN, token.SUB_ASSIGN, token.OR_ASSIGN, token.AND_ASSIGN, token.XOR_ASSIGN:
							if isIntType(o.Type()) || isBoolish(o.Type()) {
								continue
							}
							bad("accumulates into " + o.Name() + " (" + o.Type().String() + "): not commutative")
						case token.ASSIGN:
							if len(s.Lhs) == len(s.Rhs) && isConstLike(s.Rhs[i]) {
								c := exprStr(s.Rhs[i])
								if old, ok := flagConst[o]; ok && old != c {
									bad("assigns different constants to " + o.Name())
								}
								flagConst[o] = c
								continue
							}
							if guardKeyEq {
								continue // at most one iteration assigns
							}
							bad("last-writer-wins assignment to " + o.Name())
						default:
							bad("assignment " + s.Tok.String() + " to outer variable " + o.Name())
						}
					case *ast.IndexExpr:
						t := info.TypeOf(lx.X)
						if rootLocal(lx.X) {
							continue
						}
						if t != nil {
							if _, isMap := t.Underlying().(*types.Map); isMap {
								if keyInjective(lx.Index, 0) || guardKeyEq {
									continue
								}
								if keyDerived(lx.Index, 0) {
									bad("map store " + exprStr(lx) + " whose key is a function of the range key that may give two keys the same entry (which of them stays is decided by the order of the iteration)")
									continue
								}
								bad("map store " + exprStr(lx) + " whose key is not derived from the range key alone (collisions are last-writer-wins)")
								continue
							}
						}
						if keyDerived(lx.Index, 0) {
							continue
						}
						bad("indexed store " + exprStr(lx) + " at a position not derived from the range key")
					case *ast.SelectorExpr:
						if rootLocal(lx) {
							continue
						}
						if len(s.Lhs) == len(s.Rhs) && isConstLike(s.Rhs[i]) {
							continue
						}
						if len(s.Lhs) == len(s.Rhs) {
							if ce, ok := ast.Unparen(s.Rhs[i]).(*ast.CallExpr); ok && isBuiltinCall(info, ce, "append") && len(ce.Args) > 0 && sameFieldExpr(info, ce.Args[0], lx) {
								if k.fieldSortedAfter(pk, fd, lx, rangeEnd) {
									note("append to " + exprStr(lx) + " then sorted before any other use")
									if v.class == "F1" {
										v.class = "F2"
									}
									continue
								}
								bad("append to " + exprStr(lx) + " in map order without a following total sort")
								continue
							}
						}
						if guardKeyEq {
							continue
						}
						bad("last-writer-wins store to " + exprStr(lx))
					case *ast.StarExpr:
						if rootLocal(lx) {
							continue
						}
						bad("store through pointer " + exprStr(lx))
					}
				}
			case *ast.IncDecStmt:
				if o := objOf(info, s.X); o != nil && !isIntType(o.Type()) {
					bad("non-integer counter")
				}
			case *ast.ExprStmt:
				checkCalls(s.X)
			case *ast.DeclStmt:
				checkCalls(s)
			case *ast.IfStmt:
				if s.Init != nil {
					walkStmts([]ast.Stmt{s.Init}, guardKeyEq)
				}
				checkCalls(s.Cond)
				g := guardKeyEq || k.isKeyEqGuard(info, s.Cond, keyObj, localObjs)
				walkStmts(s.Body.List, g)
				if s.Else != nil {
					walkStmts([]ast.Stmt{s.Else}, guardKeyEq)
				}
			case *ast.BlockStmt:
				walkStmts(s.List, guardKeyEq)
			case *ast.SwitchStmt:
				if s.Init != nil {
					walkStmts([]ast.Stmt{s.Init}, guardKeyEq)
				}
				checkCalls(s.Tag)
				for _, cc := range s.Body.List {
					cl := cc.(*ast.CaseClause)
					for _, e := range cl.List {
						checkCalls(e)
					}
					walkStmts(cl.Body, guardKeyEq)
				}
			case *ast.TypeSwitchStmt:
				for _, cc := range s.Body.List {
					walkStmts(cc.(*ast.CaseClause).Body, guardKeyEq)
				}
			case *ast.RangeStmt:
				checkCalls(s.X)
				walkStmts(s.Body.List, guardKeyEq)
			case *ast.ForStmt:
				if s.Init != nil {
					walkStmts([]ast.Stmt{s.Init}, guardKeyEq)
				}
				checkCalls(s.Cond)
				if s.Post != nil {
					walkStmts([]ast.Stmt{s.Post}, guardKeyEq)
				}
				walkStmts(s.Body.List, guardKeyEq)
			case *ast.ReturnStmt:
				for _, r := range s.Results {
					checkCalls(r)
				}
				if guardKeyEq {
					guardedExit++
					continue
				}
				returns = append(returns, s.Results)
			case *ast.BranchStmt:
				if s.Tok == token.BREAK && !guardKeyEq {
					// break out of the map loop (not out of a nested switch/for): conservative
					bad("break: which elements were processed depends on the order")
				}
			case *ast.DeferStmt, *ast.GoStmt:
				bad("defer/go inside the loop")
			case *ast.SendStmt:
				bad("channel send inside the loop")
			case *ast.EmptyStmt, *ast.LabeledStmt:
			default:
				bad(sprintf("unclassified statement %T", s))
			}
		}
	}
	walkStmts(body.List, false)
	// early returns: all must return identical constant tuples
	if len(returns) > 0 {
		sig := ""
		for _, rs := range returns {
			allConst := true
			var parts []string
			for _, r := range rs {
				if !isConstLike(r) {
					allConst = false
				}
				parts = append(parts, exprStr(r))
			}
			if !allConst {
				t := "element-dependent early return (" + strings.Join(parts, ", ") + ")"
				for _, r := range rs {
					if tt := info.TypeOf(r); tt != nil && (isErrorType(tt) || core.IsNamed(tt, pkgPath("object"), "Error")) && !isNilIdent(info, r) {
						t = "first-error-wins return (" + strings.Join(parts, ", ") + "): which element's error is reported depends on the order"
					}
				}
				bad(t)
				continue
			}
			s := strings.Join(parts, ",")
			if sig == "" {
				sig = s
			} else if sig != s {
				bad("early returns with different constants")
			}
		}
		if v.ok {
			v.class = "F3"
		}
	}
	if guardedExit > 0 && v.ok {
		v.class = "F4"
	}
	// appended slices: sorted before any other use, or flow to a sorting consumer
	for o := range appended {
		st, why := k.sortedAfter(pk, fd, o, rangeEnd)
		switch st {
		case "sorted":
			if v.class == "F1" {
				v.class = "F2"
			}
			note("append to " + o.Name() + " then " + why)
		case "sink":
			if v.class == "F1" {
				v.class = "F2"
			}
			note("append to " + o.Name() + ": " + why)
		case "returned":
			// the enclosing function returns a map-ordered slice: its callers are judged
			if fn, ok := info.Defs[fd.Name].(*types.Func); ok {
				k.sources[fn] = what
			}
			v.class = "SRC"
			note("append to " + o.Name() + " which is returned unsorted: callers are classified instead")
		default:
			bad("append to " + o.Name() + " " + why)
		}
	}
	return v
}

func isBoolish(t types.Type) bool {
	b, ok := t.Underlying().(*types.Basic)
	return ok && b.Info()&types.IsBoolean != 0
}

// isKeyEqGuard: cond is `key == X` (or X == key) with X loop-invariant.
func (k *c05) isKeyEqGuard(info *types.Info, cond ast.Expr, keyObj types.Object, locals map[types.Object]bool) bool {
	be, ok := ast.Unparen(cond).(*ast.BinaryExpr)
	if !ok || be.Op != token.EQL || keyObj == nil {
		return false
	}
	inv := func(e ast.Expr) bool {
		okv := true
		ast.Inspect(e, func(n ast.Node) bool {
			if id, isId := n.(*ast.Ident); isId {
				if o := info.Uses[id]; o != nil && locals[o] {
					okv = false
				}
			}
			return true
		})
		return okv
	}
	isKey := func(e ast.Expr) bool {
		id, ok := ast.Unparen(e).(*ast.Ident)
		return ok && info.Uses[id] == keyObj
	}
	return (isKey(be.X) && inv(be.Y)) || (isKey(be.Y) && inv(be.X))
}

var totalSorts = map[string]bool{"sort.Strings": true, "sort.Ints": true, "sort.Float64s": true, "slices.Sort": true, "sort.Slice": true, "sort.Sort": true, "slices.SortFunc": true}
var stableSorts = map[string]bool{"sort.SliceStable": true, "sort.Stable": true, "slices.SortStableFunc": true}

// sortedAfter: after the loop (position end) the slice variable o is first used as the argument of a
// total sort; or is only handed to sorting consumers; or is returned.
func (k *c05) sortedAfter(pk *packages.Package, fd *ast.FuncDecl, o types.Object, end token.Pos) (string, string) {
	info := pk.TypesInfo
	type use struct {
		pos  token.Pos
		kind string
		why  string
	}
	var uses []use
	walkStack(fd.Body, func(n ast.Node, stack []ast.Node) bool {
		id, ok := n.(*ast.Ident)
		if !ok || info.Uses[id] != o || id.Pos() < end {
			return true
		}
		// classify by parent
		if len(stack) == 0 {
			return true
		}
		parent := stack[len(stack)-1]
		switch px := parent.(type) {
		case *ast.CallExpr:
			if isBuiltinCall(info, px, "len") || isBuiltinCall(info, px, "cap") {
				return true
			}
			cal := calleeOf(info, px)
			name := ""
			if cal != nil && cal.Pkg() != nil {
				name = cal.Pkg().Name() + "." + cal.Name()
			}
			if totalSorts[name] && len(px.Args) > 0 && ast.Unparen(px.Args[0]) == ast.Expr(id) && comparatorIsTotal(info, px, name) {
				uses = append(uses, use{id.Pos(), "sort", name})
				return true
			}
			if totalSorts[name] && len(px.Args) > 0 && ast.Unparen(px.Args[0]) == ast.Expr(id) {
				uses = append(uses, use{id.Pos(), "other", "sorted with " + name + " by a key under which different elements can tie (they keep the order they came in)"})
				return true
			}
			if stableSorts[name] {
				uses = append(uses, use{id.Pos(), "stable", name})
				return true
			}
			if cal != nil {
				for i, a := range px.Args {
					if ast.Unparen(a) == ast.Expr(id) {
						if okSink, why := k.sortingSink(cal, i, 0); okSink {
							uses = append(uses, use{id.Pos(), "sink", why})
							return true
						}
					}
				}
			}
			uses = append(uses, use{id.Pos(), "other", "passed to " + exprStr(px.Fun)})
		case *ast.ReturnStmt:
			uses = append(uses, use{id.Pos(), "return", ""})
		case *ast.KeyValueExpr:
			// composite literal field
			if fld, ok := info.Uses[identOf(px.Key)].(*types.Var); ok && fld.IsField() {
				if okSink, why := k.fieldSink(fld, 0); okSink {
					uses = append(uses, use{id.Pos(), "sink", why})
					return true
				}
			}
			uses = append(uses, use{id.Pos(), "other", "stored in a composite literal"})
		default:
			uses = append(uses, use{id.Pos(), "other", sprintf("used in %T", parent)})
		}
		return true
	})
	sort.Slice(uses, func(i, j int) bool { return uses[i].pos < uses[j].pos })
	if len(uses) == 0 {
		return "sorted", "is not used afterwards"
	}
	switch uses[0].kind {
	case "sort":
		return "sorted", uses[0].why + " before any other use"
	case "stable":
		return "bad", "is sorted with the stable " + uses[0].why + ", which preserves the map-order of elements that compare equal"
	case "return":
		return "returned", ""
	}
	allSink := true
	var whys []string
	for _, u := range uses {
		if u.kind != "sink" {
			allSink = false
			whys = append(whys, u.why)
		}
	}
	if allSink {
		return "sink", "flows only to " + uses[0].why
	}
	return "bad", "escapes unsorted (" + strings.Join(whys, "; ") + ")"
}

func identOf(e ast.Expr) *ast.Ident {
	id, _ := ast.Unparen(e).(*ast.Ident)
	return id
}

// sortingSink: parameter i of fn only flows into consumers that sort it.
func (k *c05) sortingSink(fn *types.Func, i int, depth int) (bool, string) {
	if depth > 7 || fn == nil {
		return false, ""
	}
	// terminal: compiler option that copies names into the field that New sorts
	if fn.Pkg() != nil && fn.Pkg().Path() == pkgPath("compiler") && k.compilerSortsNames(fn) {
		return true, core.FuncName(fn) + " (the compiler sorts the names before use)"
	}
	fd := k.p.Decl(fn)
	pk := k.p.DeclPkg(fn)
	if fd == nil || pk == nil {
		return false, ""
	}
	sig := fn.Type().(*types.Signature)
	if i >= sig.Params().Len() {
		return false, ""
	}
	return k.varSink(pk, fd.Body, sig.Params().At(i), depth)
}

// varSink: every use of variable v inside body is a sorting sink.
func (k *c05) varSink(pk *packages.Package, body ast.Node, v *types.Var, depth int) (bool, string) {
	info := pk.TypesInfo
	ok := true
	why := ""
	n := 0
	walkStack(body, func(nd ast.Node, stack []ast.Node) bool {
		id, isId := nd.(*ast.Ident)
		if !isId || info.Uses[id] != v || len(stack) == 0 {
			return true
		}
		n++
		switch px := stack[len(stack)-1].(type) {
		case *ast.CallExpr:
			if isBuiltinCall(info, px, "len") {
				return true
			}
			cal := calleeOf(info, px)
			for i, a := range px.Args {
				if ast.Unparen(a) == ast.Expr(id) {
					if s, w := k.sortingSink(cal, i, depth+1); s {
						why = w
						return true
					}
				}
			}
			ok = false
		case *ast.KeyValueExpr:
			if fld, isF := info.Uses[identOf(px.Key)].(*types.Var); isF && fld.IsField() {
				if s, w := k.fieldSink(fld, depth+1); s {
					why = w
					return true
				}
			}
			ok = false
		default:
			ok = false
		}
		return true
	})
	return ok && n > 0, why
}

// fieldSink: every read of struct field f in the repository is a sorting sink.
func (k *c05) fieldSink(f *types.Var, depth int) (bool, string) {
	if depth > 7 {
		return false, ""
	}
	ok := true
	why := ""
	n := 0
	for _, pk := range k.p.Pkgs {
		info := pk.TypesInfo
		for _, file := range pk.Syntax {
			walkStack(file, func(nd ast.Node, stack []ast.Node) bool {
				se, isSel := nd.(*ast.SelectorExpr)
				if !isSel || fieldOf(info, se) != f || len(stack) == 0 {
					return true
				}
				parent := stack[len(stack)-1]
				// writes to the field are fine
				if as, isAs := parent.(*ast.AssignStmt); isAs {
					for _, l := range as.Lhs {
						if ast.Unparen(l) == ast.Expr(se) {
							return true
						}
					}
					// read on the RHS assigned to another field
					for i, r := range as.Rhs {
						if ast.Unparen(r) == ast.Expr(se) && i < len(as.Lhs) {
							if f2 := fieldOf(info, as.Lhs[i]); f2 != nil {
								n++
								if s, w := k.fieldSink(f2, depth+1); s {
									why = w
									return true
								}
							}
						}
					}
					ok = false
					return true
				}
				n++
				switch px := parent.(type) {
				case *ast.CallExpr:
					if isBuiltinCall(info, px, "len") {
						return true
					}
					cal := calleeOf(info, px)
					for i, a := range px.Args {
						if ast.Unparen(a) == ast.Expr(se) {
							if s, w := k.sortingSink(cal, i, depth+1); s {
								why = w
								return true
							}
						}
					}
					ok = false
				case *ast.KeyValueExpr:
					if f2, isF := info.Uses[identOf(px.Key)].(*types.Var); isF && f2.IsField() {
						if s, w := k.fieldSink(f2, depth+1); s {
							why = w
							return true
						}
					}
					ok = false
				default:
					ok = false
				}
				return true
			})
		}
	}
	return ok && n > 0, why
}

// compilerSortsNames: fn is a compiler option taking []string whose closure
// copies the names into a Compiler field F, and package compiler applies
// sort.Strings to F.
func (k *c05) compilerSortsNames(fn *types.Func) bool {
	fd := k.p.Decl(fn)
	cp := k.p.Pkg("compiler")
	if fd == nil {
		return false
	}
	info := cp.TypesInfo
	var fields []*types.Var
	ast.Inspect(fd.Body, func(n ast.Node) bool {
		switch x := n.(type) {
		case *ast.AssignStmt:
			for _, l := range x.Lhs {
				if f := fieldOf(info, l); f != nil {
					fields = append(fields, f)
				}
			}
		}
		return true
	})
	for _, f := range fields {
		sorted := false
		funcBodies(cp, func(_ *types.Func, d *ast.FuncDecl) {
			ast.Inspect(d.Body, func(n ast.Node) bool {
				if ce, ok := n.(*ast.CallExpr); ok && core.IsPkgFunc(calleeOf(info, ce), "sort", "Strings") && len(ce.Args) == 1 && fieldOf(info, ce.Args[0]) == f {
					sorted = true
				}
				return true
			})
		})
		if sorted {
			return true
		}
	}
	return false
}

// c05OnlyPkg restricts c05r1's reports to one package (set by c05r1Scoped).
var c05OnlyPkg string

// c05r1Scoped runs the map-order classifier and reports only the loops of one package.
func c05r1Scoped(c *core.Ctx, rel string) {
	c05OnlyPkg = rel
	defer func() { c05OnlyPkg = "" }()
	c05r1(c)
}

func c05r1(c *core.Ctx) {
	p := c.P
	k := &c05{c: c, p: p, pu: newPurity(p), sources: map[*types.Func]string{}}
	nloops := 0
	classes := map[string]int{}
	type pending struct {
		pk *packages.Package
		fd *ast.FuncDecl
	}
	report := func(pk *packages.Package, fd *ast.FuncDecl, rs *ast.RangeStmt, what string, idx int) {
		info := pk.TypesInfo
		var keyObj, valObj types.Object
		if id, ok := rs.Key.(*ast.Ident); ok && id.Name != "_" {
			keyObj = objOfIdent(info, id)
		}
		if id, ok := rs.Value.(*ast.Ident); ok && id.Name != "_" {
			valObj = objOfIdent(info, id)
		}
		// for a slice in map order the *value* plays the role of the key only if elements are distinct keys
		v := k.classify(pk, fd, rs.Body, keyObj, valObj, rs.End(), what)
		nloops++
		classes[v.class]++
		key := qual(pk, fd) + "|range:" + what
		if idx > 1 {
			key += "#" + itoa(idx)
		}
		msg := "iteration in map order over " + what + " is " + ifs(v.ok, "order-independent ("+v.class+")") + ifs(!v.ok, "ORDER-DEPENDENT")
		if len(v.reasons) > 0 {
			msg += ": " + strings.Join(dedup(v.reasons), "; ")
		}
		if c05OnlyPkg != "" && core.RelPkg(pk.Types) != c05OnlyPkg {
			return
		}
		if why, ok := c05Exceptions[key]; ok && !v.ok {
			if strings.Contains(why, "re-keying") && strings.Contains(strings.Join(v.reasons, ";"), "append") {
				c.Fail(key, posOf(p, rs), "the loop is excepted because it only re-keys one map into another, but it now appends to a slice in map order: "+strings.Join(dedup(v.reasons), "; "))
				return
			}
			if strings.Contains(why, "arg-max") && !strictArgMax(info, rs) {
				c.Fail(key, posOf(p, rs), "the loop is excepted as a strict arg-max selection, but no assignment of the selected candidate is guarded by a comparison between the candidate's measure and the measure of the candidate selected so far: the last matching entry in map order wins")
				return
			}
			c.Pass(key, posOf(p, rs), "reasoned exception: "+why+" [classifier said: "+strings.Join(dedup(v.reasons), "; ")+"]")
			return
		}
		c.Check(v.ok, key, posOf(p, rs), msg)
	}
	// pass 1: ranges over maps
	for _, pk := range p.Pkgs {
		funcBodies(pk, func(fn *types.Func, fd *ast.FuncDecl) {
			seen := map[string]int{}
			ast.Inspect(fd.Body, func(n ast.Node) bool {
				rs, ok := n.(*ast.RangeStmt)
				if !ok {
					return true
				}
				t := pk.TypesInfo.TypeOf(rs.X)
				if t == nil {
					return true
				}
				if _, isMap := t.Underlying().(*types.Map); !isMap {
					return true
				}
				what := exprStr(rs.X)
				seen[what]++
				report(pk, fd, rs, what, seen[what])
				return true
			})
		})
	}
	// reflect.Value.MapKeys returns the keys "in unspecified order": a map-ordered slice like any other
	for _, imp := range p.Pkg("object").Types.Imports() {
		if imp.Path() == "reflect" {
			if tn, ok := imp.Scope().Lookup("Value").(*types.TypeName); ok {
				if nt, ok := tn.Type().(*types.Named); ok {
					if m := core.Method(nt, "MapKeys"); m != nil {
						k.sources[m] = "reflect.Value.MapKeys"
					}
				}
			}
		}
	}
	// pass 2: call sites of functions that return map-ordered slices (to a fixpoint)
	done := map[string]bool{}
	for round := 0; round < 4; round++ {
		var srcs []*types.Func
		for f := range k.sources {
			srcs = append(srcs, f)
		}
		sort.Slice(srcs, func(i, j int) bool { return core.FuncName(srcs[i]) < core.FuncName(srcs[j]) })
		for _, src := range srcs {
			for _, pk := range p.Pkgs {
				info := pk.TypesInfo
				funcBodies(pk, func(fn *types.Func, fd *ast.FuncDecl) {
					if c05OnlyPkg != "" && core.RelPkg(pk.Types) != c05OnlyPkg {
						return
					}
					idx := 0
					walkStack(fd.Body, func(n ast.Node, stack []ast.Node) bool {
						ce, ok := n.(*ast.CallExpr)
						if !ok || !callsMapOrderedSource(calleeOf(info, ce), src) {
							return true
						}
						idx++
						key := qual(pk, fd) + "|uses:" + core.FuncName(src) + ifs(idx > 1, "#"+itoa(idx))
						if done[key] {
							return true
						}
						done[key] = true
						nloops++
						parent := ast.Node(nil)
						if len(stack) > 0 {
							parent = stack[len(stack)-1]
						}
						switch px := parent.(type) {
						case *ast.RangeStmt:
							if px.X == ast.Expr(ce) {
								var valObj types.Object
								if id, ok := px.Value.(*ast.Ident); ok && id.Name != "_" {
									valObj = objOfIdent(info, id)
								}
								// elements of the slice are the distinct map keys: the value variable is the key
								v := k.classify(pk, fd, px.Body, valObj, nil, px.End(), "result of "+core.FuncName(src))
								classes[v.class]++
								c.Check(v.ok, key, posOf(p, px), "iteration over the map-ordered result of "+core.FuncName(src)+" is "+ifs(v.ok, "order-independent ("+v.class+")")+ifs(!v.ok, "ORDER-DEPENDENT")+ifs(len(v.reasons) > 0, ": "+strings.Join(dedup(v.reasons), "; ")))
								return true
							}
						case *ast.AssignStmt:
							if len(px.Lhs) == 1 && len(px.Rhs) == 1 {
								if id, ok := px.Lhs[0].(*ast.Ident); ok {
									o := objOfIdent(info, id)
									st, why := k.sortedAfter(pk, fd, o, px.End())
									switch st {
									case "sorted", "sink":
										classes["F2"]++
										c.Pass(key, posOf(p, px), "map-ordered result of "+core.FuncName(src)+" assigned to "+id.Name+": "+why)
									case "returned":
										if fobj, ok := info.Defs[fd.Name].(*types.Func); ok {
											k.sources[fobj] = "result of " + core.FuncName(src)
										}
										classes["SRC"]++
										c.Pass(key, posOf(p, px), "map-ordered result of "+core.FuncName(src)+" is returned: callers are classified")
									default:
										if reason, listed := c05Exceptions[key]; listed {
											c.Pass(key, posOf(p, px), "reasoned exception: "+reason+" [classifier said: "+why+"]")
											break
										}
										c.Fail(key, posOf(p, px), "map-ordered result of "+core.FuncName(src)+" assigned to "+id.Name+" "+why)
									}
									return true
								}
							}
						case *ast.ReturnStmt:
							if fobj, ok := info.Defs[fd.Name].(*types.Func); ok {
								k.sources[fobj] = "result of " + core.FuncName(src)
							}
							c.Pass(key, posOf(p, ce), "map-ordered result passed on by return: callers are classified")
							return true
						case *ast.CallExpr:
							// handed on at once, as an argument: fine when that parameter only flows into consumers that sort it
							if cal := calleeOf(info, px); cal != nil {
								for i, a := range px.Args {
									if ast.Unparen(a) == ast.Expr(ce) {
										if okSink, why := k.sortingSink(cal, i, 0); okSink {
											classes["F2"]++
											c.Pass(key, posOf(p, ce), "map-ordered result of "+core.FuncName(src)+" handed to "+cal.Name()+": flows only to "+why)
											return true
										}
									}
								}
							}
						}
						c.Fail(key, posOf(p, ce), "map-ordered result of "+core.FuncName(src)+" is used in a way that is not classified as order-independent")
						return true
					})
				})
			}
		}
	}
	c.Stat("map_ordered_iterations", nloops)
	for cl, n := range classes {
		c.Stat("class_"+cl, n)
	}
	c.Stat("functions_returning_map_ordered_slices", len(k.sources))
}

// ---------------------------------------------------------------- R2

var corePkgs = []string{"ast", "lexer", "parser", "compiler", "vm", "object", "builtins", "importer", "token", "op", "errz"}

func c05r2(c *core.Ctx) {
	p := c.P
	for _, rel := range corePkgs {
		if !p.HasPkg(rel) {
			continue
		}
		pk := p.Pkg(rel)
		info := pk.TypesInfo
		n := 0
		funcBodies(pk, func(fn *types.Func, fd *ast.FuncDecl) {
			ast.Inspect(fd.Body, func(nd ast.Node) bool {
				switch x := nd.(type) {
				case *ast.Ident:
					o := info.Uses[x]
					if o == nil || o.Pkg() == nil {
						return true
					}
					path := o.Pkg().Path()
					bad := ""
					switch {
					case path == "math/rand" || path == "math/rand/v2" || path == "crypto/rand":
						bad = path + "." + o.Name()
					case path == "time" && (o.Name() == "Now" || o.Name() == "Since" || o.Name() == "Until") && o.Parent() == o.Pkg().Scope():
						bad = "time." + o.Name()
					case path == "os" && (o.Name() == "Getpid" || o.Name() == "Getppid"):
						bad = "os." + o.Name()
					case path == "runtime" && (o.Name() == "NumGoroutine" || o.Name() == "Stack"):
						bad = "runtime." + o.Name()
					case path == "hash/maphash":
						// seeded per process: what is hashed with it differs from process to process
						bad = "hash/maphash." + o.Name()
					}
					if bad != "" && !(rel == "object" && isTimeObjectFile(p, x)) {
						n++
						c.Fail(rel+"."+declName(fd)+"|nondeterministic:"+bad, posOf(p, x), "core package "+rel+" references the nondeterministic source "+bad)
					}
				case *ast.CallExpr:
					// %p / %v of pointers in format strings
					cal := calleeOf(info, x)
					if cal != nil && cal.Pkg() != nil && cal.Pkg().Path() == "fmt" && len(x.Args) > 0 {
						for _, a := range x.Args {
							if s, ok := constString(info, a); ok && strings.Contains(s, "%p") {
								n++
								c.Fail(rel+"."+declName(fd)+"|nondeterministic:%p", posOf(p, x), "formats a pointer value with %p (memory addresses differ between runs)")
							}
						}
					}
				case *ast.SelectStmt:
					// select with default races only matter where results are observable: listed as information
				}
				return true
			})
		})
		if n == 0 {
			c.Pass(rel+"|no-nondeterministic-source", rel, "package "+rel+" references no clock, random or process-identity source")
		}
	}
}

func isTimeObjectFile(p *core.Program, n ast.Node) bool {
	return strings.HasSuffix(p.Fset.Position(n.Pos()).Filename, "object/time.go")
}

// ---------------------------------------------------------------- R3

func c05r3(c *core.Ctx) {
	p := c.P
	cp := p.Pkg("compiler")
	info := cp.TypesInfo
	// in the compiler constructor: the range that inserts global names into the
	// symbol table ranges over a field that is passed to sort.Strings earlier in the same function
	found, ok := false, false
	funcBodies(cp, func(fn *types.Func, fd *ast.FuncDecl) {
		sortedAt := map[*types.Var]token.Pos{}
		ast.Inspect(fd.Body, func(n ast.Node) bool {
			if ce, isCall := n.(*ast.CallExpr); isCall && core.IsPkgFunc(calleeOf(info, ce), "sort", "Strings") && len(ce.Args) == 1 {
				if f := fieldOf(info, ce.Args[0]); f != nil {
					sortedAt[f] = ce.Pos()
				}
			}
			return true
		})
		ast.Inspect(fd.Body, func(n ast.Node) bool {
			rs, isR := n.(*ast.RangeStmt)
			if !isR {
				return true
			}
			f := fieldOf(info, rs.X)
			if f == nil || !strings.Contains(strings.ToLower(f.Name()), "global") {
				return true
			}
			// body inserts into a symbol table
			inserts := false
			ast.Inspect(rs.Body, func(m ast.Node) bool {
				if ce, isCall := m.(*ast.CallExpr); isCall {
					if cal := calleeOf(info, ce); cal != nil && core.RecvNamed(cal) != nil && core.RecvNamed(cal).Obj().Name() == "SymbolTable" {
						inserts = true
					}
				}
				return true
			})
			if !inserts {
				return true
			}
			found = true
			if at, s := sortedAt[f]; s && at < rs.Pos() {
				ok = true
			}
			c.Check(ok, "compiler."+declName(fd)+"|sorted-global-names", posOf(p, rs), "global names are sorted (sort.Strings on "+f.Name()+") before they are inserted into the symbol table, so symbol indices do not depend on the caller's (map) order")
			return true
		})
	})
	if !found {
		core.Undecidedf("the loop that inserts global names into the symbol table was not found in package compiler")
	}
}

func sameFieldExpr(info *types.Info, a, b ast.Expr) bool {
	sa, ok1 := ast.Unparen(a).(*ast.SelectorExpr)
	sb, ok2 := ast.Unparen(b).(*ast.SelectorExpr)
	if !ok1 || !ok2 || fieldOf(info, sa) == nil || fieldOf(info, sa) != fieldOf(info, sb) {
		return false
	}
	return objOf(info, sa.X) != nil && objOf(info, sa.X) == objOf(info, sb.X)
}

// fieldSortedAfter: the first use of field expression fe after pos is a total sort.
func (k *c05) fieldSortedAfter(pk *packages.Package, fd *ast.FuncDecl, fe *ast.SelectorExpr, end token.Pos) bool {
	info := pk.TypesInfo
	first := token.NoPos
	sorted := false
	walkStack(fd.Body, func(n ast.Node, stack []ast.Node) bool {
		se, ok := n.(*ast.SelectorExpr)
		if !ok || se.Pos() < end || !sameFieldExpr(info, se, fe) || len(stack) == 0 {
			return true
		}
		if first != token.NoPos && se.Pos() > first {
			return true
		}
		first = se.Pos()
		sorted = false
		if ce, ok := stack[len(stack)-1].(*ast.CallExpr); ok {
			if cal := calleeOf(info, ce); cal != nil && cal.Pkg() != nil && totalSorts[cal.Pkg().Name()+"."+cal.Name()] && len(ce.Args) > 0 && ast.Unparen(ce.Args[0]) == ast.Expr(se) && comparatorIsTotal(info, ce, cal.Pkg().Name()+"."+cal.Name()) {
				sorted = true
			}
		}
		return true
	})
	return sorted
}

// comparatorIsTotal: a sort with a comparison function puts a map-ordered
// slice into an order of its own only when the function compares the elements
// themselves (x[i] < x[j]): a comparison of something computed from them
// (http.CanonicalHeaderKey(x[i]), strings.ToLower(x[i]), a field) can tie for
// different elements, and sort.Slice leaves tied elements in the order they
// came in, which is the order of the map.
func comparatorIsTotal(info *types.Info, ce *ast.CallExpr, name string) bool {
	if name != "sort.Slice" && name != "slices.SortFunc" {
		return true
	}
	if len(ce.Args) < 2 {
		return false
	}
	fl, ok := ast.Unparen(ce.Args[1]).(*ast.FuncLit)
	if !ok || len(fl.Body.List) != 1 {
		return false
	}
	ret, ok := fl.Body.List[0].(*ast.ReturnStmt)
	if !ok || len(ret.Results) != 1 {
		return false
	}
	plain := func(e ast.Expr) bool {
		e = ast.Unparen(e)
		for {
			c2, ok := e.(*ast.CallExpr)
			if !ok {
				break
			}
			if tv, ok := info.Types[c2.Fun]; !ok || !tv.IsType() || len(c2.Args) != 1 {
				return false
			}
			e = ast.Unparen(c2.Args[0])
		}
		switch x := e.(type) {
		case *ast.IndexExpr:
			return exprStr(x.X) == exprStr(ast.Unparen(ce.Args[0]))
		case *ast.Ident:
			// a parameter of the comparison function (slices.SortFunc)
			if o := info.Uses[x]; o != nil && o.Pos() >= fl.Pos() && o.Pos() <= fl.End() {
				return true
			}
		}
		return false
	}
	switch r := ast.Unparen(ret.Results[0]).(type) {
	case *ast.BinaryExpr:
		switch r.Op {
		case token.LSS, token.GTR, token.LEQ, token.GEQ:
			return plain(r.X) && plain(r.Y)
		}
	case *ast.CallExpr:
		// cmp.Compare(a, b), strings.Compare(a, b)
		if cal := calleeOf(info, r); cal != nil && cal.Name() == "Compare" && len(r.Args) == 2 {
			return plain(r.Args[0]) && plain(r.Args[1])
		}
	}
	return false
}

// reasonedExceptions: loops whose order-independence rests on a data invariant
// the classifier cannot see. One named loop each, with the reason.
var c05Exceptions = map[string]string{
	"ast.Map.Keys|range:m.items":                                   "the keys are sorted by the position of their first token in the source, and two keys of one literal do not start at the same place: the sort key is different for different elements",
	"object.MapConverter.From|uses:reflect.Value.MapKeys":          "the keys of the Go map are of string kind and are sorted by their string value, which is the key itself: different keys are different strings",
	"object.Set.SortedItems|range:s.items":                         "the items are sorted by every field of their hash key in turn, and the set holds one item per hash key: the sort key is different for different elements",
	"compiler.definitionFromSymbolTable|range:table.symbolsByName": "the map is keyed by each symbol's own name (symbolsByName[s.name] == s), so re-keying by symbol.name cannot collide",
	"os.VirtualOS.findMount|range:osObj.mounts":                    "strict arg-max over key length among keys that are prefixes of one path: two distinct keys of equal length cannot both be prefixes, so there are no ties",
	"object.Map.equalsVisit|range:m.items":                         "a conjunction over all entries (false as soon as one differs); the only state the callee touches is the visited set, which is scoped to the path from the root (enter / leave around the descent), so what is decided for an entry does not depend on the entries visited before it",
	"object.Map.interfaceVisit|range:m.items":                      "each entry is converted into its own key of the result map; the visited set the callee touches is scoped to the path from the root (enter / leave), so the result does not depend on the order of the entries",
}

// sliceIsLocal: the slice (possibly boxed into an interface for sort.Slice) was allocated by this function.
func sliceIsLocal(v ssa.Value) bool {
	for _, o := range core.Origins(v) {
		if mi, ok := o.(*ssa.MakeInterface); ok {
			if !sliceIsLocal(mi.X) {
				return false
			}
			continue
		}
		if !localAlloc(o, 0) {
			return false
		}
	}
	return true
}

// objectAccessor: read-only accessors of the object.Object protocol.  Called on
// a loop element they concern that element only (an iterator element may advance
// itself; nothing shared between iterations is touched).
var objectAccessor = map[string]bool{"Inspect": true, "Interface": true, "Type": true, "Equals": true, "IsTruthy": true, "String": true, "HashKey": true, "Cost": true, "Compare": true, "Value": true}

// ---------------------------------------------------------------- R4

// c05r4: the front end (lexer, token, ast, parser, compiler, op) keeps no
// package-level state that is written after initialisation.  Bytecode, function
// ids and error text must be a function of the source and the options alone; a
// process-wide counter or cache makes them depend on what the process compiled
// before.
func c05r4(c *core.Ctx) {
	p := c.P
	front := []string{"lexer", "token", "ast", "parser", "compiler", "op"}
	n := 0
	for _, rel := range front {
		if !p.HasPkg(rel) {
			continue
		}
		pk := p.Pkg(rel)
		sp := p.SSAPkg(pk)
		if sp == nil {
			core.Undecidedf("no SSA package for %s", rel)
		}
		var names []string
		for name, m := range sp.Members {
			if _, ok := m.(*ssa.Global); ok {
				names = append(names, name)
			}
		}
		sort.Strings(names)
		for _, name := range names {
			g := sp.Members[name].(*ssa.Global)
			if strings.HasPrefix(name, "init$") || !g.Pos().IsValid() {
				continue
			}
			if strings.HasSuffix(p.Fset.Position(g.Pos()).Filename, "_test.go") {
				continue
			}
			n++
			// written outside init: a store to the global, a store/map update through it,
			// or its address passed to a call (atomic ops, pointer-receiver methods)
			bad := ""
			for fn := range p.AllFunctions() {
				if fn.Blocks == nil || fn.Pkg != sp || bad != "" {
					continue
				}
				root := fn
				for root.Parent() != nil {
					root = root.Parent()
				}
				if root.Name() == "init" || strings.HasPrefix(root.Name(), "init#") {
					continue
				}
				if strings.HasSuffix(p.Fset.Position(fn.Pos()).Filename, "_test.go") {
					continue
				}
				for _, b := range fn.Blocks {
					for _, in := range b.Instrs {
						switch x := in.(type) {
						case *ssa.Store:
							if globalAddr(x.Addr) == g {
								bad = "stored at " + p.Pos(x.Pos())
							}
						case *ssa.MapUpdate:
							if globalLoad(x.Map) == g {
								bad = "map entry written at " + p.Pos(x.Pos())
							}
						case ssa.CallInstruction:
							for _, a := range x.Common().Args {
								if globalAddr(a) == g {
									t := g.Type().(*types.Pointer).Elem()
									if isSyncOnceOrMutex(t) {
										continue
									}
									bad = "address passed to " + x.Common().Value.Name() + " at " + p.Pos(x.Pos())
								}
							}
						}
					}
				}
			}
			c.Check(bad == "", rel+"."+name+"|package-state-read-only", p.Pos(g.Pos()),
				"package-level variable "+rel+"."+name+" is not written after initialisation"+ifs(bad != "", ": "+bad+" — compiled output and messages would depend on the process history"))
		}
	}
	c.Stat("frontend_package_variables", n)
}

func globalAddr(v ssa.Value) *ssa.Global {
	for {
		switch x := v.(type) {
		case *ssa.Global:
			return x
		case *ssa.FieldAddr:
			v = x.X
		case *ssa.IndexAddr:
			v = x.X
			if u, ok := v.(*ssa.UnOp); ok && u.Op == token.MUL { // element of a slice held in the global
				v = u.X
			}
		default:
			return nil
		}
	}
}

func globalLoad(v ssa.Value) *ssa.Global {
	if u, ok := v.(*ssa.UnOp); ok && u.Op == token.MUL {
		return globalAddr(u.X)
	}
	return nil
}

func isSyncOnceOrMutex(t types.Type) bool {
	n := core.NamedOf(t)
	if n == nil || n.Obj().Pkg() == nil || n.Obj().Pkg().Path() != "sync" {
		return false
	}
	switch n.Obj().Name() {
	case "Once", "Mutex", "RWMutex":
		return true
	}
	return false
}

// strictArgMax: the range body assigns a variable declared outside the loop
// only under a strict comparison whose two sides mention the loop's key/value on
// one side and that same variable (the best so far) on the other.
func strictArgMax(info *types.Info, rs *ast.RangeStmt) bool {
	loopVars := map[types.Object]bool{}
	for _, e := range []ast.Expr{rs.Key, rs.Value} {
		if id, ok := e.(*ast.Ident); ok {
			if o := info.Defs[id]; o != nil {
				loopVars[o] = true
			}
		}
	}
	mentions := func(e ast.Expr, pred func(o types.Object) bool) bool {
		found := false
		ast.Inspect(e, func(n ast.Node) bool {
			if id, ok := n.(*ast.Ident); ok {
				if o := info.Uses[id]; o != nil && pred(o) {
					found = true
				}
			}
			return true
		})
		return found
	}
	ok := false
	bad := false
	walkStack(rs.Body, func(n ast.Node, stack []ast.Node) bool {
		as, isAs := n.(*ast.AssignStmt)
		if !isAs || as.Tok != token.ASSIGN {
			return true
		}
		for _, l := range as.Lhs {
			id, isId := l.(*ast.Ident)
			if !isId {
				continue
			}
			best := info.Uses[id]
			if best == nil || loopVars[best] || (best.Pos() >= rs.Body.Pos() && best.Pos() <= rs.Body.End()) {
				continue
			}
			guarded := false
			for _, anc := range stack {
				ifs, isIf := anc.(*ast.IfStmt)
				if !isIf {
					continue
				}
				ast.Inspect(ifs.Cond, func(c ast.Node) bool {
					be, isBe := c.(*ast.BinaryExpr)
					if !isBe || (be.Op != token.GTR && be.Op != token.LSS) {
						return true
					}
					isLoop := func(o types.Object) bool { return loopVars[o] }
					isBest := func(o types.Object) bool { return o == best }
					if (mentions(be.X, isLoop) && mentions(be.Y, isBest)) || (mentions(be.Y, isLoop) && mentions(be.X, isBest)) {
						guarded = true
					}
					return true
				})
			}
			if guarded {
				ok = true
			} else {
				bad = true
			}
		}
		return true
	})
	return ok && !bad
}

// callsMapOrderedSource: cal is src, or the interface method that src implements
// (os.OS.Environ called on a value that may be a *VirtualOS).
func callsMapOrderedSource(cal, src *types.Func) bool {
	if cal == nil || src == nil {
		return false
	}
	if cal == src {
		return true
	}
	if cal.Name() != src.Name() {
		return false
	}
	csig, ok1 := cal.Type().(*types.Signature)
	ssig, ok2 := src.Type().(*types.Signature)
	if !ok1 || !ok2 || csig.Recv() == nil || ssig.Recv() == nil {
		return false
	}
	iface, ok := csig.Recv().Type().Underlying().(*types.Interface)
	if !ok {
		return false
	}
	rt := ssig.Recv().Type()
	if types.Implements(rt, iface) {
		return true
	}
	if _, isPtr := rt.(*types.Pointer); !isPtr && types.Implements(types.NewPointer(rt), iface) {
		return true
	}
	return false
}
