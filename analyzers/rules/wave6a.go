package rules

import (
	"go/constant"
	"go/token"
	"go/types"
	"sort"
	"strings"

	"golang.org/x/tools/go/ssa"

	"risorcheck/core"
)

// Rules written after the sixth wave of independently produced changes.  Each
// one states a structural necessary condition in the vocabulary of the code
// base (roles resolved from the tree), not the shape of one change.

func instrDominates(a, b ssa.Instruction) bool {
	if a.Block() == b.Block() {
		for _, in := range a.Block().Instrs {
			if in == a {
				return true
			}
			if in == b {
				return false
			}
		}
	}
	return a.Block().Dominates(b.Block())
}

func fieldIdxByName(nt *types.Named, name string) int {
	st, ok := nt.Underlying().(*types.Struct)
	if !ok {
		return -1
	}
	for i := 0; i < st.NumFields(); i++ {
		if st.Field(i).Name() == name {
			return i
		}
	}
	return fieldByHint(nt, name) // renamed: the field that has the type this one had (fieldhints.go)
}

// loadOfField: v is a load of field idx of a value of named type nt.
func loadOfField(v ssa.Value, nt *types.Named, idx int) (*ssa.FieldAddr, bool) {
	u, ok := v.(*ssa.UnOp)
	if !ok || u.Op != token.MUL {
		return nil, false
	}
	fa, ok := u.X.(*ssa.FieldAddr)
	if !ok || fa.Field != idx || core.NamedOf(fa.X.Type()) != nt {
		return nil, false
	}
	return fa, true
}

func stripConv(v ssa.Value) ssa.Value {
	for {
		switch x := v.(type) {
		case *ssa.Convert:
			v = x.X
		case *ssa.ChangeType:
			v = x.X
		default:
			return v
		}
	}
}

// ---------------------------------------------------------------------------
// tableIndexBounded: a fixed-size array (a lookup table) on the surface that no
// recover protects is indexed only by a value that cannot exceed its length:
// a constant, a value of a type whose range fits, a masked value, or a value
// compared with a bound on a dominating branch.  table[l.ch] with a rune is an
// index-out-of-range panic for the first character above the table.
func tableIndexBounded(c *core.Ctx) {
	p := c.P
	surf, _ := unprotectedSurface(p)
	set := map[*ssa.Function]bool{}
	for f := range surf {
		if f.Blocks != nil && core.RepoFunc(f) {
			set[f] = true
		}
	}
	for _, f := range repoFns(p, "lexer", "parser", "token", "ast") {
		set[f] = true
	}
	var fns []*ssa.Function
	for f := range set {
		if strings.HasSuffix(p.Fset.Position(f.Pos()).Filename, "_test.go") {
			continue
		}
		fns = append(fns, f)
	}
	sort.Slice(fns, func(i, j int) bool { return core.SSAName(fns[i]) < core.SSAName(fns[j]) })
	sites, bad := 0, 0
	for _, fn := range fns {
		for _, s := range arrayIndexSites(fn) {
			sites++
			if s.ok {
				continue
			}
			bad++
			c.Check(false, core.SSAName(fn)+"|array-index-bounded|"+s.what, p.Pos(s.in.Pos()),
				"the index into the fixed-size array "+s.what+" is not bounded by its type, a mask or a dominating comparison: a larger value is an index-out-of-range panic that escapes the embedding API")
		}
	}
	// the finder is alive: the VM's operand stack is an array indexed by sp
	control := 0
	for _, fn := range repoFns(p, "vm") {
		control += len(arrayIndexSites(fn))
	}
	c.Check(control > 0, "control|array-index-finder", "", "the array-index finder sees the VM's fixed-size stack (positive control)")
	if bad == 0 {
		c.Pass("surface|array-indexes-bounded", "", sprintf("%d array index sites in %d functions of the unprotected surface, all bounded", sites, len(fns)))
	}
	c.Stat("array_index_sites", sites)
}

type arrSite struct {
	in   ssa.Instruction
	what string
	ok   bool
}

func arrayIndexSites(fn *ssa.Function) []arrSite {
	var out []arrSite
	for _, b := range fn.Blocks {
		for _, in := range b.Instrs {
			var x, idx ssa.Value
			switch t := in.(type) {
			case *ssa.IndexAddr:
				x, idx = t.X, t.Index
			case *ssa.Index:
				x, idx = t.X, t.Index
			default:
				continue
			}
			xt := x.Type().Underlying()
			if pt, ok := xt.(*types.Pointer); ok {
				xt = pt.Elem().Underlying()
			}
			at, ok := xt.(*types.Array)
			if !ok {
				continue
			}
			if _, isConst := idx.(*ssa.Const); isConst {
				continue
			}
			what := x.Name()
			if g, ok := addrRoot(x).(*ssa.Global); ok {
				what = g.Name()
			}
			out = append(out, arrSite{in, what, indexFits(idx, at.Len(), in)})
		}
	}
	return out
}

func indexFits(idx ssa.Value, n int64, at ssa.Instruction) bool {
	root := stripConv(idx)
	if b, ok := root.Type().Underlying().(*types.Basic); ok {
		switch b.Kind() {
		case types.Uint8:
			if n >= 256 {
				return true
			}
		case types.Uint16:
			if n >= 65536 {
				return true
			}
		}
	}
	if bo, ok := root.(*ssa.BinOp); ok && (bo.Op == token.AND || bo.Op == token.REM) {
		for _, s := range []ssa.Value{bo.X, bo.Y} {
			if k, ok := s.(*ssa.Const); ok && k.Value != nil {
				if v, ok := constant.Int64Val(constant.ToInt(k.Value)); ok {
					if (bo.Op == token.AND && v < n) || (bo.Op == token.REM && v <= n && s == bo.Y) {
						return true
					}
				}
			}
		}
	}
	// a dominating ordering comparison that mentions the index
	mentions := func(v ssa.Value) bool {
		r := stripConv(v)
		return r == root || r == idx || v == idx || core.SameStorage(r, root)
	}
	blk := at.Block()
	for _, b := range blk.Parent().Blocks {
		if len(b.Instrs) == 0 {
			continue
		}
		iff, ok := b.Instrs[len(b.Instrs)-1].(*ssa.If)
		if !ok {
			continue
		}
		if b != blk && !b.Dominates(blk) {
			continue
		}
		bo, ok := iff.Cond.(*ssa.BinOp)
		if !ok {
			continue
		}
		switch bo.Op {
		case token.LSS, token.LEQ, token.GTR, token.GEQ:
			if mentions(bo.X) || mentions(bo.Y) {
				return true
			}
		}
	}
	// loop counters: phi whose edges are a constant and itself+1 and which is compared in the loop header
	if phi, ok := root.(*ssa.Phi); ok {
		if refs := phi.Referrers(); refs != nil {
			for _, r := range *refs {
				if bo, ok := r.(*ssa.BinOp); ok {
					switch bo.Op {
					case token.LSS, token.LEQ, token.GTR, token.GEQ:
						if bo.Block().Dominates(blk) {
							return true
						}
					}
				}
			}
		}
	}
	return false
}

// ---------------------------------------------------------------------------
// recoverIsDirectlyDeferred: recover() stops a panic only when it is called
// directly by the deferred function.  A function that calls recover() is
// therefore used in defer statements only; when it is called as an ordinary
// helper (even from inside a deferred closure) recover returns nil and the
// panic goes on to kill the process.
func recoverIsDirectlyDeferred(c *core.Ctx) {
	p := c.P
	all := repoFns(p)
	recoverers := map[*ssa.Function]token.Pos{}
	for _, fn := range all {
		for _, b := range fn.Blocks {
			for _, in := range b.Instrs {
				if call, ok := in.(*ssa.Call); ok {
					if bi, ok := call.Call.Value.(*ssa.Builtin); ok && bi.Name() == "recover" {
						if _, seen := recoverers[fn]; !seen {
							recoverers[fn] = call.Pos()
						}
					}
				}
			}
		}
	}
	deferred := map[*ssa.Function]int{}
	called := map[*ssa.Function][]ssa.Instruction{}
	for _, fn := range all {
		for _, b := range fn.Blocks {
			for _, in := range b.Instrs {
				ci, ok := in.(ssa.CallInstruction)
				if !ok {
					continue
				}
				cal := ci.Common().StaticCallee()
				if cal == nil {
					continue
				}
				if _, isRec := recoverers[cal]; !isRec {
					continue
				}
				if _, isDefer := in.(*ssa.Defer); isDefer {
					deferred[cal]++
				} else {
					called[cal] = append(called[cal], in)
				}
			}
		}
	}
	var fns []*ssa.Function
	for f := range recoverers {
		fns = append(fns, f)
	}
	sort.Slice(fns, func(i, j int) bool { return core.SSAName(fns[i]) < core.SSAName(fns[j]) })
	for _, f := range fns {
		why := ""
		if len(called[f]) > 0 {
			why = "; it is called as an ordinary function at " + p.Pos(called[f][0].Pos()) + ", where recover() returns nil"
		} else if deferred[f] == 0 {
			why = "; no defer statement names it"
		}
		c.Check(why == "", core.SSAName(f)+"|recover-directly-deferred", p.Pos(recoverers[f]),
			"the function that calls recover() is the deferred function itself"+why)
	}
	c.Stat("recover_sites", len(fns))
}

// ---------------------------------------------------------------------------
// ctxInstallersReturnDerived: With<X>(ctx, v) returns, on every path, a context
// derived from ctx that carries v: the nearest value wins, which is what lets
// a per-call context override what an outer context holds.  Returning ctx
// itself (because "it already has one") keeps the outer value.
func ctxInstallersReturnDerived(c *core.Ctx) {
	p := c.P
	n := 0
	installers := map[*ssa.Function]bool{}
	var fns []*ssa.Function
	for _, fn := range repoFns(p) {
		if fn.Parent() != nil || fn.Signature.Recv() != nil || !strings.HasPrefix(fn.Name(), "With") {
			continue
		}
		sg := fn.Signature
		if sg.Params().Len() != 2 || sg.Results().Len() != 1 || !isContext(sg.Params().At(0).Type()) || !isContext(sg.Results().At(0).Type()) {
			continue
		}
		installers[fn] = true
		fns = append(fns, fn)
	}
	for _, fn := range fns {
		ctxP, valP := fn.Params[0], fn.Params[1]
		for _, b := range fn.Blocks {
			for _, in := range b.Instrs {
				ret, ok := in.(*ssa.Return)
				if !ok || len(ret.Results) != 1 {
					continue
				}
				n++
				why := ""
				for _, o := range core.Origins(ret.Results[0]) {
					call, ok := o.(*ssa.Call)
					if !ok {
						if o == ssa.Value(ctxP) {
							why = "a path returns the context it was given, without the value"
						} else {
							why = "a path returns " + o.String()
						}
						break
					}
					cal := call.Call.StaticCallee()
					switch {
					case cal != nil && cal.Pkg != nil && cal.Pkg.Pkg.Path() == "context" && cal.Name() == "WithValue":
						if len(call.Call.Args) != 3 || !core.DependsOn(call.Call.Args[2], func(w ssa.Value) bool { return w == ssa.Value(valP) }) {
							why = "context.WithValue does not store the value parameter"
						}
					case cal != nil && installers[cal]:
					default:
						why = "a path returns the result of " + call.String()
					}
					if why != "" {
						break
					}
				}
				c.Check(why == "", core.SSAName(fn)+"|returns-derived-context", p.Pos(ret.Pos()),
					fn.Name()+" returns a context derived from its argument that carries the given value"+ifs(why != "", ": "+why+" (an outer value then shadows the one being installed)"))
			}
		}
	}
	c.Stat("context_installers", len(fns))
}

// ---------------------------------------------------------------------------
// cancelNeedsWaitDelay: exec.CommandContext kills the child when the context
// ends.  Replacing Cmd.Cancel (e.g. by an interrupt) removes that guarantee
// unless Cmd.WaitDelay bounds the wait: a child that ignores the signal keeps
// the blocked call, and with it the evaluation, alive after cancellation.
func cancelNeedsWaitDelay(c *core.Ctx) {
	p := c.P
	n := 0
	for _, fn := range repoFns(p) {
		for _, b := range fn.Blocks {
			for _, in := range b.Instrs {
				call, ok := in.(*ssa.Call)
				if !ok {
					continue
				}
				cal := call.Call.StaticCallee()
				if cal == nil || cal.Pkg == nil || cal.Pkg.Pkg.Path() != "os/exec" || cal.Name() != "CommandContext" {
					continue
				}
				n++
				cancelPos, hasDelay := token.NoPos, false
				scan := []*ssa.Function{fn}
				scan = append(scan, fn.AnonFuncs...)
				for _, g := range scan {
					for _, b2 := range g.Blocks {
						for _, i2 := range b2.Instrs {
							st, ok := i2.(*ssa.Store)
							if !ok {
								continue
							}
							fa, ok := st.Addr.(*ssa.FieldAddr)
							if !ok || !core.IsNamed(fa.X.Type(), "os/exec", "Cmd") {
								continue
							}
							stt := core.NamedOf(fa.X.Type()).Underlying().(*types.Struct)
							switch stt.Field(fa.Field).Name() {
							case "Cancel":
								cancelPos = st.Pos()
							case "WaitDelay":
								hasDelay = true
							}
						}
					}
				}
				c.Check(cancelPos == token.NoPos || hasDelay, core.SSAName(fn)+"|command-killed-on-cancel", p.Pos(call.Pos()),
					"the child process is killed when the context ends (the default), or a replaced Cancel is bounded by WaitDelay"+ifs(cancelPos != token.NoPos && !hasDelay, ": Cancel is replaced at "+p.Pos(cancelPos)+" and no WaitDelay is set, so a child that ignores the signal is waited for without bound"))
			}
		}
	}
	c.Stat("command_context_sites", n)
}

// ---------------------------------------------------------------------------
// clonesArmedBeforeUse: every VM obtained from Clone() in package vm is armed
// for the context (the arming function resolved by role) before anything else
// is done with it, on every path: whatever runs on the clone - a function, or
// a builtin that calls back into script code - is then stopped by cancellation.
func clonesArmedBeforeUse(c *core.Ctx) {
	p := c.P
	r := resolveVMRoles(p)
	arm := p.SSAFunc(r.arm)
	cloneM := core.Method(r.vmT, "Clone")
	if arm == nil || cloneM == nil {
		core.Undecidedf("arming function / Clone not found")
	}
	clone := p.SSAFunc(cloneM)
	n := 0
	for _, fn := range repoFns(p, "vm") {
		if fn == clone {
			continue
		}
		for _, b := range fn.Blocks {
			for _, in := range b.Instrs {
				call, ok := in.(*ssa.Call)
				if !ok || call.Call.StaticCallee() != clone || call.Referrers() == nil {
					continue
				}
				for _, ref := range *call.Referrers() {
					ex, ok := ref.(*ssa.Extract)
					if !ok || ex.Index != 0 || ex.Referrers() == nil {
						continue
					}
					n++
					var arms []ssa.Instruction
					for _, u := range *ex.Referrers() {
						if ci, ok := u.(ssa.CallInstruction); ok && ci.Common().StaticCallee() == arm && len(ci.Common().Args) > 0 && ci.Common().Args[0] == ssa.Value(ex) {
							arms = append(arms, u)
						}
					}
					bad := ""
					for _, u := range *ex.Referrers() {
						if _, isDbg := u.(*ssa.DebugRef); isDbg {
							continue
						}
						isArm := false
						for _, a := range arms {
							if a == u {
								isArm = true
							}
						}
						if isArm {
							continue
						}
						covered := false
						for _, a := range arms {
							if instrDominates(a, u) {
								covered = true
							}
						}
						if !covered && bad == "" {
							bad = p.Pos(u.Pos())
							if bad == "" {
								bad = u.String()
							}
						}
					}
					c.Check(bad == "" && len(arms) > 0, core.SSAName(fn)+"|clone-armed-before-use", p.Pos(call.Pos()),
						"the clone is armed ("+arm.Name()+") on every path before it is used"+ifs(len(arms) == 0, ": it is never armed here")+ifs(bad != "", ": the use at "+bad+" can be reached without arming (code run on that clone is not stopped by cancellation)"))
				}
			}
		}
	}
	c.Stat("clone_sites", n)
}

// ---------------------------------------------------------------------------
// cloneAliasesNotWrittenThrough: a reference (pointer, map, slice) that Clone
// copies from the parent VM into the clone is shared by VMs that run on
// different goroutines and in different invocations.  No VM method writes
// through such a reference: run-state reached through it (a halt flag, a
// table that grows) would make one VM's run change another's.
func cloneAliasesNotWrittenThrough(c *core.Ctx) {
	p := c.P
	vmp := p.Pkg("vm")
	vmT := core.MustType(vmp, "VirtualMachine")
	cloneM := core.Method(vmT, "Clone")
	if cloneM == nil {
		core.Undecidedf("VirtualMachine.Clone not found")
	}
	clone := p.SSAFunc(cloneM)
	st := vmT.Underlying().(*types.Struct)
	aliased := map[int]token.Pos{}
	// Clone, and the methods of the VM that it calls to do part of the copying
	cloneBodies := []*ssa.Function{clone}
	for _, b := range clone.Blocks {
		for _, in := range b.Instrs {
			if ci, ok := in.(ssa.CallInstruction); ok {
				if cal := ci.Common().StaticCallee(); cal != nil && cal.Blocks != nil && cal.Signature.Recv() != nil && core.NamedOf(cal.Signature.Recv().Type()) == vmT {
					cloneBodies = append(cloneBodies, cal)
				}
			}
		}
	}
	var cloneBlocks []*ssa.BasicBlock
	for _, f := range cloneBodies {
		cloneBlocks = append(cloneBlocks, f.Blocks...)
	}
	for _, b := range cloneBlocks {
		for _, in := range b.Instrs {
			s, ok := in.(*ssa.Store)
			if !ok {
				continue
			}
			fa, ok := s.Addr.(*ssa.FieldAddr)
			if !ok || core.NamedOf(fa.X.Type()) != vmT {
				continue
			}
			switch st.Field(fa.Field).Type().Underlying().(type) {
			case *types.Pointer, *types.Map, *types.Slice, *types.Chan:
			default:
				continue
			}
			for _, o := range core.Origins(s.Val) {
				if fa2, ok := loadOfField(o, vmT, fa.Field); ok && fa2.X != fa.X {
					aliased[fa.Field] = s.Pos()
				}
			}
		}
	}
	if len(aliased) == 0 {
		core.Undecidedf("Clone copies no reference from its receiver")
	}
	var idxs []int
	for i := range aliased {
		idxs = append(idxs, i)
	}
	sort.Ints(idxs)
	isAliasedLoad := func(v ssa.Value) (int, bool) {
		for _, o := range core.Origins(v) {
			u, ok := o.(*ssa.UnOp)
			if !ok || u.Op != token.MUL {
				continue
			}
			if fa, ok := u.X.(*ssa.FieldAddr); ok && core.NamedOf(fa.X.Type()) == vmT {
				if _, is := aliased[fa.Field]; is {
					return fa.Field, true
				}
			}
		}
		return 0, false
	}
	writes := map[int][]string{}
	for _, fn := range repoFns(p, "vm") {
		// construction time: the VM is not shared yet
		if fn == clone || isVMConstruction(fn, vmT) {
			continue
		}
		for _, b := range fn.Blocks {
			for _, in := range b.Instrs {
				var target ssa.Value
				switch x := in.(type) {
				case *ssa.MapUpdate:
					target = x.Map
				case *ssa.Store:
					target = addrRoot(x.Addr)
					if target == x.Addr {
						// a store to the pointer itself
						if _, isFA := x.Addr.(*ssa.FieldAddr); isFA {
							target = nil
						}
					}
				case *ssa.Call:
					if bi, ok := x.Call.Value.(*ssa.Builtin); ok && (bi.Name() == "delete" || bi.Name() == "clear") && len(x.Call.Args) > 0 {
						target = x.Call.Args[0]
					}
					if cal := x.Call.StaticCallee(); cal != nil && cal.Pkg != nil && cal.Pkg.Pkg.Path() == "sync/atomic" && len(x.Call.Args) > 0 &&
						(strings.HasPrefix(cal.Name(), "Store") || strings.HasPrefix(cal.Name(), "Add") || strings.HasPrefix(cal.Name(), "Swap") || strings.HasPrefix(cal.Name(), "CompareAndSwap")) {
						target = x.Call.Args[0]
					}
				}
				if target == nil {
					continue
				}
				if f, ok := isAliasedLoad(target); ok {
					writes[f] = append(writes[f], core.SSAName(fn)+" at "+p.Pos(in.Pos()))
				}
			}
		}
	}
	for _, i := range idxs {
		w := writes[i]
		sort.Strings(w)
		msg := ""
		if len(w) > 0 {
			msg = ": written through by " + w[0] + ifs(len(w) > 1, sprintf(" (and %d more)", len(w)-1)) + "; every clone and its parent then share that state"
		}
		c.Check(len(w) == 0, "vm.VirtualMachine.Clone|"+st.Field(i).Name()+"|shared-reference-is-read-only", p.Pos(aliased[i]),
			"vm."+st.Field(i).Name()+" is handed to the clone by reference and no VM method writes through it"+msg)
	}
	c.Stat("clone_aliased_refs", len(idxs))
}

// isVMConstruction: a function that allocates the VM it writes (constructors).
func isVMConstruction(fn *ssa.Function, vmT *types.Named) bool {
	for _, b := range fn.Blocks {
		for _, in := range b.Instrs {
			if a, ok := in.(*ssa.Alloc); ok && a.Heap {
				if pt, ok := a.Type().(*types.Pointer); ok && core.NamedOf(pt.Elem()) == vmT {
					return true
				}
			}
		}
	}
	// Option closures are NOT construction time: RunCode applies options to a VM that exists already
	// (also to a clone, and to the original while clones run)
	return false
}

// ---------------------------------------------------------------------------
// importersReturnFreshModules: the VM points a module at its own globals after
// import (Module.UseGlobals), so every Import call hands out a module object of
// its own, built in that call.  A module kept in the importer and handed out
// again is re-pointed by whichever VM imported it last.
func importersReturnFreshModules(c *core.Ctx) {
	p := c.P
	_ = core.MustType(p.Pkg("object"), "Module")
	n := 0
	bodies := importBodies(p)
	for _, fn := range repoFns(p, "importer") {
		if !bodies[fn] {
			continue
		}
		for _, b := range fn.Blocks {
			for _, in := range b.Instrs {
				ret, ok := in.(*ssa.Return)
				if !ok {
					continue
				}
				rv := spilledResult(b, ret.Results[0])
				why := ""
				for _, o := range core.Origins(rv) {
					switch x := o.(type) {
					case *ssa.Const:
					case *ssa.Extract:
						// what another import body of the package returned (decided there)
						if call, ok := x.Tuple.(*ssa.Call); ok && x.Index == 0 && bodies[call.Call.StaticCallee()] {
							continue
						}
						why = "it comes from " + o.String() + " (a module object that outlives the call)"
					case *ssa.Call:
						cal := x.Call.StaticCallee()
						if cal == nil || !core.RepoFunc(cal) || cal.Pkg == nil || core.RelPkg(cal.Pkg.Pkg) != "object" || !strings.HasPrefix(cal.Name(), "New") {
							why = "it comes from " + x.String()
						}
					default:
						why = "it comes from " + o.String() + " (a module object that outlives the call)"
					}
				}
				if k, isK := rv.(*ssa.Const); isK && k.IsNil() {
					continue
				}
				n++
				c.Check(why == "", core.SSAName(fn)+"|returns-fresh-module", p.Pos(ret.Pos()),
					"the module returned by Import is built in this call (object.New…)"+ifs(why != "", ": "+why))
			}
		}
	}
	c.Stat("import_returns", n)
}

// ---------------------------------------------------------------------------
// optionsRecordUnconditionally: an option that records into one of Config's
// deferred tables (overrides, denylist: applied by init() after the defaults)
// records on every path.  A path that returns without recording - for instance
// because it wrote the value into the globals directly, where the defaults
// then overwrite it - loses what the host asked for.
func optionsRecordUnconditionally(c *core.Ctx) {
	p := c.P
	root := p.Pkg("")
	cfgT := core.MustType(root, "Config")
	st := cfgT.Underlying().(*types.Struct)
	deferred := map[int]bool{}
	for _, name := range []string{"overrides", "denylist"} {
		if i := fieldIdxByName(cfgT, name); i >= 0 {
			deferred[i] = true
		}
	}
	if len(deferred) == 0 {
		core.Undecidedf("Config.overrides / Config.denylist not found")
	}
	n := 0
	for _, fn := range repoFns(p, "") {
		if fn.Parent() == nil || !strings.HasPrefix(fn.Parent().Name(), "With") {
			continue
		}
		var recs []ssa.Instruction
		field := -1
		for _, b := range fn.Blocks {
			for _, in := range b.Instrs {
				if mu, ok := in.(*ssa.MapUpdate); ok {
					for _, o := range core.Origins(mu.Map) {
						if u, ok := o.(*ssa.UnOp); ok && u.Op == token.MUL {
							if fa, ok := u.X.(*ssa.FieldAddr); ok && core.NamedOf(fa.X.Type()) == cfgT && deferred[fa.Field] {
								recs = append(recs, in)
								field = fa.Field
							}
						}
					}
				}
			}
		}
		if len(recs) == 0 {
			continue
		}
		n++
		// every return is reached through a recording instruction, or lies in a
		// loop over the option's arguments (recording once per element)
		bad := ""
		for _, b := range fn.Blocks {
			for _, in := range b.Instrs {
				ret, ok := in.(*ssa.Return)
				if !ok {
					continue
				}
				covered := false
				for _, r := range recs {
					if instrDominates(r, ret) || inLoop(r.Block()) {
						covered = true
					}
				}
				if !covered {
					bad = p.Pos(ret.Pos())
				}
			}
		}
		c.Check(bad == "", core.SSAName(fn)+"|records-on-every-path|"+st.Field(field).Name(), p.Pos(fn.Pos()),
			fn.Parent().Name()+" records into Config."+st.Field(field).Name()+" on every path"+ifs(bad != "", ": the return at "+bad+" is reached without recording (what init() applies after the defaults never sees that entry)"))
	}
	c.Stat("recording_options", n)
}

func inLoop(b *ssa.BasicBlock) bool {
	// b can reach itself
	seen := map[*ssa.BasicBlock]bool{}
	var walk func(x *ssa.BasicBlock) bool
	walk = func(x *ssa.BasicBlock) bool {
		for _, s := range x.Succs {
			if s == b {
				return true
			}
			if !seen[s] {
				seen[s] = true
				if walk(s) {
					return true
				}
			}
		}
		return false
	}
	return walk(b)
}

// ---------------------------------------------------------------------------
// cellsPointIntoFrameStorage: every cell the VM makes for a local points into
// the activation's captured locals (frame.CaptureLocals()), never at a copy of
// the value: the closure and the enclosing function then share one variable,
// also when the same binding is initialised again by a later loop iteration.
func cellsPointIntoFrameStorage(c *core.Ctx) {
	p := c.P
	n := 0
	for _, fn := range repoFns(p) {
		if fn.Pkg != nil && core.RelPkg(fn.Pkg.Pkg) == "object" {
			continue
		}
		for _, b := range fn.Blocks {
			for _, in := range b.Instrs {
				call, ok := in.(*ssa.Call)
				if !ok {
					continue
				}
				cal := call.Call.StaticCallee()
				if cal == nil || cal.Name() != "NewCell" || cal.Pkg == nil || core.RelPkg(cal.Pkg.Pkg) != "object" || len(call.Call.Args) != 1 {
					continue
				}
				n++
				why := ""
				switch a := call.Call.Args[0].(type) {
				case *ssa.IndexAddr:
					okc := false
					for _, o := range core.Origins(a.X) {
						if cf := core.CalleeOfValue(o); cf != nil && strings.Contains(strings.ToLower(cf.Name()), "capture") {
							okc = true
						} else {
							okc = false
							break
						}
					}
					if !okc {
						why = "the indexed slice is not the result of the frame's capture method"
					}
				case *ssa.Alloc:
					why = "it points at a private copy of the value (" + a.Comment + ")"
				default:
					why = "it points at " + a.String()
				}
				c.Check(why == "", core.SSAName(fn)+"|cell-points-into-captured-locals", p.Pos(call.Pos()),
					"the cell made for a captured local points into the activation's captured locals"+ifs(why != "", ": "+why+"; the closure then no longer shares the variable with the enclosing function"))
			}
		}
	}
	c.Stat("newcell_sites", n)
}
