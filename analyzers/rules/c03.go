package rules

import (
	"go/ast"
	"go/token"
	"go/types"
	"sort"
	"strings"

	"golang.org/x/tools/go/callgraph"
	"golang.org/x/tools/go/packages"
	"golang.org/x/tools/go/ssa"

	"risorcheck/core"
)

func init() {
	core.Register(&core.Property{
		ID: "C03",
		Decided: "Structural necessary conditions of 'nothing panics or crashes the host' (general panic-freedom is out of reach and is NOT decided): " +
			"(R1) the recover boundary: every receiver-call path from an exported VirtualMachine method to the dispatch function passes a function that installed a deferred function which calls recover() directly, before making the call; " +
			"every goroutine started by library code from which script code is reachable in the call graph begins with such a deferred recover; " +
			"(R2) every explicit panic() reachable, without crossing the recover boundary, from parser.Parse, compiler.Compile/New, risor.Eval's own body and the Error()/FriendlyErrorMessage() methods is discharged by a checked invariant of another rule or is a listed defensive assertion; " +
			"strings.Repeat/bytes.Repeat counts on that surface that are differences of run-time values are clamped (R2b); " +
			"(R3) no function on that surface converts the possibly-nil pointer result of a parse/compile helper to an interface without a nil test (typed nil), and no function tests an accessor's result for nil on one path while converting/dereferencing the same accessor's result unguarded on a sibling path (R3b); " +
			"(R4) native recursion over script-controlled structure is bounded: recursive methods over self-containable containers carry a re-entrancy guard or depth bound, and the recursive-descent parser carries a depth counter; " +
			"(R5) writer/reader agreement for templated strings: the parser appends exactly one expression per variable fragment, which is what the compiler indexes; " +
			"(R6) the message-formatting methods of the front end's error types (and what they call) index or slice a string/slice only with a bound that is computed from, or tested against, the length of that value; " +
			"(R7) close() of a channel kept in a struct field follows a close-once idiom (sync.Once, deferred recover, field reset after the close, or the constructor's single goroutine).",
		NotCovered:  "Nil dereference, index, type-assertion and arithmetic panics in general before the VM's recover exists; memory exhaustion; panics inside host-supplied builtins.",
		Assumptions: []string{"recover() only stops a panic when called directly by the deferred function (Go spec)", "call graph = VTA over CHA; reflection is opaque", "net/http recovers panics in handler goroutines"},
		Rules: []*core.Rule{
			{ID: "C03-R1", Title: "recover boundary around VM execution and goroutines", Floor: 4, Run: c03r1},
			{ID: "C03-R2", Title: "explicit panics / negative repeat counts on the unprotected surface", Floor: 3, Run: c03r2},
			{ID: "C03-R3", Title: "typed-nil and nil-belief contradictions on the unprotected surface", Floor: 6, Run: c03r3},
			{ID: "C03-R4", Title: "bounded native recursion on script-controlled structure", Floor: 3, Run: c03r4},
			{ID: "C03-R5", Title: "template fragments and expressions are paired", Floor: 1, Run: c03r5},
			{ID: "C03-R6", Title: "error renderers index and slice only under a length test", Floor: 5, Run: formatterBounds},
			{ID: "C03-R7", Title: "a channel field is closed at most once", Floor: 2, Run: func(c *core.Ctx) { closeOnce(c, "") }},
			{ID: "C03-R8", Title: "parse results tested for nil at one site are not stored untested at another", Floor: 1, Run: nilBeliefAcrossCallSites},
			{ID: "C03-R9", Title: "no method call on the operand of a failed type assertion outside the recover boundary", Floor: 1, Run: failedAssertionOperandUse},
			{ID: "C03-R10", Title: "lexer functions on the error-construction path index only under a length test", Floor: 1, Run: lexerIndexingGuarded},
			{ID: "C03-R11", Title: "nil-tested fields are not dereferenced outside the test's cover", Floor: 10, Run: fieldNilBelief},
			{ID: "C03-R12", Title: "parse results are nil-tested before they enter a node", Floor: 10, Run: parseResultsTestedBeforeUse},
			{ID: "C03-R13", Title: "pointers that may be nil at a merge are tested before use", Floor: 1, Run: maybeNilLocalsAreTested},
			{ID: "C03-R14", Title: "shared maps are not written under a read lock (fatal, unrecoverable)", Floor: 1, Run: noWritesUnderReadLock},
			{ID: "C03-R15", Title: "mutex-guarded VM maps are copied, not aliased, into another VM: a concurrent map write is fatal (shared with C09-R5)", Floor: 2, Run: c09r5},
			{ID: "C03-R16", Title: "fixed-size tables on the unprotected surface are indexed within their length", Floor: 1, Run: tableIndexBounded},
			{ID: "C03-R17", Title: "recover() is called by the deferred function itself", Floor: 3, Run: recoverIsDirectlyDeferred},
			{ID: "C03-R18", Title: "a deferred Unlock finds its mutex locked on every path (unlock of an unlocked mutex is fatal)", Floor: 5, Run: deferredUnlockFindsLockHeld},
			{ID: "C03-R19", Title: "results of reflect.Value.Interface() are not asserted blindly", Floor: 1, Run: reflectedValuesNotAssertedBlindly},
			{ID: "C03-R20", Title: "reflect.TypeOf of a handed-in value is guarded against nil", Floor: 1, Run: typeOfGuardedAgainstNil},
			{ID: "C03-R21", Title: "integers are divided only by tested or constant divisors on the unprotected surface", Floor: 1, Run: integerDivisionGuarded},
			{ID: "C03-R22", Title: "the visit record is threaded through the recursion", Floor: 1, Run: visitIsThreadedThroughRecursion},
			{ID: "C03-R23", Title: "error results are not typed nils", Floor: 1, Run: errorResultsAreNotTypedNils},
			{ID: "C03-R24", Title: "the lexer does not recurse", Floor: 1, Run: lexerDoesNotRecurse},
			{ID: "C03-R25", Title: "assertions on the unprotected surface are checked", Floor: 0, Run: assertionsOnTheUnprotectedSurfaceAreChecked},
			{ID: "C03-R26", Title: "the value of a failed two-valued assertion is not used", Floor: 100, Run: failedAssertionsAreNotUsed},
			{ID: "C03-R27", Title: "deferred closures that re-enter the function that deferred them count their nesting", Floor: 1, Run: deferredReentryIsBounded},
			{ID: "C03-R28", Title: "goroutines do not dereference fields that are set to nil elsewhere", Floor: 1, Run: goroutinesDoNotUseWhatIsClearedElsewhere},
			{ID: "C03-R29", Title: "recover handlers of goroutines do not panic themselves", Floor: 1, Run: recoverHandlersDoNotPanic},
			{ID: "C03-R30", Title: "nil beliefs hold across functions on the unprotected surface", Floor: 3, Run: nilBeliefsHoldAcrossFunctions},
			{ID: "C03-R31", Title: "cycles are looked for at every level past the threshold", Floor: 1, Run: cyclesAreLookedForAtEveryLevelPastTheThreshold},
			{ID: "C03-R32", Title: "the frame table is tested before a call takes the next frame", Floor: 1, Run: theFrameTableIsTestedBeforeItGrows},
			{ID: "C03-R33", Title: "the record of a walk over containers goes through the types that wrap them", Floor: 8, Run: theVisitRecordGoesThroughWrappers},
			{ID: "C03-R34", Title: "nesting counters of the VM are kept on every path", Floor: 1, Run: nestingCountersAreKeptOnEveryPath},
			{ID: "C03-R35", Title: "levels added in a loop stay counted", Floor: 1, Run: levelsAddedInALoopStayCounted},
			{ID: "C03-R36", Title: "parse results are not asserted blind", Floor: 1, Run: parseResultsAreNotAssertedBlind},
			{ID: "C03-R37", Title: "what a walk enters it leaves on every path (shared with C19-R24)", Floor: 2, Run: whatIsEnteredIsLeft},
			{ID: "C03-R38", Title: "parse results are not used before they are tested", Floor: 1, Run: parseResultsAreNotUsedBeforeTheyAreTested},
			{ID: "C03-R39", Title: "what errors.As found is used only when it found it", Floor: 1, Run: whatErrorsAsFoundIsUsedOnlyWhenItFoundIt},
			{ID: "C03-R40", Title: "the cursor is compared with the length before the character is read", Floor: 1, Run: theCursorIsComparedWithTheLengthBeforeTheCharacterIsRead},
			{ID: "C03-R41", Title: "equality is not handed back and forth between two types", Floor: 1, Run: equalityIsNotHandedBackAndForth},
			{ID: "C03-R42", Title: "what a table may not hold is not dereferenced", Floor: 1, Run: whatATableMayNotHoldIsNotDereferenced},
		},
	})
}

// directRecover: the function body calls the builtin recover() itself (not in a nested literal).
func directRecover(info *types.Info, body *ast.BlockStmt) bool {
	found := false
	ast.Inspect(body, func(n ast.Node) bool {
		if _, ok := n.(*ast.FuncLit); ok {
			return false
		}
		if ce, ok := n.(*ast.CallExpr); ok && isBuiltinCall(info, ce, "recover") {
			found = true
		}
		return true
	})
	return found
}

// protectiveDefer: position of the first top-level `defer` in body whose
// deferred function calls recover() directly (function literal, or a named
// function of the repository whose own body calls recover directly).
func protectiveDefer(p *core.Program, info *types.Info, body *ast.BlockStmt) token.Pos {
	for _, s := range body.List {
		ds, ok := s.(*ast.DeferStmt)
		if !ok {
			continue
		}
		if fl, ok := ds.Call.Fun.(*ast.FuncLit); ok {
			if directRecover(info, fl.Body) {
				return ds.Pos()
			}
			continue
		}
		if cal := calleeOf(info, ds.Call); cal != nil {
			if fd := p.Decl(cal); fd != nil && fd.Body != nil {
				if pk := p.DeclPkg(cal); pk != nil && directRecover(pk.TypesInfo, fd.Body) {
					return ds.Pos()
				}
			}
		}
	}
	return token.NoPos
}

func c03r1(c *core.Ctx) {
	p := c.P
	vmp := p.Pkg("vm")
	info := vmp.TypesInfo
	vmT := core.MustType(vmp, "VirtualMachine")
	dispatch := dispatchFunc(p)
	// receiver-call graph among VM methods
	type callSite struct {
		callee *types.Func
		pos    token.Pos
	}
	calls := map[*types.Func][]callSite{}
	decls := map[*types.Func]*ast.FuncDecl{}
	for _, m := range core.Methods(vmT) {
		fd := p.Decl(m)
		if fd == nil || fd.Body == nil {
			continue
		}
		decls[m] = fd
		ast.Inspect(fd.Body, func(n ast.Node) bool {
			if ce, ok := n.(*ast.CallExpr); ok {
				if cal := calleeOf(info, ce); cal != nil && core.RecvNamed(cal) == vmT {
					calls[m] = append(calls[m], callSite{cal, ce.Pos()})
				}
			}
			return true
		})
	}
	reaches := map[*types.Func]bool{dispatch: true}
	for changed := true; changed; {
		changed = false
		for m, cs := range calls {
			if reaches[m] {
				continue
			}
			for _, s := range cs {
				if reaches[s.callee] {
					reaches[m] = true
					changed = true
				}
			}
		}
	}
	// unprotected reach
	memo := map[*types.Func]int{}
	var unprot func(m *types.Func) (bool, []string)
	unprot = func(m *types.Func) (bool, []string) {
		if m == dispatch {
			return true, []string{m.Name()}
		}
		if memo[m] == 1 {
			return false, nil
		}
		memo[m] = 1
		defer func() { memo[m] = 0 }()
		fd := decls[m]
		if fd == nil {
			return false, nil
		}
		guard := protectiveDefer(p, info, fd.Body)
		for _, s := range calls[m] {
			if !reaches[s.callee] {
				continue
			}
			if guard != token.NoPos && guard < s.pos {
				continue
			}
			if u, path := unprot(s.callee); u {
				return true, append([]string{m.Name()}, path...)
			}
		}
		return false, nil
	}
	n := 0
	for _, m := range core.Methods(vmT) {
		if !m.Exported() || !reaches[m] {
			continue
		}
		n++
		u, path := unprot(m)
		c.Check(!u, "vm.VirtualMachine."+m.Name()+"|recover-boundary", posOf(p, decls[m]),
			"exported entry "+m.Name()+" reaches the dispatch function only through a function with a deferred function that calls recover() directly"+ifs(u, " — unprotected path: "+strings.Join(path, " → ")))
	}
	c.Stat("exported_vm_entries", n)

	// (b) goroutines
	cg := p.CallGraph()
	dispatchSSA := p.SSAFunc(dispatch)
	reachesScript := func(start *ssa.Function) bool {
		seen := map[*ssa.Function]bool{}
		q := []*ssa.Function{start}
		for len(q) > 0 {
			f := q[0]
			q = q[1:]
			if seen[f] {
				continue
			}
			seen[f] = true
			if f == dispatchSSA {
				return true
			}
			if nd := cg.Nodes[f]; nd != nil {
				for _, e := range nd.Out {
					if e.Callee != nil && e.Callee.Func != nil && !seen[e.Callee.Func] {
						// stay inside the repository (and function values it creates)
						if core.RepoFunc(e.Callee.Func) {
							q = append(q, e.Callee.Func)
						}
					}
				}
			}
			if len(seen) > 20000 {
				return true
			}
		}
		return false
	}
	ngo := 0
	for _, pk := range p.Pkgs {
		rel := core.RelPkg(pk.Types)
		if strings.HasPrefix(rel, "cmd/") {
			continue
		}
		funcBodies(pk, func(fn *types.Func, fd *ast.FuncDecl) {
			idx := 0
			ast.Inspect(fd.Body, func(nd ast.Node) bool {
				gs, ok := nd.(*ast.GoStmt)
				if !ok {
					return true
				}
				ngo++
				idx++
				key := qual(pk, fd) + "|go#" + itoa(idx)
				var body *ast.BlockStmt
				var target *ssa.Function
				if fl, ok := gs.Call.Fun.(*ast.FuncLit); ok {
					body = fl.Body
					// the ssa function of the literal: find among anon funcs by position
					if sf := p.SSAFunc(fn); sf != nil {
						var find func(f *ssa.Function)
						find = func(f *ssa.Function) {
							for _, a := range f.AnonFuncs {
								if a.Pos() == fl.Pos() || a.Syntax() == ast.Node(fl) {
									target = a
								}
								find(a)
							}
						}
						find(sf)
					}
				} else if cal := calleeOf(pk.TypesInfo, gs.Call); cal != nil {
					if d := p.Decl(cal); d != nil {
						body = d.Body
					}
					target = p.SSAFunc(cal)
				}
				if target == nil || body == nil {
					c.Info("%s: goroutine target not resolved statically (%s)", key, exprStr(gs.Call.Fun))
					return true
				}
				if !reachesScript(target) {
					c.Pass(key, posOf(p, gs), "goroutine cannot reach the VM dispatch function in the call graph: a panic in it is not caused by script code")
					return true
				}
				guard := protectiveDefer(p, pk.TypesInfo, body)
				okg := guard != token.NoPos
				// the defer must be the first statement that can panic: require it before any call statement
				if okg {
					for _, s := range body.List {
						if s.Pos() >= guard {
							break
						}
						if es, isExpr := s.(*ast.ExprStmt); isExpr {
							if _, isCall := es.X.(*ast.CallExpr); isCall {
								okg = false
							}
						}
					}
				}
				c.Check(okg, key, posOf(p, gs), "goroutine that can run script code starts with a deferred function calling recover() directly (a panic in a goroutine without it terminates the process)")
				return true
			})
		})
	}
	c.Stat("go_statements", ngo)
}

// ---------------------------------------------------------------- surface

// unprotectedSurface: repository functions reachable from the embedding API
// without crossing a function that installs a protective recover.
func unprotectedSurface(p *core.Program) (map[*ssa.Function]bool, []string) {
	cg := p.CallGraph()
	var roots []*ssa.Function
	var names []string
	add := func(f *types.Func) {
		if f == nil {
			return
		}
		if sf := p.SSAFunc(f); sf != nil {
			roots = append(roots, sf)
			names = append(names, core.FuncName(f))
		}
	}
	add(core.LookupFunc(p.Pkg("parser"), "Parse"))
	add(core.LookupFunc(p.Pkg("compiler"), "Compile"))
	add(core.LookupFunc(p.Pkg("compiler"), "New"))
	if ct := core.LookupType(p.Pkg("compiler"), "Compiler"); ct != nil {
		add(core.Method(ct, "Compile"))
	}
	if pt := core.LookupType(p.Pkg("parser"), "Parser"); pt != nil {
		add(core.Method(pt, "Parse"))
	}
	root := p.Pkg("")
	for _, n := range []string{"Eval", "EvalCode", "Call", "NewConfig"} {
		add(core.LookupFunc(root, n))
	}
	// message formatting methods of error types in parser / errz / compiler
	for _, rel := range []string{"parser", "errz", "compiler", "lexer"} {
		pk := p.Pkg(rel)
		for _, name := range pk.Types.Scope().Names() {
			if tn, ok := pk.Types.Scope().Lookup(name).(*types.TypeName); ok {
				if nt, ok := tn.Type().(*types.Named); ok {
					for _, mn := range []string{"Error", "FriendlyErrorMessage", "String"} {
						if m := core.Method(nt, mn); m != nil && strings.Contains(strings.ToLower(name), "err") {
							add(m)
						}
					}
				}
			}
		}
	}
	protected := func(f *ssa.Function) bool {
		o, _ := f.Object().(*types.Func)
		if o == nil {
			return false
		}
		fd := p.Decl(o)
		pk := p.DeclPkg(o)
		if fd == nil || pk == nil || fd.Body == nil {
			return false
		}
		return protectiveDefer(p, pk.TypesInfo, fd.Body) != token.NoPos
	}
	seen := map[*ssa.Function]bool{}
	q := append([]*ssa.Function{}, roots...)
	for len(q) > 0 {
		f := q[0]
		q = q[1:]
		if seen[f] || !core.RepoFunc(f) {
			continue
		}
		if protected(f) {
			continue
		}
		seen[f] = true
		if nd := cg.Nodes[f]; nd != nil {
			for _, e := range nd.Out {
				if e.Callee != nil && e.Callee.Func != nil && !seen[e.Callee.Func] {
					q = append(q, e.Callee.Func)
				}
			}
		}
		for _, a := range f.AnonFuncs {
			if !seen[a] {
				q = append(q, a)
			}
		}
	}
	sort.Strings(names)
	return seen, names
}

// dischargedPanics: explicit panics on the unprotected surface, by enclosing
// function, with the invariant that makes them unreachable.
var dischargedPanics = map[string]string{
	"(*compiler.Compiler).compile": "default clause of the node dispatch: unreachable because every node type the parser produces has a clause (C01-R3)",
	"compiler.makeInstruction":     "operand-count assertion: unreachable because every emit site passes exactly OperandCount operands (C01-R1)",
	"(*lexer.Lexer).GetLineText":   "range assertions on a token's start position: tokens handed to it come from the same lexer over the same input (defensive assertion)",
	"object.NewBuiltin":            "assertion on the optional trailing module argument: every call site in the repository passes at most one (checked below)",
	"(*object.Module).UseGlobals":  "assertion that the globals array handed over has the length of the module's own code: its only callers pass that code's array (defensive assertion)",
	"object.NewModule":             "assertion on the type of a compiled constant used as a module global: the compiler only produces the listed constant types (C17-R2)",
	"(*object.Set).Keys":           "items of a set were hashable when they were added (Add refuses others), so the assertion cannot fail (defensive assertion)",
	"object.NewThread":             "assertion that a callable was given: both callers pass a checked callable (defensive assertion)",
	"(*vm.VirtualMachine).reloadCode": "assertion that the main code is loaded: called only on the branch that found it in loadedCode (defensive assertion)",
	"vm.wrapCode":                  "default clause over the constant types: the compiler, the marshaller and this switch agree on the list (C17-R2)",
	"vm.New":                       "panics only when a host-supplied global cannot be converted; C03 quantifies over scripts run with the default globals, which always convert (the host-value case is reported under C08)",
}

func c03r2(c *core.Ctx) {
	p := c.P
	surf, roots := unprotectedSurface(p)
	c.Stat("surface_functions", len(surf))
	c.Info("unprotected surface roots: %s", strings.Join(roots, ", "))
	var fns []*ssa.Function
	for f := range surf {
		fns = append(fns, f)
	}
	sort.Slice(fns, func(i, j int) bool { return fns[i].String() < fns[j].String() })
	npanic := 0
	for _, f := range fns {
		for _, b := range f.Blocks {
			for _, instr := range b.Instrs {
				pn, ok := instr.(*ssa.Panic)
				if !ok || !pn.Pos().IsValid() {
					continue
				}
				npanic++
				name := core.SSAName(f)
				why, okd := dischargedPanics[name]
				if !okd && f.Pkg != nil && core.RelPkg(f.Pkg.Pkg) == "compiler" && guardedByOperandCount(b) {
					// the operand-count assertion, wherever the emitting code keeps it
					why, okd = dischargedPanics["compiler.makeInstruction"], true
				}
				c.Check(okd, name+"|explicit-panic", p.Pos(pn.Pos()), "explicit panic() reachable from parse/compile/Eval/error formatting with no recover in between"+ifs(okd, "; discharged: "+why)+ifs(!okd, "; not discharged by any checked invariant"))
			}
		}
	}
	c.Stat("explicit_panics_on_surface", npanic)
	// R2b: Repeat counts
	nrep := 0
	for _, f := range fns {
		o, _ := f.Object().(*types.Func)
		if o == nil {
			continue
		}
		fd, pk := p.Decl(o), p.DeclPkg(o)
		if fd == nil || pk == nil {
			continue
		}
		info := pk.TypesInfo
		assigns := localAssignments(info, fd.Body)
		idx := 0
		ast.Inspect(fd.Body, func(n ast.Node) bool {
			ce, ok := n.(*ast.CallExpr)
			if !ok || len(ce.Args) != 2 {
				return true
			}
			cal := calleeOf(info, ce)
			if !core.IsPkgFunc(cal, "strings", "Repeat") && !core.IsPkgFunc(cal, "bytes", "Repeat") {
				return true
			}
			nrep++
			idx++
			cnt := ce.Args[1]
			if _, isConst := constInt(info, cnt); isConst {
				c.Pass(core.SSAName(f)+"|repeat#"+itoa(idx), posOf(p, ce), "constant repeat count")
				return true
			}
			risky := hasSubtraction(info, cnt, assigns, 0)
			clamped := risky && isClamped(info, fd, cnt)
			c.Check(!risky || clamped, core.SSAName(f)+"|repeat#"+itoa(idx), posOf(p, ce),
				"repeat count "+exprStr(cnt)+" is a difference of run-time values: it must be tested non-negative (strings.Repeat panics on a negative count) — rendering an error message must never fail")
			return true
		})
	}
	c.Stat("repeat_calls_on_surface", nrep)
}

func hasSubtraction(info *types.Info, e ast.Expr, assigns map[types.Object][]ast.Expr, depth int) bool {
	if depth > 4 {
		return false
	}
	found := false
	ast.Inspect(e, func(n ast.Node) bool {
		switch x := n.(type) {
		case *ast.CallExpr:
			// max(expr, k) with a constant k >= 0 is non-negative whatever expr is
			if isBuiltinCall(info, x, "max") {
				for _, a := range x.Args {
					if v, ok := constInt(info, a); ok && v >= 0 {
						return false
					}
				}
			}
		case *ast.BinaryExpr:
			if x.Op == token.SUB {
				if _, lc := constInt(info, x.X); !lc {
					found = true
				} else if _, rc := constInt(info, x.Y); !rc {
					found = true
				}
			}
		case *ast.Ident:
			if o := info.Uses[x]; o != nil {
				for _, r := range assigns[o] {
					if hasSubtraction(info, r, withoutKey(assigns, o), depth+1) {
						found = true
					}
				}
			}
		}
		return true
	})
	return found
}

// isClamped: the function compares the count expression (or its variable)
// against 0 / uses max(…, 0) before the call.
func isClamped(info *types.Info, fd *ast.FuncDecl, cnt ast.Expr) bool {
	if ce, ok := ast.Unparen(cnt).(*ast.CallExpr); ok && isBuiltinCall(info, ce, "max") {
		return true
	}
	want := exprStr(cnt)
	obj := objOf(info, cnt)
	clamped := false
	ast.Inspect(fd.Body, func(n ast.Node) bool {
		be, ok := n.(*ast.BinaryExpr)
		if !ok {
			return true
		}
		switch be.Op {
		case token.LSS, token.LEQ, token.GTR, token.GEQ:
			for _, side := range []ast.Expr{be.X, be.Y} {
				if (obj != nil && objOf(info, side) == obj) || exprStr(side) == want {
					clamped = true
				}
			}
		}
		return true
	})
	return clamped
}

// ---------------------------------------------------------------- R3

func mayReturnNilPtr(f *ssa.Function) bool {
	if f == nil || f.Blocks == nil {
		return false
	}
	res := f.Signature.Results()
	if res.Len() != 1 {
		return false
	}
	if _, ok := res.At(0).Type().Underlying().(*types.Pointer); !ok {
		return false
	}
	for _, b := range f.Blocks {
		for _, in := range b.Instrs {
			if r, ok := in.(*ssa.Return); ok {
				for _, o := range core.Origins(r.Results[0]) {
					if cst, ok := o.(*ssa.Const); ok && cst.IsNil() {
						return true
					}
				}
			}
		}
	}
	return false
}

func nilChecked(v ssa.Value) bool {
	refs := v.Referrers()
	if refs == nil {
		return false
	}
	for _, ref := range *refs {
		if bo, ok := ref.(*ssa.BinOp); ok && (bo.Op == token.EQL || bo.Op == token.NEQ) {
			if cst, ok := bo.X.(*ssa.Const); ok && cst.IsNil() {
				return true
			}
			if cst, ok := bo.Y.(*ssa.Const); ok && cst.IsNil() {
				return true
			}
		}
	}
	return false
}

func c03r3(c *core.Ctx) {
	p := c.P
	surf, _ := unprotectedSurface(p)
	var fns []*ssa.Function
	for f := range surf {
		fns = append(fns, f)
	}
	sort.Slice(fns, func(i, j int) bool { return fns[i].String() < fns[j].String() })
	ncand := 0
	for _, f := range fns {
		perCallee := map[string]int{}
		for _, b := range f.Blocks {
			for _, in := range b.Instrs {
				mi, ok := in.(*ssa.MakeInterface)
				if !ok {
					continue
				}
				call, ok := mi.X.(*ssa.Call)
				if !ok {
					continue
				}
				callee := call.Call.StaticCallee()
				if !mayReturnNilPtr(callee) {
					continue
				}
				ncand++
				perCallee[callee.Name()]++
				key := core.SSAName(f) + "|typed-nil:" + callee.Name() + ifs(perCallee[callee.Name()] > 1, "#"+itoa(perCallee[callee.Name()]))
				c.Check(nilChecked(call), key, p.Pos(call.Pos()),
					"result of "+callee.Name()+" (a pointer that can be nil) is converted to "+mi.Type().String()+" without a nil test: the interface value is then non-nil and every later '== nil' guard is bypassed")
			}
		}
	}
	c.Stat("pointer_to_interface_conversions", ncand)
	// R3b: nil-belief contradiction per function
	ncontra := 0
	for _, f := range fns {
		type use struct {
			call    *ssa.Call
			checked bool
			risky   ssa.Instruction
		}
		byCallee := map[*ssa.Function][]use{}
		for _, b := range f.Blocks {
			for _, in := range b.Instrs {
				call, ok := in.(*ssa.Call)
				if !ok {
					continue
				}
				callee := call.Call.StaticCallee()
				if callee == nil || callee.Signature.Recv() == nil || callee.Signature.Params().Len() != 0 || callee.Signature.Results().Len() != 1 {
					continue
				}
				if _, isPtr := callee.Signature.Results().At(0).Type().Underlying().(*types.Pointer); !isPtr {
					continue
				}
				if callee.Pkg == nil || callee.Pkg.Pkg.Path() != pkgPath("ast") {
					continue
				}
				u := use{call: call, checked: nilChecked(call)}
				if refs := call.Referrers(); refs != nil && !u.checked {
					for _, r := range *refs {
						switch x := r.(type) {
						case *ssa.MakeInterface:
							u.risky = x
						case *ssa.FieldAddr:
							u.risky = x
						case *ssa.Call:
							// method call on the result
							if len(x.Call.Args) > 0 && x.Call.Args[0] == ssa.Value(call) && !x.Call.IsInvoke() {
								u.risky = x
							}
						}
					}
				}
				byCallee[callee] = append(byCallee[callee], u)
			}
		}
		for callee, us := range byCallee {
			anyChecked := false
			for _, u := range us {
				if u.checked {
					anyChecked = true
				}
			}
			if !anyChecked {
				continue
			}
			n := 0
			for _, u := range us {
				if u.checked || u.risky == nil {
					continue
				}
				guarded := false
				for _, g := range us {
					if g.checked && len(g.call.Call.Args) > 0 && len(u.call.Call.Args) > 0 && sameValue(g.call.Call.Args[0], u.call.Call.Args[0]) && nonNilGuardDominates(g.call, u.risky.Block()) {
						guarded = true
					}
				}
				if guarded {
					continue
				}
				n++
				ncontra++
				c.Fail(core.SSAName(f)+"|nil-belief:"+callee.Name()+ifs(n > 1, "#"+itoa(n)), p.Pos(u.call.Pos()),
					"the result of "+callee.Name()+"() is tested for nil elsewhere in this function but is converted/dereferenced here without a test")
			}
			if n == 0 {
				c.Pass(core.SSAName(f)+"|nil-belief:"+callee.Name(), p.Pos(f.Pos()), "every use of "+callee.Name()+"() in this function is nil-tested or harmless")
			}
		}
	}
	c.Stat("nil_belief_contradictions", ncontra)
}

// ---------------------------------------------------------------- R4

func c03r4(c *core.Ctx) {
	p := c.P
	cg := p.CallGraph()
	obj := p.Pkg("object")
	// (a) self-containable containers: named struct types of package object with a field []Object or map[...]Object
	objI := core.MustType(obj, "Object")
	var containers []*types.Named
	for _, n := range obj.Types.Scope().Names() {
		tn, ok := obj.Types.Scope().Lookup(n).(*types.TypeName)
		if !ok {
			continue
		}
		nt, ok := tn.Type().(*types.Named)
		if !ok {
			continue
		}
		st, ok := nt.Underlying().(*types.Struct)
		if !ok {
			continue
		}
		if !types.Implements(types.NewPointer(nt), objI.Underlying().(*types.Interface)) {
			continue
		}
		for i := 0; i < st.NumFields(); i++ {
			ft := st.Field(i).Type()
			switch u := ft.Underlying().(type) {
			case *types.Slice:
				if core.NamedOf(u.Elem()) == objI {
					containers = append(containers, nt)
				}
			case *types.Map:
				// maps keyed by HashKey hold only hashable (non-container) values
				if core.NamedOf(u.Elem()) == objI {
					if b, ok := u.Key().Underlying().(*types.Basic); ok && b.Kind() == types.String {
						containers = append(containers, nt)
					}
				}
			}
		}
	}
	seenT := map[*types.Named]bool{}
	ncont := 0
	for _, nt := range containers {
		if seenT[nt] {
			continue
		}
		seenT[nt] = true
		if !mutableAfterConstruction(p, nt) {
			continue // contents fixed at construction: a value cannot be made to contain itself
		}
		// only types whose elements can be set by scripts to arbitrary objects: List, Map (by field type); others included too
		ncont++
		for _, m := range core.Methods(nt) {
			sf := p.SSAFunc(m)
			if sf == nil || sf.Blocks == nil {
				continue
			}
			// does the method dynamically call a method of the same name on an Object (element)?
			selfDispatch := false
			viaJSON := false
			for _, b := range sf.Blocks {
				for _, in := range b.Instrs {
					ci, ok := in.(ssa.CallInstruction)
					if !ok {
						continue
					}
					cm := ci.Common()
					if cm.IsInvoke() && cm.Method.Name() == m.Name() {
						selfDispatch = true
					}
					if callee := cm.StaticCallee(); callee != nil && callee.Pkg != nil && callee.Pkg.Pkg.Path() == "encoding/json" && callee.Name() == "Marshal" && m.Name() == "MarshalJSON" {
						viaJSON = true
					}
					// static call to the same method on an element-typed value (type switch arms)
					if callee := cm.StaticCallee(); callee != nil && callee != sf && callee.Name() == m.Name() && callee.Signature.Recv() != nil {
						if nd := cg.Nodes[callee]; nd != nil {
							// direct mutual recursion among container types
							selfDispatch = selfDispatch || reachesFunc(cg, callee, sf, 6)
						}
					}
					if callee := cm.StaticCallee(); callee == sf {
						selfDispatch = true
					}
					// package-level helper that dispatches back dynamically (object.Equals(a, b) → a.Equals(b))
					if callee := cm.StaticCallee(); callee != nil && callee != sf && callee.Pkg != nil && callee.Pkg.Pkg.Path() == pkgPath("object") && callee.Signature.Recv() == nil && callee.Name() == m.Name() {
						if reachesFunc(cg, callee, sf, 2) {
							selfDispatch = true
						}
					}
				}
			}
			// a script-supplied builtin applied to the container's elements directly (no VM frame is
			// pushed, so nothing bounds the depth): the element may be the bound method itself
			if pos := directBuiltinCallbackOnElements(sf); pos != token.NoPos {
				guarded := hasReentrancyGuard(sf) || hasDepthParam(sf)
				c.Check(guarded, "object."+nt.Obj().Name()+"."+m.Name()+"|builtin-callback-on-elements", p.Pos(pos),
					"method "+m.Name()+" of the self-containable container "+nt.Obj().Name()+" applies a script-supplied builtin to its elements by a direct Go call: with the bound method stored in the container (l := []; m := l.map; l.append(m); m(m)) the recursion never passes through a VM frame and exhausts the native stack (fatal, unrecoverable)")
			}
			if !selfDispatch && !viaJSON {
				continue
			}
			// re-entry through the VM (callbacks) is bounded by frame depth: skip methods that call CallFunc
			if callsScript(sf) {
				continue
			}
			guarded := hasReentrancyGuard(sf) || hasDepthParam(sf) || hasVisitedSetGuard(sf)
			c.Check(guarded, "object."+nt.Obj().Name()+"."+m.Name()+"|recursion-guard", p.Pos(sf.Pos()),
				"method "+m.Name()+" of the self-containable container "+nt.Obj().Name()+" recurses into its elements"+ifs(viaJSON, " (through encoding/json → MarshalJSON)")+": a cyclic value exhausts the native stack (fatal, unrecoverable) unless the method carries a re-entrancy guard or depth bound")
		}
	}
	c.Stat("self_containable_containers", ncont)
	// (b) parser recursion
	pp := p.Pkg("parser")
	parserT := core.MustType(pp, "Parser")
	parseNode := (*types.Func)(nil)
	// the Pratt loop: method of Parser taking a precedence and looking up prefix functions — resolved by role: self-reachable method called by Parse
	var recursive []*ssa.Function
	for _, m := range core.Methods(parserT) {
		sf := p.SSAFunc(m)
		if sf == nil {
			continue
		}
		if reachesFunc(cg, sf, sf, 8) {
			recursive = append(recursive, sf)
			if parseNode == nil && m.Name() == "parseNode" {
				parseNode = m
			}
		}
	}
	// a depth counter: a field of Parser that is incremented and compared with a constant in some recursive method
	info := pp.TypesInfo
	depthGuard := ""
	guardMethods := map[*types.Func]*types.Var{}
	for _, m := range core.Methods(parserT) {
		fd := p.Decl(m)
		if fd == nil || fd.Body == nil {
			continue
		}
		inc := map[*types.Var]bool{}
		cmp := map[*types.Var]bool{}
		ast.Inspect(fd.Body, func(n ast.Node) bool {
			switch x := n.(type) {
			case *ast.IncDecStmt:
				if f := fieldOf(info, x.X); f != nil && x.Tok == token.INC {
					inc[f] = true
				}
			case *ast.BinaryExpr:
				if x.Op == token.GTR || x.Op == token.GEQ || x.Op == token.LSS || x.Op == token.LEQ {
					if f := fieldOf(info, x.X); f != nil {
						if _, isC := constInt(info, x.Y); isC {
							cmp[f] = true
						}
					}
				}
			}
			return true
		})
		for f := range inc {
			if cmp[f] {
				depthGuard = m.Name() + "." + f.Name()
				guardMethods[m] = f
			}
		}
	}
	c.Check(depthGuard != "", "parser.Parser|recursion-depth-bound", posOf(p, p.Decl(core.MustMethod(parserT, "Parse"))),
		sprintf("the recursive-descent parser (%d mutually recursive methods) bounds its nesting depth with a counter compared against a constant; the compiler's and ast.String's recursions are bounded by the AST depth only if the parser bounds it", len(recursive))+ifs(depthGuard != "", " (guard: "+depthGuard+")"))
	c.Stat("recursive_parser_methods", len(recursive))
	if len(guardMethods) == 0 {
		return
	}
	// With a guard in place: (1) every recursion cycle of the parser passes
	// through a function that counts the depth, either inline or by calling
	// the counting helper; (2) such a function counts the left spine it
	// builds iteratively (each turn of a loop that applies an infix function
	// makes the tree one level deeper without recursing); (3) it puts the
	// counter back on the way out.
	counterFns := map[*ssa.Function]*types.Var{}
	for m, fld := range guardMethods {
		if sf := p.SSAFunc(m); sf != nil {
			counterFns[sf] = fld
		}
	}
	// counting: function -> the counter it advances (inline or through a helper)
	counting := map[*ssa.Function]*types.Var{}
	for f := range cg.Nodes {
		if f == nil || f.Pkg == nil || f.Pkg.Pkg != pp.Types {
			continue
		}
		if fld, ok := counterFns[f]; ok {
			counting[f] = fld
			continue
		}
		for _, b := range f.Blocks {
			for _, in := range b.Instrs {
				if ci, ok := in.(ssa.CallInstruction); ok {
					if cal := ci.Common().StaticCallee(); cal != nil {
						if fld, ok := counterFns[cal]; ok {
							counting[f] = fld
						}
					}
				}
			}
		}
	}
	avoid := map[*ssa.Function]bool{}
	for f := range counting {
		avoid[f] = true
	}
	var unguarded []string
	for f := range cg.Nodes {
		if f == nil || f.Pkg == nil || f.Pkg.Pkg != pp.Types || avoid[f] {
			continue
		}
		if onCycleAvoiding(cg, f, avoid) {
			unguarded = append(unguarded, core.SSAName(f))
		}
	}
	sort.Strings(unguarded)
	c.Check(len(unguarded) == 0, "parser.Parser|every-cycle-passes-the-depth-guard", posOf(p, p.Decl(core.MustMethod(parserT, "Parse"))),
		sprintf("every recursion cycle among the parser's functions passes through one of the %d functions that count the depth (%s); on a cycle that avoids them: %v", len(counting), depthGuard, unguarded))
	c.Stat("parser_depth_counting_functions", len(counting))
	isCounterCall := func(call *ast.CallExpr) bool {
		if fn := calleeOf(info, call); fn != nil {
			for m := range guardMethods {
				if fn == m {
					return true
				}
			}
		}
		return false
	}
	var names []string
	byName := map[string]*ssa.Function{}
	for f := range counting {
		if f.Parent() != nil {
			continue
		}
		names = append(names, core.SSAName(f))
		byName[core.SSAName(f)] = f
	}
	sort.Strings(names)
	for _, name := range names {
		f := byName[name]
		fld := counting[f]
		fobj, _ := f.Object().(*types.Func)
		if fobj == nil {
			continue
		}
		fd := p.Decl(fobj)
		if fd == nil || fd.Body == nil {
			continue
		}
		loops, counted := 0, 0
		restored := false
		ast.Inspect(fd.Body, func(n ast.Node) bool {
			switch x := n.(type) {
			case *ast.ForStmt:
				applies := false
				incs := false
				ast.Inspect(x.Body, func(n ast.Node) bool {
					switch y := n.(type) {
					case *ast.CallExpr:
						if isCounterCall(y) {
							incs = true
						}
						if id, ok := ast.Unparen(y.Fun).(*ast.Ident); ok {
							if v, ok := info.Uses[id].(*types.Var); ok {
								if _, isSig := v.Type().Underlying().(*types.Signature); isSig && len(y.Args) > 0 {
									applies = true
								}
							}
						}
					case *ast.IncDecStmt:
						if y.Tok == token.INC && fieldOf(info, y.X) == fld {
							incs = true
						}
					}
					return true
				})
				if applies {
					loops++
					if incs {
						counted++
					}
				}
			case *ast.IncDecStmt:
				if x.Tok == token.DEC && fieldOf(info, x.X) == fld {
					restored = true
				}
			case *ast.AssignStmt:
				for _, l := range x.Lhs {
					if fieldOf(info, l) == fld {
						restored = true
					}
				}
			}
			return true
		})
		if loops > 0 {
			c.Check(counted == loops, name+"|left-spine-counted", posOf(p, fd),
				sprintf("%s applies infix functions in %d loop(s), each turn of which makes the tree one level deeper without recursing; %d of them advance the depth counter %s (a + b + c + … builds a tree as deep as it is long, which the compiler then walks recursively)", fobj.Name(), loops, counted, fld.Name()))
		}
		if _, isHelper := counterFns[f]; isHelper && loops == 0 && !restored {
			// the counting helper itself only counts up: its callers restore
			continue
		}
		c.Check(restored, name+"|depth-restored", posOf(p, fd),
			fobj.Name()+" puts the depth counter "+fld.Name()+" back on the way out (otherwise it counts nodes, not depth, and long flat programs are rejected)")
	}
}

// onCycleAvoiding reports whether f can reach itself in the call graph
// without passing through a function in avoid.
func onCycleAvoiding(cg *callgraph.Graph, f *ssa.Function, avoid map[*ssa.Function]bool) bool {
	seen := map[*ssa.Function]bool{}
	var stack []*ssa.Function
	push := func(from *ssa.Function) bool {
		if nd := cg.Nodes[from]; nd != nil {
			for _, e := range nd.Out {
				g := e.Callee.Func
				if g == nil || avoid[g] || g.Pkg == nil || g.Pkg != f.Pkg {
					continue
				}
				if g == f {
					return true
				}
				if !seen[g] {
					seen[g] = true
					stack = append(stack, g)
				}
			}
		}
		return false
	}
	if push(f) {
		return true
	}
	for len(stack) > 0 {
		g := stack[len(stack)-1]
		stack = stack[:len(stack)-1]
		if push(g) {
			return true
		}
	}
	return false
}

func reachesFunc(cg *callgraph.Graph, from, to *ssa.Function, maxDepth int) bool {
	type item struct {
		f *ssa.Function
		d int
	}
	seen := map[*ssa.Function]bool{}
	q := []item{{from, 0}}
	first := true
	for len(q) > 0 {
		it := q[0]
		q = q[1:]
		if !first && it.f == to {
			return true
		}
		first = false
		if seen[it.f] || it.d > maxDepth {
			continue
		}
		seen[it.f] = true
		if nd := cg.Nodes[it.f]; nd != nil {
			for _, e := range nd.Out {
				if e.Callee != nil && e.Callee.Func != nil && core.RepoFunc(e.Callee.Func) {
					if e.Callee.Func == to {
						return true
					}
					q = append(q, item{e.Callee.Func, it.d + 1})
				}
			}
		}
	}
	return false
}

func callsScript(sf *ssa.Function) bool {
	for _, b := range sf.Blocks {
		for _, in := range b.Instrs {
			if ci, ok := in.(ssa.CallInstruction); ok {
				if callee := ci.Common().StaticCallee(); callee != nil && callee.Pkg != nil && callee.Pkg.Pkg.Path() == pkgPath("object") && (callee.Name() == "GetCallFunc" || callee.Name() == "GetSpawnFunc" || callee.Name() == "GetCloneCallFunc") {
					return true
				}
			}
		}
	}
	return false
}

// hasReentrancyGuard: the method tests a bool field of its receiver, sets it
// before recursing and clears it in a deferred function.
func hasReentrancyGuard(sf *ssa.Function) bool {
	if len(sf.Params) == 0 {
		return false
	}
	recv := sf.Params[0]
	setTrue := false
	tested := false
	for _, b := range sf.Blocks {
		for _, in := range b.Instrs {
			switch x := in.(type) {
			case *ssa.Store:
				if fa, ok := x.Addr.(*ssa.FieldAddr); ok && isRecvValue(fa.X, recv) {
					if cst, ok := x.Val.(*ssa.Const); ok && cst.Value != nil && cst.Value.String() == "true" {
						setTrue = true
					}
				}
			case *ssa.If:
				if u, ok := x.Cond.(*ssa.UnOp); ok && u.Op == token.MUL {
					if fa, ok := u.X.(*ssa.FieldAddr); ok && isRecvValue(fa.X, recv) {
						tested = true
					}
				}
			}
		}
	}
	return setTrue && tested
}

func hasDepthParam(sf *ssa.Function) bool {
	for _, pa := range sf.Params {
		if isIntType(pa.Type()) && strings.Contains(strings.ToLower(pa.Name()), "depth") {
			return true
		}
	}
	return false
}

// ---------------------------------------------------------------- R5

func c03r5(c *core.Ctx) {
	p := c.P
	pp := p.Pkg("parser")
	info := pp.TypesInfo
	found := false
	funcBodies(pp, func(fn *types.Func, fd *ast.FuncDecl) {
		// the function that builds a templated string node
		var ctorCall *ast.CallExpr
		ast.Inspect(fd.Body, func(n ast.Node) bool {
			if ce, ok := n.(*ast.CallExpr); ok {
				if cal := calleeOf(info, ce); cal != nil && cal.Pkg() != nil && cal.Pkg().Path() == pkgPath("ast") && strings.Contains(cal.Name(), "Templated") {
					ctorCall = ce
				}
			}
			return true
		})
		if ctorCall == nil {
			return
		}
		// the []ast.Expression argument
		var exprsObj types.Object
		for _, a := range ctorCall.Args {
			if id, ok := a.(*ast.Ident); ok {
				if sl, ok := info.TypeOf(id).Underlying().(*types.Slice); ok && core.IsNamed(sl.Elem(), pkgPath("ast"), "Expression") {
					exprsObj = info.Uses[id]
				}
			}
		}
		if exprsObj == nil {
			return
		}
		// the loop over fragments that appends to it
		ast.Inspect(fd.Body, func(n ast.Node) bool {
			rs, ok := n.(*ast.RangeStmt)
			if !ok {
				return true
			}
			appends := false
			ast.Inspect(rs.Body, func(m ast.Node) bool {
				if as, ok := m.(*ast.AssignStmt); ok && len(as.Lhs) == 1 {
					if id, ok := as.Lhs[0].(*ast.Ident); ok && objOfIdent(info, id) == exprsObj {
						appends = true
					}
				}
				return true
			})
			if !appends {
				return true
			}
			found = true
			// enumerate paths through the body
			type path struct {
				n        int
				variable int // 1 true, -1 false, 0 unknown
				ended    string
			}
			var walk func(stmts []ast.Stmt, in []path) []path
			isVarCall := func(e ast.Expr) (bool, bool) { // (isIsVariableTest, negated)
				neg := false
				e = ast.Unparen(e)
				if u, ok := e.(*ast.UnaryExpr); ok && u.Op == token.NOT {
					neg = true
					e = ast.Unparen(u.X)
				}
				if ce, ok := e.(*ast.CallExpr); ok {
					if cal := calleeOf(info, ce); cal != nil && cal.Name() == "IsVariable" {
						return true, neg
					}
				}
				return false, false
			}
			walk = func(stmts []ast.Stmt, in []path) []path {
				cur := in
				for _, s := range stmts {
					var next []path
					for _, pth := range cur {
						if pth.ended != "" {
							next = append(next, pth)
							continue
						}
						switch x := s.(type) {
						case *ast.AssignStmt:
							if len(x.Lhs) == 1 {
								if id, ok := x.Lhs[0].(*ast.Ident); ok && objOfIdent(info, id) == exprsObj {
									if ce, ok := x.Rhs[0].(*ast.CallExpr); ok && isBuiltinCall(info, ce, "append") {
										pth.n += len(ce.Args) - 1
									} else {
										pth.n = -100 // reassigned
									}
								}
							}
							next = append(next, pth)
						case *ast.IfStmt:
							t, f := pth, pth
							if isV, neg := isVarCall(x.Cond); isV {
								if neg {
									t.variable, f.variable = -1, 1
								} else {
									t.variable, f.variable = 1, -1
								}
							}
							next = append(next, walk(x.Body.List, []path{t})...)
							if x.Else != nil {
								next = append(next, walk([]ast.Stmt{x.Else}, []path{f})...)
							} else {
								next = append(next, f)
							}
						case *ast.BlockStmt:
							next = append(next, walk(x.List, []path{pth})...)
						case *ast.ReturnStmt:
							pth.ended = "return"
							next = append(next, pth)
						case *ast.BranchStmt:
							if x.Tok == token.CONTINUE {
								pth.ended = "continue"
							} else {
								pth.ended = "break"
							}
							next = append(next, pth)
						case *ast.SwitchStmt:
							for _, cc := range x.Body.List {
								next = append(next, walk(cc.(*ast.CaseClause).Body, []path{pth})...)
							}
						default:
							next = append(next, pth)
						}
					}
					cur = next
				}
				return cur
			}
			outs := walk(rs.Body.List, []path{{}})
			bad := []string{}
			np := 0
			for _, o := range outs {
				if o.ended == "return" {
					continue // the whole parse fails
				}
				np++
				switch {
				case o.variable == -1 && o.n != 0:
					bad = append(bad, sprintf("a non-variable fragment appends %d expression(s)", o.n))
				case o.variable != -1 && o.n != 1:
					bad = append(bad, sprintf("a variable fragment appends %d expression(s) instead of exactly 1", o.n))
				}
			}
			c.Check(len(bad) == 0 && np > 0, "parser."+declName(fd)+"|one-expression-per-variable-fragment", posOf(p, rs),
				sprintf("on each of the %d completing paths of the fragment loop exactly one expression is appended per variable fragment (the compiler indexes TemplateExpressions() by the count of variable fragments)", np), dedup(bad)...)
			return true
		})
	})
	if !found {
		core.Undecidedf("the parser function that builds templated strings (fragment loop appending to the []ast.Expression passed to ast.New*Templated*) was not found")
	}
}

func sameValue(a, b ssa.Value) bool {
	if a == b {
		return true
	}
	// loads of the same local / same field of the same base
	ua, ok1 := a.(*ssa.UnOp)
	ub, ok2 := b.(*ssa.UnOp)
	if ok1 && ok2 && ua.Op == token.MUL && ub.Op == token.MUL {
		if ua.X == ub.X {
			return true
		}
		fa, ok1 := ua.X.(*ssa.FieldAddr)
		fb, ok2 := ub.X.(*ssa.FieldAddr)
		if ok1 && ok2 && fa.Field == fb.Field && sameValue(fa.X, fb.X) {
			return true
		}
		ia, ok1 := ua.X.(*ssa.IndexAddr)
		ib, ok2 := ub.X.(*ssa.IndexAddr)
		if ok1 && ok2 && sameValue(ia.X, ib.X) && sameValue(ia.Index, ib.Index) {
			return true
		}
	}
	// results of the same pure accessor on the same receiver
	ca, ok1 := a.(*ssa.Call)
	cb, ok2 := b.(*ssa.Call)
	if ok1 && ok2 && ca.Call.StaticCallee() != nil && ca.Call.StaticCallee() == cb.Call.StaticCallee() && len(ca.Call.Args) == 1 && len(cb.Call.Args) == 1 {
		return sameValue(ca.Call.Args[0], cb.Call.Args[0])
	}
	return false
}

// nonNilGuardDominates: blk is dominated by the "v != nil" outcome of a nil test of v.
func nonNilGuardDominates(v ssa.Value, blk *ssa.BasicBlock) bool {
	refs := v.Referrers()
	if refs == nil {
		return false
	}
	for _, r := range *refs {
		bo, ok := r.(*ssa.BinOp)
		if !ok || (bo.Op != token.EQL && bo.Op != token.NEQ) {
			continue
		}
		if core.BoolGuardDominates(bo, bo.Op == token.NEQ, blk) {
			return true
		}
	}
	return false
}

// mutableAfterConstruction: some method of nt stores into one of its
// Object-holding container fields (the field itself, an element, or a map entry).
func mutableAfterConstruction(p *core.Program, nt *types.Named) bool {
	objI := core.LookupType(p.Pkg("object"), "Object")
	holdsObjects := func(t types.Type) bool {
		switch u := t.Underlying().(type) {
		case *types.Slice:
			return core.NamedOf(u.Elem()) == objI
		case *types.Map:
			return core.NamedOf(u.Elem()) == objI
		}
		return false
	}
	// fieldOfAddr: the receiver field an address ultimately selects
	var fieldType func(v ssa.Value, sf *ssa.Function, depth int) types.Type
	fieldType = func(v ssa.Value, sf *ssa.Function, depth int) types.Type {
		if depth > 8 || v == nil {
			return nil
		}
		switch x := v.(type) {
		case *ssa.FieldAddr:
			if isRecvValue(x.X, sf.Params[0]) {
				return x.X.Type().Underlying().(*types.Pointer).Elem().Underlying().(*types.Struct).Field(x.Field).Type()
			}
			return fieldType(x.X, sf, depth+1)
		case *ssa.IndexAddr:
			return fieldType(x.X, sf, depth+1)
		case *ssa.UnOp:
			if x.Op == token.MUL {
				return fieldType(x.X, sf, depth+1)
			}
		case *ssa.Slice:
			return fieldType(x.X, sf, depth+1)
		}
		return nil
	}
	for _, m := range core.Methods(nt) {
		sf := p.SSAFunc(m)
		if sf == nil || len(sf.Params) == 0 {
			continue
		}
		for _, b := range sf.Blocks {
			for _, in := range b.Instrs {
				switch x := in.(type) {
				case *ssa.Store:
					if ft := fieldType(x.Addr, sf, 0); ft != nil && holdsObjects(ft) {
						return true
					}
				case *ssa.MapUpdate:
					if ft := fieldType(x.Map, sf, 0); ft != nil && holdsObjects(ft) {
						return true
					}
				}
			}
		}
	}
	return false
}

// recvRooted: address derives from the receiver (also when the receiver was spilled to a local).
func recvRooted(v ssa.Value, sf *ssa.Function) bool {
	recv := sf.Params[0]
	for i := 0; i < 12 && v != nil; i++ {
		if isRecvValue(v, recv) {
			return true
		}
		switch x := v.(type) {
		case *ssa.FieldAddr:
			v = x.X
		case *ssa.IndexAddr:
			v = x.X
		case *ssa.UnOp:
			if x.Op != token.MUL {
				return false
			}
			v = x.X
		case *ssa.Slice:
			v = x.X
		default:
			return false
		}
	}
	return false
}

func isRecvValue(v ssa.Value, recv *ssa.Parameter) bool {
	if v == ssa.Value(recv) {
		return true
	}
	if u, ok := v.(*ssa.UnOp); ok && u.Op == token.MUL {
		if al, ok := u.X.(*ssa.Alloc); ok {
			if refs := al.Referrers(); refs != nil {
				for _, r := range *refs {
					if st, ok := r.(*ssa.Store); ok && st.Addr == ssa.Value(al) && st.Val == ssa.Value(recv) {
						return true
					}
				}
			}
		}
	}
	return false
}

// errorFormatters: the message-formatting methods of the error types returned
// by the front end, with the repository functions they (statically) call.
func errorFormatters(p *core.Program) []*ssa.Function {
	var roots []*ssa.Function
	for _, rel := range []string{"parser", "errz", "compiler", "lexer"} {
		if !p.HasPkg(rel) {
			continue
		}
		pk := p.Pkg(rel)
		for _, name := range pk.Types.Scope().Names() {
			tn, ok := pk.Types.Scope().Lookup(name).(*types.TypeName)
			if !ok || !strings.Contains(strings.ToLower(name), "err") {
				continue
			}
			nt, ok := tn.Type().(*types.Named)
			if !ok {
				continue
			}
			for _, m := range core.Methods(nt) {
				if !m.Exported() {
					continue
				}
				sig := m.Type().(*types.Signature)
				if sig.Params().Len() == 0 && sig.Results().Len() == 1 && core.IsStringType(sig.Results().At(0).Type()) {
					if sf := p.SSAFunc(m); sf != nil && sf.Blocks != nil {
						roots = append(roots, sf)
					}
				}
			}
		}
	}
	seen := map[*ssa.Function]bool{}
	var out []*ssa.Function
	q := roots
	for len(q) > 0 {
		f := q[0]
		q = q[1:]
		if seen[f] || !core.RepoFunc(f) || f.Blocks == nil {
			continue
		}
		seen[f] = true
		out = append(out, f)
		q = append(q, f.AnonFuncs...)
		for _, b := range f.Blocks {
			for _, in := range b.Instrs {
				if ci, ok := in.(ssa.CallInstruction); ok {
					if cal := ci.Common().StaticCallee(); cal != nil {
						q = append(q, cal)
					}
				}
			}
		}
	}
	sort.Slice(out, func(i, j int) bool { return core.SSAName(out[i]) < core.SSAName(out[j]) })
	return out
}

// formatterBounds (C03-R6, C20-R6): rendering an error never indexes or slices
// with a bound that no dominating test relates to the length of the indexed
// value.  Token positions may lie one or two columns past the end of the quoted
// line (the lexer hands out EOF tokens past the input), so a renderer that
// slices the source line by a column panics in the caller for such errors.
func formatterBounds(c *core.Ctx) {
	p := c.P
	fns := errorFormatters(p)
	if len(fns) == 0 {
		core.Undecidedf("no error-formatting methods found")
	}
	for _, f := range fns {
		sites := core.UnguardedIndexing(f)
		msg := ""
		for _, s := range sites {
			msg += "; " + s.What + " at " + p.Pos(s.Instr.Pos())
		}
		c.Check(len(sites) == 0, core.SSAName(f)+"|indexing-guarded", p.Pos(f.Pos()),
			"every index/slice operation of "+f.Name()+" (reached when an error is rendered) is bounded by a dominating comparison with the length of the indexed value"+msg)
	}
	c.Stat("formatter_functions", len(fns))
}

// closeOnce (C03-R7, C07-R6): close() of a channel held in a struct field can
// be reached again on a later call unless the site follows one of the idioms
// the repository uses: inside (sync.Once).Do, under a deferred recover, followed
// by a reset of the field in the same block, or in the single goroutine started
// by the constructor that made the channel.  A second close panics; in vm.stop
// it does so after the run's own recover has already returned.
func closeOnce(c *core.Ctx, onlyPkg string) {
	p := c.P
	n := 0
	p.AllDecls(func(pk *packages.Package, fn *types.Func, fd *ast.FuncDecl) {
		if fd.Body == nil || strings.HasSuffix(p.Fset.Position(fd.Pos()).Filename, "_test.go") {
			return
		}
		rel := core.RelPkg(pk.Types)
		if onlyPkg != "" && rel != onlyPkg {
			return
		}
		info := pk.TypesInfo
		idx := 0
		walkStack(fd.Body, func(nd ast.Node, stack []ast.Node) bool {
			ce, ok := nd.(*ast.CallExpr)
			if !ok || !isBuiltinCall(info, ce, "close") || len(ce.Args) != 1 {
				return true
			}
			f := fieldOf(info, ce.Args[0])
			if f == nil {
				return true // a local or parameter: owned by this activation
			}
			n++
			idx++
			why := ""
			// enclosing literals, innermost first
			for i := len(stack) - 1; i >= 0 && why == ""; i-- {
				switch x := stack[i].(type) {
				case *ast.FuncLit:
					if directRecover(info, x.Body) {
						why = "the enclosing deferred function recovers"
					}
					if i > 0 {
						if call, ok := stack[i-1].(*ast.CallExpr); ok {
							if cal := calleeOf(info, call); cal != nil && cal.Name() == "Do" && core.IsNamed(core.RecvNamed(cal), "sync", "Once") {
								why = "inside sync.Once.Do"
							}
						}
					}
					// the constructor's own goroutine
					for j := i - 1; j >= 0; j-- {
						if g, ok := stack[j].(*ast.GoStmt); ok {
							inLoop := false
							for _, s := range stack[:j] {
								switch s.(type) {
								case *ast.ForStmt, *ast.RangeStmt:
									inLoop = true
								}
							}
							if !inLoop && madeHere(info, fd, f) {
								why = "closed by the single goroutine started by the constructor that made the channel"
							}
							_ = g
						}
					}
				case *ast.BlockStmt:
					// reset of the same field later in the same block
					for _, s := range x.List {
						if s.Pos() <= ce.Pos() {
							continue
						}
						if as, ok := s.(*ast.AssignStmt); ok {
							for _, l := range as.Lhs {
								if fieldOf(info, l) == f {
									why = "the field is reset right after the close"
								}
							}
						}
					}
				}
			}
			if why == "" && protectiveDefer(p, info, fd.Body) != token.NoPos {
				why = "the function recovers"
			}
			c.Check(why != "", rel+"."+declName(fd)+"|close:"+f.Name()+"#"+itoa(idx), posOf(p, ce),
				"close("+exprStr(ce.Args[0])+") cannot be executed twice on the same channel"+ifs(why != "", " ("+why+")")+ifs(why == "", ": the field keeps the closed channel, so the next call closes it again and panics"))
			return true
		})
	})
	if n == 0 {
		c.Pass(onlyPkg+"|no-channel-field-closed", onlyPkg, "no channel held in a struct field is closed in this scope")
	}
	c.Stat("close_sites", n)
}

// madeHere: fd assigns field f from make(chan ...) (composite literal or assignment).
func madeHere(info *types.Info, fd *ast.FuncDecl, f *types.Var) bool {
	found := false
	ast.Inspect(fd.Body, func(n ast.Node) bool {
		switch x := n.(type) {
		case *ast.KeyValueExpr:
			if id, ok := x.Key.(*ast.Ident); ok && info.Uses[id] == f {
				if ce, ok := ast.Unparen(x.Value).(*ast.CallExpr); ok && isBuiltinCall(info, ce, "make") {
					found = true
				}
			}
		case *ast.AssignStmt:
			for i, l := range x.Lhs {
				if fieldOf(info, l) == f && i < len(x.Rhs) {
					if ce, ok := ast.Unparen(x.Rhs[i]).(*ast.CallExpr); ok && isBuiltinCall(info, ce, "make") {
						found = true
					}
				}
			}
		}
		return true
	})
	return found
}

// directBuiltinCallbackOnElements: sf calls the Go function stored in a *Builtin
// (its function-typed field) that is not the receiver, passing a value that comes
// out of a range / index over a field of the receiver.
func directBuiltinCallbackOnElements(sf *ssa.Function) token.Pos {
	if len(sf.Params) == 0 {
		return token.NoPos
	}
	recv := sf.Params[0]
	fromItems := func(v ssa.Value) bool {
		return core.DependsOn(v, func(w ssa.Value) bool {
			switch x := w.(type) {
			case *ssa.Next:
				return true
			case *ssa.IndexAddr:
				return core.DependsOn(x.X, func(y ssa.Value) bool {
					fa, ok := y.(*ssa.FieldAddr)
					return ok && fa.X == ssa.Value(recv)
				})
			}
			return false
		})
	}
	for _, b := range sf.Blocks {
		for _, in := range b.Instrs {
			call, ok := in.(*ssa.Call)
			if !ok || call.Call.IsInvoke() || call.Call.StaticCallee() != nil {
				continue
			}
			u, ok := call.Call.Value.(*ssa.UnOp)
			if !ok || u.Op != token.MUL {
				continue
			}
			fa, ok := u.X.(*ssa.FieldAddr)
			if !ok || !core.IsNamed(fa.X.Type(), pkgPath("object"), "Builtin") || fa.X == ssa.Value(recv) {
				continue
			}
			for _, a := range call.Call.Args {
				if fromItems(a) {
					return call.Pos()
				}
			}
		}
	}
	// the same through a helper that is handed the builtin and the element and
	// makes the call: it must bound the nesting (a counter carried in the context
	// and compared with a constant before the call)
	for _, b := range sf.Blocks {
		for _, in := range b.Instrs {
			call, ok := in.(*ssa.Call)
			if !ok {
				continue
			}
			cal := call.Call.StaticCallee()
			if cal == nil || cal.Blocks == nil || !core.RepoFunc(cal) {
				continue
			}
			elem := false
			for _, a := range call.Call.Args {
				if fromItems(a) {
					elem = true
				}
			}
			if !elem {
				continue
			}
			if pos := callsBuiltinParamUnbounded(cal); pos != token.NoPos {
				return call.Pos()
			}
		}
	}
	// the same inside a function literal of the method (a `call` closure chosen by the callback's type),
	// when the method walks its elements
	walks := false
	for _, b := range sf.Blocks {
		for _, in := range b.Instrs {
			if _, ok := in.(*ssa.Next); ok {
				walks = true
			}
			if ia, ok := in.(*ssa.IndexAddr); ok && core.DependsOn(ia.X, func(y ssa.Value) bool {
				fa, ok := y.(*ssa.FieldAddr)
				return ok && fa.X == ssa.Value(recv)
			}) {
				walks = true
			}
		}
	}
	if walks {
		for _, an := range sf.AnonFuncs {
			for _, b := range an.Blocks {
				for _, in := range b.Instrs {
					call, ok := in.(*ssa.Call)
					if !ok || call.Call.IsInvoke() || call.Call.StaticCallee() != nil {
						continue
					}
					u, ok := call.Call.Value.(*ssa.UnOp)
					if !ok || u.Op != token.MUL {
						continue
					}
					if fa, ok := u.X.(*ssa.FieldAddr); ok && core.IsNamed(fa.X.Type(), pkgPath("object"), "Builtin") {
						return call.Pos()
					}
				}
			}
		}
	}
	return token.NoPos
}

// hasVisitedSetGuard: the function asks a visited set about the container(s) it
// is about to descend into and returns early when they are in it already.  The
// set is recognised structurally: a method of a struct handed down as a
// parameter that looks its argument(s) up in a map field of that struct and
// inserts them, and whose boolean result leads to a return here.
func hasVisitedSetGuard(sf *ssa.Function) bool {
	for _, b := range sf.Blocks {
		for _, in := range b.Instrs {
			call, ok := in.(*ssa.Call)
			if !ok || call.Referrers() == nil {
				continue
			}
			g := call.Call.StaticCallee()
			if g == nil || g.Blocks == nil || g.Signature.Recv() == nil || g.Signature.Results().Len() != 1 {
				continue
			}
			if bt, ok := g.Signature.Results().At(0).Type().Underlying().(*types.Basic); !ok || bt.Kind() != types.Bool {
				continue
			}
			// the receiver is handed down: a parameter of sf
			if len(call.Call.Args) == 0 {
				continue
			}
			fromParam := false
			for _, pa := range sf.Params {
				if call.Call.Args[0] == ssa.Value(pa) {
					fromParam = true
				}
			}
			if !fromParam || !isVisitedSetMethod(g) {
				continue
			}
			// an argument of the call is the receiver of sf (the container being entered)
			entersSelf := false
			for _, a := range call.Call.Args[1:] {
				for _, o := range core.Origins(a) {
					if mi, ok := o.(*ssa.MakeInterface); ok {
						o = mi.X
					}
					if len(sf.Params) > 0 && o == ssa.Value(sf.Params[0]) {
						entersSelf = true
					}
				}
			}
			if !entersSelf {
				continue
			}
			for _, r := range *call.Referrers() {
				iff, ok := r.(*ssa.If)
				if !ok {
					continue
				}
				for _, i2 := range iff.Block().Succs[0].Instrs {
					if _, ok := i2.(*ssa.Return); ok {
						return true
					}
				}
			}
		}
	}
	return false
}

func isVisitedSetMethod(g *ssa.Function) bool {
	recv := g.Params[0]
	looks, inserts := false, false
	keyFromParams := func(k ssa.Value) bool {
		return core.DependsOn(k, func(w ssa.Value) bool {
			for _, pa := range g.Params[1:] {
				if w == ssa.Value(pa) {
					return true
				}
			}
			return false
		})
	}
	onRecvMap := func(m ssa.Value) bool {
		for _, o := range core.Origins(m) {
			if u, ok := o.(*ssa.UnOp); ok {
				if fa, ok := u.X.(*ssa.FieldAddr); ok && fa.X == ssa.Value(recv) {
					return true
				}
			}
		}
		return false
	}
	for _, b := range g.Blocks {
		for _, in := range b.Instrs {
			switch x := in.(type) {
			case *ssa.Lookup:
				if onRecvMap(x.X) && keyFromParams(x.Index) {
					looks = true
				}
			case *ssa.MapUpdate:
				if onRecvMap(x.Map) && keyFromParams(x.Key) {
					inserts = true
				}
			}
		}
	}
	return looks && inserts
}

// callsBuiltinParamUnbounded: f calls the Go function of a *Builtin it was
// handed as a parameter, and no comparison of a counter read from the context
// with a constant dominates that call.
func callsBuiltinParamUnbounded(f *ssa.Function) token.Pos {
	for _, b := range f.Blocks {
		for _, in := range b.Instrs {
			call, ok := in.(*ssa.Call)
			if !ok || call.Call.IsInvoke() || call.Call.StaticCallee() != nil {
				continue
			}
			u, ok := call.Call.Value.(*ssa.UnOp)
			if !ok || u.Op != token.MUL {
				continue
			}
			fa, ok := u.X.(*ssa.FieldAddr)
			if !ok || !core.IsNamed(fa.X.Type(), pkgPath("object"), "Builtin") {
				continue
			}
			if _, isParam := fa.X.(*ssa.Parameter); !isParam {
				continue
			}
			bounded := false
			for _, b2 := range f.Blocks {
				if len(b2.Instrs) == 0 || b2 == b || !b2.Dominates(b) {
					continue
				}
				iff, ok := b2.Instrs[len(b2.Instrs)-1].(*ssa.If)
				if !ok {
					continue
				}
				bo, ok := iff.Cond.(*ssa.BinOp)
				if !ok {
					continue
				}
				switch bo.Op {
				case token.LSS, token.LEQ, token.GTR, token.GEQ:
				default:
					continue
				}
				_, kx := bo.X.(*ssa.Const)
				_, ky := bo.Y.(*ssa.Const)
				if kx == ky {
					continue
				}
				v := bo.X
				if kx {
					v = bo.Y
				}
				fromCtx := func(w ssa.Value) bool {
					c2, ok := w.(*ssa.Call)
					return ok && c2.Call.IsInvoke() && c2.Call.Method.Name() == "Value" && core.IsNamed(c2.Call.Value.Type(), "context", "Context")
				}
				if fromCtx(v) || core.DependsOn(v, fromCtx) {
					bounded = true
				}
			}
			if !bounded {
				return call.Pos()
			}
		}
	}
	return token.NoPos
}

// guardedByOperandCount: the block is reached only through the branch of a
// comparison of len(..) with the OperandCount of an opcode's Info.
func guardedByOperandCount(b *ssa.BasicBlock) bool {
	for d, k := b.Idom(), 0; d != nil && k < 3; d, k = d.Idom(), k+1 {
		if len(d.Instrs) == 0 {
			continue
		}
		iff, ok := d.Instrs[len(d.Instrs)-1].(*ssa.If)
		if !ok {
			continue
		}
		be, ok := iff.Cond.(*ssa.BinOp)
		if !ok {
			continue
		}
		isLen := func(v ssa.Value) bool {
			c, ok := v.(*ssa.Call)
			if !ok {
				return false
			}
			bi, ok := c.Call.Value.(*ssa.Builtin)
			return ok && bi.Name() == "len"
		}
		isCount := func(v ssa.Value) bool {
			switch x := v.(type) {
			case *ssa.Field:
				return x.X.Type().Underlying().(*types.Struct).Field(x.Field).Name() == "OperandCount"
			case *ssa.UnOp:
				if fa, ok := x.X.(*ssa.FieldAddr); ok {
					return fa.X.Type().Underlying().(*types.Pointer).Elem().Underlying().(*types.Struct).Field(fa.Field).Name() == "OperandCount"
				}
			}
			return false
		}
		if (isLen(be.X) && isCount(be.Y)) || (isLen(be.Y) && isCount(be.X)) {
			return true
		}
	}
	return false
}
