package rules

import (
	"go/ast"
	"go/token"
	"go/types"
	"sort"
	"strings"

	"risorcheck/core"
)

func init() {
	core.Register(&core.Property{
		ID: "C15",
		Decided: "Structural necessary conditions of the equality/ordering/hashing laws (the laws themselves are value-level and NOT decided): " +
			"(R1) dispatch symmetry: the relation 'type A's Equals/Compare accepts an argument of type B' (type-switch arms and assertions applied to the parameter) is symmetric, otherwise a == b and b == a (or a < b and b > a) disagree; " +
			"(R2) != is the negation of ==: in object.Compare the NotEqual arm negates the same Equals call as the Equal arm, and the four ordering arms test the sign of one Compare result against 0; " +
			"(R3) hash/equality agreement: every HashKey is built from the receiver's payload field itself (a field read or a type conversion of it) and the type's own Type(), never from a function of the payload that distinguishes values == identifies (bit patterns) or merges values it distinguishes; " +
			"(R4) ordering is not derived from the sign of an integer subtraction of payloads (wraps at the extremes).",
		NotCovered:  "Reflexivity/transitivity near 2^53, stability and idempotence of sorted(), NaN, truthiness versus length.",
		Assumptions: []string{"Go == on the payload types is an equivalence except for NaN"},
		Rules: []*core.Rule{
			{ID: "C15-R1", Title: "Equals/Compare dispatch is symmetric", Floor: 10, Run: c15r1},
			{ID: "C15-R2", Title: "object.Compare: != negates ==; ordering from one Compare sign", Floor: 5, Run: c15r2},
			{ID: "C15-R3", Title: "HashKey is the payload itself", Floor: 5, Run: c15r3},
			{ID: "C15-R4", Title: "no ordering by integer subtraction", Floor: 8, Run: c15r4},
			{ID: "C15-R5", Title: "sorts by the script-level ordering are stable", Floor: 1, Run: c15r5},
			{ID: "C15-R6", Title: "mirrored Equals cases compute the same relation", Floor: 2, Run: c15r6},
			{ID: "C15-R7", Title: "derived fields are updated by every mutator (shared with C16-R4)", Floor: 5, Run: c16r4},
			{ID: "C15-R8", Title: "comparison functions are lexicographic where they compare two keys (shared with C05-R5)", Floor: 1, Run: lexicographicBoth},
			{ID: "C15-R9", Title: "container equality tests key presence with a two-value lookup", Floor: 1, Run: equalityChecksPresence},
			{ID: "C15-R10", Title: "Compare/Equals convert floats to integers only under a range test", Floor: 5, Run: floatToIntGuarded},
			{ID: "C15-R11", Title: "Compare/Equals/HashKey push no operand through a lossy conversion", Floor: 20, Run: lossyConversionsInComparisons},
			{ID: "C15-R12", Title: "times are compared as instants (Equal/Before/After), never with ==", Floor: 1, Run: timesComparedAsInstants},
			{ID: "C15-R13", Title: "Equals and HashKey look at the same thing", Floor: 1, Run: equalsAndHashKeyLookAtTheSameThing},
			{ID: "C15-R14", Title: "pair walks remember pairs", Floor: 2, Run: pairWalksRememberPairs},
			{ID: "C15-R15", Title: "literals build their own kind", Floor: 1, Run: literalsBuildTheirOwnKind},
			{ID: "C15-R16", Title: "hash keys take the value as it is", Floor: 5, Run: hashKeysTakeTheValueAsItIs},
			{ID: "C15-R17", Title: "failures noted in sort callbacks stick (shared with C16-R25)", Floor: 1, Run: failuresNotedInCallbacksStick},
			{ID: "C15-R18", Title: "membership accepts what iteration yields", Floor: 2, Run: membershipAcceptsWhatIterationYields},
			{ID: "C15-R19", Title: "a byte of a string does not stand for a character (shared with C16-R15)", Floor: 1, Run: stringBytesAreNotCharacters},
			{ID: "C15-R20", Title: "three-way results are -1, 0 or 1 (shared with C16-R29)", Floor: 10, Run: threeWayResultsAreMinusOneZeroOrOne},
			{ID: "C15-R21", Title: "order and equality of numbers look at the numbers", Floor: 4, Run: orderAndEqualityLookAtTheNumbers},
			{ID: "C15-R22", Title: "equality is not inherited from an embedded object type", Floor: 1, Run: equalityIsNotInherited},
			{ID: "C15-R23", Title: "sorted results come out of the stable sort", Floor: 1, Run: sortedResultsComeOutOfTheStableSort},
			{ID: "C15-R24", Title: "the equality walk compares the sizes itself", Floor: 1, Run: theWalkComparesTheSizesItself},
			{ID: "C15-R25", Title: "containers say themselves whether they are empty", Floor: 5, Run: containersSayThemselvesWhetherTheyAreEmpty},
			{ID: "C15-R26", Title: "membership does not round the probe", Floor: 1, Run: membershipDoesNotRoundTheProbe},
			{ID: "C15-R27", Title: "a case for a type can be reached by a value of that type", Floor: 20, Run: aCaseForATypeCanBeReachedByAValueOfThatType},
			{ID: "C15-R28", Title: "equality is not handed back and forth between two types (shared with C03-R41)", Floor: 1, Run: equalityIsNotHandedBackAndForth},
			{ID: "C15-R29", Title: "an infinity is ordered by its sign", Floor: 1, Run: anInfinityIsOrderedByItsSign},
			{ID: "C15-R30", Title: "raw string text decides nothing where the literal is a template (shared with C01-R14)", Floor: 1, Run: plainStringConstantsOnlyForPlainStrings},
		},
	})
}

// acceptedTypes: named object types that method m (Equals/Compare) of type A
// accepts for its parameter, from type-switch arms and assertions on it.
func acceptedTypes(p *core.Program, m *types.Func) map[*types.Named]bool {
	obj := p.Pkg("object")
	info := obj.TypesInfo
	fd := p.Decl(m)
	out := map[*types.Named]bool{}
	if fd == nil || fd.Body == nil || fd.Type.Params == nil || len(fd.Type.Params.List) == 0 || len(fd.Type.Params.List[0].Names) == 0 {
		return out
	}
	param := info.Defs[fd.Type.Params.List[0].Names[0]]
	isParam := func(e ast.Expr) bool {
		id, ok := ast.Unparen(e).(*ast.Ident)
		return ok && info.Uses[id] == param
	}
	add := func(t types.Type) {
		if nt := core.NamedOf(t); nt != nil && nt.Obj().Pkg() != nil && nt.Obj().Pkg().Path() == pkgPath("object") {
			if _, isI := nt.Underlying().(*types.Interface); !isI {
				out[nt] = true
			}
		}
	}
	ast.Inspect(fd.Body, func(n ast.Node) bool {
		switch x := n.(type) {
		case *ast.TypeSwitchStmt:
			var subj ast.Expr
			switch a := x.Assign.(type) {
			case *ast.AssignStmt:
				subj = a.Rhs[0].(*ast.TypeAssertExpr).X
			case *ast.ExprStmt:
				subj = a.X.(*ast.TypeAssertExpr).X
			}
			if !isParam(subj) {
				return true
			}
			for _, cc := range x.Body.List {
				for _, e := range cc.(*ast.CaseClause).List {
					add(info.TypeOf(e))
				}
			}
		case *ast.TypeAssertExpr:
			if x.Type != nil && isParam(x.X) {
				add(info.TypeOf(x.Type))
			}
		}
		return true
	})
	return out
}

func c15r1(c *core.Ctx) {
	p := c.P
	obj := p.Pkg("object")
	objI := core.MustType(obj, "Object").Underlying().(*types.Interface)
	var typs []*types.Named
	for _, n := range obj.Types.Scope().Names() {
		if tn, ok := obj.Types.Scope().Lookup(n).(*types.TypeName); ok {
			if nt, ok := tn.Type().(*types.Named); ok {
				if _, isI := nt.Underlying().(*types.Interface); !isI && types.Implements(types.NewPointer(nt), objI) {
					typs = append(typs, nt)
				}
			}
		}
	}
	n := 0
	for _, method := range []string{"Equals", "Compare"} {
		rel := map[*types.Named]map[*types.Named]bool{}
		for _, t := range typs {
			if m := core.Method(t, method); m != nil {
				rel[t] = acceptedTypes(p, m)
			}
		}
		var as []*types.Named
		for a := range rel {
			as = append(as, a)
		}
		sort.Slice(as, func(i, j int) bool { return as[i].Obj().Name() < as[j].Obj().Name() })
		for _, a := range as {
			var bs []*types.Named
			for b := range rel[a] {
				bs = append(bs, b)
			}
			sort.Slice(bs, func(i, j int) bool { return bs[i].Obj().Name() < bs[j].Obj().Name() })
			for _, b := range bs {
				if a == b {
					continue
				}
				n++
				back, has := rel[b]
				okSym := has && back[a]
				m := core.Method(a, method)
				c.Check(okSym, "object."+a.Obj().Name()+"."+method+"|accepts:"+b.Obj().Name(), posOf(p, p.Decl(m)),
					a.Obj().Name()+"."+method+" handles an argument of type "+b.Obj().Name()+", so "+b.Obj().Name()+"."+method+" must handle "+a.Obj().Name()+" (otherwise x "+ifs(method == "Equals", "==")+ifs(method == "Compare", "<")+" y and the mirrored comparison disagree)")
			}
		}
	}
	c.Stat("cross_type_arms", n)
}

func c15r2(c *core.Ctx) {
	p := c.P
	obj := p.Pkg("object")
	info := obj.TypesInfo
	cmp := core.LookupFunc(obj, "Compare")
	notF := core.LookupFunc(obj, "Not")
	if cmp == nil {
		core.Undecidedf("object.Compare not found")
	}
	fd := p.Decl(cmp)
	// parameters a, b
	var pa, pb types.Object
	sig := cmp.Type().(*types.Signature)
	if sig.Params().Len() == 3 {
		pa, pb = sig.Params().At(1), sig.Params().At(2)
	}
	isEq := func(e ast.Expr) bool { // a.Equals(b)
		ce, ok := ast.Unparen(e).(*ast.CallExpr)
		if !ok || len(ce.Args) != 1 {
			return false
		}
		se, ok := ce.Fun.(*ast.SelectorExpr)
		if !ok || se.Sel.Name != "Equals" {
			return false
		}
		x, ok1 := se.X.(*ast.Ident)
		y, ok2 := ce.Args[0].(*ast.Ident)
		return ok1 && ok2 && info.Uses[x] == pa && info.Uses[y] == pb
	}
	arms := map[string]*ast.CaseClause{}
	ast.Inspect(fd.Body, func(n ast.Node) bool {
		if cc, ok := n.(*ast.CaseClause); ok {
			for _, e := range cc.List {
				if k, ok := objOf(info, e).(*types.Const); ok {
					arms[k.Name()] = cc
				}
			}
		}
		return true
	})
	retExpr := func(cc *ast.CaseClause) ast.Expr {
		if cc == nil {
			return nil
		}
		for _, s := range cc.Body {
			if r, ok := s.(*ast.ReturnStmt); ok && len(r.Results) >= 1 {
				return r.Results[0]
			}
		}
		return nil
	}
	eqOK := isEq(retExpr(arms["Equal"]))
	c.Check(eqOK, "object.Compare|Equal-arm", posOf(p, fd), "the == arm returns a.Equals(b)")
	neOK := false
	if e := retExpr(arms["NotEqual"]); e != nil {
		if ce, ok := ast.Unparen(e).(*ast.CallExpr); ok && calleeOf(info, ce) == notF && len(ce.Args) == 1 {
			inner := ast.Unparen(ce.Args[0])
			if ta, ok := inner.(*ast.TypeAssertExpr); ok {
				inner = ta.X
			}
			neOK = isEq(inner)
		}
	}
	c.Check(neOK, "object.Compare|NotEqual-arm", posOf(p, fd), "the != arm returns Not(a.Equals(b)) with the same operands in the same order")
	// ordering arms: value OP 0 with the expected operator, value = a.Compare(b)
	want := map[string]token.Token{"LessThan": token.LSS, "LessThanOrEqual": token.LEQ, "GreaterThan": token.GTR, "GreaterThanOrEqual": token.GEQ}
	for _, name := range sortedKeys(want) {
		okArm := false
		if e := retExpr(arms[name]); e != nil {
			if ce, ok := ast.Unparen(e).(*ast.CallExpr); ok && len(ce.Args) == 1 {
				if be, ok := ast.Unparen(ce.Args[0]).(*ast.BinaryExpr); ok && be.Op == want[name] {
					if k, isC := constInt(info, be.Y); isC && k == 0 {
						okArm = true
					}
				}
			}
		}
		c.Check(okArm, "object.Compare|"+name+"-arm", posOf(p, fd), "the "+name+" arm tests the sign of the single Compare result with the matching operator against 0")
	}
}

func c15r3(c *core.Ctx) {
	p := c.P
	obj := p.Pkg("object")
	info := obj.TypesInfo
	n := 0
	funcBodies(obj, func(fn *types.Func, fd *ast.FuncDecl) {
		if fn.Name() != "HashKey" || fd.Recv == nil || len(fd.Recv.List[0].Names) == 0 {
			return
		}
		recvObj := info.Defs[fd.Recv.List[0].Names[0]]
		recvT := core.RecvNamed(fn)
		n++
		var bad []string
		ast.Inspect(fd.Body, func(nd ast.Node) bool {
			cl, ok := nd.(*ast.CompositeLit)
			if !ok || !core.IsNamed(info.TypeOf(cl), pkgPath("object"), "HashKey") {
				return true
			}
			for _, e := range cl.Elts {
				kv, ok := e.(*ast.KeyValueExpr)
				if !ok {
					continue
				}
				field := exprStr(kv.Key)
				if field == "Type" {
					// the type's own Type() (method call on the receiver) or its constant
					okT := false
					if ce, ok := ast.Unparen(kv.Value).(*ast.CallExpr); ok {
						if se, ok := ce.Fun.(*ast.SelectorExpr); ok && se.Sel.Name == "Type" && objOf(info, se.X) == recvObj {
							okT = true
						}
					}
					if _, isConst := objOf(info, kv.Value).(*types.Const); isConst {
						okT = true
					}
					if !okT {
						bad = append(bad, "Type component is "+exprStr(kv.Value))
					}
					continue
				}
				if !payloadExpr(info, kv.Value, recvObj) {
					bad = append(bad, field+" is computed by "+exprStr(kv.Value)+" (only the payload field, a conversion of it, or a constant is allowed: a function of the payload can separate values that == identifies, e.g. the bit patterns of 0.0 and -0.0)")
				}
			}
			return true
		})
		c.Check(len(bad) == 0, "object."+recvT.Obj().Name()+".HashKey|payload-itself", posOf(p, fd), recvT.Obj().Name()+".HashKey is built from the payload field itself, so that hashing agrees with ==", bad...)
	})
	c.Stat("hashable_types", n)
}

// payloadExpr: receiver field selector, type conversion of one, constant, or a
// local variable assigned only constants (Bool's 0/1).
func payloadExpr(info *types.Info, e ast.Expr, recv types.Object) bool {
	e = ast.Unparen(e)
	if tv, ok := info.Types[e]; ok && tv.Value != nil {
		return true
	}
	switch x := e.(type) {
	case *ast.SelectorExpr:
		return fieldOf(info, x) != nil && objOf(info, x.X) == recv
	case *ast.CallExpr:
		if tv, ok := info.Types[x.Fun]; ok && tv.IsType() && len(x.Args) == 1 {
			return payloadExpr(info, x.Args[0], recv)
		}
		return false
	case *ast.Ident:
		// local flag variable
		_, isVar := info.Uses[x].(*types.Var)
		return isVar && !strings.Contains(x.Name, ".")
	}
	return false
}

func c15r4(c *core.Ctx) {
	p := c.P
	obj := p.Pkg("object")
	info := obj.TypesInfo
	n := 0
	check := func(fd *ast.FuncDecl, owner string) {
		n++
		bad := ""
		ast.Inspect(fd.Body, func(nd ast.Node) bool {
			be, ok := nd.(*ast.BinaryExpr)
			if !ok || be.Op != token.SUB {
				return true
			}
			t := info.TypeOf(be)
			if t == nil || !isIntType(t) {
				return true
			}
			if _, lc := constInt(info, be.X); lc {
				return true
			}
			if _, rc := constInt(info, be.Y); rc {
				return true
			}
			// lengths are non-negative and cannot wrap
			isLen := func(e ast.Expr) bool {
				ce, ok := ast.Unparen(e).(*ast.CallExpr)
				return ok && isBuiltinCall(info, ce, "len")
			}
			if isLen(be.X) && isLen(be.Y) {
				return true
			}
			bad = exprStr(be)
			return true
		})
		c.Check(bad == "", owner+"|no-subtraction-ordering", posOf(p, fd), owner+" does not derive an ordering from an integer difference"+ifs(bad != "", ": "+bad+" wraps around when the operands are more than 2^63-1 apart, reporting the wrong sign"))
	}
	helpers := map[*types.Func]bool{}
	funcBodies(obj, func(fn *types.Func, fd *ast.FuncDecl) {
		if fn.Name() == "Compare" && fd.Recv != nil {
			check(fd, "object."+declName(fd))
			ast.Inspect(fd.Body, func(nd ast.Node) bool {
				if ce, ok := nd.(*ast.CallExpr); ok {
					if cal := calleeOf(info, ce); cal != nil && cal.Pkg() == obj.Types && core.RecvNamed(cal) == nil {
						helpers[cal] = true
					}
				}
				return true
			})
		}
	})
	for h := range helpers {
		if fd := p.Decl(h); fd != nil && fd.Body != nil {
			// helper called with a difference computed at the call site is caught at the call site; helper bodies too
			check(fd, "object."+h.Name())
		}
	}
	c.Stat("compare_functions", n)
}
