package rules

import (
	"go/token"
	"go/types"

	"golang.org/x/tools/go/ssa"

	"risorcheck/core"
)

// Generalisations written for the sixteenth wave.

// ---------------------------------------------------------------------------
// processesAreStartedWithTheContext (C06): a child process that a script
// starts is bound to the context of the evaluation - os/exec.CommandContext -
// so that it is killed when the context ends and Run/Wait return.  A command
// made with os/exec.Command has no context: the evaluation waits for the
// child however long it runs.  Who-may-call rule over the resolved callees of
// every function of the module: exec.Command is called nowhere, and the
// module does make its commands (CommandContext is called).
func processesAreStartedWithTheContext(c *core.Ctx) {
	p := c.P
	withCtx := 0
	for _, fn := range repoFns(p) {
		for _, b := range fn.Blocks {
			for _, in := range b.Instrs {
				ci, ok := in.(ssa.CallInstruction)
				if !ok {
					continue
				}
				cal := ci.Common().StaticCallee()
				if cal == nil || cal.Pkg == nil || cal.Pkg.Pkg.Path() != "os/exec" {
					continue
				}
				switch cal.Name() {
				case "CommandContext":
					withCtx++
					c.Pass(core.SSAName(fn)+"|exec.CommandContext", p.Pos(in.Pos()), "the command is bound to a context")
				case "Command":
					c.Check(false, core.SSAName(fn)+"|exec.Command|no-context", p.Pos(in.Pos()),
						"the command is made with os/exec.Command, which has no context: when the evaluation's context ends the child is not killed and run()/wait() return only when it exits on its own")
				}
			}
		}
	}
	// (also a method value or a stored function would be a way around the rule)
	for _, fn := range repoFns(p) {
		for _, b := range fn.Blocks {
			for _, in := range b.Instrs {
				for _, op := range in.Operands(nil) {
					if f, ok := (*op).(*ssa.Function); ok && f.Pkg != nil && f.Pkg.Pkg.Path() == "os/exec" && f.Name() == "Command" {
						if ci, isCall := in.(ssa.CallInstruction); isCall && ci.Common().StaticCallee() == f {
							continue
						}
						c.Check(false, core.SSAName(fn)+"|exec.Command|as-a-value", p.Pos(in.Pos()), "os/exec.Command is taken as a value: commands made through it have no context")
					}
				}
			}
		}
	}
	c.Stat("commands_made_with_a_context", withCtx)
}

// ---------------------------------------------------------------------------
// aCodecWritesIntoStorageOfItsOwn (C19): the (dst, src) functions of
// encoding/hex, encoding/base64 and encoding/base32 are given a destination
// that the codec made itself.  A destination that is (a window onto) the
// source - which for a byte_slice or a buffer is the storage of the script's
// value - overwrites the value that is being decoded: decoding it again gives
// something else, and the result changes when the argument is written to.
func aCodecWritesIntoStorageOfItsOwn(c *core.Ctx) {
	p := c.P
	n := 0
	for _, fn := range repoFns(p) {
		for _, b := range fn.Blocks {
			for _, in := range b.Instrs {
				ci, ok := in.(ssa.CallInstruction)
				if !ok {
					continue
				}
				cc := ci.Common()
				cal := cc.StaticCallee()
				if cal == nil || cal.Pkg == nil {
					continue
				}
				switch cal.Pkg.Pkg.Path() {
				case "encoding/hex", "encoding/base64", "encoding/base32":
				default:
					continue
				}
				if cal.Name() != "Decode" && cal.Name() != "Encode" {
					continue
				}
				args := cc.Args
				if cal.Signature.Recv() != nil {
					args = args[1:]
				}
				if len(args) != 2 {
					continue
				}
				n++
				fresh := true
				why := ""
				srcO := map[ssa.Value]bool{}
				for _, o := range core.Origins(args[1]) {
					srcO[o] = true
				}
				for _, o := range core.Origins(args[0]) {
					if srcO[o] {
						fresh, why = false, "is the source itself"
						break
					}
					switch o.(type) {
					case *ssa.MakeSlice, *ssa.Alloc:
					default:
						fresh, why = false, "is not made here"
					}
				}
				c.Check(fresh, core.SSAName(fn)+"|"+cal.Pkg.Pkg.Name()+"."+cal.Name()+"|destination-made-here", p.Pos(in.Pos()),
					"the destination of "+cal.Pkg.Pkg.Name()+"."+cal.Name()+ife(fresh, " is made by the codec", " "+why+": the codec writes over the bytes it was given (the storage of the script's byte_slice or buffer), so the encoded value is not what it was and a second decode of it does not give the original"))
			}
		}
	}
	c.Stat("dst_src_codec_calls", n)
}

// ---------------------------------------------------------------------------
// aModuleCopyHasTablesOfItsOwn (C11): (*Module).Copy is what gives a
// configuration a module of its own before a dotted override edits it.  Every
// field of Module that is a map or a slice is, in the copy, a container made
// in Copy: one taken over from the original is the original's, and Override
// on the copy writes where every other configuration (and the host) reads.
func aModuleCopyHasTablesOfItsOwn(c *core.Ctx) {
	p := c.P
	op := p.Pkg("object")
	modT := core.MustType(op, "Module")
	st := modT.Underlying().(*types.Struct)
	var cp *ssa.Function
	for _, fn := range repoFns(p, "object") {
		if fn.Name() == "Copy" && fn.Signature.Recv() != nil {
			if pt, ok := fn.Signature.Recv().Type().(*types.Pointer); ok && core.NamedOf(pt.Elem()) == modT {
				cp = fn
			}
		}
	}
	if cp == nil {
		return // no obligations: the floor makes the rule undecided
	}
	recv := cp.Params[0]
	n := 0
	for i := 0; i < st.NumFields(); i++ {
		f := st.Field(i)
		switch f.Type().Underlying().(type) {
		case *types.Map, *types.Slice:
		default:
			continue
		}
		n++
		stores, aliased := 0, false
		for _, b := range cp.Blocks {
			for _, in := range b.Instrs {
				s, ok := in.(*ssa.Store)
				if !ok {
					continue
				}
				fa, ok := s.Addr.(*ssa.FieldAddr)
				if !ok || fa.Field != i || core.NamedOf(fa.X.Type()) != modT || fa.X == ssa.Value(recv) {
					continue
				}
				stores++
				for _, o := range core.Origins(s.Val) {
					switch v := o.(type) {
					case *ssa.MakeMap, *ssa.MakeSlice:
					case *ssa.UnOp:
						if v.Op == token.MUL {
							aliased = true
						}
					default:
						aliased = true
					}
				}
			}
		}
		c.Check(stores > 0 && !aliased, "(*object.Module).Copy|"+f.Name()+"|made-in-the-copy", p.Pos(cp.Pos()),
			"the copy's "+f.Name()+ife(stores > 0 && !aliased, " is a container made in Copy", ife(stores == 0, " is never set: the copy has lost the table", " is the original's: an override on one configuration's copy of the module writes the slot that every other configuration and the host read")))
	}
	c.Stat("module_container_fields", n)
}

// ---------------------------------------------------------------------------
// whatAFunctionCountsUpItCountsDownOnEveryWayOut (C18, C07): a counter of the
// VM that a function increments and also decrements (the nesting depth of
// deferred calls) is state of the VM that outlives the call and the piece.  A
// way out of the function between the increment and the decrement - the early
// return of an error - leaves the counter one up for good: failed pieces add
// up until the limit refuses a later piece that has done nothing wrong.  Path
// rule over the SSA blocks: from every increment, every path to a return
// passes the decrement or a defer of a function that decrements.
func fieldStep(in ssa.Instruction) (recvT *types.Named, field int, up, ok bool) {
	s, isStore := in.(*ssa.Store)
	if !isStore {
		return
	}
	fa, isFA := s.Addr.(*ssa.FieldAddr)
	if !isFA {
		return
	}
	bo, isBin := s.Val.(*ssa.BinOp)
	if !isBin || (bo.Op != token.ADD && bo.Op != token.SUB) {
		return
	}
	if k, isConst := bo.Y.(*ssa.Const); !isConst || k.Value == nil || k.Value.ExactString() != "1" {
		return
	}
	ld, isLoad := bo.X.(*ssa.UnOp)
	if !isLoad || ld.Op != token.MUL {
		return
	}
	fa2, isFA2 := ld.X.(*ssa.FieldAddr)
	if !isFA2 || fa2.Field != fa.Field || core.NamedOf(fa2.X.Type()) != core.NamedOf(fa.X.Type()) || core.NamedOf(fa.X.Type()) == nil {
		return
	}
	return core.NamedOf(fa.X.Type()), fa.Field, bo.Op == token.ADD, true
}

func whatAFunctionCountsUpItCountsDownOnEveryWayOut(c *core.Ctx) {
	p := c.P
	vmT := core.MustType(p.Pkg("vm"), "VirtualMachine")
	n := 0
	for _, fn := range repoFns(p, "vm") {
		if fn.Parent() != nil {
			continue
		}
		type site struct {
			b *ssa.BasicBlock
			i int
		}
		ups := map[int][]site{}
		downs := map[int]map[ssa.Instruction]bool{}
		note := func(f int, in ssa.Instruction) {
			if downs[f] == nil {
				downs[f] = map[ssa.Instruction]bool{}
			}
			downs[f][in] = true
		}
		for _, b := range fn.Blocks {
			for i, in := range b.Instrs {
				if t, f, up, ok := fieldStep(in); ok && t == vmT {
					if up {
						ups[f] = append(ups[f], site{b, i})
					} else {
						note(f, in)
					}
				}
				if d, ok := in.(*ssa.Defer); ok {
					var callee *ssa.Function
					if mc, ok := d.Call.Value.(*ssa.MakeClosure); ok {
						callee, _ = mc.Fn.(*ssa.Function)
					} else {
						callee = d.Call.StaticCallee()
					}
					if callee != nil && core.RepoFunc(callee) {
						for _, cb := range callee.Blocks {
							for _, cin := range cb.Instrs {
								if t, f, up, ok := fieldStep(cin); ok && t == vmT && !up {
									note(f, in)
								}
							}
						}
					}
				}
			}
		}
		for f, sites := range ups {
			if len(downs[f]) == 0 {
				continue // counts up only: not a depth that this function takes back
			}
			fname := fieldNameOf(vmT, f)
			for k, s := range sites {
				n++
				leak := ""
				seen := map[*ssa.BasicBlock]bool{}
				var walk func(b *ssa.BasicBlock, from int)
				walk = func(b *ssa.BasicBlock, from int) {
					for _, in := range b.Instrs[from:] {
						if downs[f][in] {
							return
						}
						if r, ok := in.(*ssa.Return); ok && leak == "" {
							leak = p.Pos(r.Pos())
							return
						}
					}
					for _, su := range b.Succs {
						if !seen[su] {
							seen[su] = true
							walk(su, 0)
						}
					}
				}
				walk(s.b, s.i+1)
				c.Check(leak == "", core.SSAName(fn)+"|"+fname+"|counted-down-on-every-way-out|"+sprintf("%d", k+1), p.Pos(s.b.Instrs[s.i].Pos()),
					core.SSAName(fn)+" counts vm."+fname+" up and "+ife(leak == "", "every way out counts it down again", "the return at "+leak+" is reached without counting it down: the VM keeps the level, and enough calls that leave this way make a later, blameless piece fail at the limit"))
			}
		}
	}
	c.Stat("paired_counter_increments", n)
}

// ---------------------------------------------------------------------------
// aCaseForATypeCanBeReachedByAValueOfThatType (C15): Equals and Compare of a
// script type decide by the dynamic type of the other operand, in a type
// switch, and some first look at other.Type().  The two must agree: a case
// `*T` that sits behind a test of other.Type() which a T does not pass never
// runs, and the pair (receiver, T) silently falls to "not equal" on this side
// while the other side still says "equal" - == is no longer symmetric and no
// longer agrees with <= and >=.  Decided by walking the SSA blocks of each
// such method under the one assumption other.Type() == the constant that
// (*T).Type returns: a test of other.Type() against a constant takes the one
// branch the assumption gives, every other branch is taken both ways, and the
// block that asserts other to *T must be reached.
func typeConstOf(p *core.Program, t *types.Named) (string, bool) {
	for fn := range p.AllFunctions() {
		if fn.Name() != "Type" || fn.Signature.Recv() == nil || fn.Blocks == nil || fn.Synthetic != "" {
			continue
		}
		rt := fn.Signature.Recv().Type()
		if pt, ok := rt.(*types.Pointer); ok {
			rt = pt.Elem()
		}
		if core.NamedOf(rt) != t {
			continue
		}
		val, n := "", 0
		for _, b := range fn.Blocks {
			for _, in := range b.Instrs {
				if r, ok := in.(*ssa.Return); ok && len(r.Results) == 1 {
					k, ok := r.Results[0].(*ssa.Const)
					if !ok || k.Value == nil {
						return "", false
					}
					if n > 0 && val != k.Value.ExactString() {
						return "", false
					}
					val = k.Value.ExactString()
					n++
				}
			}
		}
		return val, n > 0
	}
	return "", false
}

func aCaseForATypeCanBeReachedByAValueOfThatType(c *core.Ctx) {
	p := c.P
	objP := p.Pkg("object")
	n := 0
	for _, fn := range repoFns(p, "object") {
		if (fn.Name() != "Equals" && fn.Name() != "Compare") || fn.Signature.Recv() == nil || len(fn.Params) != 2 {
			continue
		}
		other := fn.Params[1]
		if _, ok := other.Type().Underlying().(*types.Interface); !ok {
			continue
		}
		isTypeCall := func(v ssa.Value) bool {
			cl, ok := v.(*ssa.Call)
			return ok && cl.Call.IsInvoke() && cl.Call.Method.Name() == "Type" && cl.Call.Value == ssa.Value(other)
		}
		done := map[*types.Named]bool{}
		for _, b := range fn.Blocks {
			for _, in := range b.Instrs {
				ta, ok := in.(*ssa.TypeAssert)
				if !ok || ta.X != ssa.Value(other) {
					continue
				}
				at := ta.AssertedType
				if pt, ok := at.(*types.Pointer); ok {
					at = pt.Elem()
				}
				T := core.NamedOf(at)
				if T == nil || T.Obj().Pkg() != objP.Types || done[T] {
					continue
				}
				K, ok := typeConstOf(p, T)
				if !ok {
					continue
				}
				done[T] = true
				// every block that asserts other to *T
				goal := map[*ssa.BasicBlock]bool{}
				for _, b2 := range fn.Blocks {
					for _, in2 := range b2.Instrs {
						if ta2, ok := in2.(*ssa.TypeAssert); ok && ta2.X == ssa.Value(other) && types.Identical(ta2.AssertedType, ta.AssertedType) {
							goal[b2] = true
						}
					}
				}
				seen := map[*ssa.BasicBlock]bool{fn.Blocks[0]: true}
				work := []*ssa.BasicBlock{fn.Blocks[0]}
				reached := false
				for len(work) > 0 && !reached {
					cur := work[len(work)-1]
					work = work[:len(work)-1]
					if goal[cur] {
						reached = true
						break
					}
					succs := cur.Succs
					if len(cur.Instrs) > 0 {
						if iff, ok := cur.Instrs[len(cur.Instrs)-1].(*ssa.If); ok {
							if bo, ok := iff.Cond.(*ssa.BinOp); ok && (bo.Op == token.EQL || bo.Op == token.NEQ) {
								var k *ssa.Const
								if isTypeCall(bo.X) {
									k, _ = bo.Y.(*ssa.Const)
								} else if isTypeCall(bo.Y) {
									k, _ = bo.X.(*ssa.Const)
								}
								if k != nil && k.Value != nil {
									eq := k.Value.ExactString() == K
									if (bo.Op == token.EQL) == eq {
										succs = cur.Succs[:1]
									} else {
										succs = cur.Succs[1:2]
									}
								}
							}
						}
					}
					for _, su := range succs {
						if !seen[su] {
							seen[su] = true
							work = append(work, su)
						}
					}
				}
				n++
				c.Check(reached, core.SSAName(fn)+"|case:"+T.Obj().Name()+"|reachable-by-a-"+T.Obj().Name(), p.Pos(ta.Pos()),
					core.SSAName(fn)+" has a case for *"+T.Obj().Name()+ife(reached, " that a value of that type reaches", " that no value of that type reaches: the tests of other.Type() before it turn away "+K+", so this side of the comparison answers as for an unrelated type while the other side still compares the values"))
			}
		}
	}
	c.Stat("type_cases_in_equals_and_compare", n)
}

// ---------------------------------------------------------------------------
// theTargetOfACompoundAssignmentIsReadBeforeTheValueIsEvaluated (C01):
// `x += f()` reads x, then evaluates f(), then applies the operator: left to
// right.  In the compile methods of the nodes that have an operator and a
// value (assignment to a name, to an attribute, to an element), no path goes
// from the compile of node.Value() through the emission of a read of the
// target (LoadGlobal, LoadFast, LoadFree, LoadAttr, BinarySubscr) to the
// emission of BinaryOp: a target that is read after the value sees what the
// value's evaluation did to it (a Swap keeps the operand order and hides the
// change from every program whose right-hand side does not write the target).
func theTargetOfACompoundAssignmentIsReadBeforeTheValueIsEvaluated(c *core.Ctx) {
	p := c.P
	reads := map[string]bool{"LoadGlobal": true, "LoadFast": true, "LoadFree": true, "LoadAttr": true, "BinarySubscr": true}
	n := 0
	for _, fn := range repoFns(p, "compiler") {
		if fn.Parent() != nil || fn.Signature.Recv() == nil || len(fn.Params) != 2 {
			continue
		}
		node := fn.Params[1]
		ms := types.NewMethodSet(node.Type())
		hasOp, hasVal := false, false
		for i := 0; i < ms.Len(); i++ {
			switch ms.At(i).Obj().Name() {
			case "Operator":
				hasOp = true
			case "Value":
				hasVal = true
			}
		}
		if !hasOp || !hasVal {
			continue
		}
		// classify the instructions of the function
		kind := map[ssa.Instruction]string{}
		for _, b := range fn.Blocks {
			for _, in := range b.Instrs {
				ci, ok := in.(ssa.CallInstruction)
				if !ok {
					continue
				}
				cal := ci.Common().StaticCallee()
				if cal == nil || cal.Signature.Recv() == nil || len(ci.Common().Args) < 2 {
					continue
				}
				switch cal.Name() {
				case "compile":
					arg := ci.Common().Args[1]
					for {
						if ch, ok := arg.(*ssa.ChangeInterface); ok {
							arg = ch.X
						} else if mi, ok := arg.(*ssa.MakeInterface); ok {
							arg = mi.X
						} else {
							break
						}
					}
					for _, o := range core.Origins(arg) {
						if cl, ok := o.(*ssa.Call); ok {
							if f := cl.Call.StaticCallee(); f != nil && f.Name() == "Value" && len(cl.Call.Args) > 0 && cl.Call.Args[0] == ssa.Value(node) {
								kind[in] = "value"
							}
						}
					}
				case "emit":
					if k, ok := ci.Common().Args[1].(*ssa.Const); ok {
						name := opConstName(p, k)
						if reads[name] {
							kind[in] = "read"
						} else if name == "BinaryOp" {
							kind[in] = "binop"
						}
					}
				}
			}
		}
		k := 0
		for _, b := range fn.Blocks {
			for i, in := range b.Instrs {
				if kind[in] != "value" {
					continue
				}
				n++
				k++
				type st struct {
					b *ssa.BasicBlock
					s int
				}
				seen := map[st]bool{}
				bad := ""
				var walk func(b *ssa.BasicBlock, from, s int)
				walk = func(b *ssa.BasicBlock, from, s int) {
					for _, in2 := range b.Instrs[from:] {
						switch kind[in2] {
						case "read":
							s = 1
						case "binop":
							if s == 1 && bad == "" {
								bad = p.Pos(in2.Pos())
							}
							return
						case "value":
							return
						}
					}
					for _, su := range b.Succs {
						if !seen[st{su, s}] {
							seen[st{su, s}] = true
							walk(su, 0, s)
						}
					}
				}
				walk(b, i+1, 0)
				c.Check(bad == "", core.SSAName(fn)+"|value-compiled-after-the-target-is-read|"+sprintf("%d", k), p.Pos(in.Pos()),
					core.SSAName(fn)+ife(bad == "", " reads the target of a compound assignment before it compiles the value", " compiles the value and only then emits the read of the target that the BinaryOp at "+bad+" combines it with: `x += f()` uses the x that f() left behind, not the x that stood there when the statement began"))
			}
		}
	}
	c.Stat("value_compiles_in_operator_nodes", n)
}

// ---------------------------------------------------------------------------
// theCursorIsComparedWithTheLengthBeforeTheCharacterIsRead (C03): the lexer
// reads its input through cursor fields (position, nextPosition) that run up
// to, and stand at, len(characters) when the input is used up.  An element
// read `l.characters[l.<cursor>]` is on the in-range side of a comparison of
// that same cursor with len(l.characters) in the same function; without it
// an input that ends where this function looks one ahead (a block comment
// left open after a `*`) indexes past the end, and the panic leaves
// parser.Parse and risor.Eval as a Go panic, not as an error.
func theCursorIsComparedWithTheLengthBeforeTheCharacterIsRead(c *core.Ctx) {
	p := c.P
	lexT := core.MustType(p.Pkg("lexer"), "Lexer")
	chIdx := fieldIdxByName(lexT, "characters")
	if chIdx < 0 {
		return
	}
	isLen := func(v ssa.Value) bool {
		cl, ok := v.(*ssa.Call)
		if !ok {
			return false
		}
		b, ok := cl.Call.Value.(*ssa.Builtin)
		if !ok || b.Name() != "len" || len(cl.Call.Args) != 1 {
			return false
		}
		_, ok = loadOfField(cl.Call.Args[0], lexT, chIdx)
		return ok
	}
	n := 0
	for _, fn := range repoFns(p, "lexer") {
		k := 0
		for _, b := range fn.Blocks {
			for _, in := range b.Instrs {
				ia, ok := in.(*ssa.IndexAddr)
				if !ok {
					continue
				}
				if _, ok := loadOfField(ia.X, lexT, chIdx); !ok {
					continue
				}
				cur, ok := loadOfAnyFieldOf(ia.Index, lexT)
				if !ok {
					continue // indexed by a local: decided by the interval rules
				}
				n++
				k++
				guarded := false
				for _, gb := range fn.Blocks {
					if len(gb.Instrs) == 0 || len(gb.Succs) != 2 {
						continue
					}
					iff, ok := gb.Instrs[len(gb.Instrs)-1].(*ssa.If)
					if !ok {
						continue
					}
					bo, ok := iff.Cond.(*ssa.BinOp)
					if !ok {
						continue
					}
					op, x, y := bo.Op, bo.X, bo.Y
					if isLen(x) { // len OP cursor  ->  cursor OP' len
						x, y = y, x
						switch op {
						case token.LSS:
							op = token.GTR
						case token.GTR:
							op = token.LSS
						case token.LEQ:
							op = token.GEQ
						case token.GEQ:
							op = token.LEQ
						}
					}
					if !isLen(y) {
						continue
					}
					f2, ok := loadOfAnyFieldOf(x, lexT)
					if !ok || f2.Field != cur.Field {
						continue
					}
					var inRange *ssa.BasicBlock
					switch op {
					case token.LSS:
						inRange = gb.Succs[0]
					case token.GEQ:
						inRange = gb.Succs[1]
					default:
						continue
					}
					if len(inRange.Preds) == 1 && inRange.Dominates(b) {
						guarded = true
					}
				}
				fname := fieldNameOf(lexT, cur.Field)
				c.Check(guarded, core.SSAName(fn)+"|characters[l."+fname+"]|behind-comparison-with-len|"+sprintf("%d", k), p.Pos(ia.Pos()),
					fn.Name()+" reads characters[l."+fname+"]"+ife(guarded, " on the in-range side of a comparison of l."+fname+" with len(l.characters)", " without having compared l."+fname+" with len(l.characters): when the input ends here the read is past the end, and the panic leaves Parse and Eval as a Go panic"))
			}
		}
	}
	c.Stat("cursor_indexed_reads", n)
}

// loadOfAnyFieldOf: v is the load of a field (of any type) of a value of type nt.
func loadOfAnyFieldOf(v ssa.Value, nt *types.Named) (*ssa.FieldAddr, bool) {
	u, ok := v.(*ssa.UnOp)
	if !ok || u.Op != token.MUL {
		return nil, false
	}
	fa, ok := u.X.(*ssa.FieldAddr)
	if !ok || core.NamedOf(fa.X.Type()) != nt {
		return nil, false
	}
	return fa, true
}
