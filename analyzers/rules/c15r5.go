package rules

import (
	"sort"
	"strings"

	"golang.org/x/tools/go/ssa"

	"risorcheck/core"
)

// c15r5: a sort whose order comes from the script-level ordering (a
// Comparable's Compare, or a script callback) is stable.  That ordering is not
// total on distinguishable values (1 and 1.0 compare equal), so an unstable
// algorithm makes the result depend on the input permutation and breaks
// idempotence of sorted().
func c15r5(c *core.Ctx) {
	p := c.P
	var fns []*ssa.Function
	for fn := range p.AllFunctions() {
		if fn.Blocks != nil && core.RepoFunc(fn) && !strings.HasSuffix(p.Fset.Position(fn.Pos()).Filename, "_test.go") {
			fns = append(fns, fn)
		}
	}
	sort.Slice(fns, func(i, j int) bool { return core.SSAName(fns[i]) < core.SSAName(fns[j]) })
	var inFn func(f *ssa.Function, depth int) bool
	scriptOrdered := func(less ssa.Value) bool {
		var f *ssa.Function
		switch x := less.(type) {
		case *ssa.MakeClosure:
			f, _ = x.Fn.(*ssa.Function)
		case *ssa.Function:
			f = x
		}
		if f == nil || f.Blocks == nil {
			return true // unknown comparator: assume script-level
		}
		return inFn(f, 0)
	}
	// the comparison may sit in a helper of the comparator (followed to depth 2)
	inFn = func(f *ssa.Function, depth int) bool {
		for _, b := range f.Blocks {
			for _, in := range b.Instrs {
				ci, ok := in.(ssa.CallInstruction)
				if !ok {
					continue
				}
				com := ci.Common()
				if com.IsInvoke() && (com.Method.Name() == "Compare" || com.Method.Name() == "Call") {
					return true
				}
				if com.StaticCallee() == nil && !com.IsInvoke() {
					if _, isB := com.Value.(*ssa.Builtin); !isB {
						return true // call through a function value (script callback)
					}
				}
				if cal := com.StaticCallee(); cal != nil && (cal.Name() == "Compare" || cal.Name() == "CompareTypes") && core.RepoFunc(cal) {
					return true
				}
				if cal := com.StaticCallee(); cal != nil && cal.Blocks != nil && core.RepoFunc(cal) && depth < 2 && inFn(cal, depth+1) {
					return true
				}
			}
		}
		return false
	}
	n := 0
	idx := map[string]int{}
	for _, fn := range fns {
		for _, b := range fn.Blocks {
			for _, in := range b.Instrs {
				ci, ok := in.(ssa.CallInstruction)
				if !ok {
					continue
				}
				cal := ci.Common().StaticCallee()
				if cal == nil || cal.Pkg == nil || cal.Pkg.Pkg == nil {
					continue
				}
				path, name := cal.Pkg.Pkg.Path(), cal.Name()
				unstable := (path == "sort" && (name == "Slice" || name == "Sort")) || (path == "slices" && (name == "SortFunc" || name == "Sort"))
				stable := (path == "sort" && (name == "SliceStable" || name == "Stable")) || (path == "slices" && name == "SortStableFunc")
				if !unstable && !stable {
					continue
				}
				args := ci.Common().Args
				var less ssa.Value
				if len(args) == 2 {
					less = args[1]
				}
				if len(args) == 1 || less == nil {
					// sort.Sort(x): the order is x.Less
					continue
				}
				if !scriptOrdered(less) {
					continue
				}
				n++
				idx[core.SSAName(fn)]++
				c.Check(stable, core.SSAName(fn)+"|sort#"+itoa(idx[core.SSAName(fn)])+"|stable", p.Pos(in.Pos()),
					fn.Name()+" orders by the script-level comparison, which leaves distinguishable values tied: the algorithm is stable ("+path+"."+name+")")
			}
		}
	}
	c.Stat("script_ordered_sorts", n)
}
