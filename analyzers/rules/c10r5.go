package rules

import (
	"sort"
	"strings"

	"golang.org/x/tools/go/ssa"

	"risorcheck/core"
)

// c10r5: the error of a spawned call reaches wait() by identity.  On the spawn
// path (the adapter that runs a script function in the new thread, the thread's
// goroutine and Wait) an error value is wrapped as it is (NewError(err)); it is
// never re-rendered through err.Error() into a format string or a new error,
// which loses errors.Is identity and mangles any '%' in the message.
func c10r5(c *core.Ctx) {
	p := c.P
	op := p.Pkg("object")
	sp := p.SSAPkg(op)
	roots := map[string]bool{}
	for _, name := range []string{"callFuncAdapter", "Thread"} {
		if nt := core.LookupType(op, name); nt != nil {
			for _, m := range core.Methods(nt) {
				if sf := p.SSAFunc(m); sf != nil {
					roots[core.SSAName(sf)] = true
				}
			}
		} else {
			core.Undecidedf("object.%s not found", name)
		}
	}
	for _, name := range []string{"Spawn", "NewThread"} {
		f := core.LookupFunc(op, name)
		if f == nil {
			core.Undecidedf("object.%s not found", name)
		}
		roots[core.SSAName(p.SSAFunc(f))] = true
	}
	var fns []*ssa.Function
	for fn := range p.AllFunctions() {
		if fn.Blocks == nil || fn.Pkg != sp || strings.HasSuffix(p.Fset.Position(fn.Pos()).Filename, "_test.go") {
			continue
		}
		r := fn
		for r.Parent() != nil {
			r = r.Parent()
		}
		if roots[core.SSAName(r)] {
			fns = append(fns, fn)
		}
	}
	sort.Slice(fns, func(i, j int) bool { return core.SSAName(fns[i]) < core.SSAName(fns[j]) })
	for _, fn := range fns {
		bad := ""
		for _, b := range fn.Blocks {
			for _, in := range b.Instrs {
				call, ok := in.(*ssa.Call)
				if !ok || !call.Call.IsInvoke() || call.Call.Method.Name() != "Error" || !isErrorType(call.Call.Value.Type()) {
					continue
				}
				// the rendered text is used as an argument of another call (a constructor of a new error)
				if refs := call.Referrers(); refs != nil {
					for _, r := range *refs {
						switch r.(type) {
						case *ssa.Call, *ssa.Store, *ssa.MakeInterface:
							bad = p.Pos(call.Pos())
						}
					}
				}
			}
		}
		c.Check(bad == "", core.SSAName(fn)+"|error-by-identity", p.Pos(fn.Pos()),
			fn.Name()+" (spawn path) passes an error on as the value it is"+ifs(bad != "", "; at "+bad+" it is re-rendered through Error() into a new value"))
	}
	c.Stat("spawn_path_functions", len(fns))
}
