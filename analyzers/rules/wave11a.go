package rules

import (
	"go/ast"
	"go/token"
	"go/types"
	"sort"
	"strings"

	"golang.org/x/tools/go/ssa"

	"risorcheck/core"
)

// Generalisations written after the first evaluation of the eleventh wave, and
// the rules for the defects found from that wave's baseline reports.

// ---------------------------------------------------------------------------
// failedAssertionsAreNotUsed: `v, ok := x.(T)` leaves v nil (T an interface or
// a pointer) when the assertion fails.  A method call on v, or a field access
// through it, is made only where ok is known to hold (or v is known not to be
// nil).  A function that tests ok and goes on to use v on the path where the
// test failed contradicts itself: either the test or the use is wrong, and
// the use is a nil dereference (sorted([{}, {}]) called Compare on a nil
// Comparable).
func failedAssertionsAreNotUsed(c *core.Ctx) {
	p := c.P
	n, uses := 0, 0
	for _, fn := range repoFns(p) {
		k := 0
		for _, b := range fn.Blocks {
			for _, in := range b.Instrs {
				ta, ok := in.(*ssa.TypeAssert)
				if !ok || !ta.CommaOk || ta.Referrers() == nil {
					continue
				}
				nilable := false
				switch ta.AssertedType.Underlying().(type) {
				case *types.Interface, *types.Pointer:
					nilable = true
				}
				if !nilable {
					continue
				}
				var val, okv *ssa.Extract
				for _, r := range *ta.Referrers() {
					if ex, ok := r.(*ssa.Extract); ok {
						if ex.Index == 0 {
							val = ex
						} else {
							okv = ex
						}
					}
				}
				if val == nil || val.Referrers() == nil {
					continue
				}
				n++
				// blocks in which the assertion is known to have succeeded
				var guards []*ssa.BasicBlock
				addGuard := func(cond ssa.Value, whenTrue bool) {
					if cond.Referrers() == nil {
						return
					}
					for _, r := range *cond.Referrers() {
						switch x := r.(type) {
						case *ssa.If:
							s := x.Block().Succs[0]
							if !whenTrue {
								s = x.Block().Succs[1]
							}
							if len(s.Preds) == 1 {
								guards = append(guards, s)
							}
						}
					}
				}
				var follow func(cond ssa.Value, whenTrue bool, d int)
				follow = func(cond ssa.Value, whenTrue bool, d int) {
					addGuard(cond, whenTrue)
					if d > 2 || cond.Referrers() == nil {
						return
					}
					for _, r := range *cond.Referrers() {
						if u, ok := r.(*ssa.UnOp); ok && u.Op == token.NOT {
							follow(u, !whenTrue, d+1)
						}
					}
				}
				if okv != nil {
					follow(okv, true, 0)
				}
				// v != nil / v == nil
				for _, r := range *val.Referrers() {
					if bo, ok := r.(*ssa.BinOp); ok && (bo.Op == token.NEQ || bo.Op == token.EQL) {
						other := bo.Y
						if other == ssa.Value(val) {
							other = bo.X
						}
						if cst, ok := other.(*ssa.Const); ok && cst.IsNil() {
							follow(bo, bo.Op == token.NEQ, 0)
						}
					}
				}
				guarded := func(u ssa.Instruction) bool {
					for _, g := range guards {
						if g == u.Block() || g.Dominates(u.Block()) {
							return true
						}
					}
					return false
				}
				for _, r := range *val.Referrers() {
					deref := ""
					switch x := r.(type) {
					case ssa.CallInstruction:
						com := x.Common()
						if com.IsInvoke() && com.Value == ssa.Value(val) {
							deref = "calls " + com.Method.Name() + " on it"
						} else if cal := com.StaticCallee(); cal != nil && cal.Signature.Recv() != nil && len(com.Args) > 0 && com.Args[0] == ssa.Value(val) {
							// a method with a pointer receiver: reads through the receiver unless it tests it
							if receiverIsDereferenced(cal) {
								deref = "calls " + cal.Name() + " on it"
							}
						}
					case *ssa.FieldAddr:
						if x.X == ssa.Value(val) {
							deref = "reads a field through it"
						}
					case *ssa.UnOp:
						if x.Op == token.MUL && x.X == ssa.Value(val) {
							deref = "dereferences it"
						}
					}
					if deref == "" {
						continue
					}
					uses++
					k++
					okUse := guarded(r)
					c.Check(okUse, core.SSAName(fn)+"|"+shortType(ta.AssertedType)+"|used-where-the-assertion-held|"+sprintf("%d", k), p.Pos(r.Pos()),
						fn.Name()+" asserts a value to "+shortType(ta.AssertedType)+" in the two-valued form and "+deref+ife(okUse, " where the assertion is known to have succeeded", " on a path where the assertion may have failed: the value is nil there and the use panics (sorted([{}, {}]) called Compare on a nil Comparable)"))
				}
			}
		}
	}
	c.Stat("two_valued_assertions", n)
	c.Stat("dereferencing_uses", uses)
}

func shortType(t types.Type) string {
	return types.TypeString(t, func(pk *types.Package) string { return pk.Name() })
}

// receiverIsDereferenced: the method reads through its pointer receiver
// without testing it against nil first (in the entry block).
func receiverIsDereferenced(fn *ssa.Function) bool {
	if fn.Blocks == nil || len(fn.Params) == 0 {
		return false
	}
	recv := fn.Params[0]
	if _, ok := recv.Type().Underlying().(*types.Pointer); !ok {
		return false
	}
	if recv.Referrers() == nil {
		return false
	}
	for _, r := range *recv.Referrers() {
		if bo, ok := r.(*ssa.BinOp); ok && (bo.Op == token.EQL || bo.Op == token.NEQ) {
			return false
		}
	}
	for _, r := range *recv.Referrers() {
		switch x := r.(type) {
		case *ssa.FieldAddr:
			if x.X == ssa.Value(recv) {
				return true
			}
		case *ssa.UnOp:
			if x.Op == token.MUL {
				return true
			}
		}
	}
	return false
}

var _ = strings.HasPrefix

// ---------------------------------------------------------------------------
// deferredReentryIsBounded: a call from script code into the VM pushes a
// frame, and the frame table bounds how deeply such calls nest.  What a
// function defers runs when the function is left, after its frame has been
// given back: a deferred Go closure that calls back into the function that
// deferred it (the VM running a script function's `defer` statements) nests
// without the frame table noticing.  Such a closure counts its own nesting in
// a field of the VM and refuses beyond a limit (func f() { defer f() }; f()
// exhausted the native stack, which ends the process).
func deferredReentryIsBounded(c *core.Ctx) {
	p := c.P
	cg := p.CallGraph()
	vmT := vmType(p)
	n := 0
	for _, fn := range repoFns(p, "vm") {
		k := 0
		for _, b := range fn.Blocks {
			for _, in := range b.Instrs {
				df, ok := in.(*ssa.Defer)
				if !ok {
					continue
				}
				var g *ssa.Function
				switch x := df.Call.Value.(type) {
				case *ssa.MakeClosure:
					g, _ = x.Fn.(*ssa.Function)
				case *ssa.Function:
					g = x
				}
				if g == nil || g.Blocks == nil || !core.RepoFunc(g) {
					continue
				}
				if cg.Nodes[g] == nil || !reachesFunc(cg, g, fn, 6) {
					continue
				}
				n++
				k++
				okb := countsItsNesting(g, vmT)
				c.Check(okb, core.SSAName(fn)+"|deferred-re-entry-bounded|"+sprintf("%d", k), p.Pos(df.Pos()),
					fn.Name()+" defers a closure that can call "+fn.Name()+" again"+ife(okb, "; the closure counts its nesting in a field of the VM and tests it against a limit", ", and nothing in the closure bounds the nesting: the deferred code runs after the function's frame was given back, so the frame table does not see it (func f() { defer f() }; f() exhausts the native stack and ends the process)"))
			}
		}
	}
	if n == 0 {
		c.Pass("vm|no-deferred-re-entry", "", "no function of the VM defers a closure that can call it again")
	}
	c.Stat("deferred_reentry_sites", n)
}

// countsItsNesting: the function compares a field of the given struct type with
// something and stores field+1 to the same field.
func countsItsNesting(g *ssa.Function, nt *types.Named) bool {
	compared, incremented := map[int]bool{}, map[int]bool{}
	fieldOf := func(v ssa.Value) int {
		u, ok := v.(*ssa.UnOp)
		if !ok || u.Op != token.MUL {
			return -1
		}
		fa, ok := u.X.(*ssa.FieldAddr)
		if !ok || core.NamedOf(fa.X.Type()) != nt {
			return -1
		}
		return fa.Field
	}
	var walk func(f *ssa.Function, d int)
	walk = func(f *ssa.Function, d int) {
		for _, b := range f.Blocks {
			for _, in := range b.Instrs {
				switch x := in.(type) {
				case *ssa.BinOp:
					switch x.Op {
					case token.LSS, token.LEQ, token.GTR, token.GEQ:
						if i := fieldOf(x.X); i >= 0 {
							compared[i] = true
						}
						if i := fieldOf(x.Y); i >= 0 {
							compared[i] = true
						}
					}
				case *ssa.Store:
					if fa, ok := x.Addr.(*ssa.FieldAddr); ok && core.NamedOf(fa.X.Type()) == nt {
						if bo, ok := x.Val.(*ssa.BinOp); ok && bo.Op == token.ADD && fieldOf(bo.X) == fa.Field {
							incremented[fa.Field] = true
						}
					}
				case *ssa.MakeClosure:
					if cf, ok := x.Fn.(*ssa.Function); ok && d < 2 {
						walk(cf, d+1)
					}
				case ssa.CallInstruction:
					// a helper of the same package that does the counting
					if cal := x.Common().StaticCallee(); cal != nil && cal.Blocks != nil && cal.Pkg == g.Pkg && d < 1 {
						walk(cal, d+1)
					}
				}
			}
		}
	}
	walk(g, 0)
	for i := range compared {
		if incremented[i] {
			return true
		}
	}
	return false
}

// ---------------------------------------------------------------------------
// closuresAreBuiltWhereTheyAreLoaded: evaluating a function literal builds a
// new closure over the cells that are live at that moment, and the VM hands it
// to the operand stack and to nothing else.  A closure kept anywhere in the
// VM or in the loaded code (a memo per constant) is handed out again to a
// later evaluation of the same literal, with the bindings of the first one.
func closuresAreBuiltWhereTheyAreLoaded(c *core.Ctx) {
	p := c.P
	t := VMTable(p)
	push := p.SSAFunc(t.Prims["push"])
	n := 0
	for _, fn := range repoFns(p, "vm") {
		k := 0
		for _, b := range fn.Blocks {
			for _, in := range b.Instrs {
				call, ok := in.(*ssa.Call)
				if !ok {
					continue
				}
				cal := call.Call.StaticCallee()
				if cal == nil || cal.Name() != "NewClosure" || cal.Pkg == nil || core.RelPkg(cal.Pkg.Pkg) != "object" {
					continue
				}
				n++
				k++
				bad := ""
				seen := map[ssa.Value]bool{}
				var walk func(v ssa.Value)
				walk = func(v ssa.Value) {
					if seen[v] || v.Referrers() == nil {
						return
					}
					seen[v] = true
					for _, r := range *v.Referrers() {
						switch x := r.(type) {
						case *ssa.MakeInterface:
							walk(x)
						case *ssa.ChangeInterface:
							walk(x)
						case *ssa.Phi:
							walk(x)
						case *ssa.DebugRef:
						case ssa.CallInstruction:
							if x.Common().StaticCallee() != push {
								bad = "passes it to " + calleeName(x.Common()) + " at " + p.Pos(x.Pos())
							}
						case *ssa.Store:
							if x.Val == v {
								bad = "stores it at " + p.Pos(x.Pos())
							}
						case *ssa.MapUpdate:
							bad = "enters it in a map at " + p.Pos(x.Pos())
						case *ssa.Return:
						default:
							bad = "uses it at " + p.Pos(r.Pos())
						}
					}
				}
				walk(call)
				c.Check(bad == "", core.SSAName(fn)+"|closure-goes-to-the-stack-only|"+sprintf("%d", k), p.Pos(call.Pos()),
					fn.Name()+" builds a closure"+ife(bad == "", " and pushes it: every evaluation of a function literal has its own closure", " and "+bad+": a closure that is kept is handed out again when the literal is evaluated the next time, bound to the variables of the first evaluation (f := func(a){ func(b){ func(c){ a } } }; f(1)(0) and f(2)(0) shared one innermost closure)"))
			}
		}
	}
	if n == 0 {
		core.Undecidedf("the VM does not call object.NewClosure")
	}
	c.Stat("closure_construction_sites", n)
}

func calleeName(com *ssa.CallCommon) string {
	if cal := com.StaticCallee(); cal != nil {
		return cal.Name()
	}
	if com.IsInvoke() {
		return com.Method.Name()
	}
	return "a function value"
}

// ---------------------------------------------------------------------------
// goroutinesDoNotUseWhatIsClearedElsewhere: a goroutine that the repository
// starts on its own (a watcher that closes a file when the context ends)
// runs outside every recover of the VM: a nil dereference there ends the
// process.  Where such a goroutine calls a method on, or reads through, the
// value of a struct field without testing it, no other function stores nil to
// that field (File.Close "letting go of the handle" while the watcher is about
// to call f.value.Close()).
func goroutinesDoNotUseWhatIsClearedElsewhere(c *core.Ctx) {
	p := c.P
	type fieldKey struct {
		nt  *types.Named
		idx int
	}
	// nil stores, by field
	nilStores := map[fieldKey][]ssa.Instruction{}
	all := repoFns(p)
	for _, fn := range all {
		for _, b := range fn.Blocks {
			for _, in := range b.Instrs {
				st, ok := in.(*ssa.Store)
				if !ok {
					continue
				}
				fa, ok := st.Addr.(*ssa.FieldAddr)
				if !ok {
					continue
				}
				cst, ok := st.Val.(*ssa.Const)
				if !ok || !cst.IsNil() {
					continue
				}
				nt := core.NamedOf(fa.X.Type())
				if nt == nil {
					continue
				}
				nilStores[fieldKey{nt, fa.Field}] = append(nilStores[fieldKey{nt, fa.Field}], in)
			}
		}
	}
	n, derefs := 0, 0
	for _, fn := range all {
		for _, b := range fn.Blocks {
			for _, in := range b.Instrs {
				g, ok := in.(*ssa.Go)
				if !ok {
					continue
				}
				var body *ssa.Function
				switch x := g.Call.Value.(type) {
				case *ssa.MakeClosure:
					body, _ = x.Fn.(*ssa.Function)
				case *ssa.Function:
					body = x
				}
				if body == nil {
					body = g.Call.StaticCallee()
				}
				if body == nil || body.Blocks == nil || !core.RepoFunc(body) {
					continue
				}
				n++
				k := 0
				seenFn := map[*ssa.Function]bool{}
				var walk func(f *ssa.Function, d int)
				walk = func(f *ssa.Function, d int) {
					if seenFn[f] {
						return
					}
					seenFn[f] = true
					for _, bb := range f.Blocks {
						for _, in2 := range bb.Instrs {
							if ci, ok := in2.(ssa.CallInstruction); ok {
								if cal := ci.Common().StaticCallee(); cal != nil && cal.Blocks != nil && cal.Pkg == f.Pkg && d < 1 {
									walk(cal, d+1)
								}
								if mc, ok := ci.Common().Value.(*ssa.MakeClosure); ok && d < 2 {
									if cf, ok := mc.Fn.(*ssa.Function); ok {
										walk(cf, d+1)
									}
								}
							}
							ld, ok := in2.(*ssa.UnOp)
							if !ok || ld.Op != token.MUL {
								continue
							}
							fa, ok := ld.X.(*ssa.FieldAddr)
							if !ok || ld.Referrers() == nil {
								continue
							}
							nt := core.NamedOf(fa.X.Type())
							if nt == nil {
								continue
							}
							switch ld.Type().Underlying().(type) {
							case *types.Interface, *types.Pointer:
							default:
								continue
							}
							tested := false
							var use ssa.Instruction
							for _, r := range *ld.Referrers() {
								switch x := r.(type) {
								case *ssa.BinOp:
									if x.Op == token.EQL || x.Op == token.NEQ {
										tested = true
									}
								case ssa.CallInstruction:
									if x.Common().IsInvoke() && x.Common().Value == ssa.Value(ld) {
										use = r
									}
								case *ssa.FieldAddr:
									if x.X == ssa.Value(ld) {
										use = r
									}
								}
							}
							if use == nil || tested {
								continue
							}
							derefs++
							k++
							key := fieldKey{nt, fa.Field}
							stt, _ := nt.Underlying().(*types.Struct)
							fname := sprintf("#%d", fa.Field)
							if stt != nil {
								fname = stt.Field(fa.Field).Name()
							}
							where := ""
							for _, s := range nilStores[key] {
								where = core.SSAName(s.Parent()) + " at " + p.Pos(s.Pos())
							}
							c.Check(where == "", core.SSAName(body)+"|"+nt.Obj().Name()+"."+fname+"|not-cleared-elsewhere", p.Pos(use.Pos()),
								"the goroutine "+body.Name()+" (started in "+fn.Name()+") uses the value of "+nt.Obj().Name()+"."+fname+" untested"+ife(where == "", "; nothing stores nil to that field", ", and "+where+" stores nil to it: when the goroutine gets there afterwards it dereferences nil outside every recover, which ends the process"))
						}
					}
				}
				walk(body, 0)
				_ = k
			}
		}
	}
	if n == 0 {
		core.Undecidedf("no go statement found in the repository")
	}
	c.Stat("go_statements", n)
	c.Stat("untested_field_uses_in_goroutines", derefs)
}

// ---------------------------------------------------------------------------
// recoverHandlersDoNotPanic: a goroutine that the repository starts for a
// script (a thread) recovers from whatever the script's code panics with; the
// deferred function that does so is the last line of defence, nothing
// recovers from a panic inside it.  That function, and what it calls in the
// repository, makes no single-valued type assertion (every Callable is not an
// Object: the VM hands threads a cloneCall, which is only callable) and calls
// no method on a value it has not tested.
func recoverHandlersDoNotPanic(c *core.Ctx) {
	p := c.P
	n := 0
	for _, fn := range repoFns(p) {
		for _, b := range fn.Blocks {
			for _, in := range b.Instrs {
				g, ok := in.(*ssa.Go)
				if !ok {
					continue
				}
				var body *ssa.Function
				if mc, ok := g.Call.Value.(*ssa.MakeClosure); ok {
					body, _ = mc.Fn.(*ssa.Function)
				} else {
					body = g.Call.StaticCallee()
				}
				if body == nil || body.Blocks == nil || !core.RepoFunc(body) {
					continue
				}
				// deferred closures of the goroutine's function that call recover
				for _, b2 := range body.Blocks {
					for _, in2 := range b2.Instrs {
						df, ok := in2.(*ssa.Defer)
						if !ok {
							continue
						}
						var h *ssa.Function
						if mc, ok := df.Call.Value.(*ssa.MakeClosure); ok {
							h, _ = mc.Fn.(*ssa.Function)
						} else {
							h = df.Call.StaticCallee()
						}
						if h == nil || h.Blocks == nil || !callsRecover(h) {
							continue
						}
						n++
						bad := ""
						seen := map[*ssa.Function]bool{}
						var walk func(f *ssa.Function, d int)
						walk = func(f *ssa.Function, d int) {
							if seen[f] || f.Blocks == nil {
								return
							}
							seen[f] = true
							for _, b3 := range f.Blocks {
								for _, in3 := range b3.Instrs {
									switch x := in3.(type) {
									case *ssa.TypeAssert:
										if !x.CommaOk {
											bad = core.SSAName(f) + " asserts a value to " + shortType(x.AssertedType) + " in the single-valued form at " + p.Pos(x.Pos())
										}
									case ssa.CallInstruction:
										if cal := x.Common().StaticCallee(); cal != nil && core.RepoFunc(cal) && cal.Pkg == h.Pkg && d < 2 {
											walk(cal, d+1)
										}
									}
								}
							}
						}
						walk(h, 0)
						c.Check(bad == "", core.SSAName(h)+"|recover-handler-does-not-panic", p.Pos(df.Pos()),
							"the goroutine started in "+fn.Name()+" recovers in "+h.Name()+ife(bad == "", "; nothing there, or in what it calls, asserts a type in the single-valued form", "; on that path "+bad+": when the value is of another type (the VM starts threads with a *vm.cloneCall, which is callable and not an object) the handler itself panics, in a goroutine where nothing else recovers, and the process ends"))
					}
				}
			}
		}
	}
	if n == 0 {
		core.Undecidedf("no goroutine of the repository recovers in a deferred function")
	}
	c.Stat("recover_handlers_of_goroutines", n)
}

func callsRecover(f *ssa.Function) bool {
	for _, b := range f.Blocks {
		for _, in := range b.Instrs {
			if ci, ok := in.(ssa.CallInstruction); ok {
				if bi, ok := ci.Common().Value.(*ssa.Builtin); ok && bi.Name() == "recover" {
					return true
				}
			}
		}
	}
	return false
}

// ---------------------------------------------------------------------------
// literalsAreAssembledInSourceOrder: the operands of a list, map or set
// literal lie on the stack in source order, the first one deepest, and are
// popped last to first.  The clause that assembles them puts each popped
// value where its position in the source says (index count-1-i), and enters
// pairs into a map only after that: entered in the order of popping, the
// first of two equal keys is entered last and wins ({"a": 1, "a": 2} is
// {"a": 1}), and the error of a set literal is that of its last bad item.
func literalsAreAssembledInSourceOrder(c *core.Ctx) {
	p := c.P
	t := VMTable(p)
	info := p.Pkg("vm").TypesInfo
	pop := t.Prims["pop"]
	n := 0
	for _, cc := range t.Switch.Body.List {
		cl := cc.(*ast.CaseClause)
		if cl.List == nil {
			continue
		}
		name := exprStr(cl.List[0])
		k := 0
		for _, s := range cl.Body {
			ast.Inspect(s, func(nd ast.Node) bool {
				fs, ok := nd.(*ast.ForStmt)
				if !ok {
					return true
				}
				// the loop variable
				var loopVar types.Object
				if as, ok := fs.Init.(*ast.AssignStmt); ok && len(as.Lhs) == 1 {
					if id, ok := as.Lhs[0].(*ast.Ident); ok {
						loopVar = info.Defs[id]
					}
				}
				// a loop that counts down stores at its own index in source order
				if ids, ok := fs.Post.(*ast.IncDecStmt); ok && ids.Tok == token.DEC {
					loopVar = nil
				}
				popsInLoop := false
				ast.Inspect(fs.Body, func(n2 ast.Node) bool {
					if ce, ok := n2.(*ast.CallExpr); ok && calleeOf(info, ce) == pop {
						popsInLoop = true
					}
					return true
				})
				if !popsInLoop {
					return true
				}
				n++
				k++
				bad := ""
				countsUp := loopVar != nil
				ast.Inspect(fs.Body, func(n2 ast.Node) bool {
					as, ok := n2.(*ast.AssignStmt)
					if !ok {
						return true
					}
					// x = append(x, <popped>) in a loop that counts up: the list comes out in the order
					// of popping (from-import then loads its modules last to first)
					if countsUp && len(as.Rhs) == 1 {
						if ce, ok := ast.Unparen(as.Rhs[0]).(*ast.CallExpr); ok {
							if id, ok := ce.Fun.(*ast.Ident); ok && id.Name == "append" {
								if _, isBuiltin := info.Uses[id].(*types.Builtin); isBuiltin {
									bad = "appends what it pops to a list at " + p.Pos(as.Pos()) + ": the list is in the order of popping, the reverse of the source order"
								}
							}
						}
					}
					for _, l := range as.Lhs {
						ix, ok := ast.Unparen(l).(*ast.IndexExpr)
						if !ok {
							continue
						}
						tv := info.TypeOf(ix.X)
						if tv == nil {
							continue
						}
						switch tv.Underlying().(type) {
						case *types.Map:
							bad = "enters a pair into a map at " + p.Pos(as.Pos()) + " in the order of popping, which is the reverse of the source order"
						case *types.Slice, *types.Array, *types.Pointer:
							if id, ok := ast.Unparen(ix.Index).(*ast.Ident); ok && loopVar != nil && info.Uses[id] == loopVar {
								bad = "stores the popped value at index " + id.Name + " at " + p.Pos(as.Pos()) + ": the value popped first is the last one of the source"
							}
						}
					}
					return true
				})
				c.Check(bad == "", "vm:"+name+"|operands-in-source-order|"+sprintf("%d", k), p.Pos(fs.Pos()),
					"the clause of "+name+" pops its operands in a loop"+ife(bad == "", " and puts each where its position in the source says", " and "+bad+" ({\"a\": 1, \"a\": 2} evaluates to {\"a\": 1}; the error of {[1], {}} names the map)"))
				return true
			})
		}
	}
	if n < 3 {
		core.Undecidedf("only %d dispatch clauses pop operands in a loop", n)
	}
	c.Stat("operand_popping_loops", n)
}

// ---------------------------------------------------------------------------
// walksOfOneListArePairedByPosition: where the compiler goes over the same
// list of syntax nodes twice (emit the operands, then emit the stores), what
// the first walk worked out for an item reaches the second walk by the item's
// position, or is worked out again - not through a map keyed by an attribute
// of the item that two items can share (`from m import a as x, a as y`: the
// alias table keyed by the imported name keeps one alias, and x is never
// bound).
func walksOfOneListArePairedByPosition(c *core.Ctx) {
	p := c.P
	n := 0
	for _, pk := range p.Pkgs {
		if core.RelPkg(pk.Types) != "compiler" {
			continue
		}
		info := pk.TypesInfo
		funcBodies(pk, func(fn *types.Func, fd *ast.FuncDecl) {
			// ranges in this function, by the text of what they range over
			type rng struct {
				stmt *ast.RangeStmt
				text string
			}
			var ranges []rng
			ast.Inspect(fd.Body, func(nd ast.Node) bool {
				if rs, ok := nd.(*ast.RangeStmt); ok {
					ranges = append(ranges, rng{rs, exprStr(rs.X)})
				}
				return true
			})
			if len(ranges) < 2 {
				return
			}
			k := 0
			for i := 0; i < len(ranges); i++ {
				for j := i + 1; j < len(ranges); j++ {
					if ranges[i].text != ranges[j].text || ranges[i].stmt.End() > ranges[j].stmt.Pos() {
						continue
					}
					n++
					k++
					// a local map written in the first and read in the second
					written := map[types.Object]ast.Node{}
					ast.Inspect(ranges[i].stmt.Body, func(nd ast.Node) bool {
						as, ok := nd.(*ast.AssignStmt)
						if !ok {
							return true
						}
						for _, l := range as.Lhs {
							if ix, ok := ast.Unparen(l).(*ast.IndexExpr); ok {
								if id, ok := ast.Unparen(ix.X).(*ast.Ident); ok {
									if _, isMap := info.TypeOf(id).Underlying().(*types.Map); isMap {
										if o := info.Uses[id]; o != nil && o.Parent() != pk.Types.Scope() {
											written[o] = as
										}
									}
								}
							}
						}
						return true
					})
					bad := ""
					ast.Inspect(ranges[j].stmt.Body, func(nd ast.Node) bool {
						if ix, ok := nd.(*ast.IndexExpr); ok {
							if id, ok := ast.Unparen(ix.X).(*ast.Ident); ok {
								if o := info.Uses[id]; o != nil && written[o] != nil {
									bad = "hands what the first walk worked out to the second through the map " + id.Name + " (written at " + p.Pos(written[o].Pos()) + ", read at " + p.Pos(ix.Pos()) + ")"
								}
							}
						}
						return true
					})
					c.Check(bad == "", qual(pk, fd)+"|"+ranges[i].text+"|paired-by-position|"+sprintf("%d", k), p.Pos(ranges[j].stmt.Pos()),
						fd.Name.Name+" walks "+ranges[i].text+" twice"+ife(bad == "", " and pairs the two walks by position (or works things out again)", " and "+bad+": two items with the same key share one entry, and what belongs to the first of them is lost (`from m import a as x, a as y` leaves x unbound)"))
				}
			}
		})
	}
	if n == 0 {
		core.Undecidedf("no function of the compiler walks one list twice")
	}
	c.Stat("double_walks", n)
}

// ---------------------------------------------------------------------------
// commasAreFollowedByANewlineStep: a line can be broken after a comma.  Where
// the parser consumes a comma (a loop or a branch on "the next/current token
// is a comma" that advances), it steps over line breaks before it looks at
// what follows: with a loop over NEWLINE tokens or a call of the helper that
// is one.  A list that does not do so rejects the line break that its
// siblings accept (func f(a,\n b) against f(a,\n b); case 1,\n 2: against
// [1,\n 2]).
func commasAreFollowedByANewlineStep(c *core.Ctx) {
	p := c.P
	pp := p.Pkg("parser")
	info := pp.TypesInfo
	isTokTest := func(e ast.Expr, tok string) bool {
		ce, ok := ast.Unparen(e).(*ast.CallExpr)
		if !ok || len(ce.Args) == 0 {
			return false
		}
		sel, ok := ce.Fun.(*ast.SelectorExpr)
		if !ok || (sel.Sel.Name != "peekTokenIs" && sel.Sel.Name != "curTokenIs") {
			return false
		}
		for _, a := range ce.Args {
			if exprStr(a) == "token."+tok {
				return true
			}
		}
		return false
	}
	// helpers that are a loop over NEWLINE tokens
	helper := map[string]bool{}
	funcBodies(pp, func(fn *types.Func, fd *ast.FuncDecl) {
		if len(fd.Body.List) == 1 {
			if fs, ok := fd.Body.List[0].(*ast.ForStmt); ok && fs.Cond != nil && isTokTest(fs.Cond, "NEWLINE") {
				helper[fd.Name.Name] = true
			}
		}
	})
	stepsOverNewlines := func(n ast.Node) bool {
		found := false
		ast.Inspect(n, func(nd ast.Node) bool {
			switch x := nd.(type) {
			case *ast.ForStmt:
				if x.Cond != nil && isTokTest(x.Cond, "NEWLINE") {
					found = true
				}
			case *ast.CallExpr:
				if sel, ok := x.Fun.(*ast.SelectorExpr); ok && helper[sel.Sel.Name] {
					found = true
				}
			}
			return true
		})
		return found
	}
	// Where the step stands matters: after the comma was tested as the NEXT
	// token and one nextToken() has made it the current one, the line break
	// is the next token - a loop (or helper) that skips while the CURRENT
	// token is a line break does nothing there.  styleOf gives the style of a
	// token test; effectiveStep looks for a step over line breaks in body that
	// looks at the token where the line break is.
	styleOf := func(e ast.Expr) string {
		if ce, ok := ast.Unparen(e).(*ast.CallExpr); ok {
			if sel, ok := ce.Fun.(*ast.SelectorExpr); ok {
				return sel.Sel.Name
			}
		}
		return ""
	}
	helperStyle := map[string]string{}
	funcBodies(pp, func(fn *types.Func, fd *ast.FuncDecl) {
		if len(fd.Body.List) == 1 {
			if fs, ok := fd.Body.List[0].(*ast.ForStmt); ok && fs.Cond != nil && isTokTest(fs.Cond, "NEWLINE") {
				helperStyle[fd.Name.Name] = styleOf(fs.Cond)
			}
		}
	})
	effectiveStep := func(body ast.Node, commaStyle string) (found, effective bool) {
		type ev struct {
			pos   token.Pos
			style string // "" for a nextToken call
		}
		var evs []ev
		ast.Inspect(body, func(nd ast.Node) bool {
			switch x := nd.(type) {
			case *ast.ForStmt:
				if x.Cond != nil && isTokTest(x.Cond, "NEWLINE") {
					evs = append(evs, ev{x.Pos(), styleOf(x.Cond)})
					return false
				}
			case *ast.CallExpr:
				if sel, ok := x.Fun.(*ast.SelectorExpr); ok {
					if st, isH := helperStyle[sel.Sel.Name]; isH {
						evs = append(evs, ev{x.Pos(), st})
					} else if sel.Sel.Name == "nextToken" {
						evs = append(evs, ev{x.Pos(), ""})
					}
				}
			}
			return true
		})
		sort.Slice(evs, func(i, j int) bool { return evs[i].pos < evs[j].pos })
		advanced := 0
		for _, e := range evs {
			if e.style == "" {
				advanced++
				continue
			}
			found = true
			// where the line break is: one token after the comma
			// comma is the token at offset 0 (cur-style test) or +1 (peek-style test) from the current one
			commaAt := 0
			if commaStyle == "peekTokenIs" {
				commaAt = 1
			}
			lineBreakAt := commaAt + 1 - advanced // offset from the current token
			looksAt := 0
			if e.style == "peekTokenIs" {
				looksAt = 1
			}
			if looksAt == lineBreakAt {
				effective = true
			}
		}
		return found, effective
	}
	n := 0
	funcBodies(pp, func(fn *types.Func, fd *ast.FuncDecl) {
		k := 0
		var visit func(n ast.Node, enclosingLoop ast.Node)
		visit = func(nd ast.Node, loop ast.Node) {
			ast.Inspect(nd, func(x ast.Node) bool {
				switch s := x.(type) {
				case *ast.ForStmt:
					if s.Cond != nil && isTokTest(s.Cond, "COMMA") {
						n++
						k++
						ok := stepsOverNewlines(s.Body)
						c.Check(ok, qual(pp, fd)+"|comma-then-newlines|"+sprintf("%d", k), p.Pos(s.Pos()),
							fd.Name.Name+" consumes commas in a loop"+ife(ok, " and steps over line breaks after each", " and does not step over line breaks after them: a line broken after one of these commas is a parse error, while the lists of expressions accept it"))
						if found, eff := effectiveStep(s.Body, styleOf(s.Cond)); found {
							n++
							c.Check(eff, qual(pp, fd)+"|newline-step-looks-where-the-line-break-is|"+sprintf("%d", k), p.Pos(s.Pos()),
								fd.Name.Name+" steps over line breaks after a comma"+ife(eff, " by looking at the token where the line break is", ", but the step looks at another token than the one after the comma (a helper that skips while the current token is a line break, called while the comma is the current token, does nothing): a line broken after the comma is a parse error"))
						}
						return true
					}
					if s != nd {
						visit(s.Body, s)
						return false
					}
				case *ast.IfStmt:
					if isTokTest(s.Cond, "COMMA") && loop != nil {
						n++
						k++
						ok := stepsOverNewlines(s.Body) || stepsOverNewlines(loop)
						c.Check(ok, qual(pp, fd)+"|comma-then-newlines|"+sprintf("%d", k), p.Pos(s.Pos()),
							fd.Name.Name+" consumes a comma inside a loop"+ife(ok, " that steps over line breaks", " that never steps over line breaks: a line broken after the comma is a parse error (func f(a,\\n b) {}), while the lists of expressions accept it"))
					}
				}
				return true
			})
		}
		visit(fd.Body, nil)
		_ = info
	})
	if n < 5 {
		core.Undecidedf("only %d comma-consuming sites found in the parser", n)
	}
	c.Stat("comma_sites", n)
}

// ---------------------------------------------------------------------------
// nodesAreNotBuiltOnTheTokenBefore: the parser keeps the token that came
// before the current one.  A syntax node is built on that token (which then
// gives the node its name and its position) only after the parser has looked
// at what kind of token it is.  `++` and `--` name the variable in front of
// them that way; unexamined, the "variable" is whatever token came before: a
// closing bracket, a string, a line break (l[0]++ -> undefined variable "]",
// x\n++ -> undefined variable "\n" at a column that line 2 does not have,
// y := x++ silently parsed as y := x; x++).
func nodesAreNotBuiltOnTheTokenBefore(c *core.Ctx) {
	p := c.P
	pp := p.Pkg("parser")
	info := pp.TypesInfo
	n := 0
	funcBodies(pp, func(fn *types.Func, fd *ast.FuncDecl) {
		k := 0
		ast.Inspect(fd.Body, func(nd ast.Node) bool {
			ce, ok := nd.(*ast.CallExpr)
			if !ok {
				return true
			}
			cal := calleeOf(info, ce)
			if cal == nil || cal.Pkg() == nil || core.RelPkg(cal.Pkg()) != "ast" || !strings.HasPrefix(cal.Name(), "New") {
				return true
			}
			uses := false
			for _, a := range ce.Args {
				if sel, ok := ast.Unparen(a).(*ast.SelectorExpr); ok && sel.Sel.Name == "prevToken" {
					uses = true
				}
			}
			if !uses {
				return true
			}
			n++
			k++
			// a test of prevToken's type anywhere in the function in front of the call
			tested := false
			ast.Inspect(fd.Body, func(n2 ast.Node) bool {
				if n2 == nil || n2.Pos() >= ce.Pos() {
					return true
				}
				if sel, ok := n2.(*ast.SelectorExpr); ok && sel.Sel.Name == "Type" {
					if in, ok := ast.Unparen(sel.X).(*ast.SelectorExpr); ok && in.Sel.Name == "prevToken" {
						tested = true
					}
				}
				return true
			})
			// and the statement before must be that very name on its own (the parser keeps the
			// last statement): in `m.y++` and `1 + y++` the name is the end of a larger expression
			alone := false
			ast.Inspect(fd.Body, func(n2 ast.Node) bool {
				if ta, ok := n2.(*ast.TypeAssertExpr); ok && ta.Pos() < ce.Pos() && ta.Type != nil && exprStr(ta.Type) == "*ast.Ident" {
					if sel, ok := ast.Unparen(ta.X).(*ast.SelectorExpr); ok && strings.Contains(strings.ToLower(sel.Sel.Name), "statement") {
						alone = true
					}
				}
				return true
			})
			c.Check(alone, qual(pp, fd)+"|"+cal.Name()+"|operand-is-a-statement-of-its-own|"+sprintf("%d", k), p.Pos(ce.Pos()),
				fd.Name.Name+" takes the token before the operator as the operand"+ife(alone, " after checking that the statement before is that name on its own", " without checking that the name stands on its own: in `m.y++` it is the end of a larger expression, and the variable y is counted up instead (m := {y: 1}; y := 10; m.y++ leaves m alone and makes y 11)"))
			c.Check(tested, qual(pp, fd)+"|"+cal.Name()+"|on-an-examined-token|"+sprintf("%d", k), p.Pos(ce.Pos()),
				fd.Name.Name+" builds a node with ast."+cal.Name()+" on the token that came before the current one"+ife(tested, " after looking at its type", " without looking at what kind of token that is: the operand of `++` is then whatever came before it (l[0]++ -> undefined variable \"]\"; x\\n++ -> undefined variable \"\\n\")"))
			return true
		})
	})
	if n == 0 {
		c.Pass("parser|no-node-built-on-prevToken", "", "no syntax node is built on the token before the current one")
	}
	c.Stat("nodes_built_on_prev_token", n)
}

// ---------------------------------------------------------------------------
// raisedErrorsAreNotPushedAsValues: an operation on a script object reports
// failure either through a Go error or by returning an *Error whose raised
// flag is set.  Where the dispatch loop pushes what a method of an object
// returned (an attribute, the result of an operator), it has looked at the
// result as an *Error first: a raised error that is pushed as if it were the
// value lets the script carry on with an error object in hand (o.U64 on a Go
// struct whose field does not fit an int evaluates to an error value, and
// `x := o.U64; 1` succeeds).
func raisedErrorsAreNotPushedAsValues(c *core.Ctx) {
	p := c.P
	t := VMTable(p)
	eval := p.SSAFunc(t.Eval)
	push := p.SSAFunc(t.Prims["push"])
	op := p.Pkg("object")
	objI := core.MustType(op, "Object")
	errT := core.MustType(op, "Error")
	may := mayReturnErrorObjects(p)
	n := 0
	k := map[string]int{}
	for _, b := range eval.Blocks {
		for _, in := range b.Instrs {
			call, ok := in.(*ssa.Call)
			if !ok || !call.Call.IsInvoke() {
				continue
			}
			recvT := core.NamedOf(call.Call.Value.Type())
			if recvT == nil || recvT.Obj().Pkg() != op.Types {
				continue
			}
			// only methods of which some implementation builds an error object to report failure
			// (an entry's Key and Value, an iterator's Next hand out what is stored)
			reports := false
			for fn, m := range may {
				if m && fn.Signature.Recv() != nil && fn.Name() == call.Call.Method.Name() && fn.Parent() == nil {
					reports = true
				}
			}
			if !reports {
				continue
			}
			// the Object-typed result (the call itself, or the first of a tuple)
			var res ssa.Value
			if core.NamedOf(call.Type()) == objI {
				res = call
			} else if tup, ok := call.Type().(*types.Tuple); ok && tup.Len() > 0 && core.NamedOf(tup.At(0).Type()) == objI && call.Referrers() != nil {
				// (value, found) / (value, ok): no error result in the tuple
				hasErr := false
				for i := 0; i < tup.Len(); i++ {
					if isErrorType(tup.At(i).Type()) || isErrorObjectPtr(p, tup.At(i).Type()) {
						hasErr = true
					}
				}
				if hasErr {
					continue
				}
				for _, r := range *call.Referrers() {
					if ex, ok := r.(*ssa.Extract); ok && ex.Index == 0 {
						res = ex
					}
				}
			}
			if res == nil || res.Referrers() == nil {
				continue
			}
			pushed, looked := false, false
			seen := map[ssa.Value]bool{}
			var walk func(v ssa.Value)
			walk = func(v ssa.Value) {
				if seen[v] || v.Referrers() == nil {
					return
				}
				seen[v] = true
				for _, r := range *v.Referrers() {
					switch x := r.(type) {
					case *ssa.TypeAssert:
						if pt, ok := x.AssertedType.(*types.Pointer); ok && core.NamedOf(pt.Elem()) == errT {
							looked = true
						}
						// a type switch re-binds the value
						walk(x)
					case *ssa.Extract:
						walk(x)
					case *ssa.Phi:
						walk(x)
					case *ssa.ChangeInterface:
						walk(x)
					case *ssa.MakeInterface:
						walk(x)
					case ssa.CallInstruction:
						if x.Common().StaticCallee() == push {
							pushed = true
						}
					}
				}
			}
			walk(res)
			if !pushed {
				continue
			}
			n++
			key := "vm.eval|" + recvT.Obj().Name() + "." + call.Call.Method.Name()
			k[key]++
			c.Check(looked, key+"|result-looked-at-before-it-is-pushed|"+sprintf("%d", k[key]), p.Pos(call.Pos()),
				"the dispatch loop pushes what "+recvT.Obj().Name()+"."+call.Call.Method.Name()+" returned"+ife(looked, " after looking at it as an *Error", " without looking at it as an *Error: a raised error comes out as the value of the expression, and the script goes on (o.U64, where the Go field does not fit an int, is an error object; `x := o.U64; 1` evaluates to 1)"))
		}
	}
	if n == 0 {
		core.Undecidedf("the dispatch loop pushes no result of an object method")
	}
	c.Stat("pushed_method_results", n)
}

// ---------------------------------------------------------------------------
// varDeclaresInBothForms: `var x = e` declares x, and the compiler declares for
// that node without asking.  The node for several names says whether it
// declares through a flag, because it is shared with plain assignment
// (a, b = e); the parser function that builds the one-name form of var also
// builds the several-names form, and passes the flag as true there.  With
// false, `var a, b = [1, 2]` is compiled as an assignment to names that do not
// exist ("undefined variable b").
func varDeclaresInBothForms(c *core.Ctx) {
	p := c.P
	pp := p.Pkg("parser")
	info := pp.TypesInfo
	n := 0
	funcBodies(pp, func(fn *types.Func, fd *ast.FuncDecl) {
		var single, multi []*ast.CallExpr
		ast.Inspect(fd.Body, func(nd ast.Node) bool {
			if ce, ok := nd.(*ast.CallExpr); ok {
				if cal := calleeOf(info, ce); cal != nil && cal.Pkg() != nil && core.RelPkg(cal.Pkg()) == "ast" {
					switch cal.Name() {
					case "NewVar":
						single = append(single, ce)
					case "NewMultiVar":
						multi = append(multi, ce)
					}
				}
			}
			return true
		})
		if len(single) == 0 || len(multi) == 0 {
			return
		}
		for i, ce := range multi {
			n++
			ok := false
			if len(ce.Args) > 0 {
				if id, isId := ast.Unparen(ce.Args[len(ce.Args)-1]).(*ast.Ident); isId && id.Name == "true" {
					ok = true
				}
			}
			c.Check(ok, qual(pp, fd)+"|NewMultiVar|declares|"+sprintf("%d", i+1), p.Pos(ce.Pos()),
				fd.Name.Name+" builds the one-name form of a var statement, which declares, and the several-names form"+ife(ok, " with the declaring flag set", " with the declaring flag not set to true: `var a, b = [1, 2]` is then compiled as an assignment to a and b, which do not exist"))
		}
	})
	if n == 0 {
		core.Undecidedf("no parser function builds both ast.NewVar and ast.NewMultiVar")
	}
	c.Stat("var_multi_sites", n)
}

// ---------------------------------------------------------------------------
// separatorsAreRequired: where the parser walks a list item by item and takes
// a comma when it finds one (`if the current token is a comma { advance }`
// inside the loop), finding none is only right at the end of the list: the
// branch has an else that reports an error unless the closer follows.  With
// the comma merely optional, `func(a b) {}` is a function of two parameters
// and a misplaced token goes unnoticed.
func separatorsAreRequired(c *core.Ctx) {
	p := c.P
	pp := p.Pkg("parser")
	isCurComma := func(e ast.Expr) bool {
		ce, ok := ast.Unparen(e).(*ast.CallExpr)
		if !ok || len(ce.Args) != 1 {
			return false
		}
		sel, ok := ce.Fun.(*ast.SelectorExpr)
		return ok && sel.Sel.Name == "curTokenIs" && exprStr(ce.Args[0]) == "token.COMMA"
	}
	n := 0
	funcBodies(pp, func(fn *types.Func, fd *ast.FuncDecl) {
		k := 0
		var inLoop func(nd ast.Node, loop bool)
		inLoop = func(nd ast.Node, loop bool) {
			ast.Inspect(nd, func(x ast.Node) bool {
				switch s := x.(type) {
				case *ast.ForStmt:
					if s != nd {
						inLoop(s.Body, true)
						return false
					}
				case *ast.IfStmt:
					if loop && isCurComma(s.Cond) {
						n++
						k++
						reports := false
						if s.Else != nil {
							ast.Inspect(s.Else, func(y ast.Node) bool {
								if ce, ok := y.(*ast.CallExpr); ok {
									if sel, ok := ce.Fun.(*ast.SelectorExpr); ok && strings.HasPrefix(sel.Sel.Name, "set") && strings.HasSuffix(sel.Sel.Name, "Error") {
										reports = true
									}
								}
								return true
							})
						}
						// the test for the closer comes after line breaks have been stepped over: the
						// statement in front of the branch is a newline step (a line may be broken
						// before the closing parenthesis)
						if reports {
							stepped := false
							ast.Inspect(fd.Body, func(z ast.Node) bool {
								blk, ok := z.(*ast.BlockStmt)
								if !ok {
									return true
								}
								for i, st := range blk.List {
									if st == ast.Stmt(s) && i > 0 {
										prev := blk.List[i-1]
										ast.Inspect(prev, func(w ast.Node) bool {
											if ce, ok := w.(*ast.CallExpr); ok {
												if sel, ok := ce.Fun.(*ast.SelectorExpr); ok && strings.Contains(strings.ToLower(sel.Sel.Name), "newline") {
													stepped = true
												}
											}
											if fs, ok := w.(*ast.ForStmt); ok && fs.Cond != nil && strings.Contains(exprStr(fs.Cond), "token.NEWLINE") {
												stepped = true
											}
											return true
										})
									}
								}
								return true
							})
							c.Check(stepped, qual(pp, fd)+"|closer-tested-after-the-newlines|"+sprintf("%d", k), p.Pos(s.Pos()),
								fd.Name.Name+" reports an error when neither a comma nor the closer follows an item"+ife(stepped, ", after stepping over line breaks", ", but looks before it has stepped over line breaks: a line broken before the closing parenthesis is a parse error (func f(a\n) {})"))
						}
						c.Check(reports, qual(pp, fd)+"|comma-or-closer|"+sprintf("%d", k), p.Pos(s.Pos()),
							fd.Name.Name+" takes a comma between the items of a list when there is one"+ife(reports, " and reports an error when there is neither a comma nor the end of the list", " and goes on to the next item when there is none: two items written without a comma between them are accepted (func(a b) {} has two parameters)"))
					}
				}
				return true
			})
		}
		inLoop(fd.Body, false)
	})
	if n == 0 {
		c.Pass("parser|no-optional-comma-in-a-loop", "", "no loop of the parser takes a comma only when it finds one")
	}
	c.Stat("optional_comma_sites", n)
}
