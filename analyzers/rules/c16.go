package rules

import (
	"go/token"
	"go/types"
	"sort"
	"strings"

	"golang.org/x/tools/go/ssa"

	"risorcheck/core"
)

func init() {
	core.Register(&core.Property{
		ID: "C16",
		Decided: "Ownership/aliasing conditions of the container objects (equivalence with a reference model over operation sequences is NOT decided): " +
			"(R1) scalar objects are immutable: the payload field of Int, Float, Byte, Bool, String, Time is stored only into objects allocated in the same function (constructors / literals); " +
			"(R2) fresh backing store: a container object built by a method of a mutable container never takes its storage from the receiver's storage without a copy (no re-slice, no append onto the receiver's slice, no shared map); " +
			"(R3) read-only methods (Contains, Count, Index, Len, Equals, Compare, GetItem, GetSlice, Keys, Values, Iter, Interface, IsTruthy, Copy, Inspect, …) store nothing into the receiver's storage; " +
			"(R4) co-update agreement: if any method that mutates a container's storage also writes another field of the container (a derived cache / index), every method that mutates the storage writes that field too.",
		NotCovered:  "Index arithmetic and bounds, error-versus-wrong-data at the boundaries, string indexing by code point, contents after operation sequences.",
		Assumptions: []string{"Go slice aliasing semantics: s[i:j] and append(s, …) may share s's backing array"},
		Rules: []*core.Rule{
			{ID: "C16-R1", Title: "scalar payloads are immutable after construction", Floor: 5, Run: c16r1},
			{ID: "C16-R2", Title: "derived containers get fresh storage", Floor: 5, Run: c16r2},
			{ID: "C16-R3", Title: "read-only methods do not write the storage", Floor: 30, Run: c16r3},
			{ID: "C16-R4", Title: "derived fields are updated by every mutator", Floor: 5, Run: c16r4},
			{ID: "C16-R5", Title: "code-point indices and byte offsets are kept apart", Floor: 10, Run: unitsRule},
			{ID: "C16-R6", Title: "membership tests inside a map loop are against another collection", Floor: 3, Run: c16r6},
			{ID: "C16-R7", Title: "builtins do not sort or write the operand's own storage", Floor: 1, Run: builtinsDoNotMutateOperandStorage},
			{ID: "C16-R8", Title: "script values are not compared by object identity", Floor: 5, Run: noIdentityComparisonOfScriptValues},
			{ID: "C16-R9", Title: "container-valued operations return new objects", Floor: 3, Run: operationResultsAreNewObjects},
			{ID: "C16-R10", Title: "HashKey is the payload itself: distinct values never share a set member or map key (shared with C15-R3)", Floor: 5, Run: c15r3},
			{ID: "C16-R11", Title: "an in-place removal inside a loop over the same index ends the loop or steps back", Floor: 1, Run: removalInsideForwardLoop},
			{ID: "C16-R12", Title: "the element storage of a container is never replaced by nil", Floor: 1, Run: containerStorageNeverNil},
			{ID: "C16-R13", Title: "Equals is not short-circuited by comparing the types of two values", Floor: 1, Run: equalsNotShortCircuitedByType},
			{ID: "C16-R14", Title: "subscripts go through Container.GetItem", Floor: 1, Run: subscriptGoesThroughGetItem},
			{ID: "C16-R15", Title: "a byte of a string does not stand for a character (shared with C19)", Floor: 1, Run: stringBytesAreNotCharacters},
			{ID: "C16-R16", Title: "errors of object constructors are raised, not pushed as values", Floor: 1, Run: constructorErrorsAreRaised},
			{ID: "C16-R17", Title: "slice bounds are tested against the same limit", Floor: 1, Run: sliceBoundsShareTheLimit},
			{ID: "C16-R18", Title: "byte_slice() and buffer() copy the bytes of the value they convert", Floor: 2, Run: conversionsCopyByteStorage},
			{ID: "C16-R19", Title: "snapshot iterators skip removed keys", Floor: 1, Run: snapshotIteratorsSkipRemovedKeys},
			{ID: "C16-R20", Title: "lists do not share storage", Floor: 1, Run: listsDoNotShareStorage},
			{ID: "C16-R21", Title: "presence is not decided by nil", Floor: 1, Run: presenceIsNotDecidedByNil},
			{ID: "C16-R22", Title: "immutable values are not written by their methods", Floor: 50, Run: immutableValuesAreNotWrittenByTheirMethods},
			{ID: "C16-R23", Title: "script numbers are narrowed only under a range test (shared with C08-R15)", Floor: 10, Run: converterNarrowingIsRangeChecked},
			{ID: "C16-R24", Title: "error objects that are returned are not dropped", Floor: 1, Run: errorObjectsAreNotDropped},
			{ID: "C16-R25", Title: "failures noted in sort callbacks stick", Floor: 1, Run: failuresNotedInCallbacksStick},
			{ID: "C16-R26", Title: "literals are assembled in source order (shared with C01-R29)", Floor: 3, Run: literalsAreAssembledInSourceOrder},
			{ID: "C16-R27", Title: "script-supplied sizes are tested before make", Floor: 3, Run: scriptSizesAreTestedBeforeMake},
			{ID: "C16-R28", Title: "operands are compiled in source order and once (shared with C01-R20)", Floor: 10, Run: operandsCompiledInSourceOrder},
			{ID: "C16-R29", Title: "three-way results are -1, 0 or 1", Floor: 10, Run: threeWayResultsAreMinusOneZeroOrOne},
			{ID: "C16-R30", Title: "read-only operations do not write the container", Floor: 20, Run: readOnlyOperationsDoNotWriteTheContainer},
			{ID: "C16-R31", Title: "iterators read the container at every step", Floor: 5, Run: iteratorsReadTheContainerAtEveryStep},
			{ID: "C16-R32", Title: "derived operands are derived last", Floor: 1, Run: derivedOperandsAreDerivedLast},
			{ID: "C16-R33", Title: "mutable values are not shared", Floor: 1, Run: mutableValuesAreNotShared},
			{ID: "C16-R34", Title: "an update writes the argument last", Floor: 1, Run: anUpdateWritesTheArgumentLast},
			{ID: "C16-R35", Title: "an entry has a key and a value of its own (shared with C01-R40)", Floor: 4, Run: anEntryHasAKeyAndAValueOfItsOwn},
			{ID: "C16-R36", Title: "method names come before items", Floor: 1, Run: methodNamesComeBeforeItems},
		},
	})
}

type containerInfo struct {
	T       *types.Named
	Storage int // field index of the storage field
	Mutable bool
}

// objectContainers: struct types of package object that implement Object and
// have a slice- or map-typed field (the first one = storage).
func objectContainers(p *core.Program) []containerInfo {
	obj := p.Pkg("object")
	objI := core.MustType(obj, "Object").Underlying().(*types.Interface)
	var out []containerInfo
	for _, n := range obj.Types.Scope().Names() {
		tn, ok := obj.Types.Scope().Lookup(n).(*types.TypeName)
		if !ok {
			continue
		}
		nt, ok := tn.Type().(*types.Named)
		if !ok {
			continue
		}
		st, ok := nt.Underlying().(*types.Struct)
		if !ok || !types.Implements(types.NewPointer(nt), objI) {
			continue
		}
		for i := 0; i < st.NumFields(); i++ {
			switch st.Field(i).Type().Underlying().(type) {
			case *types.Slice, *types.Map:
				ci := containerInfo{T: nt, Storage: i}
				ci.Mutable = storageMutators(p, ci) > 0
				out = append(out, ci)
			default:
				continue
			}
			break
		}
	}
	sort.Slice(out, func(i, j int) bool { return out[i].T.Obj().Name() < out[j].T.Obj().Name() })
	return out
}

// storageWrite: instr writes the storage of the receiver (field store, element store, map update, delete).
func storageWrite(in ssa.Instruction, sf *ssa.Function, ci containerInfo) (bool, string) {
	recv := sf.Params[0]
	isStorageAddr := func(v ssa.Value) bool {
		fa, ok := v.(*ssa.FieldAddr)
		return ok && fa.Field == ci.Storage && isRecvValue(fa.X, recv) && core.NamedOf(fa.X.Type()) == ci.T
	}
	fromStorage := func(v ssa.Value) bool {
		for i := 0; i < 6 && v != nil; i++ {
			switch x := v.(type) {
			case *ssa.UnOp:
				if x.Op == token.MUL && isStorageAddr(x.X) {
					return true
				}
				return false
			case *ssa.Slice:
				v = x.X
			case *ssa.Phi:
				for _, e := range x.Edges {
					if u, ok := e.(*ssa.UnOp); ok && u.Op == token.MUL && isStorageAddr(u.X) {
						return true
					}
				}
				return false
			default:
				return false
			}
		}
		return false
	}
	switch x := in.(type) {
	case *ssa.Store:
		if isStorageAddr(x.Addr) {
			return true, "assigns the storage field"
		}
		if ia, ok := x.Addr.(*ssa.IndexAddr); ok && fromStorage(ia.X) {
			return true, "stores an element"
		}
	case *ssa.MapUpdate:
		if fromStorage(x.Map) {
			return true, "updates a map entry"
		}
	case *ssa.Call:
		if bi, ok := x.Call.Value.(*ssa.Builtin); ok && (bi.Name() == "delete" || bi.Name() == "clear" || bi.Name() == "copy") && len(x.Call.Args) > 0 && fromStorage(x.Call.Args[0]) {
			return true, "builtin " + bi.Name() + " on the storage"
		}
		// sort.* on the storage
		if callee := x.Call.StaticCallee(); callee != nil && callee.Pkg != nil && (callee.Pkg.Pkg.Path() == "sort" || callee.Pkg.Pkg.Path() == "slices") && len(x.Call.Args) > 0 {
			a := x.Call.Args[0]
			if mi, ok := a.(*ssa.MakeInterface); ok {
				a = mi.X
			}
			if fromStorage(a) && !strings.HasPrefix(callee.Name(), "Search") && !strings.HasPrefix(callee.Name(), "Contains") && !strings.HasPrefix(callee.Name(), "Index") && callee.Name() != "IsSorted" {
				return true, callee.Name() + " reorders the storage"
			}
		}
	}
	return false, ""
}

func methodFuncs(p *core.Program, m *types.Func) []*ssa.Function {
	sf := p.SSAFunc(m)
	if sf == nil || sf.Blocks == nil || len(sf.Params) == 0 {
		return nil
	}
	return []*ssa.Function{sf}
}

func storageMutators(p *core.Program, ci containerInfo) int {
	n := 0
	for _, m := range core.Methods(ci.T) {
		for _, sf := range methodFuncs(p, m) {
			for _, b := range sf.Blocks {
				for _, in := range b.Instrs {
					if w, _ := storageWrite(in, sf, ci); w {
						n++
					}
				}
			}
		}
	}
	return n
}

func c16r1(c *core.Ctx) {
	p := c.P
	obj := p.Pkg("object")
	sp := p.SSAPkg(obj)
	scalars := map[*types.Named]int{}
	for _, name := range []string{"Int", "Float", "Byte", "Bool", "String", "Time"} {
		nt := core.LookupType(obj, name)
		if nt == nil {
			continue
		}
		st, ok := nt.Underlying().(*types.Struct)
		if !ok {
			continue
		}
		for i := 0; i < st.NumFields(); i++ {
			if st.Field(i).Name() == "value" {
				scalars[nt] = i
			}
		}
	}
	if len(scalars) < 4 {
		core.Undecidedf("scalar object types not resolved (%d)", len(scalars))
	}
	nstores := 0
	var fns []*ssa.Function
	for f := range p.AllFunctions() {
		if f.Pkg == sp && f.Blocks != nil {
			fns = append(fns, f)
		}
	}
	sort.Slice(fns, func(i, j int) bool { return fns[i].String() < fns[j].String() })
	bad := map[*types.Named]int{}
	for _, f := range fns {
		for _, b := range f.Blocks {
			for _, in := range b.Instrs {
				st, ok := in.(*ssa.Store)
				if !ok {
					continue
				}
				fa, ok := st.Addr.(*ssa.FieldAddr)
				if !ok {
					continue
				}
				nt := core.NamedOf(fa.X.Type())
				idx, isScalar := scalars[nt]
				if !isScalar || fa.Field != idx {
					continue
				}
				nstores++
				fresh := true
				for _, o := range core.Origins(fa.X) {
					al, isAlloc := o.(*ssa.Alloc)
					if !isAlloc {
						fresh = false
						continue
					}
					// initialisation of a new object: same block as the allocation and the object has
					// not been used for anything but field initialisation before this store
					if al.Block() != b {
						fresh = false
						continue
					}
					for _, prev := range b.Instrs {
						if prev == in {
							break
						}
						for _, op := range prev.Operands(nil) {
							if *op == ssa.Value(al) {
								if _, isFA := prev.(*ssa.FieldAddr); !isFA {
									fresh = false
								}
							}
						}
					}
				}
				if !fresh {
					bad[nt]++
					c.Fail(core.SSAName(f)+"|mutates:"+nt.Obj().Name()+".value", p.Pos(in.Pos()), "the payload of an existing "+nt.Obj().Name()+" object is overwritten: scalar objects are shared (constants, cached small ints, values already handed to the script), so every holder observes the change")
				}
			}
		}
	}
	for nt := range scalars {
		if bad[nt] == 0 {
			c.Pass("object."+nt.Obj().Name()+"|immutable", p.Pos(nt.Obj().Pos()), nt.Obj().Name()+".value is assigned only in objects allocated by the assigning function")
		}
	}
	c.Stat("scalar_payload_stores", nstores)
}

func c16r2(c *core.Ctx) {
	p := c.P
	cs := objectContainers(p)
	isContainer := map[*types.Named]containerInfo{}
	for _, ci := range cs {
		isContainer[ci.T] = ci
	}
	n := 0
	for _, ci := range cs {
		if !ci.Mutable {
			continue
		}
		for _, m := range core.Methods(ci.T) {
			for _, sf := range methodFuncs(p, m) {
				recv := sf.Params[0]
				// values aliasing the receiver's storage
				alias := map[ssa.Value]string{}
				changed := true
				for changed {
					changed = false
					for _, b := range sf.Blocks {
						for _, in := range b.Instrs {
							v, ok := in.(ssa.Value)
							if !ok || alias[v] != "" {
								continue
							}
							switch x := in.(type) {
							case *ssa.UnOp:
								if fa, ok := x.X.(*ssa.FieldAddr); ok && x.Op == token.MUL && fa.Field == ci.Storage && isRecvValue(fa.X, recv) && core.NamedOf(fa.X.Type()) == ci.T {
									alias[v] = "the receiver's storage"
									changed = true
								}
							case *ssa.Slice:
								if alias[x.X] != "" {
									alias[v] = "a re-slice of " + alias[x.X]
									changed = true
								}
							case *ssa.Call:
								if bi, ok := x.Call.Value.(*ssa.Builtin); ok && bi.Name() == "append" && len(x.Call.Args) > 0 && alias[x.Call.Args[0]] != "" {
									alias[v] = "append onto " + alias[x.Call.Args[0]] + " (shares the backing array whenever capacity allows)"
									changed = true
								}
							case *ssa.Phi:
								for _, e := range x.Edges {
									if alias[e] != "" {
										alias[v] = alias[e]
										changed = true
									}
								}
							}
						}
					}
				}
				if len(alias) == 0 {
					continue
				}
				// sinks: constructors of container objects and stores into the storage of new container objects
				idx := 0
				for _, b := range sf.Blocks {
					for _, in := range b.Instrs {
						var target *types.Named
						var val ssa.Value
						switch x := in.(type) {
						case *ssa.Call:
							callee := x.Call.StaticCallee()
							if callee == nil || callee.Pkg == nil || callee.Pkg.Pkg.Path() != pkgPath("object") || callee.Signature.Recv() != nil {
								continue
							}
							res := callee.Signature.Results()
							if res.Len() != 1 {
								continue
							}
							nt := core.NamedOf(res.At(0).Type())
							if _, ok := isContainer[nt]; !ok {
								continue
							}
							for _, a := range x.Call.Args {
								if alias[a] != "" {
									target, val = nt, a
								}
							}
						case *ssa.Store:
							fa, ok := x.Addr.(*ssa.FieldAddr)
							if !ok {
								continue
							}
							nt := core.NamedOf(fa.X.Type())
							tci, ok := isContainer[nt]
							if !ok || fa.Field != tci.Storage || isRecvValue(fa.X, recv) {
								continue
							}
							if alias[x.Val] != "" {
								target, val = nt, x.Val
							}
						}
						if target == nil {
							continue
						}
						n++
						idx++
						c.Fail("object."+ci.T.Obj().Name()+"."+m.Name()+"|shares-storage#"+itoa(idx), p.Pos(in.Pos()),
							"a new "+target.Obj().Name()+" is built from "+alias[val]+" of a mutable "+ci.T.Obj().Name()+": the two objects alias the same memory, so mutating one changes the other")
					}
				}
				if idx == 0 {
					n++
					c.Pass("object."+ci.T.Obj().Name()+"."+m.Name()+"|fresh-storage", p.Pos(sf.Pos()), m.Name()+" reads the receiver's storage but builds no container object from it without copying")
				}
			}
		}
	}
	c.Stat("methods_reading_storage", n)
}

var readOnlyNames = map[string]bool{"Contains": true, "Count": true, "Index": true, "Len": true, "Size": true, "Equals": true, "Compare": true, "GetItem": true, "GetSlice": true,
	"Keys": true, "Values": true, "Iter": true, "Interface": true, "IsTruthy": true, "Copy": true, "Inspect": true, "String": true, "SortedKeys": true, "SortedItems": true, "StringKeys": true,
	"Get": true, "GetWithDefault": true, "GetWithObject": true, "List": true, "Value": true, "Type": true, "HashKey": true, "MarshalJSON": true, "Cost": true, "Union": true, "Intersection": true, "Difference": true,
	"Reversed": true, "Filter": true, "Map": true, "Each": true, "Items": true}

func c16r3(c *core.Ctx) {
	p := c.P
	n := 0
	for _, ci := range objectContainers(p) {
		for _, m := range core.Methods(ci.T) {
			if !readOnlyNames[m.Name()] {
				continue
			}
			for _, sf := range methodFuncs(p, m) {
				n++
				why := ""
				for _, b := range sf.Blocks {
					for _, in := range b.Instrs {
						if w, what := storageWrite(in, sf, ci); w {
							why = what + " at " + p.Pos(in.Pos())
						}
					}
				}
				c.Check(why == "", "object."+ci.T.Obj().Name()+"."+m.Name()+"|read-only", p.Pos(sf.Pos()), "read-only operation "+ci.T.Obj().Name()+"."+m.Name()+" does not write the receiver's storage"+ifs(why != "", ": "+why))
			}
		}
	}
	c.Stat("read_only_methods", n)
}

func c16r4(c *core.Ctx) {
	p := c.P
	n := 0
	for _, ci := range objectContainers(p) {
		st := ci.T.Underlying().(*types.Struct)
		type mut struct {
			m      *types.Func
			sf     *ssa.Function
			writes map[int]bool
		}
		var muts []mut
		for _, m := range core.Methods(ci.T) {
			for _, sf := range methodFuncs(p, m) {
				recv := sf.Params[0]
				isMut := false
				w := map[int]bool{}
				for _, b := range sf.Blocks {
					for _, in := range b.Instrs {
						if sw, what := storageWrite(in, sf, ci); sw && what != "stores an element" {
							isMut = true // changes membership/shape (element overwrite keeps keys and length)
						} else if sw {
							isMut = isMut || false
						}
						if s, ok := in.(*ssa.Store); ok {
							if fa, ok := s.Addr.(*ssa.FieldAddr); ok && isRecvValue(fa.X, recv) && core.NamedOf(fa.X.Type()) == ci.T && fa.Field != ci.Storage {
								w[fa.Field] = true
							}
						}
					}
				}
				if isMut {
					muts = append(muts, mut{m, sf, w})
				}
			}
		}
		if len(muts) == 0 {
			continue
		}
		// derived fields: written by at least one mutator
		derived := map[int]int{}
		for _, mu := range muts {
			for f := range mu.writes {
				derived[f]++
			}
		}
		for _, mu := range muts {
			n++
			var missing []string
			for f := range derived {
				// a guard flag (bool) toggled by one method is not a derived cache; require >= 2 mutators writing it
				if derived[f] < 2 {
					continue
				}
				if !mu.writes[f] {
					missing = append(missing, st.Field(f).Name())
				}
			}
			sort.Strings(missing)
			c.Check(len(missing) == 0, "object."+ci.T.Obj().Name()+"."+mu.m.Name()+"|co-update", p.Pos(mu.sf.Pos()),
				ci.T.Obj().Name()+"."+mu.m.Name()+" changes the container's storage and keeps every derived field that the other mutators maintain in step"+ifs(len(missing) > 0, ": does not update "+strings.Join(missing, ", ")+" (stale cache/index after this operation)"))
		}
	}
	c.Stat("storage_mutators", n)
}
