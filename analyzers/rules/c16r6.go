package rules

import (
	"go/token"
	"sort"
	"strings"

	"golang.org/x/tools/go/ssa"

	"risorcheck/core"
)

// c16r6: a membership test inside a loop over a map is made against another
// collection.  Looking the loop's own key up in a map that can be the very map
// being ranged over is trivially true; in a set operation it means one operand
// is tested against itself (an intersection that returns the smaller operand).
func c16r6(c *core.Ctx) {
	p := c.P
	var fns []*ssa.Function
	for fn := range p.AllFunctions() {
		if fn.Blocks == nil || !core.RepoFunc(fn) || fn.Pkg == nil || strings.HasSuffix(p.Fset.Position(fn.Pos()).Filename, "_test.go") {
			continue
		}
		switch core.RelPkg(fn.Pkg.Pkg) {
		case "object", "builtins":
			fns = append(fns, fn)
		}
	}
	sort.Slice(fns, func(i, j int) bool { return core.SSAName(fns[i]) < core.SSAName(fns[j]) })
	baseOf := func(m ssa.Value) (field int, base ssa.Value, ok bool) {
		u, isU := m.(*ssa.UnOp)
		if !isU || u.Op != token.MUL {
			return 0, nil, false
		}
		fa, isF := u.X.(*ssa.FieldAddr)
		if !isF {
			return 0, nil, false
		}
		return fa.Field, fa.X, true
	}
	mayAlias := func(a, b ssa.Value) bool {
		if a == b {
			return true
		}
		fa, ba, ok1 := baseOf(a)
		fb, bb, ok2 := baseOf(b)
		if !ok1 || !ok2 || fa != fb {
			return false
		}
		oa := map[ssa.Value]bool{}
		for _, o := range core.Origins(ba) {
			oa[o] = true
		}
		for _, o := range core.Origins(bb) {
			if oa[o] {
				return true
			}
		}
		return false
	}
	n := 0
	for _, fn := range fns {
		idx := 0
		for _, b := range fn.Blocks {
			for _, in := range b.Instrs {
				lk, ok := in.(*ssa.Lookup)
				if !ok {
					continue
				}
				// key comes from a range over a map
				for _, o := range core.Origins(lk.Index) {
					ex, ok := o.(*ssa.Extract)
					if !ok || ex.Index != 1 {
						continue
					}
					nx, ok := ex.Tuple.(*ssa.Next)
					if !ok || nx.IsString {
						continue
					}
					rg, ok := nx.Iter.(*ssa.Range)
					if !ok {
						continue
					}
					n++
					idx++
					c.Check(!mayAlias(rg.X, lk.X), core.SSAName(fn)+"|lookup#"+itoa(idx)+"|against-another-collection", p.Pos(lk.Pos()),
						fn.Name()+" looks the key of a loop over one map up in a different map (a lookup in the map being iterated always succeeds)")
				}
			}
		}
	}
	c.Stat("range_key_lookups", n)
}
