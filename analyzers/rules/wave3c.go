package rules

import (
	"go/token"
	"go/types"
	"sort"

	"golang.org/x/tools/go/ssa"

	"risorcheck/core"
)

// registryCachedTypes: named types of package object whose instances live in the
// package-level registries (map values, and everything reachable through their
// fields): GoType, GoMethod, GoField, the type converters.
func registryCachedTypes(p *core.Program) map[*types.Named]bool {
	op := p.Pkg("object")
	sp := p.SSAPkg(op)
	out := map[*types.Named]bool{}
	var impls []*types.Named
	for _, name := range op.Types.Scope().Names() {
		if tn, ok := op.Types.Scope().Lookup(name).(*types.TypeName); ok {
			if nt, ok := tn.Type().(*types.Named); ok {
				if _, isI := nt.Underlying().(*types.Interface); !isI {
					impls = append(impls, nt)
				}
			}
		}
	}
	var add func(t types.Type, depth int)
	add = func(t types.Type, depth int) {
		if depth > 6 || t == nil {
			return
		}
		switch u := t.(type) {
		case *types.Pointer:
			add(u.Elem(), depth+1)
			return
		case *types.Slice:
			add(u.Elem(), depth+1)
			return
		case *types.Map:
			add(u.Elem(), depth+1)
			return
		case *types.Named:
			if u.Obj().Pkg() != op.Types {
				return
			}
			if it, isI := u.Underlying().(*types.Interface); isI {
				if it.NumMethods() == 0 {
					return
				}
				for _, nt := range impls {
					if types.Implements(types.NewPointer(nt), it) || types.Implements(nt, it) {
						add(nt, depth+1)
					}
				}
				return
			}
			if out[u] {
				return
			}
			st, isS := u.Underlying().(*types.Struct)
			if !isS {
				return
			}
			out[u] = true
			for i := 0; i < st.NumFields(); i++ {
				add(st.Field(i).Type(), depth+1)
			}
		}
	}
	for _, m := range sp.Members {
		g, ok := m.(*ssa.Global)
		if !ok {
			continue
		}
		t := g.Type().(*types.Pointer).Elem()
		if mt, ok := t.Underlying().(*types.Map); ok {
			add(mt.Elem(), 0)
		}
		if nt := core.NamedOf(t); nt != nil && nt.Obj().Pkg() != nil && nt.Obj().Pkg().Path() == "sync" && nt.Obj().Name() == "Map" {
			// values of unknown type: nothing to add
		}
	}
	// script objects are not registry state even when a converter mentions them
	for _, n := range []string{"List", "Map", "Set", "String", "Int", "Float", "Bool", "Error", "Builtin", "Module", "Function", "Proxy"} {
		if nt := core.LookupType(op, n); nt != nil {
			delete(out, nt)
		}
	}
	return out
}

// cachedObjectsImmutable (C09-R7, C08-R8): instances of the registry-cached
// types are written only while they are being built.  They are shared by every
// VM in the process (and by every conversion of the same Go type), so a method
// that uses one of their fields as scratch space — a reusable argument buffer,
// a prepared reflect.Value that is filled in place — lets one evaluation's
// data show up in another's.
func cachedObjectsImmutable(c *core.Ctx) {
	p := c.P
	cached := registryCachedTypes(p)
	if len(cached) < 3 {
		core.Undecidedf("registry-cached types not found (%d)", len(cached))
	}
	cg := p.CallGraph()
	isCachedPtr := func(t types.Type) *types.Named {
		if pt, ok := t.Underlying().(*types.Pointer); ok {
			if nt := core.NamedOf(pt.Elem()); nt != nil && cached[nt] {
				return nt
			}
		}
		return nil
	}
	// root of an address / value: the cached instance it is reached from
	var rootOf func(v ssa.Value, depth int) ssa.Value
	rootOf = func(v ssa.Value, depth int) ssa.Value {
		if depth > 10 || v == nil {
			return nil
		}
		switch x := v.(type) {
		case *ssa.FieldAddr:
			if isCachedPtr(x.X.Type()) != nil {
				return x.X
			}
			return rootOf(x.X, depth+1)
		case *ssa.IndexAddr:
			return rootOf(x.X, depth+1)
		case *ssa.Slice:
			return rootOf(x.X, depth+1)
		case *ssa.UnOp:
			if x.Op == token.MUL {
				return rootOf(x.X, depth+1)
			}
		case *ssa.Phi:
			for _, e := range x.Edges {
				if r := rootOf(e, depth+1); r != nil {
					return r
				}
			}
		case *ssa.Call:
			// methods of reflect.Value that select a part of the same storage
			if cal := x.Call.StaticCallee(); cal != nil && cal.Pkg != nil && cal.Pkg.Pkg != nil && cal.Pkg.Pkg.Path() == "reflect" && len(x.Call.Args) > 0 {
				switch cal.Name() {
				case "Index", "Elem", "Field", "FieldByName", "Slice", "Addr":
					return rootOf(x.Call.Args[0], depth+1)
				}
			}
		}
		return nil
	}
	var judge func(base ssa.Value, f *ssa.Function, depth int) bool
	judge = func(base ssa.Value, f *ssa.Function, depth int) bool {
		if freshObject(p, base, 0) {
			return true
		}
		prm, isP := base.(*ssa.Parameter)
		if !isP || depth > 2 {
			return false
		}
		idx := -1
		for i, q := range f.Params {
			if q == prm {
				idx = i
			}
		}
		nd := cg.Nodes[f]
		if idx < 0 || nd == nil || len(nd.In) == 0 {
			return false
		}
		for _, e := range nd.In {
			if e.Site == nil || e.Site.Common().IsInvoke() || idx >= len(e.Site.Common().Args) {
				return false
			}
			if !judge(e.Site.Common().Args[idx], e.Caller.Func, depth+1) {
				return false
			}
		}
		return true
	}
	fns := repoFns(p, "object")
	la := core.AnalyzeLocks(repoFunctions(p), exportedEntry)
	n := 0
	type rep struct {
		pos  token.Pos
		what string
	}
	byFn := map[*ssa.Function][]rep{}
	checked := map[*ssa.Function]int{}
	for _, fn := range fns {
		for _, b := range fn.Blocks {
			for _, in := range b.Instrs {
				var root ssa.Value
				what := ""
				switch x := in.(type) {
				case *ssa.Store:
					root, what = rootOf(x.Addr, 0), "store"
				case *ssa.MapUpdate:
					root, what = rootOf(x.Map, 0), "map update"
				case *ssa.Call:
					cal := x.Call.StaticCallee()
					if cal != nil && cal.Pkg != nil && cal.Pkg.Pkg != nil && cal.Pkg.Pkg.Path() == "reflect" && len(x.Call.Args) > 0 && len(cal.Name()) >= 3 && cal.Name()[:3] == "Set" {
						root, what = rootOf(x.Call.Args[0], 0), "reflect "+cal.Name()
					}
				}
				if root == nil {
					continue
				}
				n++
				checked[fn]++
				if len(la.At(fn, in)) > 0 {
					continue // lazily filled under the registry's lock: serialised, and the value depends on the type alone
				}
				if !judge(root, fn, 0) {
					nt := isCachedPtr(root.Type())
					byFn[fn] = append(byFn[fn], rep{in.Pos(), what + " into storage of a shared *" + nt.Obj().Name()})
				}
			}
		}
	}
	var keys []*ssa.Function
	for f := range checked {
		keys = append(keys, f)
	}
	sort.Slice(keys, func(i, j int) bool { return core.SSAName(keys[i]) < core.SSAName(keys[j]) })
	for _, fn := range keys {
		msg := ""
		for _, r := range byFn[fn] {
			msg += "; " + r.what + " at " + p.Pos(r.pos)
		}
		c.Check(len(byFn[fn]) == 0, core.SSAName(fn)+"|cached-objects-written-only-while-built", p.Pos(fn.Pos()),
			fn.Name()+" writes registry-cached objects (type descriptors, method descriptors, converters) only while constructing them"+msg)
	}
	c.Stat("cached_types", len(cached))
	c.Stat("writes_checked", n)
}

// conversionHelperConverts (C08-R9): the helper that adapts a converted value
// to the static type it is handed back to returns the value unconverted only
// when it is assignable as it is, or when no conversion exists (different kind,
// not convertible).  A path that returns it unconverted for some kinds without
// either test hands reflect a value it will refuse (*int64 for *time.Duration).
func conversionHelperConverts(c *core.Ctx) {
	p := c.P
	n := 0
	for _, fn := range repoFns(p, "object") {
		if !isConversionHelper(fn) {
			continue
		}
		var vP *ssa.Parameter
		for _, prm := range fn.Params {
			if core.IsNamed(prm.Type(), "reflect", "Value") {
				vP = prm
			}
		}
		if vP == nil {
			continue
		}
		n++
		// classify edges
		type edge struct{ from, to *ssa.BasicBlock }
		exempt := map[edge]bool{}
		methodOf := func(v ssa.Value) string {
			if call, ok := v.(*ssa.Call); ok {
				if call.Call.IsInvoke() {
					return call.Call.Method.Name()
				}
				if cal := call.Call.StaticCallee(); cal != nil {
					return cal.Name()
				}
			}
			return ""
		}
		for _, b := range fn.Blocks {
			if len(b.Instrs) == 0 {
				continue
			}
			iff, ok := b.Instrs[len(b.Instrs)-1].(*ssa.If)
			if !ok {
				continue
			}
			cond := iff.Cond
			neg := false
			for {
				u, ok := cond.(*ssa.UnOp)
				if !ok || u.Op != token.NOT {
					break
				}
				neg = !neg
				cond = u.X
			}
			tEdge, fEdge := edge{b, b.Succs[0]}, edge{b, b.Succs[1]}
			if neg {
				tEdge, fEdge = fEdge, tEdge
			}
			switch methodOf(cond) {
			case "AssignableTo":
				exempt[tEdge] = true
			case "ConvertibleTo", "CanConvert":
				exempt[fEdge] = true
			default:
				if bo, ok := cond.(*ssa.BinOp); ok && methodOf(bo.X) == "Kind" && methodOf(bo.Y) == "Kind" {
					switch bo.Op {
					case token.EQL:
						exempt[fEdge] = true
					case token.NEQ:
						exempt[tEdge] = true
					}
				}
				// !v.IsValid(): nothing to convert
				if m := methodOf(cond); m == "IsValid" || m == "IsNil" || m == "IsZero" {
					exempt[tEdge], exempt[fEdge] = exempt[tEdge] || m != "IsValid", exempt[fEdge] || m == "IsValid"
				}
			}
		}
		bad := ""
		for _, b := range fn.Blocks {
			for _, in := range b.Instrs {
				r, ok := in.(*ssa.Return)
				if !ok || len(r.Results) == 0 {
					continue
				}
				unconverted := false
				for _, o := range core.Origins(spilledResult(b, r.Results[0])) {
					if o == ssa.Value(vP) {
						unconverted = true
					}
				}
				if !unconverted {
					continue
				}
				// reachable from entry without an exempting edge?
				seen := map[*ssa.BasicBlock]bool{}
				var reach func(x *ssa.BasicBlock) bool
				reach = func(x *ssa.BasicBlock) bool {
					if x == b {
						return true
					}
					if seen[x] {
						return false
					}
					seen[x] = true
					for _, s := range x.Succs {
						if exempt[edge{x, s}] {
							continue
						}
						if reach(s) {
							return true
						}
					}
					return false
				}
				if reach(fn.Blocks[0]) {
					bad = p.Pos(r.Pos())
				}
			}
		}
		c.Check(bad == "", core.SSAName(fn)+"|unconverted-only-if-assignable-or-inconvertible", p.Pos(fn.Pos()),
			fn.Name()+" returns the value as it is only after AssignableTo succeeded or a conversion was found impossible"+ifs(bad != "", "; the return at "+bad+" is reachable with neither test"))
	}
	if n == 0 {
		core.Undecidedf("no conversion helper (reflect.Value, reflect.Type -> reflect.Value with Convert under an assignability test) found")
	}
}

// importerCodePerName (C14-R6): a module's code object is its own.  In the
// importer, the *compiler.Code handed to NewModule and stored in the cache is
// either the result of compiling in this call or the cache entry looked up by
// the module's name.  The VM keys loaded code — and with it the globals array —
// by the identity of the code object, so two modules that share one code object
// share their globals.
func importerCodePerName(c *core.Ctx) {
	p := c.P
	ip := p.Pkg("importer")
	codeT := core.MustType(p.Pkg("compiler"), "Code")
	n := 0
	bodies := importBodies(p)
	for _, fn := range repoFns(p, "importer") {
		if !bodies[fn] {
			continue
		}
		var nameP *ssa.Parameter
		for _, prm := range fn.Params {
			if core.IsStringType(prm.Type()) {
				nameP = prm
			}
		}
		if nameP == nil {
			continue
		}
		judge := func(v ssa.Value) string {
			for _, o := range core.Origins(v) {
				switch x := o.(type) {
				case *ssa.Extract:
					switch t := x.Tuple.(type) {
					case *ssa.Call:
						if cal := t.Call.StaticCallee(); cal == nil || !core.RepoFunc(cal) {
							return "comes from " + t.String()
						}
					case *ssa.Lookup:
						if t.Index != ssa.Value(nameP) {
							return "comes from a cache entry that is not looked up by the module's name (" + p.Pos(t.Pos()) + ")"
						}
					default:
						return "comes from " + x.Tuple.String()
					}
				case *ssa.Lookup:
					if x.Index != ssa.Value(nameP) {
						return "comes from a cache entry that is not looked up by the module's name (" + p.Pos(x.Pos()) + ")"
					}
				case *ssa.Call:
					if cal := x.Call.StaticCallee(); cal == nil || !core.RepoFunc(cal) {
						return "comes from " + x.String()
					}
				case *ssa.Const:
				default:
					return "comes from " + o.String()
				}
			}
			return ""
		}
		for _, b := range fn.Blocks {
			for _, in := range b.Instrs {
				var v ssa.Value
				what := ""
				switch x := in.(type) {
				case *ssa.MapUpdate:
					if core.NamedOf(x.Value.Type()) == codeT {
						v, what = x.Value, "cached"
					}
				case *ssa.Call:
					for _, a := range x.Call.Args {
						if core.NamedOf(a.Type()) == codeT {
							if cal := x.Call.StaticCallee(); cal != nil && cal.Name() == "NewModule" {
								v, what = a, "given to NewModule"
							}
						}
					}
				}
				if v == nil {
					continue
				}
				n++
				why := judge(v)
				c.Check(why == "", core.SSAName(fn)+"|code-"+what+"#"+itoa(n)+"|own-code-object", p.Pos(in.Pos()),
					"the code object "+what+" is compiled in this call or is this module's own cache entry"+ifs(why != "", ": it "+why))
			}
		}
	}
	_ = ip
	if n == 0 {
		core.Undecidedf("no Import method handling *compiler.Code found in package importer")
	}
}

// rootHasNoParent (C18-R7, C17-R8): (*Code).Root returns a code object whose
// parent link was tested nil — the receiver itself, or the end of a walk up the
// parent chain.  The VM decides by Root() which loaded functions belong to the
// reloaded main code and which globals array a function is given.
func rootHasNoParent(c *core.Ctx) {
	p := c.P
	cp := p.Pkg("compiler")
	codeT := core.MustType(cp, "Code")
	m := core.MustMethod(codeT, "Root")
	sf := p.SSAFunc(m)
	parentF := fieldByName(codeT, "parent")
	if parentF == nil {
		core.Undecidedf("Code.parent not found")
	}
	bad := ""
	n := 0
	for _, b := range sf.Blocks {
		for _, in := range b.Instrs {
			r, ok := in.(*ssa.Return)
			if !ok || len(r.Results) != 1 {
				continue
			}
			n++
			rv := spilledResult(b, r.Results[0])
			// a dominating test "rv.parent == nil" taken on the nil side
			okv := false
			for d := b; d != nil; d = d.Idom() {
				if len(d.Instrs) == 0 {
					continue
				}
				iff, isIf := d.Instrs[len(d.Instrs)-1].(*ssa.If)
				if !isIf || d == b {
					continue
				}
				bo, isB := iff.Cond.(*ssa.BinOp)
				if !isB {
					continue
				}
				k, isC := bo.Y.(*ssa.Const)
				if !isC || !k.IsNil() {
					continue
				}
				ld, isL := bo.X.(*ssa.UnOp)
				if !isL || ld.Op != token.MUL {
					continue
				}
				fa, isFA := ld.X.(*ssa.FieldAddr)
				if !isFA || fieldVar(fa) != parentF || fa.X != rv {
					continue
				}
				nilSide := d.Succs[0]
				if bo.Op == token.NEQ {
					nilSide = d.Succs[1]
				}
				if nilSide == b || nilSide.Dominates(b) {
					okv = true
				}
			}
			if !okv {
				bad = p.Pos(r.Pos())
			}
		}
	}
	c.Check(bad == "" && n > 0, "compiler.Code.Root|returns-a-parentless-code", p.Pos(sf.Pos()),
		"every value Root() returns was tested to have no parent"+ifs(bad != "", "; the return at "+bad+" was not"))
}

// baseNeverDropped (C13-R8): the base directory of a rooted filesystem is only
// ever set from what the host configured (possibly cleaned); it is never
// replaced by a constant.  An empty base makes ResolvePath return paths as they
// are — the filesystem silently stops being confined.
func baseNeverDropped(c *core.Ctx) {
	p := c.P
	n := 0
	for _, rel := range []string{"os/localfs", "os"} {
		if !p.HasPkg(rel) {
			continue
		}
		for _, fn := range repoFns(p, rel) {
			for _, b := range fn.Blocks {
				for _, in := range b.Instrs {
					st, ok := in.(*ssa.Store)
					if !ok {
						continue
					}
					fa, ok := st.Addr.(*ssa.FieldAddr)
					if !ok {
						continue
					}
					f := fieldVar(fa)
					if f == nil || f.Name() != "base" || !core.IsStringType(f.Type()) {
						continue
					}
					n++
					_, isConst := st.Val.(*ssa.Const)
					c.Check(!isConst, core.SSAName(fn)+"|base-from-configuration", p.Pos(st.Pos()),
						"the base of a rooted filesystem is assigned from the configured value, never from a constant")
				}
			}
		}
	}
	c.Stat("base_stores", n)
}

// noIdentityComparisonOfScriptValues (C16-R8, C15-R7): two script values are
// never compared with Go's == (pointer identity of the boxed objects), except
// against the Nil/True/False singletons.  Small ints, booleans and nil are
// shared objects, so identity "works" for some values and not for others
// (map.pop(k, 0) on a stored 0 looked like an absent key).
func noIdentityComparisonOfScriptValues(c *core.Ctx) {
	p := c.P
	op := p.Pkg("object")
	objI := core.MustType(op, "Object")
	isObj := func(t types.Type) bool {
		if core.NamedOf(t) == objI {
			return true
		}
		if pt, ok := t.Underlying().(*types.Pointer); ok {
			if nt := core.NamedOf(pt.Elem()); nt != nil && nt.Obj().Pkg() == op.Types {
				if types.Implements(t, objI.Underlying().(*types.Interface)) {
					return true
				}
			}
		}
		return false
	}
	singleton := func(v ssa.Value) bool {
		for _, o := range core.Origins(v) {
			switch x := o.(type) {
			case *ssa.Const:
				continue
			case *ssa.MakeInterface:
				if u, ok := x.X.(*ssa.UnOp); ok {
					if _, isG := u.X.(*ssa.Global); isG {
						continue
					}
				}
				return false
			case *ssa.UnOp:
				if _, isG := x.X.(*ssa.Global); isG && x.Op == token.MUL {
					continue
				}
				return false
			default:
				return false
			}
		}
		return true
	}
	n := 0
	byFn := map[*ssa.Function]string{}
	seen := map[*ssa.Function]bool{}
	for _, fn := range repoFns(p, "object", "builtins") {
		if fn.Name() == "Equals" {
			continue // identity is the defined equality of reference types
		}
		for _, b := range fn.Blocks {
			for _, in := range b.Instrs {
				bo, ok := in.(*ssa.BinOp)
				if !ok || (bo.Op != token.EQL && bo.Op != token.NEQ) {
					continue
				}
				if !isObj(bo.X.Type()) || !isObj(bo.Y.Type()) {
					continue
				}
				n++
				seen[fn] = true
				if singleton(bo.X) || singleton(bo.Y) {
					continue
				}
				// "is this the very object the method was called on" is a
				// question about identity by definition (a member's
				// back-reference tested against the module itself)
				if fn.Signature.Recv() != nil && len(fn.Params) > 0 && (bo.X == ssa.Value(fn.Params[0]) || bo.Y == ssa.Value(fn.Params[0])) {
					continue
				}
				byFn[fn] = p.Pos(bo.Pos())
			}
		}
	}
	var fns []*ssa.Function
	for f := range seen {
		fns = append(fns, f)
	}
	sort.Slice(fns, func(i, j int) bool { return core.SSAName(fns[i]) < core.SSAName(fns[j]) })
	for _, fn := range fns {
		c.Check(byFn[fn] == "", core.SSAName(fn)+"|no-identity-comparison", p.Pos(fn.Pos()),
			fn.Name()+" compares script values with == only against nil or the Nil/True/False singletons"+ifs(byFn[fn] != "", "; at "+byFn[fn]+" two arbitrary values are compared by object identity"))
	}
	c.Stat("object_comparisons", n)
}

// nilBeliefAcrossCallSites (C03-R8): within one parser function, the result of a
// parse helper is not tested for nil at one call site and stored into the tree
// untested at another.  The first element of a list was checked, the following
// ones were appended as they came: `[1, (⏎))]` put a nil expression into the
// AST and the compiler dereferenced it outside any recover.
func nilBeliefAcrossCallSites(c *core.Ctx) {
	p := c.P
	n := 0
	for _, fn := range repoFns(p, "parser") {
		type site struct {
			call    *ssa.Call
			checked bool
			stored  token.Pos
		}
		byCallee := map[*ssa.Function][]*site{}
		for _, b := range fn.Blocks {
			for _, in := range b.Instrs {
				call, ok := in.(*ssa.Call)
				if !ok {
					continue
				}
				cal := call.Call.StaticCallee()
				if cal == nil || !core.RepoFunc(cal) || cal.Signature.Results().Len() != 1 {
					continue
				}
				switch cal.Signature.Results().At(0).Type().Underlying().(type) {
				case *types.Interface, *types.Pointer:
				default:
					continue
				}
				s := &site{call: call}
				// uses
				var visit func(v ssa.Value, depth int)
				visit = func(v ssa.Value, depth int) {
					if depth > 3 || v.Referrers() == nil {
						return
					}
					for _, r := range *v.Referrers() {
						switch x := r.(type) {
						case *ssa.BinOp:
							if k, isC := x.Y.(*ssa.Const); isC && k.IsNil() {
								s.checked = true
							}
							if k, isC := x.X.(*ssa.Const); isC && k.IsNil() {
								s.checked = true
							}
						case *ssa.Store:
							if x.Val == v {
								if _, isIdx := x.Addr.(*ssa.IndexAddr); isIdx {
									s.stored = x.Pos()
								}
							}
						case *ssa.Phi:
							visit(x, depth+1)
						case *ssa.ChangeInterface:
							visit(x, depth+1)
						case *ssa.MakeInterface:
							visit(x, depth+1)
						case *ssa.TypeAssert:
							if x.CommaOk {
								s.checked = true // a failed assertion is handled
							}
						}
					}
				}
				visit(call, 0)
				byCallee[cal] = append(byCallee[cal], s)
			}
		}
		for cal, ss := range byCallee {
			anyChecked := false
			for _, s := range ss {
				if s.checked {
					anyChecked = true
				}
			}
			if !anyChecked || len(ss) < 2 {
				continue
			}
			k := 0
			for _, s := range ss {
				k++
				if s.stored == token.NoPos {
					continue
				}
				n++
				c.Check(s.checked, core.SSAName(fn)+"|"+cal.Name()+"#"+itoa(k)+"|stored-after-nil-test", p.Pos(s.call.Pos()),
					fn.Name()+" tests the result of "+cal.Name()+" for nil at another call site; here it stores the result into a list as it comes ("+p.Pos(s.stored)+"): a nil expression reaches the tree without a parse error")
			}
		}
	}
	c.Stat("stored_results_judged", n)
}

// failedAssertionOperandUse (C03-R9): on the surface that no recover protects,
// the operand of a failed comma-ok type assertion is not used as a receiver
// without a nil test.  `fn, ok := obj.(*Function); if !ok { obj.Type() }` — a
// nil interface also fails the assertion, and the method call then panics in
// the caller (risor.Call on a global that was declared but never assigned).
func failedAssertionOperandUse(c *core.Ctx) {
	p := c.P
	surf, _ := unprotectedSurface(p)
	var fns []*ssa.Function
	for f := range surf {
		// the host-facing entry points themselves: what they get back from the VM they must test
		if f.Blocks != nil && f.Pkg != nil && core.RelPkg(f.Pkg.Pkg) == "." {
			fns = append(fns, f)
		}
	}
	sort.Slice(fns, func(i, j int) bool { return core.SSAName(fns[i]) < core.SSAName(fns[j]) })
	n := 0
	for _, fn := range fns {
		k := 0
		for _, b := range fn.Blocks {
			for _, in := range b.Instrs {
				ta, ok := in.(*ssa.TypeAssert)
				if !ok || !ta.CommaOk || ta.Referrers() == nil {
					continue
				}
				if _, isI := ta.X.Type().Underlying().(*types.Interface); !isI {
					continue
				}
				// only values this function obtained from a call (their nil-ness is this function's business;
				// a parameter's is the caller's)
				fromCall := false
				for _, o := range core.Origins(ta.X) {
					switch x := o.(type) {
					case *ssa.Call:
						fromCall = true
					case *ssa.Extract:
						if _, ok := x.Tuple.(*ssa.Call); ok {
							fromCall = true
						}
					}
				}
				if !fromCall {
					continue
				}
				// the ok value and the branch taken when it is false
				for _, r := range *ta.Referrers() {
					ex, isEx := r.(*ssa.Extract)
					if !isEx || ex.Index != 1 || ex.Referrers() == nil {
						continue
					}
					for _, r2 := range *ex.Referrers() {
						iff, isIf := r2.(*ssa.If)
						if !isIf {
							continue
						}
						failBlk := iff.Block().Succs[1]
						// invokes on ta.X in blocks dominated by failBlk
						for _, b2 := range fn.Blocks {
							if b2 != failBlk && !failBlk.Dominates(b2) {
								continue
							}
							if len(failBlk.Preds) != 1 {
								continue
							}
							for _, i2 := range b2.Instrs {
								call, isC := i2.(*ssa.Call)
								if !isC || !call.Call.IsInvoke() || call.Call.Value != ta.X {
									continue
								}
								n++
								k++
								// operand known non-nil: a parameter of an internal function is not; a dominating nil test is
								guarded := false
								for d := b2; d != nil; d = d.Idom() {
									if len(d.Instrs) == 0 {
										continue
									}
									if i3, ok := d.Instrs[len(d.Instrs)-1].(*ssa.If); ok {
										if bo, ok := i3.Cond.(*ssa.BinOp); ok && (bo.X == ta.X || bo.Y == ta.X) {
											guarded = true
										}
									}
								}
								c.Check(guarded, core.SSAName(fn)+"|"+call.Call.Method.Name()+"#"+itoa(k)+"|on-operand-of-failed-assertion", p.Pos(call.Pos()),
									fn.Name()+" calls "+call.Call.Method.Name()+"() on a value whose type assertion just failed; a nil interface fails it too, and this function runs outside any recover")
							}
						}
					}
				}
			}
		}
	}
	c.Stat("uses_after_failed_assertion", n)
}
