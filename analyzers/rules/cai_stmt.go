package rules

import (
	"fmt"
	"go/ast"
	"go/token"
	"go/types"
	"strings"

	"risorcheck/core"
)

// ---------------------------------------------------------------- statements

func (a *caiAn) execBlock(stmts []ast.Stmt, in []*cState) []*cState {
	cur := in
	for _, s := range stmts {
		var next []*cState
		for _, st := range cur {
			if st.St != stNormal {
				next = append(next, st)
				continue
			}
			next = append(next, a.exec(s, st)...)
		}
		cur = next
		if len(cur) > 4000 {
			core.Undecidedf("CAI: more than 4000 live paths in %s", a.curFn.Name())
		}
	}
	return cur
}

// emits: n contains a counted primitive, a success return, a context switch
// or a branch statement.
func (a *caiAn) emits(n ast.Node) bool {
	found := false
	ast.Inspect(n, func(x ast.Node) bool {
		switch x := x.(type) {
		case *ast.CallExpr:
			if m := a.compilerMethod(x); m != nil && (a.emitting[m] || m == a.startLoop || m == a.currentLoop) {
				found = true
			}
		case *ast.ReturnStmt:
			if len(x.Results) == 0 || isNilIdent(a.info, x.Results[len(x.Results)-1]) {
				found = true
			}
		case *ast.AssignStmt:
			for _, l := range x.Lhs {
				if fieldOf(a.info, l) == a.fCurrent {
					found = true
				}
			}
		case *ast.BranchStmt:
			found = true
		}
		return !found
	})
	return found
}

func (a *caiAn) havoc(n ast.Node, st *cState) {
	ast.Inspect(n, func(x ast.Node) bool {
		switch x := x.(type) {
		case *ast.AssignStmt:
			for _, l := range x.Lhs {
				if id, ok := l.(*ast.Ident); ok {
					if obj := objOfIdent(a.info, id); obj != nil {
						st.Env[obj] = vUnknown{Why: "havoc"}
					}
				}
			}
		case *ast.IncDecStmt:
			if id, ok := x.X.(*ast.Ident); ok {
				if obj := a.info.Uses[id]; obj != nil {
					st.Env[obj] = vUnknown{Why: "havoc"}
				}
			}
		}
		return true
	})
}

// assignsNode: the statement assigns to a variable declared outside it whose
// type is a syntax-tree node type.
func (a *caiAn) assignsNode(n ast.Node) bool {
	found := false
	ast.Inspect(n, func(x ast.Node) bool {
		as, ok := x.(*ast.AssignStmt)
		if !ok || as.Tok != token.ASSIGN {
			return !found
		}
		for _, l := range as.Lhs {
			if id, ok := l.(*ast.Ident); ok {
				if obj := a.info.Uses[id]; obj != nil && obj.Pos() < n.Pos() {
					if nt := core.NamedOf(obj.Type()); nt != nil && nt.Obj().Pkg() != nil && nt.Obj().Pkg().Path() == pkgPath("ast") {
						found = true
					}
				}
			}
		}
		return !found
	})
	return found
}

func containsReturn(n ast.Node) bool {
	f := false
	ast.Inspect(n, func(x ast.Node) bool {
		if _, ok := x.(*ast.ReturnStmt); ok {
			f = true
		}
		return !f
	})
	return f
}

func (a *caiAn) exec(s ast.Stmt, st *cState) []*cState {
	switch s.(type) {
	case *ast.RangeStmt, *ast.ForStmt, *ast.SwitchStmt, *ast.TypeSwitchStmt:
		if !a.emits(s) {
			a.havoc(s, st)
			return []*cState{st}
		}
	case *ast.IfStmt:
		// (an if that chooses which syntax-tree node a variable holds is
		// interpreted, both ways: what is compiled later depends on the node)
		if !a.emits(s) && !containsReturn(s) && !a.assignsNode(s) {
			a.havoc(s, st)
			return []*cState{st}
		}
	}
	switch s := s.(type) {
	case *ast.ExprStmt:
		_, outs := a.eval(s.X, st)
		return outs
	case *ast.AssignStmt:
		return a.execAssign(s, st)
	case *ast.DeclStmt:
		gd, ok := s.Decl.(*ast.GenDecl)
		if !ok {
			return []*cState{st}
		}
		cur := []*cState{st}
		for _, sp := range gd.Specs {
			vs, ok := sp.(*ast.ValueSpec)
			if !ok {
				continue
			}
			for i, n := range vs.Names {
				obj := a.info.Defs[n]
				var next []*cState
				for _, c := range cur {
					if len(vs.Values) > i {
						v, outs := a.eval(vs.Values[i], c)
						for _, o := range outs {
							o.Env[obj] = v
						}
						next = append(next, outs...)
					} else {
						c.Env[obj] = a.zero(obj.Type(), n.Name)
						next = append(next, c)
					}
				}
				cur = next
			}
		}
		return cur
	case *ast.IncDecStmt:
		if id, ok := s.X.(*ast.Ident); ok {
			st.Env[a.info.Uses[id]] = vUnknown{Why: "incdec"}
		}
		return []*cState{st}
	case *ast.BlockStmt:
		return a.execBlock(s.List, []*cState{st})
	case *ast.IfStmt:
		ins := []*cState{st}
		if s.Init != nil {
			ins = a.exec(s.Init, st)
		}
		var outs []*cState
		for _, st := range ins {
			if st.St != stNormal {
				outs = append(outs, st)
				continue
			}
			for _, br := range a.branch(s.Cond, st) {
				if br.st.St != stNormal {
					outs = append(outs, br.st)
					continue
				}
				if br.taken {
					outs = append(outs, a.execBlock(s.Body.List, []*cState{br.st})...)
				} else if s.Else != nil {
					outs = append(outs, a.exec(s.Else, br.st)...)
				} else {
					outs = append(outs, br.st)
				}
			}
		}
		return outs
	case *ast.ReturnStmt:
		if len(s.Results) == 0 {
			st.St = stRetOK
			return []*cState{st}
		}
		last := s.Results[len(s.Results)-1]
		v, outs := a.eval(last, st)
		for _, o := range outs {
			if o.St != stNormal {
				continue
			}
			switch v.(type) {
			case vNil:
				o.St = stRetOK
			default:
				o.St = stRetErr
			}
		}
		return outs
	case *ast.DeferStmt:
		// deferred closures of the compile functions restore symbol tables /
		// loop records / flags; a deferred call that emits would be missed:
		if a.emits(s.Call) && a.callEmits(s.Call) {
			st.problem("%s: deferred call emits code (not modelled)", a.pos(s))
		}
		return []*cState{st}
	case *ast.BranchStmt:
		switch s.Tok {
		case token.CONTINUE:
			st.St = stCont
		case token.BREAK:
			st.St = stBrk
		default:
			core.Undecidedf("CAI: %s: unsupported branch statement", a.pos(s))
		}
		return []*cState{st}
	case *ast.RangeStmt:
		return a.execRange(s, st)
	case *ast.ForStmt:
		return a.execFor(s, st)
	case *ast.SwitchStmt:
		return a.execSwitch(s, st)
	case *ast.TypeSwitchStmt:
		return a.execTypeSwitch(s, st)
	case *ast.EmptyStmt:
		return []*cState{st}
	case *ast.LabeledStmt:
		return a.exec(s.Stmt, st)
	}
	core.Undecidedf("CAI: %s: unsupported statement %T", a.pos(s), s)
	return nil
}

func (a *caiAn) callEmits(n ast.Node) bool {
	found := false
	ast.Inspect(n, func(x ast.Node) bool {
		if ce, ok := x.(*ast.CallExpr); ok {
			if m := a.compilerMethod(ce); m != nil && a.emitting[m] {
				found = true
			}
		}
		return !found
	})
	return found
}

func (a *caiAn) zero(t types.Type, name string) cVal {
	switch u := t.Underlying().(type) {
	case *types.Basic:
		if u.Info()&types.IsInteger != 0 {
			return vInt{L: Const(0)}
		}
		if u.Info()&types.IsBoolean != 0 {
			return vBool{Known: true}
		}
		if u.Info()&types.IsString != 0 {
			return vStr{Known: true}
		}
	case *types.Slice:
		if b, ok := u.Elem().Underlying().(*types.Basic); ok && b.Kind() == types.Int {
			return vPosSet{ID: -1}
		}
		return vSlice{Sym: name, Elem: u.Elem(), Len: Const(0)}
	case *types.Pointer, *types.Interface:
		return vNil{}
	}
	return vUnknown{Why: "zero " + name}
}

func (a *caiAn) execAssign(s *ast.AssignStmt, st *cState) []*cState {
	type res struct {
		vals []cVal
		st   *cState
	}
	cur := []res{{nil, st}}
	for _, r := range s.Rhs {
		var next []res
		for _, c := range cur {
			if c.st.St != stNormal {
				next = append(next, c)
				continue
			}
			v, outs := a.eval(r, c.st)
			for _, o := range outs {
				vs := append(append([]cVal(nil), c.vals...), v)
				next = append(next, res{vs, o})
			}
		}
		cur = next
	}
	var out []*cState
	for _, c := range cur {
		if c.st.St != stNormal {
			out = append(out, c.st)
			continue
		}
		vals := c.vals
		if len(s.Lhs) > 1 && len(vals) == 1 {
			if t, ok := vals[0].(vTuple); ok && len(t.Vs) == len(s.Lhs) {
				vals = t.Vs
			} else {
				vals = make([]cVal, len(s.Lhs))
				for i, l := range s.Lhs {
					vals[i] = vUnknown{Why: "tuple"}
					if t := a.info.TypeOf(l); t != nil {
						vals[i] = a.symbolic(exprStr(l)+"@"+a.pos(s), t)
					}
				}
			}
		}
		for i, l := range s.Lhs {
			if i < len(vals) {
				a.assign(l, vals[i], c.st, s.Tok, s)
			}
		}
		out = append(out, c.st)
	}
	return out
}

func (a *caiAn) assign(l ast.Expr, v cVal, st *cState, tok token.Token, at *ast.AssignStmt) {
	switch l := l.(type) {
	case *ast.Ident:
		if l.Name == "_" {
			return
		}
		obj := objOfIdent(a.info, l)
		if tok != token.ASSIGN && tok != token.DEFINE {
			st.Env[obj] = vUnknown{Why: "op-assign"}
			return
		}
		st.Env[obj] = v
	case *ast.SelectorExpr:
		f := fieldOf(a.info, l)
		if f == a.fCurrent {
			// emission context switch: pop when the new value is <current>.parent
			isPop := false
			if len(at.Rhs) == 1 {
				if pf := fieldOf(a.info, at.Rhs[0]); pf == a.fParent {
					if se, ok := ast.Unparen(at.Rhs[0]).(*ast.SelectorExpr); ok && fieldOf(a.info, se.X) == a.fCurrent {
						isPop = true
					}
				}
			}
			if isPop {
				if len(st.Ctx) == 0 {
					st.problem("%s: emission context closed without being opened", a.pos(at))
					return
				}
				st.H = st.Ctx[len(st.Ctx)-1]
				st.Ctx = st.Ctx[:len(st.Ctx)-1]
				st.Trace = append(st.Trace, "<<ctx")
			} else {
				st.Ctx = append(st.Ctx, st.H)
				st.H = Const(0)
				st.Trace = append(st.Trace, ">>ctx")
			}
			return
		}
		if lv, ok := a.evalPure(l.X, st); ok && f != nil {
			if lp, ok := lv.(vLoop); ok {
				rec := st.Loops[lp.ID]
				if isIntSlice(f.Type()) {
					if ps, ok := v.(vPosSet); ok {
						rec.Sets[f] = ps.ID
					}
				} else {
					rec.Bools[f] = v
				}
			}
		}
	}
}

func isIntSlice(t types.Type) bool {
	sl, ok := t.Underlying().(*types.Slice)
	if !ok {
		return false
	}
	b, ok := sl.Elem().Underlying().(*types.Basic)
	return ok && b.Kind() == types.Int
}

type branchOut struct {
	taken bool
	st    *cState
}

func (a *caiAn) branch(cond ast.Expr, st *cState) []branchOut {
	cond = ast.Unparen(cond)
	if be, ok := cond.(*ast.BinaryExpr); ok && (be.Op == token.LAND || be.Op == token.LOR) {
		var outs []branchOut
		for _, l := range a.branch(be.X, st) {
			if l.st.St != stNormal {
				outs = append(outs, l)
				continue
			}
			if be.Op == token.LAND {
				if !l.taken {
					outs = append(outs, branchOut{false, l.st})
				} else {
					outs = append(outs, a.branch(be.Y, l.st)...)
				}
			} else {
				if l.taken {
					outs = append(outs, branchOut{true, l.st})
				} else {
					outs = append(outs, a.branch(be.Y, l.st)...)
				}
			}
		}
		return outs
	}
	if ue, ok := cond.(*ast.UnaryExpr); ok && ue.Op == token.NOT {
		outs := a.branch(ue.X, st)
		for i := range outs {
			outs[i].taken = !outs[i].taken
		}
		return outs
	}
	v, sts := a.eval(cond, st)
	var outs []branchOut
	for _, s := range sts {
		if s.St != stNormal {
			outs = append(outs, branchOut{false, s})
			continue
		}
		b, ok := v.(vBool)
		if !ok {
			b = vBool{Pred: exprStr(cond) + "@" + a.pos(cond)}
		}
		if b.Known {
			outs = append(outs, branchOut{b.B, s})
			continue
		}
		if f, ok := s.Facts[b.Pred]; ok {
			outs = append(outs, branchOut{f != b.Neg, s})
			continue
		}
		t := s.clone()
		t.Facts[b.Pred] = !b.Neg
		s.Facts[b.Pred] = b.Neg
		t.learn(b.Pred, !b.Neg)
		s.learn(b.Pred, b.Neg)
		outs = append(outs, branchOut{true, t}, branchOut{false, s})
	}
	return outs
}

func (a *caiAn) execSwitch(s *ast.SwitchStmt, st *cState) []*cState {
	ins := []*cState{st}
	if s.Init != nil {
		ins = a.exec(s.Init, st)
	}
	var outs []*cState
	for _, st := range ins {
		if st.St != stNormal {
			outs = append(outs, st)
			continue
		}
		var tag cVal
		if s.Tag != nil {
			v, o := a.eval(s.Tag, st)
			if len(o) != 1 {
				core.Undecidedf("CAI: %s: switch tag forks", a.pos(s))
			}
			tag, st = v, o[0]
		}
		hasDefault := false
		for _, cc := range s.Body.List {
			if cc.(*ast.CaseClause).List == nil {
				hasDefault = true
			}
		}
		finish := func(os []*cState) {
			for _, o := range os {
				if o.St == stBrk {
					o.St = stNormal
				}
				outs = append(outs, o)
			}
		}
		// tagless switch: cases are conditions evaluated in order
		if s.Tag == nil {
			rest := []*cState{st}
			for _, cc := range s.Body.List {
				cl := cc.(*ast.CaseClause)
				if cl.List == nil {
					continue
				}
				var nextRest []*cState
				for _, r := range rest {
					cur := []*cState{r}
					for _, e := range cl.List {
						var still []*cState
						for _, c := range cur {
							for _, br := range a.branch(e, c) {
								if br.taken && br.st.St == stNormal {
									finish(a.execBlock(cl.Body, []*cState{br.st}))
								} else {
									still = append(still, br.st)
								}
							}
						}
						cur = still
					}
					nextRest = append(nextRest, cur...)
				}
				rest = nextRest
			}
			for _, cc := range s.Body.List {
				cl := cc.(*ast.CaseClause)
				if cl.List == nil {
					finish(a.execBlock(cl.Body, rest))
					rest = nil
				}
			}
			outs = append(outs, rest...)
			continue
		}
		boolBoth := false
		if tb, ok := tag.(vBool); ok && !tb.Known {
			if _, decided := st.Facts[tb.Pred]; !decided {
				seenT, seenF := false, false
				for _, cc := range s.Body.List {
					cl := cc.(*ast.CaseClause)
					if len(cl.List) == 1 {
						if bv, ok := a.constBool(cl.List[0]); ok {
							c := st.clone()
							c.Facts[tb.Pred] = bv != tb.Neg
							c.learn(tb.Pred, bv != tb.Neg)
							finish(a.execBlock(cl.Body, []*cState{c}))
							if bv {
								seenT = true
							} else {
								seenF = true
							}
						}
					}
				}
				if seenT && seenF {
					continue
				}
				if seenT || seenF {
					// remaining value goes to default / falls out
					c := st.clone()
					c.Facts[tb.Pred] = seenT == tb.Neg
					c.learn(tb.Pred, seenT == tb.Neg)
					done := false
					for _, cc := range s.Body.List {
						cl := cc.(*ast.CaseClause)
						if cl.List == nil {
							finish(a.execBlock(cl.Body, []*cState{c}))
							done = true
						}
					}
					if !done {
						outs = append(outs, c)
					}
					continue
				}
				boolBoth = false
			}
		}
		_ = boolBoth
		matchedKnown := false
		for _, cc := range s.Body.List {
			cl := cc.(*ast.CaseClause)
			if cl.List == nil {
				continue
			}
			feasible := true
			if tb, ok := tag.(vBool); ok && len(cl.List) == 1 {
				if bv, ok := a.constBool(cl.List[0]); ok {
					if tb.Known {
						feasible = tb.B == bv
					} else if f, ok := st.Facts[tb.Pred]; ok {
						feasible = (f != tb.Neg) == bv
					}
					if feasible {
						matchedKnown = true
					}
				}
			}
			if ts, ok := tag.(vStr); ok && ts.Known {
				feasible = false
				for _, e := range cl.List {
					if s, ok := constString(a.info, e); ok && s == ts.S {
						feasible = true
						matchedKnown = true
					}
				}
			}
			if !feasible {
				continue
			}
			c := st.clone()
			c.Trace = append(c.Trace, "case "+exprList(cl.List))
			finish(a.execBlock(cl.Body, []*cState{c}))
		}
		if matchedKnown {
			continue
		}
		for _, cc := range s.Body.List {
			cl := cc.(*ast.CaseClause)
			if cl.List == nil {
				c := st.clone()
				c.Trace = append(c.Trace, "default")
				finish(a.execBlock(cl.Body, []*cState{c}))
			}
		}
		if !hasDefault && a.enumCovered(s) {
			continue
		}
		if !hasDefault && a.operatorCovered(s, tag, st) {
			continue
		}
		if !hasDefault {
			c := st.clone()
			c.Trace = append(c.Trace, "no-case-matched("+exprStr(s.Tag)+")")
			outs = append(outs, c)
		}
	}
	return outs
}

func (a *caiAn) constBool(e ast.Expr) (bool, bool) {
	if tv, ok := a.info.Types[e]; ok && tv.Value != nil && tv.Value.Kind() == 1 /* constant.Bool */ {
		return tv.Value.String() == "true", true
	}
	return false, false
}

// enumCovered: switch over a named type covers all declared constants.
func (a *caiAn) enumCovered(s *ast.SwitchStmt) bool {
	t := a.info.TypeOf(s.Tag)
	named, ok := t.(*types.Named)
	if !ok || named.Obj().Pkg() == nil {
		return false
	}
	want := map[string]bool{}
	scope := named.Obj().Pkg().Scope()
	for _, n := range scope.Names() {
		if c, ok := scope.Lookup(n).(*types.Const); ok && types.Identical(c.Type(), t) {
			want[c.Val().ExactString()] = true
		}
	}
	if len(want) == 0 {
		return false
	}
	for _, cc := range s.Body.List {
		for _, e := range cc.(*ast.CaseClause).List {
			if tv, ok := a.info.Types[e]; ok && tv.Value != nil {
				delete(want, tv.Value.ExactString())
			}
		}
	}
	return len(want) == 0
}

// operatorCovered: a switch without default over the operator string of an
// assignment node is exhaustive when C01-R2 holds (every registered
// assignment operator has a case).  The fact is taken from the same tables
// C01-R2 checks: the cases must include every token the parser registers with
// the assignment parse function.
func (a *caiAn) operatorCovered(s *ast.SwitchStmt, tag cVal, st *cState) bool {
	ts, ok := tag.(vStr)
	if !ok || ts.Known || !strings.Contains(ts.Sym, "perator") {
		return false
	}
	have := map[string]bool{}
	for _, cc := range s.Body.List {
		for _, e := range cc.(*ast.CaseClause).List {
			if str, ok := constString(a.info, e); ok {
				have[str] = true
			}
		}
	}
	ops := assignmentOperators(a.p)
	if len(ops) == 0 {
		return false
	}
	for _, o := range ops {
		if f, known := st.Facts["streq:"+ts.Sym+":"+o]; known && !f {
			continue // excluded on this path
		}
		if !have[o] {
			return false
		}
	}
	return true
}

func exprList(es []ast.Expr) string {
	var ss []string
	for _, e := range es {
		ss = append(ss, exprStr(e))
	}
	return strings.Join(ss, ",")
}

func (a *caiAn) execTypeSwitch(s *ast.TypeSwitchStmt, st *cState) []*cState {
	var bindName *ast.Ident
	var subject ast.Expr
	switch as := s.Assign.(type) {
	case *ast.AssignStmt:
		bindName = as.Lhs[0].(*ast.Ident)
		subject = as.Rhs[0].(*ast.TypeAssertExpr).X
	case *ast.ExprStmt:
		subject = as.X.(*ast.TypeAssertExpr).X
	}
	if s.Init != nil {
		o := a.exec(s.Init, st)
		if len(o) != 1 {
			core.Undecidedf("CAI: %s: type switch init forks", a.pos(s))
		}
		st = o[0]
	}
	sv, o := a.eval(subject, st)
	if len(o) != 1 {
		core.Undecidedf("CAI: %s: type switch subject forks", a.pos(s))
	}
	st = o[0]
	var outs []*cState
	hasDefault := false
	subjNode, isNode := sv.(vNode)
	// domain of the subject (constructor-domain facts) to prune infeasible clauses
	var dom []*types.Named
	if isNode {
		dom = a.typesOf(subjNode.Sym, st)
	}
	inDom := func(t types.Type) bool {
		if dom == nil {
			return true
		}
		nt := core.NamedOf(t)
		if nt == nil {
			return true
		}
		if it, ok := nt.Underlying().(*types.Interface); ok {
			for _, d := range dom {
				if types.Implements(types.NewPointer(d), it) {
					return true
				}
			}
			return false
		}
		for _, d := range dom {
			if d == nt {
				return true
			}
		}
		return false
	}
	covered := map[*types.Named]bool{}
	for _, cc := range s.Body.List {
		cl := cc.(*ast.CaseClause)
		if cl.List != nil {
			feasible := false
			for _, e := range cl.List {
				t := a.info.TypeOf(e)
				if inDom(t) {
					feasible = true
				}
				for _, d := range dom {
					nt := core.NamedOf(t)
					if nt == d {
						covered[d] = true
					} else if nt != nil {
						if it, ok := nt.Underlying().(*types.Interface); ok && types.Implements(types.NewPointer(d), it) {
							covered[d] = true
						}
					}
				}
			}
			if !feasible {
				continue
			}
		} else if dom != nil {
			all := true
			for _, d := range dom {
				if !covered[d] {
					all = false
				}
			}
			// a default clause listed last is infeasible when the domain is covered;
			// (clauses are examined in order, default is conventionally last)
			if all && cc == s.Body.List[len(s.Body.List)-1] {
				hasDefault = true
				continue
			}
		}
		c := st.clone()
		if cl.List == nil {
			hasDefault = true
			c.Trace = append(c.Trace, "type-default")
			if isNode {
				// default: none of the listed types; if a listed type is the
				// Expression interface the value is not an expression
				for _, cc2 := range s.Body.List {
					for _, e := range cc2.(*ast.CaseClause).List {
						if t := a.info.TypeOf(e); t != nil {
							if it, ok := t.Underlying().(*types.Interface); ok && types.Identical(it, a.exprI) {
								c.Facts["isExpr("+subjNode.Sym+")"] = false
								c.learn("isExpr("+subjNode.Sym+")", false)
							}
						}
					}
				}
			}
		} else {
			c.Trace = append(c.Trace, "type-case "+exprList(cl.List))
		}
		if isNode && len(cl.List) == 1 {
			ct := a.info.TypeOf(cl.List[0])
			if ct != nil {
				if v, known := a.isExprOfType(ct); known {
					pred := "isExpr(" + subjNode.Sym + ")"
					if f, ok := c.Facts[pred]; ok && f != v {
						continue // infeasible
					}
					c.Facts[pred] = v
					c.learn(pred, v)
				}
			}
		}
		if bindName != nil {
			if obj := a.info.Implicits[cl]; obj != nil {
				v := sv
				if isNode && len(cl.List) == 1 {
					n := subjNode
					n.Typ = a.info.TypeOf(cl.List[0])
					v = n
				}
				c.Env[obj] = v
			}
		}
		for _, o := range a.execBlock(cl.Body, []*cState{c}) {
			if o.St == stBrk {
				o.St = stNormal
			}
			outs = append(outs, o)
		}
	}
	if !hasDefault && dom != nil {
		all := true
		for _, d := range dom {
			if !covered[d] {
				all = false
			}
		}
		if all {
			hasDefault = true // every type the parser can store there has a clause
		}
	}
	if !hasDefault {
		c := st.clone()
		c.Trace = append(c.Trace, "type-nomatch")
		outs = append(outs, c)
	}
	return outs
}

// ---------------------------------------------------------------- loops

func symOf(v cVal) string {
	if s, ok := v.(vSlice); ok {
		return s.Sym
	}
	return "?"
}

func (a *caiAn) execRange(s *ast.RangeStmt, st *cState) []*cState {
	xv, o := a.eval(s.X, st)
	if len(o) != 1 {
		core.Undecidedf("CAI: %s: range expression forks", a.pos(s))
	}
	st = o[0]
	var n *Lin
	var elem func(idx string) cVal
	keyIsIndex := true
	switch x := xv.(type) {
	case vSlice:
		n = x.Len
		elem = func(idx string) cVal { return a.symbolic(x.Sym+"["+idx+"]", x.Elem) }
		if _, isMap := a.info.TypeOf(s.X).Underlying().(*types.Map); isMap {
			keyIsIndex = false
		}
	case vPosSet:
		return a.execRangePosSet(s, st, x)
	case vNil:
		return []*cState{st}
	default:
		core.Undecidedf("CAI: %s: range over unmodelled value %T (%s)", a.pos(s), xv, exprStr(s.X))
	}
	xs := exprStr(s.X)
	bindIter := func(c *cState, idx string) {
		if id, ok := s.Key.(*ast.Ident); ok && id.Name != "_" {
			if keyIsIndex {
				c.Env[a.info.Defs[id]] = vInt{L: Sym("idx:" + idx)}
			} else {
				c.Env[a.info.Defs[id]] = a.symbolic("key("+idx+")", a.info.TypeOf(id))
			}
		}
		if id, ok := s.Value.(*ast.Ident); ok && id.Name != "_" {
			c.Env[a.info.Defs[id]] = elem(idx)
		}
	}
	n = st.Sub.Apply(n)
	var outs []*cState
	nonEmptyKnown := false
	if n.IsConst() {
		if n.K == 0 {
			return []*cState{st}
		}
		nonEmptyKnown = true
	}
	if f, ok := st.Facts["empty:"+n.String()]; ok {
		if f {
			return []*cState{st}
		}
		nonEmptyKnown = true
	}
	if !nonEmptyKnown {
		z := st.clone()
		z.Facts["empty:"+n.String()] = true
		z.learn("empty:"+n.String(), true)
		z.Trace = append(z.Trace, "range0("+xs+")")
		outs = append(outs, z)
	}
	run := func(from *cState, idx string, last bool) []*cState {
		c := from.clone()
		c.Facts["empty:"+n.String()] = false
		c.Facts["lastiter:"+xs] = last
		bindIter(c, idx)
		res := a.execBlock(s.Body.List, []*cState{c})
		for _, r := range res {
			if r.St == stCont {
				r.St = stNormal
			}
			delete(r.Facts, "lastiter:"+xs)
		}
		return res
	}
	base := st.clone()
	// constant trip count: unroll (at most 4) — e.g. []string{name}
	if n.IsConst() && n.K <= 4 {
		cur := []*cState{base}
		for i := 0; i < n.K; i++ {
			var next []*cState
			for _, c := range cur {
				if c.St != stNormal {
					outs = append(outs, c)
					continue
				}
				for _, r := range run(c, fmt.Sprint(i), i == n.K-1) {
					if r.St == stBrk {
						r.St = stNormal
						outs = append(outs, r)
						continue
					}
					next = append(next, r)
				}
			}
			cur = next
		}
		return append(outs, cur...)
	}
	gen := run(base, "i", false)
	var delta *Lin
	uniform := true
	for _, g := range gen {
		if g.St != stNormal || base.H == nil || g.H == nil {
			continue
		}
		d := g.Sub.Apply(g.H).Sub(g.Sub.Apply(base.H))
		if delta == nil {
			delta = d
		} else if !delta.Sub(d).IsZero() {
			uniform = false
		}
	}
	for _, g := range gen {
		if g.St == stRetErr || g.St == stRetOK {
			outs = append(outs, g)
		}
	}
	var afterGeneric []*cState
	for _, g := range gen {
		if g.St == stBrk {
			g.St = stNormal
			outs = append(outs, g)
			continue
		}
		if g.St == stNormal {
			afterGeneric = append(afterGeneric, g)
		}
	}
	if !uniform {
		// iterations with different effects: sound summary only if every
		// effect is expressible as an indicator sum; otherwise undecided
		for _, g := range afterGeneric {
			g.problem("%s: loop iterations have different emitted stack effects", a.pos(s))
		}
	}
	// bodies that bind or extend label sets must have delta 0 (checked via
	// the uniform delta) — fixpoint: label-set heights were unified in place.
	for _, g := range afterGeneric {
		pre := g.clone()
		if base.H != nil && g.H != nil && delta != nil && !delta.IsZero() {
			m, ok := scaleDelta(delta, n.AddK(-1), symOf(xv))
			if !ok {
				pre.problem("%s: cannot scale per-iteration effect %s by %s", a.pos(s), delta, n)
			} else {
				pre.H = pre.Sub.Apply(base.H).Add(m)
			}
		}
		lastOuts := run(pre, "last", true)
		for _, l := range lastOuts {
			if l.St == stBrk {
				l.St = stNormal
			}
			l.H = mergeSigma(l.H, symOf(xv))
			outs = append(outs, l)
		}
		break
	}
	return outs
}

func scaleDelta(delta, n *Lin, S string) (*Lin, bool) {
	res := n.Scale(delta.K)
	for sym, c := range delta.T {
		if strings.HasPrefix(sym, "[") && strings.Contains(sym, S+"[i]") {
			name := "Σnl" + strings.Replace(sym, S+"[i]", S+"[*]", 1)
			if res.T == nil {
				res.T = map[string]int{}
			}
			res.T[name] += c
			continue
		}
		m, ok := core.MulLin(&Lin{T: map[string]int{sym: c}}, n)
		if !ok {
			return nil, false
		}
		res = res.Add(m)
	}
	return res, true
}

func mergeSigma(h *Lin, S string) *Lin {
	if h == nil {
		return nil
	}
	for sym, c := range h.T {
		if strings.HasPrefix(sym, "Σnl[") {
			lastSym := strings.Replace(strings.TrimPrefix(sym, "Σnl"), S+"[*]", S+"[last]", 1)
			if h.T[lastSym] == c {
				h = h.Clone()
				delete(h.T, sym)
				delete(h.T, lastSym)
				h.T["Σ"+strings.TrimPrefix(sym, "Σnl")] += c
				return mergeSigma(h, S)
			}
		}
	}
	return h
}

func (a *caiAn) execRangePosSet(s *ast.RangeStmt, st *cState, ps vPosSet) []*cState {
	if ps.ID < 0 || st.Sets[ps.ID] == nil {
		return []*cState{st}
	}
	sd := st.Sets[ps.ID]
	symbolic := st.isGenericLoopSet(ps.ID) || st.isLoopSet(ps.ID)
	if sd.N == 0 && !symbolic {
		return []*cState{st}
	}
	c := st.clone()
	if id, ok := s.Value.(*ast.Ident); ok && id.Name != "_" {
		c.Env[a.info.Defs[id]] = vElemOf{ID: ps.ID}
	}
	outs := a.execBlock(s.Body.List, []*cState{c})
	for _, o := range outs {
		if o.St == stCont || o.St == stBrk {
			o.St = stNormal
		}
	}
	if symbolic || sd.N == 0 {
		z := st.clone()
		z.Trace = append(z.Trace, "noelems")
		// an empty set is trivially "bound"
		outs = append(outs, z)
	}
	return outs
}

func (a *caiAn) execFor(s *ast.ForStmt, st *cState) []*cState {
	ins := []*cState{st}
	if s.Init != nil {
		ins = a.exec(s.Init, st)
	}
	var outs []*cState
	for _, st := range ins {
		if st.St != stNormal {
			outs = append(outs, st)
			continue
		}
		n := a.tripCount(s, st)
		zeroPossible := true
		if n != nil && n.IsConst() && n.K > 0 {
			zeroPossible = false
		}
		if n != nil && n.IsConst() && n.K <= 0 {
			outs = append(outs, st)
			continue
		}
		if zeroPossible {
			z := st.clone()
			z.Trace = append(z.Trace, "for0")
			if n != nil {
				// n == 0 on this path
				if len(n.T) == 1 {
					for sym, cf := range n.T {
						if cf == 1 || cf == -1 {
							z.Sub[sym] = Const(-n.K * cf)
							z.H = z.Sub.Apply(z.H)
						}
					}
				}
			}
			outs = append(outs, z)
		}
		c := st.clone()
		if as, ok := s.Init.(*ast.AssignStmt); ok {
			for _, l := range as.Lhs {
				if id, ok := l.(*ast.Ident); ok {
					c.Env[objOfIdent(a.info, id)] = vInt{L: Sym("idx:" + id.Name)}
				}
			}
		}
		body := a.execBlock(s.Body.List, []*cState{c})
		for _, b := range body {
			if b.St == stCont || b.St == stBrk {
				b.St = stNormal
			}
			if b.St == stNormal && st.H != nil && b.H != nil {
				d := b.Sub.Apply(b.H).Sub(b.Sub.Apply(st.H))
				if !d.IsZero() {
					if n != nil {
						if m, ok := core.MulLin(d, n); ok {
							b.H = b.Sub.Apply(st.H).Add(m)
							outs = append(outs, b)
							continue
						}
					}
					b.problem("%s: loop body changes the emitted height by %s per iteration with unknown trip count", a.pos(s), d)
				}
			}
			outs = append(outs, b)
		}
	}
	return outs
}

func (a *caiAn) tripCount(s *ast.ForStmt, st *cState) *Lin {
	as, ok := s.Init.(*ast.AssignStmt)
	if !ok || len(as.Lhs) != 1 || len(as.Rhs) != 1 {
		return nil
	}
	iv, _ := a.evalPure(as.Rhs[0], st)
	start, ok := iv.(vInt)
	if !ok {
		return nil
	}
	be, ok := s.Cond.(*ast.BinaryExpr)
	if !ok {
		return nil
	}
	lim, _ := a.evalPure(be.Y, st)
	l, ok := lim.(vInt)
	if !ok {
		return nil
	}
	step := 0
	if p, ok := s.Post.(*ast.IncDecStmt); ok {
		if p.Tok == token.INC {
			step = 1
		} else {
			step = -1
		}
	}
	switch {
	case be.Op == token.LSS && step == 1:
		return l.L.Sub(start.L)
	case be.Op == token.LEQ && step == 1:
		return l.L.Sub(start.L).AddK(1)
	case be.Op == token.GEQ && step == -1:
		return start.L.Sub(l.L).AddK(1)
	case be.Op == token.GTR && step == -1:
		return start.L.Sub(l.L)
	}
	return nil
}
