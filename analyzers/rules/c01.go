package rules

import (
	"go/ast"
	"go/constant"
	"go/token"
	"go/types"
	"golang.org/x/tools/go/ssa"
	"sort"
	"strings"

	"golang.org/x/tools/go/packages"

	"risorcheck/core"
)

func init() {
	core.Register(&core.Property{
		ID: "C01",
		Decided: "Agreement of the tables that the lexer, parser, compiler and VM each keep about the same opcode / operator / node type (a disagreement mis-executes some well-formed program): " +
			"(R1) every op.Code constant is registered once in the op info table, has exactly one clause in the VM dispatch switch, that clause fetches exactly OperandCount operands on every non-error path, " +
			"and every emit site in the compiler passes a constant opcode with exactly OperandCount operands; (R2) every token registered as an infix/assignment operator has a precedence entry and is handled by the " +
			"compiler's infix / assignment switches (all three assignment siblings); (R3) every concrete ast.Node type that a parse function can return as a node has a clause in the compiler's type switch; " +
			"(R4) the operator string each compiler case maps to an op.BinaryOpType / op.CompareOpType constant agrees with that constant's own String() table, and every such constant is handled by object.Compare / the VM; " +
			"(R5) lexical scoping, structural part shared with C02: Resolve looks a name up nearest-scope-first (own tables before any enclosing function's cache), variables reach closures through cells into per-activation storage that no later activation re-uses.",
		NotCovered:  "Semantic preservation itself: precedence values, evaluation order, scoping beyond R5, the behaviour of each handler beyond its operand/stack arity. Those quantify over all programs and are not decided.",
		Assumptions: []string{"go/types constant evaluation", "the VM effect derivation of rules/vmeffect.go (abstract interpretation of the dispatch clauses; see C04-R1)"},
		Rules: []*core.Rule{
			{ID: "C01-R1", Title: "opcode tables agree (op info, VM dispatch, fetch counts, emit sites)", Floor: 120, Run: c01r1},
			{ID: "C01-R2", Title: "operator tables agree (parser registration, precedences, compiler switches)", Floor: 20, Run: c01r2},
			{ID: "C01-R3", Title: "every AST node type has a compile clause", Floor: 30, Run: c01r3},
			{ID: "C01-R4", Title: "operator string -> operation constant agreement", Floor: 15, Run: c01r4},
			{ID: "C01-R6", Title: "string indexing/slicing: code-point indices and byte offsets are kept apart (shared with C16-R5)", Floor: 10, Run: unitsRule},
			{ID: "C01-R7", Title: "operators that build a new container give it storage of its own (shared with C16-R2)", Floor: 5, Run: c16r2},
			{ID: "C01-R8", Title: "the dispatch loop keeps no stale copy of frame state", Floor: 1, Run: dispatchUsesLiveFrameState},
			{ID: "C01-R9", Title: "compile functions meet their stack contract on all paths (shared with C04-R2)", Floor: 35, Run: c04r2},
			{ID: "C01-R10", Title: "break/continue land at the loop's label heights (shared with C04-R3)", Floor: 5, Run: c04r3},
			{ID: "C01-R11", Title: "declared names bind in the current scope (shared with C02-R9)", Floor: 3, Run: bindingDoesNotFallBackOutward},
			{ID: "C01-R12", Title: "operands of a piped call are compiled as ordinary expressions", Floor: 1, Run: partialModeOffForOperands},
			{ID: "C01-R13", Title: "derived fields of containers are updated by every mutator (shared with C16-R4)", Floor: 5, Run: c16r4},
			{ID: "C01-R5", Title: "lexical scoping: nearest-scope-first resolution, per-activation variable storage (shared with C02-R2/R3)", Floor: 5, Run: func(c *core.Ctx) { c02r2(c); c02r3(c); c02r4(c); c02r5(c); c02r6(c) }},
			{ID: "C01-R14", Title: "raw string text becomes a constant only where the literal is not a template", Floor: 1, Run: plainStringConstantsOnlyForPlainStrings},
			{ID: "C01-R15", Title: "block scopes are opened on every path that compiles the block", Floor: 3, Run: blockScopesOpenedUnconditionally},
			{ID: "C01-R16", Title: "hand-made indices into a parallel sequence advance on every path", Floor: 1, Run: counterAdvancedBeforeContinue},
			{ID: "C01-R17", Title: "stores to resolved names test constness first", Floor: 4, Run: storesToResolvedNamesCheckConstness},
			{ID: "C01-R18", Title: "computed messages are not used as format strings", Floor: 1, Run: messagesAreNotFormats},
			{ID: "C01-R19", Title: "break leaves the loop and continue stays in it (patch targets)", Floor: 2, Run: loopExitTargets},
			{ID: "C01-R20", Title: "operands are compiled in source order", Floor: 10, Run: operandsCompiledInSourceOrder},
			{ID: "C01-R21", Title: "derived constructors copy every field (shared with C02-R11)", Floor: 1, Run: derivedConstructorsCopyEveryField},
			{ID: "C01-R22", Title: "equality is decided by Equals", Floor: 1, Run: equalityIsDecidedByEquals},
			{ID: "C01-R23", Title: "table indexes fit their 16-bit operand", Floor: 1, Run: tableIndexesFitTheirOperand},
			{ID: "C01-R24", Title: "scratch buffers stay in the VM", Floor: 1, Run: scratchBuffersStayInTheVM},
			{ID: "C01-R25", Title: "operator precedence fixed before advancing (shared with C20-R5)", Floor: 1, Run: c20r5},
			{ID: "C01-R26", Title: "float operands yield floats", Floor: 2, Run: floatOperandsYieldFloats},
			{ID: "C01-R27", Title: "the partial flag is for call stages only", Floor: 1, Run: thePartialFlagIsForCallStagesOnly},
			{ID: "C01-R28", Title: "no ordering by integer subtraction (shared with C15-R4)", Floor: 8, Run: c15r4},
			{ID: "C01-R29", Title: "literals are assembled in source order", Floor: 3, Run: literalsAreAssembledInSourceOrder},
			{ID: "C01-R30", Title: "nodes are not built on the token before without a look at it (shared with C20-R24)", Floor: 1, Run: nodesAreNotBuiltOnTheTokenBefore},
			{ID: "C01-R31", Title: "var declares in both its forms", Floor: 1, Run: varDeclaresInBothForms},
			{ID: "C01-R32", Title: "the dispatch loop gives nil no meaning of its own", Floor: 1, Run: theDispatchLoopGivesNilNoMeaningOfItsOwn},
			{ID: "C01-R33", Title: "operators do not manufacture constants", Floor: 1, Run: operatorsDoNotManufactureConstants},
			{ID: "C01-R34", Title: "assignment targets are evaluated before the value", Floor: 3, Run: assignmentTargetsAreEvaluatedBeforeTheValue},
			{ID: "C01-R35", Title: "iterators read the container at every step (shared with C16-R31)", Floor: 5, Run: iteratorsReadTheContainerAtEveryStep},
			{ID: "C01-R36", Title: "every symbol has a slot of its own", Floor: 1, Run: everySymbolHasASlotOfItsOwn},
			{ID: "C01-R37", Title: "derived operands are derived last (shared with C16-R32)", Floor: 1, Run: derivedOperandsAreDerivedLast},
			{ID: "C01-R38", Title: "names are read from their storage (shared with C18-R25)", Floor: 3, Run: namesAreReadFromTheirStorage},
			{ID: "C01-R39", Title: "the target of a compound assignment is read before the value is evaluated", Floor: 3, Run: theTargetOfACompoundAssignmentIsReadBeforeTheValueIsEvaluated},
			{ID: "C01-R40", Title: "an entry has a key and a value of its own", Floor: 4, Run: anEntryHasAKeyAndAValueOfItsOwn},
			{ID: "C01-R41", Title: "operators shared with Go keep Go's order of precedence", Floor: 1, Run: sharedOperatorsKeepGosOrder},
		},
	})
}

// opInfoTable reads the op info registrations: composite literals inside
// package op whose first element is an op.Code constant and which carry an
// integer constant (the operand count).
func opInfoTable(p *core.Program) (counts map[string]int, dups []string, pos map[string]token.Pos) {
	opp := p.Pkg("op")
	info := opp.TypesInfo
	codeT := core.MustType(opp, "Code")
	counts, pos = map[string]int{}, map[string]token.Pos{}
	for _, f := range opp.Syntax {
		ast.Inspect(f, func(n ast.Node) bool {
			cl, ok := n.(*ast.CompositeLit)
			if !ok || len(cl.Elts) < 2 {
				return true
			}
			var opc *types.Const
			cnt := -1
			for i, e := range cl.Elts {
				v := e
				key := ""
				if kv, ok := e.(*ast.KeyValueExpr); ok {
					v = kv.Value
					if id, ok := kv.Key.(*ast.Ident); ok {
						key = id.Name
					}
				}
				if c, ok := objOf(info, v).(*types.Const); ok && types.Identical(c.Type(), codeT) {
					if i == 0 || key != "" {
						opc = c
					}
					continue
				}
				if k, ok := constInt(info, v); ok {
					cnt = int(k)
				}
			}
			if opc != nil && cnt >= 0 {
				if _, dup := counts[opc.Name()]; dup {
					dups = append(dups, opc.Name())
				}
				counts[opc.Name()] = cnt
				pos[opc.Name()] = cl.Pos()
			}
			return true
		})
	}
	return
}

// emitMethod resolves the compiler's emit primitive by role: the method of
// Compiler taking (op.Code, ...uint16).
func emitMethod(p *core.Program) *types.Func {
	cp := p.Pkg("compiler")
	ct := core.MustType(cp, "Compiler")
	for _, m := range core.Methods(ct) {
		sig := m.Type().(*types.Signature)
		if sig.Params().Len() == 2 && sig.Variadic() && core.IsNamed(sig.Params().At(0).Type(), pkgPath("op"), "Code") {
			return m
		}
	}
	core.Undecidedf("emit primitive (method of compiler.Compiler taking (op.Code, ...uint16)) not found")
	return nil
}

func c01r1(c *core.Ctx) {
	p := c.P
	consts := opConsts(p)
	counts, dups, ipos := opInfoTable(p)
	if len(counts) < 20 {
		core.Undecidedf("op info table not recognised (%d entries)", len(counts))
	}
	for _, d := range dups {
		c.Fail("op|info-dup:"+d, p.Pos(ipos[d]), "opcode "+d+" is registered twice in the op info table")
	}
	t := VMTable(p)
	// distinct numeric values
	byVal := map[string]string{}
	for _, n := range sortedKeys(consts) {
		v := consts[n].Val().ExactString()
		if o, dup := byVal[v]; dup {
			c.Fail("op|value-dup:"+n, p.Pos(consts[n].Pos()), "opcodes "+o+" and "+n+" share the numeric value "+v)
		}
		byVal[v] = n
	}
	zero := ""
	for n, k := range consts {
		if v, _ := constant.Int64Val(k.Val()); v == 0 {
			zero = n
		}
	}
	for _, n := range sortedKeys(consts) {
		if n == zero {
			// the zero opcode is the "invalid" marker: it must have no handler
			_, has := t.Clauses[n]
			c.Check(!has, "op:"+n+"|no-handler", p.Pos(consts[n].Pos()), "the zero opcode "+n+" denotes 'invalid' and must not be dispatched")
			continue
		}
		cnt, reg := counts[n]
		c.Check(reg, "op:"+n+"|registered", p.Pos(consts[n].Pos()), "opcode "+n+" has an entry in the op info table (name, operand count)")
		cl, has := t.Clauses[n]
		c.Check(has, "op:"+n+"|vm-clause", p.Pos(consts[n].Pos()), "opcode "+n+" has a clause in the VM dispatch switch")
		if !has || !reg {
			continue
		}
		var bad []string
		for _, pr := range cl.Problems {
			if strings.Contains(pr, "fetch") {
				bad = append(bad, pr)
			}
		}
		for _, o := range cl.Outcomes {
			if o.Fetch != cnt {
				bad = append(bad, sprintf("a non-error path fetches %d operand(s) but the table says %d (%s)", o.Fetch, cnt, o.key()))
			}
		}
		if len(cl.Outcomes) == 0 {
			bad = append(bad, "no non-error path through the handler")
		}
		c.Check(len(bad) == 0, "op:"+n+"|fetch-count", p.Pos(cl.Pos), sprintf("the handler of %s fetches exactly OperandCount=%d operands on every non-error path", n, cnt), bad...)
	}
	// clauses for unknown constants cannot exist (type checked); default clause required
	c.Check(t.Default, "vm|default-clause", p.Pos(t.Switch.Pos()), "the dispatch switch has a default clause rejecting unknown opcodes")

	// emit sites
	emit := emitMethod(p)
	cp := p.Pkg("compiler")
	nemit := 0
	perFn := map[string]int{}
	funcBodies(cp, func(fn *types.Func, fd *ast.FuncDecl) {
		ast.Inspect(fd.Body, func(n ast.Node) bool {
			ce, ok := n.(*ast.CallExpr)
			if !ok || calleeOf(cp.TypesInfo, ce) != emit || len(ce.Args) == 0 {
				return true
			}
			nemit++
			opc, _ := objOf(cp.TypesInfo, ce.Args[0]).(*types.Const)
			name := "?"
			if opc != nil {
				name = opc.Name()
			}
			k := declName(fd) + "|emit:" + name
			perFn[k]++
			key := "compiler." + k + "#" + itoa(perFn[k])
			if opc == nil {
				c.Fail(key, posOf(p, ce), "emit is called with a non-constant opcode "+exprStr(ce.Args[0])+"; operand count cannot be checked statically")
				return true
			}
			want, reg := counts[opc.Name()]
			got := len(ce.Args) - 1
			c.Check(reg && got == want && !ce.Ellipsis.IsValid(), key, posOf(p, ce),
				sprintf("emit(%s, …) passes %d operand(s); the op info table says %d", opc.Name(), got, want))
			return true
		})
	})
	c.Stat("opcodes", len(consts))
	c.Stat("emit_sites", nemit)
	c.Stat("dispatch_clauses", len(t.Clauses))
}

// tokenConstString: the string value of a token.Type constant expression.
func tokenConstString(info *types.Info, e ast.Expr) (string, bool) {
	return constString(info, e)
}

func c01r2(c *core.Ctx) {
	p := c.P
	pp := p.Pkg("parser")
	info := pp.TypesInfo
	parserT := core.MustType(pp, "Parser")
	// registration calls: methods of Parser whose body stores into a map field keyed by the token type
	type reg struct {
		tok  string
		fn   *types.Func
		kind string
		pos  token.Pos
	}
	var regs []reg
	regMethods := map[*types.Func]string{}
	for _, m := range core.Methods(parserT) {
		sig := m.Type().(*types.Signature)
		if sig.Params().Len() == 2 && core.IsNamed(sig.Params().At(0).Type(), pkgPath("token"), "Type") {
			if n := core.NamedOf(sig.Params().At(1).Type()); n != nil {
				regMethods[m] = n.Obj().Name() // prefixParseFn / infixParseFn / postfixParseFn
			}
		}
	}
	if len(regMethods) < 2 {
		core.Undecidedf("parser registration methods not found")
	}
	funcBodies(pp, func(fn *types.Func, fd *ast.FuncDecl) {
		ast.Inspect(fd.Body, func(n ast.Node) bool {
			ce, ok := n.(*ast.CallExpr)
			if !ok {
				return true
			}
			kind, ok := regMethods[calleeOf(info, ce)]
			if !ok || len(ce.Args) != 2 {
				return true
			}
			tok, ok := tokenConstString(info, ce.Args[0])
			if !ok {
				c.Fail("parser|register:non-const", posOf(p, ce), "operator registration with a non-constant token type")
				return true
			}
			h, _ := objOf(info, ce.Args[1]).(*types.Func)
			regs = append(regs, reg{tok, h, kind, ce.Pos()})
			return true
		})
	})
	// precedences map
	prec := map[string]bool{}
	for _, f := range pp.Syntax {
		ast.Inspect(f, func(n ast.Node) bool {
			vs, ok := n.(*ast.ValueSpec)
			if !ok || len(vs.Values) != 1 {
				return true
			}
			cl, ok := vs.Values[0].(*ast.CompositeLit)
			if !ok {
				return true
			}
			mt, ok := info.TypeOf(cl).Underlying().(*types.Map)
			if !ok || !core.IsNamed(mt.Key(), pkgPath("token"), "Type") {
				return true
			}
			if b, ok := mt.Elem().Underlying().(*types.Basic); !ok || b.Kind() != types.Int {
				return true
			}
			for _, e := range cl.Elts {
				if kv, ok := e.(*ast.KeyValueExpr); ok {
					if s, ok := tokenConstString(info, kv.Key); ok {
						prec[s] = true
					}
				}
			}
			return true
		})
	}
	if len(prec) < 10 {
		core.Undecidedf("precedence table (map[token.Type]int composite literal in package parser) not found")
	}
	// compiler switches
	cp := p.Pkg("compiler")
	ct := core.MustType(cp, "Compiler")
	caseStrings := func(m *types.Func) map[string]bool {
		out := map[string]bool{}
		fd := p.Decl(m)
		if fd == nil {
			return out
		}
		ast.Inspect(fd.Body, func(n ast.Node) bool {
			switch x := n.(type) {
			case *ast.CaseClause:
				for _, e := range x.List {
					if s, ok := constString(cp.TypesInfo, e); ok {
						out[s] = true
					}
				}
			case *ast.BinaryExpr:
				if x.Op == token.EQL || x.Op == token.NEQ {
					if s, ok := constString(cp.TypesInfo, x.Y); ok {
						out[s] = true
					}
					if s, ok := constString(cp.TypesInfo, x.X); ok {
						out[s] = true
					}
				}
			}
			return true
		})
		return out
	}
	// infix compile function: the method of Compiler taking *ast.Infix with a string switch
	var infixM *types.Func
	var assignMs []*types.Func
	for _, m := range core.Methods(ct) {
		sig := m.Type().(*types.Signature)
		if sig.Params().Len() < 1 {
			continue
		}
		pt := core.NamedOf(sig.Params().At(0).Type())
		if pt == nil || pt.Obj().Pkg() == nil || pt.Obj().Pkg().Path() != pkgPath("ast") {
			continue
		}
		cs := caseStrings(m)
		switch pt.Obj().Name() {
		case "Infix":
			if len(cs) > 5 {
				infixM = m
			}
		case "Assign", "SetAttr":
			if len(cs) >= 3 {
				assignMs = append(assignMs, m)
			}
		}
	}
	if infixM == nil || len(assignMs) == 0 {
		core.Undecidedf("compiler infix / assignment operator switches not found")
	}
	// assignment helpers called from the Assign compile function with the same node (compileSetItem)
	for _, m := range core.Methods(ct) {
		cs := caseStrings(m)
		if len(cs) >= 3 && cs["+="] && cs["-="] {
			dup := false
			for _, x := range assignMs {
				if x == m {
					dup = true
				}
			}
			if !dup {
				assignMs = append(assignMs, m)
			}
		}
	}
	infixCases := caseStrings(infixM)
	sort.Slice(regs, func(i, j int) bool { return regs[i].tok < regs[j].tok })
	// which handler is the generic infix handler / the assignment handler: by the AST node they construct
	constructs := func(h *types.Func, ctor string) bool {
		fd := p.Decl(h)
		found := false
		if fd == nil {
			return false
		}
		ast.Inspect(fd.Body, func(n ast.Node) bool {
			if ce, ok := n.(*ast.CallExpr); ok {
				if cal := calleeOf(info, ce); cal != nil && cal.Pkg() != nil && cal.Pkg().Path() == pkgPath("ast") && cal.Name() == ctor {
					found = true
				}
			}
			return true
		})
		return found
	}
	nInfix, nAssign := 0, 0
	for _, r := range regs {
		if r.kind != "infixParseFn" {
			continue
		}
		c.Check(prec[r.tok], "parser|precedence:"+r.tok, p.Pos(r.pos), sprintf("infix token %q has a precedence entry (otherwise the Pratt loop never consumes it)", r.tok))
		if r.fn == nil {
			continue
		}
		if constructs(r.fn, "NewInfix") {
			nInfix++
			c.Check(infixCases[r.tok], "compiler|infix-case:"+r.tok, p.Pos(r.pos), sprintf("operator %q parsed as a generic infix expression is handled by %s", r.tok, infixM.Name()))
		}
		if constructs(r.fn, "NewAssign") {
			nAssign++
			for _, m := range assignMs {
				cs := caseStrings(m)
				if !cs[r.tok] && r.tok == "=" && onlyCalledByHandlersOf(p, m, assignMs, "=", caseStrings) {
					// a helper for the compound operators only: the plain assignment never reaches it
					continue
				}
				c.Check(cs[r.tok], "compiler."+m.Name()+"|assign-case:"+r.tok, p.Pos(r.pos), sprintf("assignment operator %q is handled by %s", r.tok, m.Name()))
			}
		}
	}
	// converse: every operator string the infix switch handles is producible: registered as infix
	registered := map[string]bool{}
	for _, r := range regs {
		if r.kind == "infixParseFn" {
			registered[r.tok] = true
		}
	}
	for _, s := range sortedKeys(infixCases) {
		c.Check(registered[s], "parser|registered:"+s, posOf(p, p.Decl(infixM)), sprintf("operator %q handled by the compiler is registered with the parser", s))
	}
	c.Stat("infix_registrations", len(regs))
	c.Stat("generic_infix_operators", nInfix)
	c.Stat("assignment_operators", nAssign)
}

// compileDispatch resolves the compiler's node dispatch: the method of
// Compiler with a type switch over an ast.Node parameter with >= 20 clauses.
func compileDispatch(p *core.Program) (*types.Func, *ast.TypeSwitchStmt) {
	cp := p.Pkg("compiler")
	var fn *types.Func
	var ts *ast.TypeSwitchStmt
	funcBodies(cp, func(f *types.Func, fd *ast.FuncDecl) {
		if core.RecvNamed(f) == nil || core.RecvNamed(f).Obj().Name() != "Compiler" {
			return
		}
		ast.Inspect(fd.Body, func(n ast.Node) bool {
			if s, ok := n.(*ast.TypeSwitchStmt); ok && len(s.Body.List) >= 20 && ts == nil {
				fn, ts = f, s
			}
			return true
		})
	})
	if fn == nil {
		core.Undecidedf("compiler node dispatch (type switch with >= 20 clauses in a Compiler method) not found")
	}
	return fn, ts
}

// astNodeTypes lists the concrete types of package ast implementing Node.
func astNodeTypes(p *core.Program) []*types.Named {
	ap := p.Pkg("ast")
	nodeI := core.MustType(ap, "Node").Underlying().(*types.Interface)
	var out []*types.Named
	for _, n := range ap.Types.Scope().Names() {
		tn, ok := ap.Types.Scope().Lookup(n).(*types.TypeName)
		if !ok || tn.IsAlias() {
			continue
		}
		nt, ok := tn.Type().(*types.Named)
		if !ok {
			continue
		}
		if _, isI := nt.Underlying().(*types.Interface); isI {
			continue
		}
		if types.Implements(types.NewPointer(nt), nodeI) {
			out = append(out, nt)
		}
	}
	return out
}

func c01r3(c *core.Ctx) {
	p := c.P
	cp := p.Pkg("compiler")
	fn, ts := compileDispatch(p)
	clauses := map[*types.Named]bool{}
	hasDefault := false
	for _, cc := range ts.Body.List {
		cl := cc.(*ast.CaseClause)
		if cl.List == nil {
			hasDefault = true
		}
		for _, e := range cl.List {
			if n := core.NamedOf(cp.TypesInfo.TypeOf(e)); n != nil {
				clauses[n] = true
			}
		}
	}
	// node types the parser can hand out as a Node/Statement/Expression:
	// those constructed by an ast.New* call whose result is converted to an
	// interface type in package parser (returned, appended to []ast.Node, …).
	producible := producedAsNode(p)
	nodes := astNodeTypes(p)
	for _, nt := range nodes {
		name := nt.Obj().Name()
		if !producible[nt] {
			c.Pass("ast."+name+"|substructure", p.Pos(nt.Obj().Pos()), "node type "+name+" is never handed out by the parser as a Node (sub-structure of another node)")
			continue
		}
		c.Check(clauses[nt], "ast."+name+"|compile-clause", p.Pos(nt.Obj().Pos()), "node type *ast."+name+" has a clause in "+fn.Name()+"'s type switch")
	}
	c.Check(hasDefault, "compiler|default-clause", p.Pos(ts.Pos()), "the node dispatch has a default clause")
	c.Stat("node_types", len(nodes))
	c.Stat("compile_clauses", len(clauses))
}

// producedAsNode: ast node types that package parser converts to an
// interface value (SSA MakeInterface of *ast.T).
func producedAsNode(p *core.Program) map[*types.Named]bool {
	out := map[*types.Named]bool{}
	pp := p.Pkg("parser")
	info := pp.TypesInfo
	// AST-level: any expression of type *ast.T used where an interface type is expected.
	// Approximated soundly (over-approximation of "producible") by: T is the type of
	// some expression in package parser whose value is assigned/returned/passed
	// as an interface type.
	record := func(e ast.Expr, target types.Type) {
		if target == nil {
			return
		}
		if _, isI := target.Underlying().(*types.Interface); !isI {
			return
		}
		t := info.TypeOf(e)
		if t == nil {
			return
		}
		if _, srcI := t.Underlying().(*types.Interface); srcI {
			return
		}
		if n := core.NamedOf(t); n != nil && n.Obj().Pkg() != nil && n.Obj().Pkg().Path() == pkgPath("ast") {
			out[n] = true
		}
	}
	for _, f := range pp.Syntax {
		var sigStack []*types.Signature
		var visit func(n ast.Node) bool
		visit = func(n ast.Node) bool {
			switch x := n.(type) {
			case *ast.FuncDecl:
				if o, ok := info.Defs[x.Name].(*types.Func); ok && x.Body != nil {
					sigStack = append(sigStack, o.Type().(*types.Signature))
					ast.Inspect(x.Body, visit)
					sigStack = sigStack[:len(sigStack)-1]
				}
				return false
			case *ast.FuncLit:
				if s, ok := info.TypeOf(x).(*types.Signature); ok {
					sigStack = append(sigStack, s)
					ast.Inspect(x.Body, visit)
					sigStack = sigStack[:len(sigStack)-1]
				}
				return false
			case *ast.ReturnStmt:
				if len(sigStack) > 0 {
					res := sigStack[len(sigStack)-1].Results()
					if len(x.Results) == res.Len() {
						for i, r := range x.Results {
							record(r, res.At(i).Type())
						}
					}
				}
			case *ast.AssignStmt:
				if len(x.Lhs) == len(x.Rhs) {
					for i, r := range x.Rhs {
						record(r, info.TypeOf(x.Lhs[i]))
					}
				}
			case *ast.ValueSpec:
				if x.Type != nil {
					for _, v := range x.Values {
						record(v, info.TypeOf(x.Type))
					}
				}
			case *ast.CallExpr:
				if sig, ok := info.TypeOf(x.Fun).(*types.Signature); ok {
					for i, a := range x.Args {
						var pt types.Type
						if sig.Variadic() && i >= sig.Params().Len()-1 {
							pt = sig.Params().At(sig.Params().Len() - 1).Type().(*types.Slice).Elem()
						} else if i < sig.Params().Len() {
							pt = sig.Params().At(i).Type()
						}
						record(a, pt)
					}
				} else if isBuiltinCall(info, x, "append") && len(x.Args) > 1 {
					if st, ok := info.TypeOf(x.Args[0]).Underlying().(*types.Slice); ok {
						for _, a := range x.Args[1:] {
							record(a, st.Elem())
						}
					}
				}
			case *ast.CompositeLit:
				if st, ok := info.TypeOf(x).Underlying().(*types.Slice); ok {
					for _, e := range x.Elts {
						record(e, st.Elem())
					}
				}
			}
			return true
		}
		ast.Inspect(f, visit)
	}
	return out
}

// ---------------------------------------------------------------- R4

// stringTable extracts the String() table of a named integer type in package
// op: constant name -> returned string.
func stringTable(p *core.Program, typeName string) map[string]string {
	opp := p.Pkg("op")
	t := core.MustType(opp, typeName)
	m := core.Method(t, "String")
	out := map[string]string{}
	if m == nil {
		return out
	}
	fd := p.Decl(m)
	ast.Inspect(fd.Body, func(n ast.Node) bool {
		cc, ok := n.(*ast.CaseClause)
		if !ok {
			return true
		}
		for _, e := range cc.List {
			k, ok := objOf(opp.TypesInfo, e).(*types.Const)
			if !ok {
				continue
			}
			for _, s := range cc.Body {
				if r, ok := s.(*ast.ReturnStmt); ok && len(r.Results) == 1 {
					if str, ok := constString(opp.TypesInfo, r.Results[0]); ok {
						out[k.Name()] = str
					}
				}
			}
		}
		return true
	})
	return out
}

func c01r4(c *core.Ctx) {
	p := c.P
	cp := p.Pkg("compiler")
	info := cp.TypesInfo
	emit := emitMethod(p)
	binS := stringTable(p, "BinaryOpType")
	cmpS := stringTable(p, "CompareOpType")
	if len(binS) < 5 || len(cmpS) < 5 {
		core.Undecidedf("op String() tables not recognised")
	}
	// exceptions: display strings that intentionally differ from the source operator
	// (one line of reason each)
	displayDiffers := map[string]string{
		"BitwiseAnd": "&", // String() renders \"&^\"; the source operator is & (display quirk of op.String, used only in error messages)
		"BitwiseOr":  "|", // not a source-level infix operator (| is the pipe); kept for completeness
	}
	n := 0
	funcBodies(cp, func(fn *types.Func, fd *ast.FuncDecl) {
		ast.Inspect(fd.Body, func(nd ast.Node) bool {
			cc, ok := nd.(*ast.CaseClause)
			if !ok || len(cc.List) == 0 {
				return true
			}
			var labels []string
			for _, e := range cc.List {
				if s, ok := constString(info, e); ok {
					labels = append(labels, s)
				}
			}
			if len(labels) == 0 {
				return true
			}
			// operation constants passed to emit inside this clause (top level of the clause only)
			for _, st := range cc.Body {
				ast.Inspect(st, func(x ast.Node) bool {
					if _, nested := x.(*ast.CaseClause); nested {
						return false
					}
					ce, ok := x.(*ast.CallExpr)
					if !ok || calleeOf(info, ce) != emit {
						return true
					}
					for _, a := range ce.Args[1:] {
						var k *types.Const
						ast.Inspect(a, func(y ast.Node) bool {
							if id, ok := y.(*ast.Ident); ok {
								if cst, ok := info.Uses[id].(*types.Const); ok && cst.Pkg() != nil && cst.Pkg().Path() == pkgPath("op") {
									if tn := core.NamedOf(cst.Type()); tn != nil && (tn.Obj().Name() == "BinaryOpType" || tn.Obj().Name() == "CompareOpType") {
										k = cst
									}
								}
							}
							return true
						})
						if k == nil {
							continue
						}
						want, ok := binS[k.Name()]
						if !ok {
							want, ok = cmpS[k.Name()]
						}
						if alt, ok2 := displayDiffers[k.Name()]; ok2 {
							want = alt
						}
						for _, lab := range labels {
							base := strings.TrimSuffix(lab, "=")
							if lab == "==" || lab == "!=" || lab == "<=" || lab == ">=" {
								base = lab
							}
							n++
							c.Check(ok && (want == lab || want == base), "compiler."+declName(fd)+"|case:"+lab+"->"+k.Name(), posOf(p, ce),
								sprintf("case %q emits op.%s, whose own String() table says %q", lab, k.Name(), want))
						}
					}
					return true
				})
			}
			return true
		})
	})
	c.Stat("operator_case_emits", n)
	// every CompareOpType constant is handled by object.Compare
	obj := p.Pkg("object")
	cmpFn := core.LookupFunc(obj, "Compare")
	if cmpFn == nil {
		core.Undecidedf("object.Compare not found")
	}
	handled := caseConsts(obj, p.Decl(cmpFn))
	for _, k := range sortedKeys(cmpS) {
		c.Check(handled[k], "object.Compare|case:"+k, posOf(p, p.Decl(cmpFn)), "comparison operation op."+k+" is handled by object.Compare")
	}
}

func caseConsts(pk *packages.Package, fd *ast.FuncDecl) map[string]bool {
	out := map[string]bool{}
	if fd == nil {
		return out
	}
	ast.Inspect(fd.Body, func(n ast.Node) bool {
		if cc, ok := n.(*ast.CaseClause); ok {
			for _, e := range cc.List {
				if k, ok := objOf(pk.TypesInfo, e).(*types.Const); ok {
					out[k.Name()] = true
				}
			}
		}
		return true
	})
	return out
}

// onlyCalledByHandlersOf: every static caller of m is one of ms and itself
// mentions the operator tok (it decides about tok before it hands on).
func onlyCalledByHandlersOf(p *core.Program, m *types.Func, ms []*types.Func, tok string, caseStrings func(*types.Func) map[string]bool) bool {
	target := p.SSAFunc(m)
	if target == nil {
		return false
	}
	callers := 0
	for _, x := range ms {
		if x == m {
			continue
		}
		sf := p.SSAFunc(x)
		if sf == nil {
			continue
		}
		for _, b := range sf.Blocks {
			for _, in := range b.Instrs {
				if ci, ok := in.(ssa.CallInstruction); ok && ci.Common().StaticCallee() == target {
					if !caseStrings(x)[tok] {
						return false
					}
					callers++
				}
			}
		}
	}
	if callers == 0 {
		return false
	}
	// no caller outside ms
	for _, fn := range repoFns(p, "compiler") {
		isM := false
		for _, x := range ms {
			if p.SSAFunc(x) == fn {
				isM = true
			}
		}
		if isM {
			continue
		}
		for _, b := range fn.Blocks {
			for _, in := range b.Instrs {
				if ci, ok := in.(ssa.CallInstruction); ok && ci.Common().StaticCallee() == target {
					return false
				}
			}
		}
	}
	return true
}
