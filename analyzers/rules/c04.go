package rules

import (
	"fmt"
	"go/ast"
	"go/token"
	"go/types"
	"sort"
	"strings"

	"risorcheck/core"
)

func init() {
	core.Register(&core.Property{
		ID: "C04",
		Decided: "A stack discipline for the code generator, proved once for all programs by abstractly interpreting the Go source of the compiler and of the VM dispatch (nothing is executed): " +
			"(R1) every opcode handler has a derived (pops, pushes) effect as a linear function of its operands on every non-error path (two data-dependent handlers use a declared effect, listed as trusted); " +
			"(R2) every compile function reachable from the node dispatch leaves, on every Go path that returns without error, exactly the net height its node type's IsExpression() promises " +
			"(+1 expression, 0 statement, the indicator where IsExpression is computed), with all emitted jumps bound to labels of equal height, no dangling jump and balanced emission contexts — assuming the same contract for the children it compiles (modular proof); " +
			"(R3) break/continue jump to labels of the innermost loop: every slot compiled while a loop record is open sits at the continue label's height, the break label is lower by exactly the iterator that break pops for range loops, " +
			"and no path in the AST-nesting graph from such a slot to a break/continue crosses a slot compiled above temporaries; (R4) every VM method that activates a frame above the current one restores fp/ip/sp through a deferred resumeFrame taken before the activation.",
		NotCovered:  "Capacity (1024) itself, the values on the stack, whether Copy/Swap offsets address the intended slot, and the dynamic half of the property (outcomes at scaled loop bounds), which follows from R1–R4 only under the trusted base.",
		Assumptions: []string{"declared effects of Unpack (pushes operand0 after the size check) and ReturnValue (leaves the frame)", "Go semantics of the compiler's own control flow as modelled by the interpreter (if/switch/type switch/range/for, early error returns)", "iterator protocol of ForIter as written in the handler"},
		Rules: []*core.Rule{
			{ID: "C04-R1", Title: "VM effect table derived for every opcode", Floor: 40, Run: c04r1},
			{ID: "C04-R2", Title: "compile functions meet their stack contract on all paths", Floor: 35, Run: c04r2},
			{ID: "C04-R3", Title: "break/continue land at the loop's label heights (nesting graph)", Floor: 5, Run: c04r3},
			{ID: "C04-R4", Title: "frame activation paired with deferred resumeFrame", Floor: 2, Run: c04r4},
			{ID: "C04-R6", Title: "every run enters the dispatch loop with an empty operand stack", Floor: 1, Run: runStartsEmpty},
			{ID: "C04-R5", Title: "run-state reset (sp) on entry only, guarded only by request and first-run", Floor: 1, Run: resetDiscipline},
			{ID: "C04-R7", Title: "the stack pointer is advanced only after the slot was written (it always indexes the array)", Floor: 1, Run: spStaysInRange},
			{ID: "C04-R8", Title: "the declared effect of Unpack rests on an exact size test before every pushing loop", Floor: 1, Run: unpackSizeCheckIsExact},
			{ID: "C04-R9", Title: "host entry points do not push", Floor: 5, Run: hostEntryPointsDoNotPush},
			{ID: "C04-R10", Title: "nesting counters of the VM are taken off in a deferred function (shared with C03-R34)", Floor: 1, Run: nestingCountersAreKeptOnEveryPath},
		},
	})
}

func c04r1(c *core.Ctx) {
	p := c.P
	t := VMTable(p)
	for _, n := range sortedKeys(t.Clauses) {
		cl := t.Clauses[n]
		if d, ok := declaredVMEffects[n]; ok {
			probs := strings.Join(cl.Problems, "; ")
			okd := strings.Contains(probs, d.Expect)
			c.Check(okd, "vm:"+n+"|declared-effect", p.Pos(cl.Pos), fmt.Sprintf("handler of %s uses the declared effect (%s); its derivation must fail for exactly that reason (%q)", n, d.Reason, d.Expect), cl.Problems...)
			continue
		}
		var out []string
		for _, o := range cl.Outcomes {
			out = append(out, o.key())
		}
		c.Check(len(cl.Problems) == 0 && len(cl.Outcomes) > 0, "vm:"+n+"|effect", p.Pos(cl.Pos),
			fmt.Sprintf("stack effect of %s derived on every non-error path: %s", n, strings.Join(out, " || ")), cl.Problems...)
	}
	// callObject pushes exactly one value on success (needed by Call / defers)
	vmT := core.MustType(p.Pkg("vm"), "VirtualMachine")
	_ = vmT
	c.Stat("handlers", len(t.Clauses))
}

// caiRun caches the whole compiler analysis per program.
type caiRunResult struct {
	a       *caiAn
	results []*caiFnResult
	byFn    map[string]*caiFnResult
}

var caiCache = map[*core.Program]*caiRunResult{}

func runCAI(p *core.Program) *caiRunResult {
	if r, ok := caiCache[p]; ok {
		return r
	}
	a := newCAI(p)
	targets := a.targets()
	produced := producedAsNode(p)
	// loop record field roles from the Control compile function: the set whose
	// jump is recorded below the statement's height is the break set, the bool
	// field that decides it is the range-loop flag
	for _, m := range targets {
		if nt := a.nodeTypeOf(m); nt != nil && nt.Obj().Name() == "Control" {
			r := a.analyze(m)
			names := map[string]bool{}
			for _, pth := range r.Paths {
				for desc, h := range pth.Sets {
					name := strings.TrimPrefix(desc, "loop.")
					names[name] = true
					if h == "-1" || strings.HasPrefix(h, "0-[loop.") {
						a.breakField = name
						for f, v := range pth.Facts {
							if strings.HasPrefix(f, "loop.") && v {
								a.flagField = strings.TrimPrefix(f, "loop.")
							}
							if strings.HasPrefix(f, "eq:loop.") && v {
								a.flagField = f // an enum test: eq:loop.<field>:<constant>
							}
						}
						if strings.HasPrefix(h, "0-[loop.") {
							a.flagField = strings.TrimSuffix(strings.TrimPrefix(h, "0-[loop."), "]")
						}
						if strings.HasPrefix(h, "0-[eq:loop.") {
							a.flagField = strings.TrimSuffix(strings.TrimPrefix(h, "0-["), "]")
						}
					}
				}
			}
			for n := range names {
				if n != a.breakField {
					a.contField = n
				}
			}
		}
	}
	// sub-structure node types: contract inferred from their own compile function
	for _, m := range targets {
		nt := a.nodeTypeOf(m)
		if nt == nil || produced[nt] {
			continue
		}
		r := a.analyze(m)
		var net *Lin
		uniform := true
		for _, pth := range r.Paths {
			if pth.Dead || pth.Net == nil {
				continue
			}
			if net == nil {
				net = pth.Net
			} else if !net.Sub(pth.Net).IsZero() {
				uniform = false
			}
		}
		if net != nil && uniform && net.IsConst() {
			a.inferred[nt] = net
		}
	}
	a.slots = map[string]*caiSlot{}
	res := &caiRunResult{a: a, byFn: map[string]*caiFnResult{}}
	for _, m := range targets {
		r := a.analyze(m)
		res.results = append(res.results, r)
		res.byFn[m.Name()] = r
	}
	caiCache[p] = res
	return res
}

func (a *caiAn) nodeTypeOf(m *types.Func) *types.Named {
	if nt := a.fnOfClause[m]; nt != nil {
		return nt
	}
	sig := m.Type().(*types.Signature)
	for i := 0; i < sig.Params().Len(); i++ {
		if a.isASTType(sig.Params().At(i).Type()) {
			return core.NamedOf(sig.Params().At(i).Type())
		}
	}
	return nil
}

func c04r2(c *core.Ctx) {
	p := c.P
	run := runCAI(p)
	a := run.a
	npaths := 0
	for _, r := range run.results {
		fd := a.methods[r.Fn]
		npaths += len(r.Paths)
		base := "compiler." + r.Fn.Name()
		type grp struct {
			msg     string
			n       int
			example string
		}
		bad := map[string]*grp{}
		add := func(k, msg, ex string) {
			g := bad[k]
			if g == nil {
				g = &grp{msg: msg, example: ex}
				bad[k] = g
			}
			g.n++
		}
		for _, pth := range r.Paths {
			want, why := a.contractFor(r, pth)
			wants := "?"
			if want != nil {
				wants = want.String()
			}
			ex := renderPath(pth)
			if pth.Dead {
				if pth.Net != nil || len(pth.Problems) == 0 {
					if want != nil && !(want.IsConst() && want.K == 0) {
						add("net|got=DEAD;want="+wants, "emission ends in an unconditional jump/return although the node is an expression that must leave a value", ex)
					}
				}
			} else {
				got := pth.Net.String()
				if want == nil {
					add("net|got="+got+";want=?", "contract undetermined: "+why, ex)
				} else if !pth.Net.Sub(want).IsZero() {
					add("net|got="+got+";want="+wants, fmt.Sprintf("net stack effect %s, contract %s (%s)", got, wants, why), ex)
				}
			}
			for i, pr := range pth.Problems {
				if strings.HasPrefix(pr, "[R3]") {
					continue
				}
				add("problem|"+stripPositions(pth.Problems)[i], pr, ex)
			}
		}
		if len(bad) == 0 {
			c.Pass(base+"|contract", posOf(p, fd), fmt.Sprintf("%s meets its stack contract on all %d non-error paths", r.Fn.Name(), len(r.Paths)))
			continue
		}
		for _, k := range sortedKeys(bad) {
			g := bad[k]
			c.Fail(base+"|"+k, posOf(p, fd), fmt.Sprintf("%s: %s (%d path(s))", r.Fn.Name(), g.msg, g.n), g.example)
		}
	}
	c.Stat("compile_functions", len(run.results))
	c.Stat("go_paths", npaths)
	c.Stat("child_slots", len(a.slots))
	for k, v := range a.domain {
		c.Info("constructor-domain %s = %s", k, v)
	}
}

// stripPositions removes file:line fragments so that keys survive edits.
func stripPositions(ss []string) []string {
	var out []string
	for _, s := range ss {
		f := strings.Fields(s)
		var g []string
		for _, w := range f {
			if strings.Contains(w, ".go:") {
				continue
			}
			g = append(g, w)
		}
		out = append(out, strings.Join(g, " "))
	}
	return out
}

// ---------------------------------------------------------------- R3

func c04r3(c *core.Ctx) {
	p := c.P
	run := runCAI(p)
	a := run.a
	nodes := astNodeTypes(p)
	byName := map[string]*types.Named{}
	for _, n := range nodes {
		byName[n.Obj().Name()] = n
	}
	controlT := byName["Control"]
	if controlT == nil {
		core.Undecidedf("ast.Control not found")
	}
	fnOfType := map[*types.Named]*types.Func{}
	for _, r := range run.results {
		if nt := a.nodeTypeOf(r.Fn); nt != nil {
			if _, dup := fnOfType[nt]; !dup {
				fnOfType[nt] = r.Fn
			}
		}
	}
	// helper compile functions reached with the same node (compileForRange etc.) have the
	// node type of their first AST parameter; slots are attributed to the function they occur in.
	// Edges.
	type edge struct {
		from   string // function name
		slot   *caiSlot
		to     []*types.Named
		dirty  bool
		inLoop bool
	}
	expand := func(s *caiSlot) []*types.Named {
		nt := core.NamedOf(s.Typ)
		if nt == nil {
			return nil
		}
		if it, ok := nt.Underlying().(*types.Interface); ok {
			var out []*types.Named
			for _, ct := range nodes {
				if types.Implements(types.NewPointer(ct), it) {
					out = append(out, ct)
				}
			}
			return out
		}
		return []*types.Named{nt}
	}
	var edges []*edge
	var slotKeys []string
	for k := range a.slots {
		slotKeys = append(slotKeys, k)
	}
	sort.Strings(slotKeys)
	for _, k := range slotKeys {
		s := a.slots[k]
		if s.Offset == "DEAD" {
			continue
		}
		e := &edge{from: s.Fn, slot: s, to: expand(s), inLoop: s.InLoopBody}
		e.dirty = s.OffLin == nil || !s.OffLin.IsZero()
		edges = append(edges, e)
	}
	// functions by node type: a node type may be compiled by several functions (the target and the helpers it calls are inlined into the target), so edges are grouped by target function = Fn
	edgesOf := map[*types.Named][]*edge{}
	for _, e := range edges {
		for nt, fn := range fnOfType {
			if fn.Name() == e.from {
				edgesOf[nt] = append(edgesOf[nt], e)
			}
		}
	}
	// loop functions: those with in-loop slots
	// dirtyPath(T): a path from T to Control that crosses a dirty edge, without crossing function bodies or inner loops
	type pathRes struct {
		reach bool
		path  []string
	}
	memoClean := map[*types.Named]*pathRes{}
	memoDirty := map[*types.Named]*pathRes{}
	var reachAny func(t *types.Named, seen map[*types.Named]bool) *pathRes
	reachAny = func(t *types.Named, seen map[*types.Named]bool) *pathRes {
		if t == controlT {
			return &pathRes{true, []string{"Control"}}
		}
		if r, ok := memoClean[t]; ok {
			return r
		}
		if seen[t] {
			return &pathRes{}
		}
		seen[t] = true
		defer delete(seen, t)
		res := &pathRes{}
		for _, e := range edgesOf[t] {
			if e.slot.CtxDepth > 0 || e.inLoop {
				continue
			}
			for _, ct := range e.to {
				if r := reachAny(ct, seen); r.reach {
					res = &pathRes{true, append([]string{fmt.Sprintf("%s.%s(+%s)", t.Obj().Name(), e.slot.Child, e.slot.Offset)}, r.path...)}
					memoClean[t] = res
					return res
				}
			}
		}
		if len(seen) == 1 {
			memoClean[t] = res
		}
		return res
	}
	var reachDirty func(t *types.Named, seen map[*types.Named]bool) *pathRes
	reachDirty = func(t *types.Named, seen map[*types.Named]bool) *pathRes {
		if r, ok := memoDirty[t]; ok {
			return r
		}
		if seen[t] || t == controlT {
			return &pathRes{}
		}
		seen[t] = true
		defer delete(seen, t)
		res := &pathRes{}
		for _, e := range edgesOf[t] {
			if e.slot.CtxDepth > 0 || e.inLoop {
				continue
			}
			for _, ct := range e.to {
				label := fmt.Sprintf("%s.%s(+%s)", t.Obj().Name(), e.slot.Child, e.slot.Offset)
				if e.dirty {
					if r := reachAny(ct, map[*types.Named]bool{}); r.reach {
						res = &pathRes{true, append([]string{label}, r.path...)}
						memoDirty[t] = res
						return res
					}
				} else if r := reachDirty(ct, seen); r.reach {
					res = &pathRes{true, append([]string{label}, r.path...)}
					memoDirty[t] = res
					return res
				}
			}
		}
		if len(seen) == 1 {
			memoDirty[t] = res
		}
		return res
	}

	// (1) compileControl: heights at which break / continue jumps are recorded
	ctlFn := fnOfType[controlT]
	if ctlFn == nil {
		core.Undecidedf("no compile function for ast.Control")
	}
	ctl := run.byFn[ctlFn.Name()]
	for _, pth := range ctl.Paths {
		for desc, h := range pth.Sets {
			name := strings.TrimPrefix(desc, "loop.")
			want := "0"
			if name == a.breakField {
				fkey := "loop." + a.flagField
				if strings.HasPrefix(a.flagField, "eq:") {
					fkey = a.flagField
				}
				if f, known := pth.Facts[fkey]; known {
					if f {
						want = "-1"
					}
				} else {
					want = "0-[" + fkey + "]"
				}
			}
			c.Check(h == want, "compiler."+ctlFn.Name()+"|jump-height:"+name, posOf(p, a.methods[ctlFn]),
				fmt.Sprintf("%s records its %s jump at height %s relative to the statement; expected %s (0, or minus the iterator popped when breaking out of a range loop)", ctlFn.Name(), name, h, want))
		}
	}
	c.Check(a.breakField != "" && a.contField != "" && a.flagField != "", "compiler."+ctlFn.Name()+"|loop-fields", posOf(p, a.methods[ctlFn]),
		fmt.Sprintf("loop record roles resolved from %s: break set %q, continue set %q, range flag %q", ctlFn.Name(), a.breakField, a.contField, a.flagField))

	// (2) loop functions: every slot compiled while the loop record is open
	// sits at the height the break/continue labels assume (per path, from the
	// interpreter), and the nesting graph below it is clean.
	nloops := 0
	for _, r := range run.results {
		var loopSlots []*caiSlot
		for _, k := range slotKeys {
			s := a.slots[k]
			if s.Fn == r.Fn.Name() && s.InLoopBody && s.CtxDepth == 0 && s.Offset != "DEAD" {
				loopSlots = append(loopSlots, s)
			}
		}
		if len(loopSlots) == 0 {
			continue
		}
		nloops++
		fd := a.methods[r.Fn]
		probs := map[string]string{}
		for _, pth := range r.Paths {
			for i, pr := range pth.Problems {
				if strings.HasPrefix(pr, "[R3]") {
					probs[stripPositions(pth.Problems)[i]] = pr
				}
			}
		}
		if len(probs) == 0 {
			c.Pass("compiler."+r.Fn.Name()+"|loop-slots", posOf(p, fd), fmt.Sprintf("all %d slots compiled inside the loop of %s sit at the height its break/continue labels assume", len(loopSlots), r.Fn.Name()))
		}
		for _, k := range sortedKeys(probs) {
			c.Fail("compiler."+r.Fn.Name()+"|loop-slot|"+strings.TrimPrefix(k, "[R3] "), posOf(p, fd), probs[k])
		}
		// nesting graph: breadth-first over clean edges from the loop's slots;
		// every dirty edge met whose target can reach a break/continue is a route
		type qi struct {
			t    *types.Named
			path []string
		}
		seenT := map[*types.Named]bool{}
		var queue []qi
		for _, s := range loopSlots {
			for _, ct := range expandSlot(s, nodes) {
				if !seenT[ct] {
					seenT[ct] = true
					queue = append(queue, qi{ct, []string{r.Fn.Name() + "." + s.Child}})
				}
			}
		}
		seenRoute := map[string]bool{}
		for len(queue) > 0 {
			cur := queue[0]
			queue = queue[1:]
			if cur.t == controlT {
				continue
			}
			for _, e := range edgesOf[cur.t] {
				if e.slot.CtxDepth > 0 || e.inLoop {
					continue
				}
				label := fmt.Sprintf("%s.%s(+%s)", cur.t.Obj().Name(), e.slot.Child, e.slot.Offset)
				for _, ct := range e.to {
					if e.dirty {
						if pr := reachAny(ct, map[*types.Named]bool{}); pr.reach {
							key := "nesting|" + classifyRoute(label)
							if !seenRoute[key] {
								seenRoute[key] = true
								route := append(append([]string{}, cur.path...), label)
								route = append(route, pr.path...)
								c.Fail(key, posOf(p, fd), "break/continue reachable from a loop body through a slot compiled above temporaries: the jump leaves them on the stack every iteration",
									"route: "+strings.Join(route, " → "))
							}
						}
						continue
					}
					if !seenT[ct] {
						seenT[ct] = true
						queue = append(queue, qi{ct, append(append([]string{}, cur.path...), label)})
					}
				}
			}
		}
	}
	if nloops > 0 {
		c.Pass("nesting|graph-built", "compiler", fmt.Sprintf("nesting graph: %d slots, %d loop functions", len(edges), nloops))
	}
	c.Stat("loop_functions", nloops)
	c.Stat("nesting_edges", len(edges))
}

func expandSlot(s *caiSlot, nodes []*types.Named) []*types.Named {
	nt := core.NamedOf(s.Typ)
	if nt == nil {
		return nil
	}
	if it, ok := nt.Underlying().(*types.Interface); ok {
		var out []*types.Named
		for _, ct := range nodes {
			if types.Implements(types.NewPointer(ct), it) {
				out = append(out, ct)
			}
		}
		return out
	}
	return []*types.Named{nt}
}

// classifyRoute: route class of the first dirty edge "Type.child(+off)":
// statement-bearing slots (blocks) are individual findings; operand slots of
// expressions form one class (root cause: the jump does not unwind temporaries).
func classifyRoute(seg string) string {
	typ := seg
	if i := strings.Index(seg, "."); i > 0 {
		typ = seg[:i]
	}
	child := strings.TrimPrefix(seg, typ+".")
	if strings.Contains(strings.ToLower(child), "block") || strings.Contains(strings.ToLower(child), "body") {
		return "block-slot:" + typ
	}
	return "expression-operand-slots"
}

// ---------------------------------------------------------------- R4

func c04r4(c *core.Ctx) {
	p := c.P
	vmp := p.Pkg("vm")
	info := vmp.TypesInfo
	vmT := core.MustType(vmp, "VirtualMachine")
	_, _, _, spField, ipField := vmPrims(p)
	fpField := fieldByName(vmT, "fp")
	if fpField == nil {
		core.Undecidedf("VirtualMachine.fp not found")
	}
	// resume function: method assigning sp, ip and fp from three parameters
	var resume *types.Func
	for _, m := range core.Methods(vmT) {
		fd := p.Decl(m)
		if fd == nil || fd.Body == nil {
			continue
		}
		sig := m.Type().(*types.Signature)
		if sig.Params().Len() != 3 {
			continue
		}
		got := map[*types.Var]bool{}
		for _, s := range fd.Body.List { // top level = all paths
			if as, ok := s.(*ast.AssignStmt); ok && len(as.Lhs) == 1 && len(as.Rhs) == 1 {
				if id, ok := as.Rhs[0].(*ast.Ident); ok {
					for i := 0; i < 3; i++ {
						if info.Uses[id] == sig.Params().At(i) {
							if f := fieldOf(info, as.Lhs[0]); f != nil {
								got[f] = true
							}
						}
					}
				}
			}
		}
		if got[spField] && got[ipField] && got[fpField] {
			resume = m
		}
	}
	c.Check(resume != nil, "vm|resume-function", "vm", "a frame-restoring method assigns sp, ip and fp from its parameters on all paths")
	if resume == nil {
		return
	}
	// restore functions: the resume function and methods that end by delegating their own three parameters to one
	restore := map[*types.Func]bool{resume: true}
	for changed := true; changed; {
		changed = false
		for _, m := range core.Methods(vmT) {
			fd := p.Decl(m)
			sig := m.Type().(*types.Signature)
			if restore[m] || fd == nil || fd.Body == nil || sig.Params().Len() != 3 || len(fd.Body.List) == 0 {
				continue
			}
			var call *ast.CallExpr
			switch last := fd.Body.List[len(fd.Body.List)-1].(type) {
			case *ast.ReturnStmt:
				if len(last.Results) == 1 {
					call, _ = ast.Unparen(last.Results[0]).(*ast.CallExpr)
				}
			case *ast.ExprStmt:
				call, _ = last.X.(*ast.CallExpr)
			}
			if call == nil || !restore[calleeOf(info, call)] || len(call.Args) != 3 {
				continue
			}
			same := true
			for i, a := range call.Args {
				if id, ok := a.(*ast.Ident); !ok || info.Uses[id] != sig.Params().At(i) {
					same = false
				}
			}
			if same {
				restore[m] = true
				changed = true
			}
		}
	}
	pop, push, _, _, _ := vmPrims(p)
	// exact: before anything is popped or pushed, the function brings sp down to its sp parameter
	exactRestore := func(m *types.Func) (bool, string) {
		fd := p.Decl(m)
		sig := m.Type().(*types.Signature)
		// which parameter is the saved sp: the one assigned to the sp field (here or in the delegate)
		isSPParam := func(e ast.Expr) bool {
			id, ok := ast.Unparen(e).(*ast.Ident)
			if !ok {
				return false
			}
			for i := 0; i < sig.Params().Len(); i++ {
				if info.Uses[id] == sig.Params().At(i) && i == 2 {
					return true
				}
			}
			return false
		}
		for _, st := range fd.Body.List {
			// clamp forms
			switch x := st.(type) {
			case *ast.AssignStmt:
				if len(x.Lhs) == 1 && len(x.Rhs) == 1 && fieldOf(info, x.Lhs[0]) == spField && isSPParam(x.Rhs[0]) {
					return true, ""
				}
			case *ast.IfStmt:
				if be, ok := ast.Unparen(x.Cond).(*ast.BinaryExpr); ok && x.Else == nil && x.Init == nil &&
					((fieldOf(info, be.X) == spField && isSPParam(be.Y)) || (fieldOf(info, be.Y) == spField && isSPParam(be.X))) {
					onlyClamp := len(x.Body.List) > 0
					for _, bs := range x.Body.List {
						as, ok := bs.(*ast.AssignStmt)
						if !ok || len(as.Lhs) != 1 || fieldOf(info, as.Lhs[0]) != spField || !isSPParam(as.Rhs[0]) {
							onlyClamp = false
						}
					}
					if onlyClamp {
						return true, ""
					}
				}
			}
			// anything that pops, pushes or calls another VM method before the clamp
			touched := ""
			ast.Inspect(st, func(nd ast.Node) bool {
				if ce, ok := nd.(*ast.CallExpr); ok {
					if cal := calleeOf(info, ce); cal != nil && (cal == pop || cal == push || core.RecvNamed(cal) == vmT) {
						touched = cal.Name()
					}
				}
				return true
			})
			if touched != "" {
				return false, "it calls " + touched + " (" + posOf(p, st) + ") before sp has been brought down to the saved value: whether a value is kept is decided by the stack height alone"
			}
		}
		return false, "it never assigns the saved sp"
	}
	// activations above the current frame: calls whose first argument is fp+1
	n := 0
	funcBodies(vmp, func(fn *types.Func, fd *ast.FuncDecl) {
		if core.RecvNamed(fn) != vmT {
			return
		}
		var acts []*ast.CallExpr
		ast.Inspect(fd.Body, func(nd ast.Node) bool {
			ce, ok := nd.(*ast.CallExpr)
			if !ok || len(ce.Args) == 0 {
				return true
			}
			cal := calleeOf(info, ce)
			if cal == nil || core.RecvNamed(cal) != vmT {
				return true
			}
			if be, ok := ast.Unparen(ce.Args[0]).(*ast.BinaryExpr); ok && fieldOf(info, be.X) == fpField {
				acts = append(acts, ce)
			}
			return true
		})
		if len(acts) == 0 {
			return
		}
		n++
		// deferred resume with values saved from the fields before the activation
		okDefer := false
		why := "no deferred call to a frame-restoring function"
		assigns := localAssignments(info, fd.Body)
		for _, s := range fd.Body.List {
			ds, ok := s.(*ast.DeferStmt)
			if !ok || !restore[calleeOf(info, ds.Call)] {
				continue
			}
			deferred := calleeOf(info, ds.Call)
			exact, whyNot := exactRestore(deferred)
			c.Check(exact, "vm."+declName(fd)+"|deferred-restore-exact", posOf(p, ds),
				"the deferred "+deferred.Name()+" also runs when the call is aborted by an error or a panic, with the frame's temporaries still on the stack; it restores sp exactly and keeps nothing"+ifs(!exact, ": "+whyNot+" — each error caught by try() then leaks one slot"))
			// the restore must be in place before anything after the activation can leave the function
			firstExit := token.NoPos
			ast.Inspect(fd.Body, func(nd ast.Node) bool {
				if r, ok := nd.(*ast.ReturnStmt); ok && r.Pos() > acts[0].Pos() && (firstExit == token.NoPos || r.Pos() < firstExit) {
					firstExit = r.Pos()
				}
				return true
			})
			if firstExit != token.NoPos && ds.Pos() > firstExit {
				why = "the deferred " + resume.Name() + " is installed after a return that follows the frame activation"
				continue
			}
			want := []*types.Var{fpField, ipField, spField}
			sig := resume.Type().(*types.Signature)
			// parameter order of resume: map by which field each parameter is assigned to
			_ = sig
			good := 0
			for _, arg := range ds.Call.Args {
				if id, ok := arg.(*ast.Ident); ok {
					rh := assigns[info.Uses[id]]
					if len(rh) == 1 {
						for _, w := range want {
							if fieldOf(info, rh[0]) == w {
								good++
							}
						}
					}
				}
			}
			if good == 3 {
				okDefer = true
			} else {
				why = "the deferred " + resume.Name() + " is not given the saved fp, ip and sp"
			}
		}
		c.Check(okDefer, "vm."+declName(fd)+"|deferred-resume", posOf(p, fd),
			declName(fd)+" activates a frame above the current one and must restore fp/ip/sp through a deferred "+resume.Name()+" established before the activation"+ifs(!okDefer, ": "+why))
	})
	c.Stat("frame_activating_methods", n)
}
