package rules

import (
	"go/ast"
	"go/constant"
	"go/token"
	"go/types"
	"sort"
	"strings"

	"golang.org/x/tools/go/ssa"

	"risorcheck/core"
)

// Generalisations written after the first evaluation of the ninth wave.

// ---------------------------------------------------------------------------
// equalityIsDecidedByEquals: the generic code that evaluates == and != (it
// sees both operands as object.Object) asks the left operand's Equals and
// nothing else.  A pointer-identity shortcut in front of it makes every value
// equal to itself, which Equals does not say for a float NaN: n == n, l == l
// for l := [n], and `switch n { case n: }` change their outcome.
func equalityIsDecidedByEquals(c *core.Ctx) {
	p := c.P
	n, sites := 0, 0
	for _, fn := range repoFns(p, "object", "vm", "builtins") {
		// generic code only: not the Equals/Compare methods of a concrete type
		// (for a reference type identity is what Equals means)
		if fn.Signature.Recv() != nil {
			continue
		}
		callsEquals := false
		for _, b := range fn.Blocks {
			for _, in := range b.Instrs {
				if call, ok := in.(*ssa.Call); ok && call.Call.IsInvoke() && call.Call.Method.Name() == "Equals" {
					callsEquals = true
				}
			}
		}
		if !callsEquals {
			continue
		}
		sites++
		for _, b := range fn.Blocks {
			for _, in := range b.Instrs {
				bo, ok := in.(*ssa.BinOp)
				if !ok || (bo.Op != token.EQL && bo.Op != token.NEQ) {
					continue
				}
				if !core.IsNamed(bo.X.Type(), pkgPath("object"), "Object") || !core.IsNamed(bo.Y.Type(), pkgPath("object"), "Object") {
					continue
				}
				if isNilValue(bo.X) || isNilValue(bo.Y) {
					continue
				}
				_, px := bo.X.(*ssa.Parameter)
				_, py := bo.Y.(*ssa.Parameter)
				if !px || !py {
					continue
				}
				n++
				c.Check(false, core.SSAName(fn)+"|no-identity-shortcut-before-Equals", p.Pos(bo.Pos()),
					core.SSAName(fn)+" compares its two operands by identity and also asks Equals: the identity test answers for Equals, which is not reflexive for a float NaN (n == n and [n] == [n] become true)")
			}
		}
	}
	if sites == 0 {
		core.Undecidedf("no generic function invokes Equals")
	}
	c.Pass("object|generic-equality", "", sprintf("%d generic functions invoke Equals on an operand, %d of them also compare the two operands by identity", sites, n))
	c.Stat("generic_equality_functions", sites)
}

// ---------------------------------------------------------------------------
// cellKindFollowsTheResolution: when the compiler emits the cells a closure
// captures, whether a captured variable is a local of the function being
// compiled or a free variable of it is what the symbol table's resolution says
// (its depth/scope).  A second opinion formed from other tables (comparing
// slot numbers and names) can disagree with the table that numbered the slots.
func cellKindFollowsTheResolution(c *core.Ctx) {
	p := c.P
	cp := p.Pkg("compiler")
	resT := core.MustType(cp, "Resolution")
	n := 0
	for _, fn := range repoFns(p, "compiler") {
		// the loop that emits MakeCell for each free variable
		for _, b := range fn.Blocks {
			if len(b.Instrs) == 0 {
				continue
			}
			iff, ok := b.Instrs[len(b.Instrs)-1].(*ssa.If)
			if !ok || !inLoop(b) {
				continue
			}
			// does one arm emit op.MakeCell?
			emits := false
			for _, s := range b.Succs {
				for _, in := range s.Instrs {
					if call, ok := in.(*ssa.Call); ok {
						if cal := call.Call.StaticCallee(); cal != nil && cal.Name() == "emit" {
							for _, a := range call.Call.Args {
								if k, ok := a.(*ssa.Const); ok && k.Value != nil && core.IsNamed(k.Type(), pkgPath("op"), "Code") {
									if name := opConstName(p, k); name == "MakeCell" {
										emits = true
									}
								}
							}
						}
					}
				}
			}
			if !emits {
				continue
			}
			// the resolution the loop is about
			usesRes := false
			foreign := ""
			var walk func(v ssa.Value, d int)
			walk = func(v ssa.Value, d int) {
				if d > 8 {
					return
				}
				switch x := v.(type) {
				case *ssa.BinOp:
					walk(x.X, d+1)
					walk(x.Y, d+1)
				case *ssa.UnOp:
					walk(x.X, d+1)
				case *ssa.FieldAddr:
					if core.NamedOf(x.X.Type()) == resT {
						usesRes = true
						return
					}
					walk(x.X, d+1)
				case *ssa.Field:
					if core.NamedOf(x.X.Type()) == resT {
						usesRes = true
						return
					}
					walk(x.X, d+1)
				case *ssa.Call:
					if cal := x.Call.StaticCallee(); cal != nil && cal.Signature.Recv() != nil && core.NamedOf(cal.Signature.Recv().Type()) == resT {
						usesRes = true
						return
					}
					if cal := x.Call.StaticCallee(); cal != nil {
						foreign = core.SSAName(cal)
					} else {
						foreign = "a dynamic call"
					}
				case *ssa.Phi:
					for _, e := range x.Edges {
						walk(e, d+1)
					}
				case *ssa.Convert:
					walk(x.X, d+1)
				}
			}
			walk(iff.Cond, 0)
			n++
			ok2 := usesRes && foreign == ""
			c.Check(ok2, core.SSAName(fn)+"|cell-kind-decided-by-the-resolution", p.Pos(iff.Pos()),
				core.SSAName(fn)+" chooses between the two forms of MakeCell"+ife(ok2, " from the fields of the symbol table's Resolution alone", " by asking "+ife(foreign != "", foreign, "something other than the Resolution")+": the decision no longer follows the table that resolved the name, and a closure can be bound to the slot of another variable"))
		}
	}
	if n == 0 {
		core.Undecidedf("no loop of package compiler chooses between forms of MakeCell")
	}
	c.Stat("makecell_decisions", n)
}

// opConstName returns the name of the op.Code constant with k's value.
func opConstName(p *core.Program, k *ssa.Const) string {
	opp := p.Pkg("op")
	if opp == nil || k.Value == nil {
		return ""
	}
	sc := opp.Types.Scope()
	for _, name := range sc.Names() {
		if cst, ok := sc.Lookup(name).(*types.Const); ok && core.IsNamed(cst.Type(), pkgPath("op"), "Code") {
			if constant.Compare(cst.Val(), token.EQL, k.Value) {
				return name
			}
		}
	}
	return ""
}

// ---------------------------------------------------------------------------
// visitIsThreadedThroughRecursion: the operations that walk a value and what
// it holds (Equals, Compare, Interface, MarshalJSON) notice a value that
// contains itself through a visit record that is handed down the recursion.
// A function that has the record and recurses into a held value through the
// public method instead starts a fresh record at every level; the depth never
// reaches the point where pairs are remembered, and a cyclic value exhausts
// the native stack (fatal, not recoverable).
func visitIsThreadedThroughRecursion(c *core.Ctx) {
	p := c.P
	op := p.Pkg("object")
	vt := op.Types.Scope().Lookup("visit")
	if vt == nil {
		core.Undecidedf("object.visit not found")
	}
	visitT, _ := vt.Type().(*types.Named)
	hasVisitParam := func(f *ssa.Function) bool {
		for _, prm := range f.Params {
			if pt, ok := prm.Type().(*types.Pointer); ok && core.NamedOf(pt) == visitT {
				return true
			}
		}
		return false
	}
	// the public wrappers: methods that allocate a visit and hand it to a function that takes one
	fresh := map[string]map[*types.Named]bool{} // method name -> receiver types
	for _, fn := range repoFns(p, "object") {
		if fn.Signature.Recv() == nil || hasVisitParam(fn) || fn.Parent() != nil {
			continue
		}
		allocs := false
		for _, b := range fn.Blocks {
			for _, in := range b.Instrs {
				if al, ok := in.(*ssa.Alloc); ok && core.NamedOf(al.Type()) == visitT {
					allocs = true
				}
			}
		}
		if !allocs {
			continue
		}
		if fresh[fn.Name()] == nil {
			fresh[fn.Name()] = map[*types.Named]bool{}
		}
		fresh[fn.Name()][core.NamedOf(fn.Signature.Recv().Type())] = true
	}
	if len(fresh) < 3 {
		core.Undecidedf("only %d operations start a visit record", len(fresh))
	}
	n := 0
	for _, fn := range repoFns(p, "object") {
		if !hasVisitParam(fn) {
			continue
		}
		for _, b := range fn.Blocks {
			for _, in := range b.Instrs {
				call, ok := in.(*ssa.Call)
				if !ok {
					continue
				}
				name := ""
				var recv ssa.Value
				if call.Call.IsInvoke() {
					name = call.Call.Method.Name()
					recv = call.Call.Value
				} else if cal := call.Call.StaticCallee(); cal != nil && cal.Signature.Recv() != nil && len(call.Call.Args) > 0 {
					name = cal.Name()
					recv = call.Call.Args[0]
					if hasVisitParam(cal) {
						continue
					}
				} else if cal := call.Call.StaticCallee(); cal != nil && cal.Signature.Recv() == nil && fresh[cal.Name()] != nil && len(call.Call.Args) > 0 && !hasVisitParam(cal) {
					// the package-level helper of the same name (Equals(a, b))
					name = cal.Name()
					recv = call.Call.Args[0]
				}
				types_ := fresh[name]
				if types_ == nil || recv == nil {
					continue
				}
				// the receiver of the enclosing method itself is not a held value
				if len(fn.Params) > 0 && recv == fn.Params[0] && fn.Signature.Recv() != nil {
					continue
				}
				n++
				// excused when the call is reached only after the value failed the
				// type test of every type whose method starts a fresh record
				var missing []string
				for nt := range types_ {
					if !excludedByTypeTest(fn, recv, nt, in) {
						missing = append(missing, nt.Obj().Name())
					}
				}
				sort.Strings(missing)
				c.Check(len(missing) == 0, core.SSAName(fn)+"|"+name+"-of-held-value-keeps-the-visit|"+sprintf("%d", countCallsNamed(fn, in, name)), p.Pos(call.Pos()),
					core.SSAName(fn)+" has the visit record and calls "+name+" on a value it holds"+ife(len(missing) == 0, " only after that value failed the type tests of the types whose "+name+" starts a record of its own", ", which can be a "+strings.Join(missing, " or ")+": that method starts a fresh record, so the depth never reaches the point where cycles are noticed and a value that contains itself exhausts the native stack"))
			}
		}
	}
	if n == 0 {
		core.Undecidedf("no function with a visit record calls one of the walking operations on a held value")
	}
	c.Stat("recursions_with_visit", n)
	// The same walk through a value that is not a list or map: a method of
	// another type that applies the operation to an object it holds in a field
	// hands the walk to the public method, with a fresh record.  A list can be
	// made to contain such a value after the value was made around the list.
	m := 0
	for _, fn := range repoFns(p, "object") {
		if fn.Signature.Recv() == nil || fn.Parent() != nil || hasVisitParam(fn) || fresh[fn.Name()] == nil || len(fn.Params) == 0 {
			continue
		}
		rt := core.NamedOf(fn.Signature.Recv().Type())
		if rt == nil || fresh[fn.Name()][rt] {
			continue
		}
		for _, b := range fn.Blocks {
			for _, in := range b.Instrs {
				call, ok := in.(*ssa.Call)
				if !ok || !call.Call.IsInvoke() || call.Call.Method.Name() != fn.Name() {
					continue
				}
				if !core.IsNamed(call.Call.Value.Type(), pkgPath("object"), "Object") {
					continue
				}
				// the receiver of the call is read from a field of this method's receiver
				held := false
				for _, o := range core.Origins(call.Call.Value) {
					if u, ok := o.(*ssa.UnOp); ok {
						if fa, ok := u.X.(*ssa.FieldAddr); ok && fa.X == ssa.Value(fn.Params[0]) {
							held = true
						}
					}
				}
				if !held {
					continue
				}
				m++
				c.Check(false, core.SSAName(fn)+"|"+fn.Name()+"-of-a-field-keeps-the-visit", p.Pos(call.Pos()),
					core.SSAName(fn)+" applies "+fn.Name()+" to an object it holds in a field through the public method: if that object is a list or map, the walk starts a fresh visit record there, and a cycle that passes through this value is never noticed (fatal stack overflow)")
			}
		}
	}
	c.Stat("field_recursions_without_visit", m)
}

func countCallsNamed(fn *ssa.Function, at ssa.Instruction, name string) int {
	k := 0
	for _, b := range fn.Blocks {
		for _, in := range b.Instrs {
			if call, ok := in.(*ssa.Call); ok {
				nm := ""
				if call.Call.IsInvoke() {
					nm = call.Call.Method.Name()
				} else if cal := call.Call.StaticCallee(); cal != nil {
					nm = cal.Name()
				}
				if nm == name {
					k++
				}
			}
			if in == at {
				return k
			}
		}
	}
	return k
}

// excludedByTypeTest: instruction at is only reached when v (or the value it
// was asserted from) failed a comma-ok assertion to *nt.
func excludedByTypeTest(fn *ssa.Function, v ssa.Value, nt *types.Named, at ssa.Instruction) bool {
	roots := map[ssa.Value]bool{v: true}
	for _, o := range core.Origins(v) {
		roots[o] = true
		if ta, ok := o.(*ssa.TypeAssert); ok {
			roots[ta.X] = true
		}
		if ex, ok := o.(*ssa.Extract); ok {
			if ta, ok := ex.Tuple.(*ssa.TypeAssert); ok {
				roots[ta.X] = true
			}
		}
		if mi, ok := o.(*ssa.MakeInterface); ok {
			roots[mi.X] = true
		}
	}
	for _, b := range fn.Blocks {
		for _, in := range b.Instrs {
			ta, ok := in.(*ssa.TypeAssert)
			if !ok || !ta.CommaOk {
				continue
			}
			pt, ok := ta.AssertedType.(*types.Pointer)
			if !ok || core.NamedOf(pt) != nt {
				continue
			}
			same := roots[ta.X]
			if !same {
				for _, o := range core.Origins(ta.X) {
					if roots[o] {
						same = true
					}
				}
			}
			if !same {
				// two loads of the same element (SSA does not share them)
				for r := range roots {
					if core.SameStorage(ta.X, r) || sameAccessPath(ta.X, r, 0) {
						same = true
					}
				}
			}
			if !same {
				continue
			}
			// the If on its ok
			if refs := ta.Referrers(); refs != nil {
				for _, r := range *refs {
					ex, ok := r.(*ssa.Extract)
					if !ok || ex.Index != 1 || ex.Referrers() == nil {
						continue
					}
					for _, r2 := range *ex.Referrers() {
						if iff, ok := r2.(*ssa.If); ok {
							f := iff.Block().Succs[1]
							if f == at.Block() || f.Dominates(at.Block()) {
								return true
							}
						}
					}
				}
			}
		}
	}
	return false
}

// ---------------------------------------------------------------------------
// errorResultsAreNotTypedNils: a function whose result type is the error
// interface does not return the pointer result of another call as it is.  The
// callee's pointer type (*object.Error) has a nil that means success; stored
// in the interface it is a non-nil error whose Error() dereferences nil, in
// the host, outside every recover.
func errorResultsAreNotTypedNils(c *core.Ctx) {
	p := c.P
	n := 0
	for _, fn := range repoFns(p) {
		res := fn.Signature.Results()
		for ri := 0; ri < res.Len(); ri++ {
			if !isErrorType(res.At(ri).Type()) {
				continue
			}
			for _, b := range fn.Blocks {
				for _, in := range b.Instrs {
					r, ok := in.(*ssa.Return)
					if !ok || len(r.Results) <= ri {
						continue
					}
					rv := spilledResult(b, r.Results[ri])
					for _, o := range core.Origins(rv) {
						mi, ok := o.(*ssa.MakeInterface)
						if !ok {
							continue
						}
						if _, isPtr := mi.X.Type().Underlying().(*types.Pointer); !isPtr {
							continue
						}
						var src *ssa.Call
						switch x := mi.X.(type) {
						case *ssa.Call:
							src = x
						case *ssa.Extract:
							src, _ = x.Tuple.(*ssa.Call)
						}
						if src == nil {
							continue
						}
						cal := src.Call.StaticCallee()
						if cal == nil || !core.RepoFunc(cal) || !mayReturnNilPointer(cal, mi.X) {
							continue
						}
						n++
						// a nil test of the pointer that dominates the conversion
						guarded := false
						for _, b2 := range fn.Blocks {
							if len(b2.Instrs) == 0 || b2 == mi.Block() || !b2.Dominates(mi.Block()) {
								continue
							}
							if iff, ok := b2.Instrs[len(b2.Instrs)-1].(*ssa.If); ok {
								if bo, ok := iff.Cond.(*ssa.BinOp); ok && (bo.Op == token.EQL || bo.Op == token.NEQ) {
									if (bo.X == mi.X && isNilValue(bo.Y)) || (bo.Y == mi.X && isNilValue(bo.X)) {
										guarded = true
									}
								}
							}
						}
						c.Check(guarded, core.SSAName(fn)+"|error-result-not-a-typed-nil|"+cal.Name(), p.Pos(mi.Pos()),
							core.SSAName(fn)+" returns the "+mi.X.Type().String()+" result of "+cal.Name()+" as its error"+ife(guarded, " only after testing it for nil", " without testing it for nil: when "+cal.Name()+" succeeds the caller receives a non-nil error that wraps a nil pointer, and err.Error() panics in the host"))
					}
				}
			}
		}
	}
	c.Pass("repo|typed-nil-errors", "", sprintf("%d returns convert the possibly-nil pointer result of a repository call to the error interface", n))
	c.Stat("pointer_to_error_returns", n)
}

// mayReturnNilPointer: some return of cal gives a nil for the result v came from.
func mayReturnNilPointer(cal *ssa.Function, v ssa.Value) bool {
	idx := 0
	if ex, ok := v.(*ssa.Extract); ok {
		idx = ex.Index
	}
	for _, b := range cal.Blocks {
		for _, in := range b.Instrs {
			if r, ok := in.(*ssa.Return); ok && len(r.Results) > idx {
				for _, o := range core.Origins(spilledResult(b, r.Results[idx])) {
					if k, ok := o.(*ssa.Const); ok && k.IsNil() {
						return true
					}
				}
			}
		}
	}
	return false
}

// ---------------------------------------------------------------------------
// threadsAreStartedByTheVM: object.NewThread runs a callable on a new
// goroutine.  Script code reached from there must execute on a clone of the
// VM that is armed for the context (halted when it is cancelled); only the
// VM's spawn function arranges that.  Any other caller of NewThread starts a
// goroutine whose script callbacks run on the spawner's VM and are never
// halted.
func threadsAreStartedByTheVM(c *core.Ctx) {
	p := c.P
	var newThread *ssa.Function
	for _, fn := range repoFns(p, "object") {
		if fn.Name() == "NewThread" && fn.Signature.Recv() == nil {
			newThread = fn
		}
	}
	if newThread == nil {
		core.Undecidedf("object.NewThread not found")
	}
	n := 0
	for _, fn := range repoFns(p) {
		for _, b := range fn.Blocks {
			for _, in := range b.Instrs {
				uses := false
				if ci, ok := in.(ssa.CallInstruction); ok && ci.Common().StaticCallee() == newThread {
					uses = true
				}
				for _, opd := range in.Operands(nil) {
					if *opd == ssa.Value(newThread) {
						uses = true
					}
				}
				if !uses {
					continue
				}
				n++
				ok := core.RelPkg(fn.Pkg.Pkg) == "vm"
				c.Check(ok, core.SSAName(fn)+"|threads-started-by-the-vm", p.Pos(in.Pos()),
					core.SSAName(fn)+" starts a thread with object.NewThread"+ife(ok, " inside package vm, on a clone it armed", ": outside package vm nothing clones and arms a VM for the new goroutine, so script code called back from it (items.each(f) run as a builtin) executes on the spawner's VM and is not halted when the context is cancelled"))
			}
		}
	}
	if n == 0 {
		core.Undecidedf("object.NewThread is never used")
	}
	c.Stat("thread_starts", n)
}

// ---------------------------------------------------------------------------
// derivedContextsComeFromTheParameter: a function that is given a context and
// derives another one (WithTimeout, WithCancel, WithDeadline, WithValue)
// derives it from the one it was given.  A context derived from anything else
// (the context a request was created with) is cut off from the evaluation's
// cancellation, however short its own timeout is.
func derivedContextsComeFromTheParameter(c *core.Ctx) {
	p := c.P
	n := 0
	for _, fn := range repoFns(p) {
		root := fn
		for root.Parent() != nil {
			root = root.Parent()
		}
		var ctxParams []ssa.Value
		for _, prm := range root.Params {
			if core.IsNamed(prm.Type(), "context", "Context") {
				ctxParams = append(ctxParams, prm)
			}
		}
		if len(ctxParams) == 0 {
			continue
		}
		for _, b := range fn.Blocks {
			for _, in := range b.Instrs {
				call, ok := in.(*ssa.Call)
				if !ok {
					continue
				}
				cal := call.Call.StaticCallee()
				if cal == nil || cal.Pkg == nil || cal.Pkg.Pkg.Path() != "context" || !strings.HasPrefix(cal.Name(), "With") || len(call.Call.Args) == 0 {
					continue
				}
				parent := call.Call.Args[0]
				// context.Background()/TODO() are judged by the table of detached contexts
				detached := false
				for _, o := range core.Origins(parent) {
					if oc, ok := o.(*ssa.Call); ok {
						if c2 := oc.Call.StaticCallee(); c2 != nil && c2.Pkg != nil && c2.Pkg.Pkg.Path() == "context" && (c2.Name() == "Background" || c2.Name() == "TODO") {
							detached = true
						}
					}
				}
				if detached {
					continue
				}
				n++
				fromParam := func(v ssa.Value) bool {
					isP := func(w ssa.Value) bool {
						for _, cp := range ctxParams {
							if w == cp {
								return true
							}
						}
						if fv, ok := w.(*ssa.FreeVar); ok && core.IsNamed(fv.Type(), "context", "Context") {
							return true
						}
						return false
					}
					if isP(v) || core.DependsOn(v, isP) {
						return true
					}
					// a value read back from a local the parameter was stored in
					for _, o := range core.Origins(v) {
						if isP(o) || core.DependsOn(o, isP) {
							return true
						}
					}
					return false
				}
				ok2 := fromParam(parent)
				c.Check(ok2, core.SSAName(fn)+"|"+cal.Name()+"-derives-from-the-context-given|"+sprintf("%d", countBefore(fn, in, cal)), p.Pos(call.Pos()),
					core.SSAName(fn)+" derives a context with context."+cal.Name()+ife(ok2, " from the context it was given", " from a value that does not come from the context it was given: what runs under the derived context is not cancelled with the evaluation"))
			}
		}
	}
	c.Pass("repo|derived-contexts", "", sprintf("%d contexts are derived inside functions that were given one", n))
	c.Stat("derived_contexts", n)
}

// ---------------------------------------------------------------------------
// vmLocksAreReleasedByDefer: the VM turns a panic of the code it runs into an
// error and stays usable.  A mutex of the VM that is held across anything that
// can panic is therefore released by a deferred call; released by a plain
// Unlock at the end, a recovered panic leaves it locked and the next
// invocation (or Clone) blocks for ever.
func vmLocksAreReleasedByDefer(c *core.Ctx) {
	p := c.P
	vmT := vmType(p)
	n := 0
	for _, fn := range repoFns(p, "vm") {
		for _, b := range fn.Blocks {
			for i, in := range b.Instrs {
				call, ok := in.(*ssa.Call)
				if !ok {
					continue
				}
				cal := call.Call.StaticCallee()
				if cal == nil || cal.Pkg == nil || cal.Pkg.Pkg.Path() != "sync" || (cal.Name() != "Lock" && cal.Name() != "RLock") || len(call.Call.Args) == 0 {
					continue
				}
				fa, ok := call.Call.Args[0].(*ssa.FieldAddr)
				if !ok || core.NamedOf(fa.X.Type()) != vmT {
					continue
				}
				n++
				// released by defer?
				deferred := false
				for _, b2 := range fn.Blocks {
					for _, in2 := range b2.Instrs {
						if d, ok := in2.(*ssa.Defer); ok {
							if dc := d.Call.StaticCallee(); dc != nil && dc.Pkg != nil && dc.Pkg.Pkg.Path() == "sync" && strings.HasSuffix(dc.Name(), "nlock") && len(d.Call.Args) > 0 {
								if fa2, ok := d.Call.Args[0].(*ssa.FieldAddr); ok && fa2.Field == fa.Field && instrReaches(in, in2) {
									deferred = true
								}
							}
						}
					}
				}
				if deferred {
					c.Pass(core.SSAName(fn)+"|lock-released-by-defer|"+vmT.Underlying().(*types.Struct).Field(fa.Field).Name(), p.Pos(call.Pos()), "released by a deferred Unlock")
					continue
				}
				// plain unlock: nothing that can panic in between
				bad := ""
				seen := map[*ssa.BasicBlock]bool{}
				var walk func(bb *ssa.BasicBlock, from int)
				walk = func(bb *ssa.BasicBlock, from int) {
					for _, x := range bb.Instrs[from:] {
						if cc, ok := x.(*ssa.Call); ok {
							if c2 := cc.Call.StaticCallee(); c2 != nil && c2.Pkg != nil && c2.Pkg.Pkg.Path() == "sync" && strings.HasSuffix(c2.Name(), "nlock") {
								return
							}
							if _, isBi := cc.Call.Value.(*ssa.Builtin); isBi {
								continue
							}
							if c2 := cc.Call.StaticCallee(); c2 != nil && c2.Pkg != nil && c2.Pkg.Pkg.Path() == "sync/atomic" {
								continue
							}
							if bad == "" {
								bad = p.Pos(cc.Pos())
							}
						}
						switch x.(type) {
						case *ssa.TypeAssert, *ssa.Index, *ssa.IndexAddr, *ssa.Slice, *ssa.Panic:
							if ta, ok := x.(*ssa.TypeAssert); ok && ta.CommaOk {
								continue
							}
							if bad == "" {
								bad = p.Pos(x.Pos())
							}
						}
					}
					for _, s := range bb.Succs {
						if !seen[s] {
							seen[s] = true
							walk(s, 0)
						}
					}
				}
				walk(b, i+1)
				c.Check(bad == "", core.SSAName(fn)+"|lock-released-by-defer|"+vmT.Underlying().(*types.Struct).Field(fa.Field).Name(), p.Pos(call.Pos()),
					core.SSAName(fn)+" holds "+vmT.Underlying().(*types.Struct).Field(fa.Field).Name()+" without a deferred Unlock"+ife(bad == "", " across field accesses only", " across "+bad+", which can panic: the VM recovers the panic and reports an error, but the mutex stays locked and the next invocation that needs it blocks for ever"))
			}
		}
	}
	if n == 0 {
		core.Undecidedf("no function of package vm locks a mutex of the VM")
	}
	c.Stat("vm_lock_sites", n)
}

// ---------------------------------------------------------------------------
// loadedCodeEntriesAreFresh: an entry of the VM's table of loaded code is a
// wrapper made for this VM under its current globals (loadRootCode,
// loadChildCode).  An entry that was looked up in the table (or ranged out of
// it) and put back, after a reset or into the table of the next run, is bound
// to the globals of the run it was made for.
func loadedCodeEntriesAreFresh(c *core.Ctx) {
	p := c.P
	vmT := vmType(p)
	li := fieldIdxByName(vmT, "loadedCode")
	if li < 0 {
		core.Undecidedf("VirtualMachine.loadedCode not found")
	}
	fromTable := func(v ssa.Value) bool {
		is := func(w ssa.Value) bool {
			switch x := w.(type) {
			case *ssa.Lookup:
				_, ok := loadOfField(x.X, vmT, li)
				return ok
			case *ssa.Next:
				if rg, ok := x.Iter.(*ssa.Range); ok {
					_, ok := loadOfField(rg.X, vmT, li)
					return ok
				}
			}
			return false
		}
		// the entry itself (through phis, extracts and assertions), not a value computed from it
		for _, o := range core.Origins(v) {
			if is(o) {
				return true
			}
			if ex, ok := o.(*ssa.Extract); ok && is(ex.Tuple) {
				return true
			}
		}
		return is(v)
	}
	n := 0
	for _, fn := range repoFns(p, "vm") {
		for _, b := range fn.Blocks {
			for _, in := range b.Instrs {
				mu, ok := in.(*ssa.MapUpdate)
				if !ok {
					continue
				}
				target := false
				fresh := false
				if fa, ok := loadOfField(mu.Map, vmT, li); ok {
					target = true
					fresh = isFreshAlloc(fa.X)
				} else if mm, ok := mu.Map.(*ssa.MakeMap); ok {
					// a map built here and then stored into the field
					if refs := mm.Referrers(); refs != nil {
						for _, r := range *refs {
							if st, ok := r.(*ssa.Store); ok {
								if fa, ok := st.Addr.(*ssa.FieldAddr); ok && fa.Field == li && core.NamedOf(fa.X.Type()) == vmT {
									target = true
									fresh = isFreshAlloc(fa.X)
								}
							}
						}
					}
				}
				if !target {
					continue
				}
				n++
				if fresh {
					c.Pass(core.SSAName(fn)+"|loaded-code-entry-fresh|new-vm", p.Pos(mu.Pos()), "the table of a VM that is being constructed (Clone)")
					continue
				}
				stale := fromTable(mu.Value)
				c.Check(!stale, core.SSAName(fn)+"|loaded-code-entry-fresh", p.Pos(mu.Pos()),
					core.SSAName(fn)+" stores into the table of loaded code"+ife(!stale, " a wrapper that was made for this VM just now", " an entry that it took out of that table: the wrapper is bound to the globals array of the run it was loaded for, so the same code run again with other options (WithGlobals, WithoutGlobal) still sees the previous configuration"))
			}
		}
	}
	if n == 0 {
		core.Undecidedf("nothing stores into VirtualMachine.loadedCode")
	}
	c.Stat("loaded_code_stores", n)
}

// ---------------------------------------------------------------------------
// everyOutputOfAReflectiveCallIsVisited: the results of reflect.Value.Call are
// walked over their whole length.  A loop that indexes them and is bounded by
// anything else (the number of values left after the errors) stops short when
// an error result is not the last one.
func everyOutputOfAReflectiveCallIsVisited(c *core.Ctx) {
	p := c.P
	n := 0
	for _, fn := range repoFns(p, "object") {
		var outs *ssa.Call
		for _, b := range fn.Blocks {
			for _, in := range b.Instrs {
				if call, ok := in.(*ssa.Call); ok && isReflectCall(&call.Call, "Value", "Call") {
					outs = call
				}
			}
		}
		if outs == nil {
			continue
		}
		for _, b := range fn.Blocks {
			for _, in := range b.Instrs {
				var idx ssa.Value
				var x ssa.Value
				switch y := in.(type) {
				case *ssa.IndexAddr:
					idx, x = y.Index, y.X
				case *ssa.Index:
					idx, x = y.Index, y.X
				default:
					continue
				}
				if x != ssa.Value(outs) || !inLoop(b) {
					continue
				}
				if _, isK := idx.(*ssa.Const); isK {
					continue
				}
				// only loop counters: a phi, or a phi advanced by one (the rotated range loop)
				counter := false
				if _, ok := idx.(*ssa.Phi); ok {
					counter = true
				}
				if bo, ok := idx.(*ssa.BinOp); ok && bo.Op == token.ADD {
					if _, ok := bo.X.(*ssa.Phi); ok {
						counter = true
					}
				}
				if !counter {
					continue
				}
				// a range loop's index comes from the range itself; an index loop compares with len(outputs)
				okBound := false
				for _, o := range core.Origins(idx) {
					if ex, ok := o.(*ssa.Extract); ok {
						if _, isNext := ex.Tuple.(*ssa.Next); isNext {
							okBound = true
						}
					}
				}
				boundedByLen := func(v ssa.Value) bool {
					refs := v.Referrers()
					if refs == nil {
						return false
					}
					for _, r := range *refs {
						if cmp, ok := r.(*ssa.BinOp); ok && (cmp.Op == token.LSS || cmp.Op == token.GTR || cmp.Op == token.GEQ || cmp.Op == token.LEQ) {
							for _, s := range []ssa.Value{cmp.X, cmp.Y} {
								if lc, ok := s.(*ssa.Call); ok {
									if bi, ok := lc.Call.Value.(*ssa.Builtin); ok && bi.Name() == "len" && lc.Call.Args[0] == ssa.Value(outs) {
										return true
									}
								}
							}
						}
					}
					return false
				}
				if boundedByLen(idx) {
					okBound = true
				}
				if bo, ok := idx.(*ssa.BinOp); ok && bo.Op == token.ADD {
					if ph, ok := bo.X.(*ssa.Phi); ok && boundedByLen(ph) {
						okBound = true
					}
				}
				if phi, ok := idx.(*ssa.Phi); ok {
					// the rotated form of `for i := range outs` / `for i := 0; i < len(outs); i++`
					if refs := phi.Referrers(); refs != nil {
						for _, r := range *refs {
							if bo, ok := r.(*ssa.BinOp); ok && (bo.Op == token.LSS || bo.Op == token.GTR) {
								for _, s := range []ssa.Value{bo.X, bo.Y} {
									if lc, ok := s.(*ssa.Call); ok {
										if bi, ok := lc.Call.Value.(*ssa.Builtin); ok && bi.Name() == "len" && lc.Call.Args[0] == ssa.Value(outs) {
											okBound = true
										}
									}
								}
							}
						}
					}
					for _, e := range phi.Edges {
						if bo, ok := e.(*ssa.BinOp); ok && bo.Op == token.ADD {
							if refs := bo.Referrers(); refs != nil {
								for _, r := range *refs {
									if cmp, ok := r.(*ssa.BinOp); ok && (cmp.Op == token.LSS || cmp.Op == token.GTR) {
										for _, s := range []ssa.Value{cmp.X, cmp.Y} {
											if lc, ok := s.(*ssa.Call); ok {
												if bi, ok := lc.Call.Value.(*ssa.Builtin); ok && bi.Name() == "len" && lc.Call.Args[0] == ssa.Value(outs) {
													okBound = true
												}
											}
										}
									}
								}
							}
						}
					}
				}
				n++
				c.Check(okBound, core.SSAName(fn)+"|outputs-walked-to-their-length|"+sprintf("%d", n), p.Pos(in.Pos()),
					core.SSAName(fn)+" indexes the results of a reflective call in a loop"+ife(okBound, " that runs over all of them", " whose bound is not their length: with an error result that is not the last one, the values after it are never converted and the script gets fewer results than the Go method returned"))
			}
		}
	}
	if n == 0 {
		c.Pass("object|reflective-outputs-ranged", "", "the results of reflect.Value.Call are only walked by range loops")
	}
	c.Stat("indexed_output_loops", n)
}

// ---------------------------------------------------------------------------
// sharedStateIsEnumerated: every package-level variable of the interpreter's
// packages that is written after initialisation, or that is a concurrent
// container, is in this table with the reason it is safe to share between
// evaluations.  A new one is shared by every evaluation in the process; it is
// a violation until someone has argued that nothing an evaluation puts there
// changes what another evaluation computes.
var sharedStateAllowed = map[string]string{
	"builtins.codecs":             "registry of codecs by name, every access under codecsMutex; entries are added by init and by the host's RegisterCodec, never by an evaluation (C09-R1 checks the lock)",
	"errz.typeErrorsAreFatal":     "host setting, written only by the exported setter that no repository function calls (C09-R1)",
	"object.convertersInProgress": "the types whose converter is being built, under goTypeMutex; every count is taken back (deferred) by the call that added it, so the table is empty whenever the lock is free (C08-R27 needs it; C09-R1 checks the lock)",
	"object.registration":         "what was entered into the two tables below while the outermost entry is in progress, under goTypeMutex; emptied when that entry is finished, so that it is empty whenever the lock is free (C05-R14 needs it; C09-R1 checks the lock)",
	"object.goTypeRegistry":       "memo keyed by reflect.Type under goTypeMutex; an entry depends on its key only, and a type that cannot be completed is unpublished again (C08-R12, C09-R1)",
	"object.typeConverters":       "memo keyed by reflect.Type under goTypeMutex; an entry depends on its key only (C09-R1)",
	"os.globalScriptargs":         "host setting, written only by the exported setter that no repository function calls (C09-R1)",
}

func sharedStateIsEnumerated(c *core.Ctx) {
	p := c.P
	fns := repoFunctions(p)
	n := 0
	for _, pk := range p.Pkgs {
		rel := core.RelPkg(pk.Types)
		if !interpreterPkg(rel) {
			continue
		}
		sp := p.SSAPkg(pk)
		if sp == nil {
			continue
		}
		var names []string
		for name, m := range sp.Members {
			if _, ok := m.(*ssa.Global); ok {
				names = append(names, name)
			}
		}
		sort.Strings(names)
		for _, name := range names {
			g := sp.Members[name].(*ssa.Global)
			if strings.HasPrefix(name, "init$") || name == "_" {
				continue
			}
			runtimeWrite := false
			for _, a := range globalAccesses(g, fns) {
				if a.write && !isInitFunc(a.fn) {
					runtimeWrite = true
				}
			}
			elem := g.Type().(*types.Pointer).Elem()
			container := false
			if nt := core.NamedOf(elem); nt != nil && nt.Obj().Pkg() != nil && nt.Obj().Pkg().Path() == "sync" && (nt.Obj().Name() == "Map" || nt.Obj().Name() == "Pool") {
				container = true
			}
			// a (pointer to a) struct that holds a map or slice and something to lock it with: a
			// home-made concurrent container, filled through its methods
			// (the repository's own types only: what a type of the standard library does inside,
			// like strings.Replacer building its tables once, is its own business)
			if stt, ok := derefStruct(elem); ok && ownStruct(elem) {
				hasTable, hasLock := false, false
				for i := 0; i < stt.NumFields(); i++ {
					ft := stt.Field(i).Type()
					switch ft.Underlying().(type) {
					case *types.Map, *types.Slice:
						hasTable = true
					}
					if nt := core.NamedOf(ft); nt != nil && nt.Obj().Pkg() != nil && nt.Obj().Pkg().Path() == "sync" {
						hasLock = true
					}
				}
				if hasTable && hasLock {
					container = true
				}
			}
			// a counter or pointer of sync/atomic (or a struct of them) is written through its
			// methods, a plain integer through atomic.AddInt32(&g, ..): run-time state all the same
			if containsAtomic(elem, 0) {
				container = true
			}
			for _, fn := range fns {
				if isInitFunc(fn) {
					continue
				}
				for _, b := range fn.Blocks {
					for _, in := range b.Instrs {
						ci, ok := in.(ssa.CallInstruction)
						if !ok {
							continue
						}
						cal := ci.Common().StaticCallee()
						if cal == nil || cal.Pkg == nil || cal.Pkg.Pkg.Path() != "sync/atomic" || strings.HasPrefix(cal.Name(), "Load") {
							continue
						}
						for _, a := range ci.Common().Args {
							if a == ssa.Value(g) || addrRoot(a) == ssa.Value(g) {
								runtimeWrite = true
							}
						}
					}
				}
			}
			if !runtimeWrite && !container {
				continue
			}
			n++
			key := rel + "." + name
			why, ok := sharedStateAllowed[key]
			c.Check(ok, key+"|shared-state-enumerated", p.Pos(g.Pos()),
				"package variable "+key+" is written while evaluations run (or is a concurrent container)"+ife(ok, ": "+why, " and is not in the table of shared state: whatever one evaluation stores there is seen by every other evaluation in the process (an importer cached by directory alone compiles modules against the globals of whichever evaluation came first)"))
		}
	}
	c.Stat("shared_package_variables", n)
}

// ---------------------------------------------------------------------------
// iterablesAreAskedForAFreshIterator: where the VM starts an iteration
// (GetIter), an object that can produce an iterator is asked for one before
// the VM considers using the object itself as the iterator.  A channel is
// both; used as its own iterator it keeps the position of every loop over it
// in one place, and concurrent consumers lose and duplicate values.
func iterablesAreAskedForAFreshIterator(c *core.Ctx) {
	p := c.P
	t := VMTable(p)
	eval := p.SSAFunc(t.Eval)
	op := p.Pkg("object")
	iterableT := core.MustType(op, "Iterable")
	iteratorT := core.MustType(op, "Iterator")
	n := 0
	fns := append([]*ssa.Function{eval}, repoFns(p, "object", "builtins")...)
	seenFn := map[*ssa.Function]bool{}
	for _, fn := range fns {
		if seenFn[fn] {
			continue
		}
		seenFn[fn] = true
		k := 0
		for _, b := range fn.Blocks {
			for _, in := range b.Instrs {
				ta, ok := in.(*ssa.TypeAssert)
				if !ok || !ta.CommaOk || core.NamedOf(ta.AssertedType) != iteratorT {
					continue
				}
				// a sibling assertion of the same value to Iterable
				var sib *ssa.TypeAssert
				for _, b2 := range fn.Blocks {
					for _, in2 := range b2.Instrs {
						if ta2, ok := in2.(*ssa.TypeAssert); ok && ta2.CommaOk && core.NamedOf(ta2.AssertedType) == iterableT && ta2.X == ta.X {
							sib = ta2
						}
					}
				}
				if sib == nil {
					continue
				}
				n++
				k++
				ok2 := instrDominates(sib, ta)
				name := core.SSAName(fn)
				if fn == eval {
					name = "vm.eval"
				}
				c.Check(ok2, name+"|iterable-tested-before-iterator|"+sprintf("%d", k), p.Pos(ta.Pos()),
					fn.Name()+" tests a value for Iterable and for Iterator"+ife(ok2, ", Iterable first: an object that is both is asked for a fresh iterator", ", Iterator first: an object that is both (a channel) becomes its own iterator, and every consumer of it shares one position (two concurrent list(c) lose and duplicate values)"))
			}
		}
	}
	if n == 0 {
		core.Undecidedf("no function tests one value for both Iterable and Iterator")
	}
	c.Stat("iter_dispatch_sites", n)
}

// ---------------------------------------------------------------------------
// virtualOSDoesNotReachTheProcess: the VirtualOS type stands between scripts
// and the real operating system.  Its constructor, options and methods do not
// refer to the functions of Go's os package that act on the process or the
// real file system (os.Exit as a default exit handler ends the host when a
// script calls exit()).
var virtualOSMayUse = map[string]string{
	"IsNotExist": "classifies an error value",
	"IsExist":    "classifies an error value",
}

func virtualOSDoesNotReachTheProcess(c *core.Ctx) {
	p := c.P
	_, impls := osImplementations(p)
	var virt *types.Named
	for _, nt := range impls {
		// the implementation that is assembled from mounts
		st := nt.Underlying().(*types.Struct)
		for i := 0; i < st.NumFields(); i++ {
			if st.Field(i).Name() == "mounts" {
				virt = nt
			}
		}
	}
	if virt == nil {
		core.Undecidedf("no OS implementation with a mounts field found")
	}
	belongs := func(fn *ssa.Function) bool {
		root := fn
		for root.Parent() != nil {
			root = root.Parent()
		}
		if root.Signature.Recv() != nil && core.NamedOf(root.Signature.Recv().Type()) == virt {
			return true
		}
		// constructor and options: functions that mention *VirtualOS in their signature or allocate one
		sig := root.Signature
		for i := 0; i < sig.Results().Len(); i++ {
			if core.NamedOf(sig.Results().At(i).Type()) == virt {
				return true
			}
			if nt := core.NamedOf(sig.Results().At(i).Type()); nt != nil {
				if fs, ok := nt.Underlying().(*types.Signature); ok && fs.Params().Len() == 1 && core.NamedOf(fs.Params().At(0).Type()) == virt {
					return true
				}
			}
		}
		if fn.Parent() != nil && len(fn.Params) == 1 && core.NamedOf(fn.Params[0].Type()) == virt {
			return true
		}
		return false
	}
	n, bad := 0, 0
	for _, fn := range repoFns(p, "os") {
		if !belongs(fn) {
			continue
		}
		n++
		for _, b := range fn.Blocks {
			for _, in := range b.Instrs {
				for _, opd := range in.Operands(nil) {
					f, ok := (*opd).(*ssa.Function)
					if !ok || f.Pkg == nil || f.Pkg.Pkg.Path() != "os" {
						continue
					}
					if _, okk := virtualOSMayUse[f.Name()]; okk {
						continue
					}
					bad++
					c.Check(false, core.SSAName(fn)+"|no-real-os|"+f.Name(), p.Pos(in.Pos()),
						core.SSAName(fn)+" belongs to the virtual OS and refers to os."+f.Name()+" of the Go standard library: a script that runs under this OS reaches the real process or file system through it")
				}
			}
		}
	}
	if n < 20 {
		core.Undecidedf("only %d functions of the virtual OS found", n)
	}
	c.Pass("os.VirtualOS|no-real-os", "", sprintf("%d functions of the virtual OS (methods, constructor, options) examined, %d references to effectful functions of Go's os package", n, bad))
	c.Stat("virtual_os_functions", n)
}

// ---------------------------------------------------------------------------
// parentTestsAreComponentWise: a test for "this relative path leaves its base"
// looks at whole path components.  strings.HasPrefix(rel, "..") also matches
// the ordinary names "..a" and "...": used to decide which mount serves a
// path it hands such names to the wrong mount, used to refuse a path it
// refuses names that are inside the base.
func parentTestsAreComponentWise(c *core.Ctx) {
	p := c.P
	n := 0
	for _, fn := range repoFns(p, "os", "os/localfs", "os/s3fs", "modules/filepath", "modules/os", "importer", "builtins") {
		for _, b := range fn.Blocks {
			for _, in := range b.Instrs {
				call, ok := in.(*ssa.Call)
				if !ok {
					continue
				}
				cal := call.Call.StaticCallee()
				if cal == nil || cal.Pkg == nil || cal.Pkg.Pkg.Path() != "strings" || cal.Name() != "HasPrefix" || len(call.Call.Args) != 2 {
					continue
				}
				k, ok := call.Call.Args[1].(*ssa.Const)
				if !ok || k.Value == nil || k.Value.Kind() != constant.String || constant.StringVal(k.Value) != ".." {
					continue
				}
				n++
				c.Check(false, core.SSAName(fn)+"|parent-test-component-wise|"+sprintf("%d", countBefore(fn, in, cal)), p.Pos(call.Pos()),
					core.SSAName(fn)+" tests a path with strings.HasPrefix(path, \"..\"), which is also true of the names \"..a\" and \"...\": the test for a leading parent component is path == \"..\" || strings.HasPrefix(path, \"../\")")
			}
		}
	}
	c.Pass("os|parent-tests", "", sprintf("%d tests of the form strings.HasPrefix(path, \"..\") in the file-system packages", n))
	c.Stat("dotdot_prefix_tests", n)
}

// ---------------------------------------------------------------------------
// importsBindTheModulesOwnObjects: what an import statement binds is the
// module, or the attribute the module returned for the name, itself.  A value
// computed from it (a copy of a container) is a private snapshot: the
// importer no longer sees what the module's own functions do to the
// original.
func importsBindTheModulesOwnObjects(c *core.Ctx) {
	p := c.P
	t := VMTable(p)
	vmp := p.Pkg("vm")
	info := vmp.TypesInfo
	n := 0
	for _, name := range []string{"Import", "FromImport"} {
		cl := t.Clauses[name]
		if cl == nil {
			core.Undecidedf("dispatch clause %s not found", name)
		}
		var body []ast.Stmt
		for _, cc := range t.Switch.Body.List {
			clause := cc.(*ast.CaseClause)
			for _, e := range clause.List {
				if cst, _ := objOf(info, e).(*types.Const); cst != nil && cst.Name() == name {
					body = clause.Body
				}
			}
		}
		// (with the methods that the clause hands its work to)
		for _, h := range t.HelpersOf(name) {
			if hd := p.Decl(h); hd != nil && hd.Body != nil {
				body = append(append([]ast.Stmt(nil), body...), hd.Body.List...)
			}
		}
		for _, s := range body {
			ast.Inspect(s, func(nd ast.Node) bool {
				call, ok := nd.(*ast.CallExpr)
				if !ok || len(call.Args) != 1 {
					return true
				}
				if fn := calleeOf(info, call); fn == nil || fn != t.Prims["push"] {
					return true
				}
				n++
				_, isCall := ast.Unparen(call.Args[0]).(*ast.CallExpr)
				c.Check(!isCall, "vm.eval|"+name+"|binds-the-modules-own-object|"+sprintf("%d", n), p.Pos(call.Pos()),
					"the "+name+" handler pushes "+exprStr(call.Args[0])+ife(isCall, ", the result of a call, not the object the module handed out: the importing scope gets a value of its own (a copy of a list or map) and no longer sees what the module does to the original", ", a value it was handed"))
				return true
			})
		}
	}
	if n < 2 {
		core.Undecidedf("only %d pushes found in the import handlers", n)
	}
	c.Stat("import_pushes", n)
}

// ---------------------------------------------------------------------------
// listsDoNotShareStorage: a list made by a builtin or a method from the items
// of another list gets storage of its own.  A slice expression over the other
// list's items (also one with its capacity capped) is a window onto the same
// array: item assignment, reverse and sort on either list show through the
// other.
func listsDoNotShareStorage(c *core.Ctx) {
	p := c.P
	op := p.Pkg("object")
	listT := core.MustType(op, "List")
	ii := fieldIdxByName(listT, "items")
	n, sites := 0, 0
	for _, fn := range repoFns(p) {
		rel := core.RelPkg(fn.Pkg.Pkg)
		if rel != "object" && rel != "builtins" && !strings.HasPrefix(rel, "modules/") {
			continue
		}
		for _, b := range fn.Blocks {
			for _, in := range b.Instrs {
				call, ok := in.(*ssa.Call)
				if !ok {
					continue
				}
				cal := call.Call.StaticCallee()
				if cal == nil || cal.Name() != "NewList" || cal.Pkg == nil || core.RelPkg(cal.Pkg.Pkg) != "object" || len(call.Call.Args) != 1 {
					continue
				}
				sites++
				for _, o := range core.Origins(call.Call.Args[0]) {
					sl, ok := o.(*ssa.Slice)
					if !ok {
						continue
					}
					other := false
					for _, so := range core.Origins(sl.X) {
						if oc, ok := so.(*ssa.Call); ok {
							if c2 := oc.Call.StaticCallee(); c2 != nil && c2.Name() == "Value" && c2.Signature.Recv() != nil && core.NamedOf(c2.Signature.Recv().Type()) == listT {
								other = true
							}
						}
						if _, ok := loadOfField(so, listT, ii); ok {
							other = true
						}
					}
					// ... or over storage that the function keeps appending to in a
					// loop, taken without a limit on the capacity: the room behind
					// the window is where the next round's items are written, and
					// an append to the list writes there first
					if !other && sl.Max == nil && inLoop(b) {
						for _, so := range core.Origins(sl.X) {
							if oc, ok := so.(*ssa.Call); ok {
								if bi, ok := oc.Call.Value.(*ssa.Builtin); ok && bi.Name() == "append" && inLoop(oc.Block()) {
									n++
									c.Check(false, core.SSAName(fn)+"|new-list-on-own-storage|shared-block|"+sprintf("%d", countBefore(fn, in, cal)), p.Pos(call.Pos()),
										core.SSAName(fn)+" makes a list from a window, with no limit on its capacity, onto storage that it goes on appending to: the lists it makes lie one behind the other in one array, and an append to one of them overwrites the first item of the next")
								}
							}
						}
					}
					if !other {
						continue
					}
					n++
					c.Check(false, core.SSAName(fn)+"|new-list-on-own-storage|"+sprintf("%d", countBefore(fn, in, cal)), p.Pos(call.Pos()),
						core.SSAName(fn)+" makes a list from a slice expression over the items of another list: both lists share one array, and an item assignment, reverse() or sort() on one of them changes the other")
				}
			}
		}
	}
	if sites < 20 {
		core.Undecidedf("only %d calls of object.NewList found", sites)
	}
	c.Pass("object|new-list-storage", "", sprintf("%d calls of object.NewList examined, %d of them on a window of another list's items", sites, n))
	c.Stat("newlist_calls", sites)
}

// ---------------------------------------------------------------------------
// presenceIsNotDecidedByNil: Map.Get answers nil both for a key that is absent
// and for a key whose value is nil.  A method of Map or a builtin that decides
// whether a key is present looks it up with the two-valued form; comparing
// the result of Get with Nil treats a present nil as absent (setdefault then
// overwrites it).
func presenceIsNotDecidedByNil(c *core.Ctx) {
	p := c.P
	op := p.Pkg("object")
	mapT := core.MustType(op, "Map")
	var nilG *ssa.Global
	if sp := p.SSAPkg(op); sp != nil {
		nilG, _ = sp.Members["Nil"].(*ssa.Global)
	}
	if nilG == nil {
		core.Undecidedf("object.Nil not found")
	}
	isNilObj := func(v ssa.Value) bool {
		for _, o := range core.Origins(v) {
			if mi, ok := o.(*ssa.MakeInterface); ok {
				o = mi.X
			}
			if u, ok := o.(*ssa.UnOp); ok && u.X == ssa.Value(nilG) {
				return true
			}
		}
		return false
	}
	fromGet := func(v ssa.Value) bool {
		for _, o := range core.Origins(v) {
			if call, ok := o.(*ssa.Call); ok {
				if cal := call.Call.StaticCallee(); cal != nil && cal.Signature.Recv() != nil && core.NamedOf(cal.Signature.Recv().Type()) == mapT && (cal.Name() == "Get" || cal.Name() == "GetWithDefault") {
					return true
				}
			}
		}
		return false
	}
	n, gets := 0, 0
	for _, fn := range repoFns(p, "object", "builtins") {
		for _, b := range fn.Blocks {
			for _, in := range b.Instrs {
				if call, ok := in.(*ssa.Call); ok {
					if cal := call.Call.StaticCallee(); cal != nil && cal.Signature.Recv() != nil && core.NamedOf(cal.Signature.Recv().Type()) == mapT && cal.Name() == "Get" {
						gets++
					}
				}
				bo, ok := in.(*ssa.BinOp)
				if !ok || (bo.Op != token.EQL && bo.Op != token.NEQ) {
					continue
				}
				if (fromGet(bo.X) && isNilObj(bo.Y)) || (fromGet(bo.Y) && isNilObj(bo.X)) {
					n++
					c.Check(false, core.SSAName(fn)+"|presence-by-two-valued-lookup|"+sprintf("%d", n), p.Pos(bo.Pos()),
						core.SSAName(fn)+" compares the result of Map.Get with Nil to decide whether a key is present: a key that is present with the value nil counts as absent")
				}
			}
		}
	}
	c.Pass("object.Map|presence-tests", "", sprintf("%d calls of Map.Get in object and builtins, %d results compared with Nil", gets, n))
	c.Stat("map_get_calls", gets)
}

// ---------------------------------------------------------------------------
// rollbackRestoresWhatCompilationMoves: the fields of the Compiler that the
// compile functions move while they work (which code object is being compiled
// into, the function counter) and that Compile's error path restores today
// are restored there still.  compileFunc has error returns between switching
// to the function's code and switching back; only the rollback in Compile
// covers those.
func rollbackRestoresWhatCompilationMoves(c *core.Ctx) {
	p := c.P
	cp := p.Pkg("compiler")
	compT := core.MustType(cp, "Compiler")
	st := compT.Underlying().(*types.Struct)
	var compile *ssa.Function
	for _, fn := range repoFns(p, "compiler") {
		if fn.Name() == "Compile" && fn.Signature.Recv() != nil && core.NamedOf(fn.Signature.Recv().Type()) == compT {
			compile = fn
		}
	}
	if compile == nil {
		core.Undecidedf("Compiler.Compile not found")
	}
	// fields stored by Compile's deferred functions
	restored := map[int]bool{}
	for _, an := range compile.AnonFuncs {
		for _, b := range an.Blocks {
			for _, in := range b.Instrs {
				if s, ok := in.(*ssa.Store); ok {
					if fa, ok := s.Addr.(*ssa.FieldAddr); ok && core.NamedOf(fa.X.Type()) == compT {
						restored[fa.Field] = true
					}
				}
			}
		}
	}
	// pointer-typed or counter fields moved by functions that can fail in between:
	// a field stored twice in one function (switched and switched back) with an error return in between
	n := 0
	for _, fn := range repoFns(p, "compiler") {
		if fn == compile || fn.Parent() != nil || fn.Signature.Recv() == nil || core.NamedOf(fn.Signature.Recv().Type()) != compT {
			continue
		}
		res := fn.Signature.Results()
		if res.Len() == 0 || !isErrorType(res.At(res.Len()-1).Type()) {
			continue
		}
		stores := map[int][]*ssa.Store{}
		for _, b := range fn.Blocks {
			for _, in := range b.Instrs {
				if s, ok := in.(*ssa.Store); ok {
					if fa, ok := s.Addr.(*ssa.FieldAddr); ok && core.NamedOf(fa.X.Type()) == compT && len(fn.Params) > 0 && fa.X == fn.Params[0] {
						stores[fa.Field] = append(stores[fa.Field], s)
					}
				}
			}
		}
		for fi, ss := range stores {
			if len(ss) < 2 {
				continue
			}
			if _, isPtr := st.Field(fi).Type().Underlying().(*types.Pointer); !isPtr {
				continue
			}
			// an error return reachable after the first store without passing a later store
			first := ss[0]
			later := map[*ssa.BasicBlock]bool{}
			for _, s := range ss[1:] {
				later[s.Block()] = true
			}
			leak := false
			seen := map[*ssa.BasicBlock]bool{}
			var walk func(b *ssa.BasicBlock)
			walk = func(b *ssa.BasicBlock) {
				for _, in := range b.Instrs {
					if r, ok := in.(*ssa.Return); ok {
						rv := spilledResult(b, r.Results[len(r.Results)-1])
						for _, o := range core.Origins(rv) {
							if k, isK := o.(*ssa.Const); !isK || !k.IsNil() {
								leak = true
							}
						}
					}
				}
				for _, s := range b.Succs {
					if !seen[s] && !later[s] {
						seen[s] = true
						walk(s)
					}
				}
			}
			for _, s := range first.Block().Succs {
				if !seen[s] && !later[s] {
					seen[s] = true
					walk(s)
				}
			}
			if !leak {
				continue
			}
			n++
			c.Check(restored[fi], core.SSAName(fn)+"|"+st.Field(fi).Name()+"|restored-by-the-rollback", p.Pos(first.Pos()),
				core.SSAName(fn)+" switches Compiler."+st.Field(fi).Name()+" and has error returns before it switches it back; "+ife(restored[fi], "the rollback in Compile restores the field", "the rollback in Compile does not restore the field: after a piece that is rejected there (a function header the compiler refuses) every later piece is compiled into the abandoned function's code, and running it does nothing"))
		}
	}
	if n == 0 {
		core.Undecidedf("no compile function switches a pointer field of the Compiler across error returns")
	}
	c.Stat("switched_compiler_fields", n)
}

// ---------------------------------------------------------------------------
// commentsAreSkippedUntilNoneIsLeft: the lexer's Next skips a comment and then
// looks for a comment again, from the first kind it knows, before it scans a
// token: it calls itself, or loops back to the first comment test.  A skip
// that falls through to the next kind of comment only (or to the scanner)
// leaves `/* a */ // b` with the line comment unrecognised.
func commentsAreSkippedUntilNoneIsLeft(c *core.Ctx) {
	p := c.P
	lp := p.Pkg("lexer")
	lexT := core.MustType(lp, "Lexer")
	var next *ssa.Function
	for _, fn := range repoFns(p, "lexer") {
		if fn.Name() == "Next" && fn.Signature.Recv() != nil && core.NamedOf(fn.Signature.Recv().Type()) == lexT && fn.Parent() == nil {
			next = fn
		}
	}
	if next == nil {
		core.Undecidedf("Lexer.Next not found")
	}
	isSkipper := func(cal *ssa.Function) bool {
		return cal != nil && cal.Signature.Recv() != nil && core.NamedOf(cal.Signature.Recv().Type()) == lexT && cal.Signature.Results().Len() == 0 && strings.Contains(strings.ToLower(cal.Name()), "comment")
	}
	var skips []*ssa.Call
	for _, b := range next.Blocks {
		for _, in := range b.Instrs {
			if call, ok := in.(*ssa.Call); ok && isSkipper(call.Call.StaticCallee()) {
				skips = append(skips, call)
			}
		}
	}
	if len(skips) < 2 {
		core.Undecidedf("Lexer.Next calls %d comment skippers", len(skips))
	}
	// the first comment test: the block that dominates every skip and is the deepest such block ending in an If
	var first *ssa.BasicBlock
	for _, b := range next.Blocks {
		if len(b.Instrs) == 0 {
			continue
		}
		if _, ok := b.Instrs[len(b.Instrs)-1].(*ssa.If); !ok {
			continue
		}
		all := true
		for _, s := range skips {
			if !b.Dominates(s.Block()) {
				all = false
			}
		}
		if all && (first == nil || first.Dominates(b)) {
			first = b
		}
	}
	if first == nil {
		core.Undecidedf("no test dominates every comment skip in Lexer.Next")
	}
	for i, s := range skips {
		// after the skip: a call of Next itself, or a path back to the first test
		again := false
		for _, b := range next.Blocks {
			for _, in := range b.Instrs {
				if call, ok := in.(*ssa.Call); ok && call.Call.StaticCallee() == next && instrReaches(s, in) && in != ssa.Instruction(s) {
					// only when nothing else can happen first: the call is in the skip's block or a block it dominates directly
					if b == s.Block() || s.Block().Dominates(b) {
						again = true
					}
				}
			}
		}
		if !again && len(first.Instrs) > 0 && instrReaches(s, first.Instrs[0]) && first != s.Block() {
			again = true
		}
		c.Check(again, "lexer.Lexer.Next|comments-skipped-until-none-is-left|"+s.Call.StaticCallee().Name()+sprintf("#%d", i+1), p.Pos(s.Pos()),
			"after "+s.Call.StaticCallee().Name()+" Lexer.Next "+ife(again, "starts over (it calls itself or returns to the first comment test)", "does not look for every kind of comment again: a comment of a kind that was tested earlier and follows this one on the same line (`/* a */ // b`) is scanned as tokens"))
	}
	c.Stat("comment_skips", len(skips))
}

// ---------------------------------------------------------------------------
// closersAreTestedAfterTheNewlines: a parse function of a bracketed construct
// that steps over line breaks after the opening bracket tests for the closing
// bracket after that loop (too).  Tested only before it, an empty construct
// that is broken across lines (`{` newline `}`) falls through to the element
// parser, which rejects the closing bracket.
func closersAreTestedAfterTheNewlines(c *core.Ctx) {
	p := c.P
	pp := p.Pkg("parser")
	info := pp.TypesInfo
	parserT := core.MustType(pp, "Parser")
	n := 0
	for _, m := range core.Methods(parserT) {
		fd := p.Decl(m)
		if fd == nil || fd.Body == nil {
			continue
		}
		isPeekIs := func(e ast.Expr, wantNewline bool) bool {
			call, ok := ast.Unparen(e).(*ast.CallExpr)
			if !ok || len(call.Args) != 1 {
				return false
			}
			fn := calleeOf(info, call)
			if fn == nil || fn.Name() != "peekTokenIs" {
				return false
			}
			isNL := false
			if cst, _ := objOf(info, call.Args[0]).(*types.Const); cst != nil && cst.Name() == "NEWLINE" {
				isNL = true
			}
			return isNL == wantNewline
		}
		// statement lists in which a newline-skipping loop occurs before the first element is parsed
		var lists [][]ast.Stmt
		lists = append(lists, fd.Body.List)
		for _, stmts := range lists {
			for i, s := range stmts {
				fs, ok := s.(*ast.ForStmt)
				if !ok || fs.Init != nil || fs.Post != nil || fs.Cond == nil || !isPeekIs(fs.Cond, true) {
					continue
				}
				// only the loop right after the opening token: nothing parsed before it in this function
				parsedBefore := false
				closerBefore := false
				for _, prev := range stmts[:i] {
					ast.Inspect(prev, func(nd ast.Node) bool {
						if call, ok := nd.(*ast.CallExpr); ok {
							if fn := calleeOf(info, call); fn != nil && (strings.HasPrefix(fn.Name(), "parseExpression") || fn.Name() == "parseNode" || fn.Name() == "parseStatement") {
								parsedBefore = true
							}
							if isPeekIs(call, false) {
								closerBefore = true
							}
						}
						return true
					})
				}
				if parsedBefore {
					continue
				}
				// what follows the loop up to the first element parse
				closerAfter := false
				parses := false
				for _, next := range stmts[i+1:] {
					done := false
					ast.Inspect(next, func(nd ast.Node) bool {
						if done {
							return false
						}
						if call, ok := nd.(*ast.CallExpr); ok {
							if isPeekIs(call, false) && !parses {
								closerAfter = true
							}
							if fn := calleeOf(info, call); fn != nil && (strings.HasPrefix(fn.Name(), "parseExpression") || fn.Name() == "parseNode") {
								parses = true
								done = true
							}
						}
						return true
					})
					if parses {
						break
					}
				}
				if !parses || (!closerBefore && !closerAfter) {
					continue
				}
				n++
				c.Check(closerAfter, "parser."+m.Name()+"|closer-tested-after-the-newlines", p.Pos(fs.Pos()),
					m.Name()+" steps over line breaks after its opening token and "+ife(closerAfter, "tests for the closing token after that", "tests for the closing token only before that: the empty form broken across lines reaches the element parser, which rejects the closing token"))
			}
		}
	}
	if n < 2 {
		core.Undecidedf("only %d bracketed parse functions with a leading newline loop found", n)
	}
	c.Stat("bracketed_parsers", n)
}

// sameAccessPath: a and b read the same location by the same chain of field
// selections, indexings and loads from the same roots (stores in between are
// not considered: the callers use it for two reads inside one loop body).
func sameAccessPath(a, b ssa.Value, d int) bool {
	if a == b {
		return true
	}
	if d > 8 {
		return false
	}
	switch x := a.(type) {
	case *ssa.UnOp:
		y, ok := b.(*ssa.UnOp)
		return ok && x.Op == y.Op && sameAccessPath(x.X, y.X, d+1)
	case *ssa.FieldAddr:
		y, ok := b.(*ssa.FieldAddr)
		return ok && x.Field == y.Field && sameAccessPath(x.X, y.X, d+1)
	case *ssa.IndexAddr:
		y, ok := b.(*ssa.IndexAddr)
		return ok && sameAccessPath(x.Index, y.Index, d+1) && sameAccessPath(x.X, y.X, d+1)
	case *ssa.Field:
		y, ok := b.(*ssa.Field)
		return ok && x.Field == y.Field && sameAccessPath(x.X, y.X, d+1)
	case *ssa.Call:
		// len(x) twice
		y, ok := b.(*ssa.Call)
		if !ok {
			return false
		}
		bx, ok1 := x.Call.Value.(*ssa.Builtin)
		by, ok2 := y.Call.Value.(*ssa.Builtin)
		return ok1 && ok2 && bx.Name() == "len" && by.Name() == "len" && sameAccessPath(x.Call.Args[0], y.Call.Args[0], d+1)
	}
	return false
}

// ---------------------------------------------------------------------------
// binaryOperatorsStepOverNewlines: a line may be broken after a binary
// operator.  Every parse function that builds a binary node (Infix, In, NotIn,
// Pipe) steps over NEWLINE tokens, in a loop, between the operator and the
// expression it parses as the right operand.
func binaryOperatorsStepOverNewlines(c *core.Ctx) {
	p := c.P
	pp := p.Pkg("parser")
	info := pp.TypesInfo
	parserT := core.MustType(pp, "Parser")
	binary := map[string]bool{"NewInfix": true, "NewIn": true, "NewNotIn": true, "NewPipe": true}
	n := 0
	for _, m := range core.Methods(parserT) {
		fd := p.Decl(m)
		if fd == nil || fd.Body == nil {
			continue
		}
		builds := ""
		ast.Inspect(fd.Body, func(nd ast.Node) bool {
			if call, ok := nd.(*ast.CallExpr); ok {
				if fn := calleeOf(info, call); fn != nil && fn.Pkg() != nil && core.RelPkg(fn.Pkg()) == "ast" && binary[fn.Name()] {
					builds = fn.Name()
				}
			}
			return true
		})
		if builds == "" {
			continue
		}
		n++
		// a for loop whose condition tests for NEWLINE and whose body advances, before a parseExpression/parseNode call
		loopPos, parsePos := token.NoPos, token.NoPos
		ast.Inspect(fd.Body, func(nd ast.Node) bool {
			switch x := nd.(type) {
			case *ast.ForStmt:
				isNL := false
				if x.Cond != nil {
					ast.Inspect(x.Cond, func(n2 ast.Node) bool {
						if id, ok := n2.(*ast.SelectorExpr); ok {
							if cst, _ := info.Uses[id.Sel].(*types.Const); cst != nil && cst.Name() == "NEWLINE" {
								isNL = true
							}
						}
						return true
					})
				}
				if isNL && loopPos == token.NoPos {
					loopPos = x.Pos()
				}
			case *ast.CallExpr:
				if fn := calleeOf(info, x); fn != nil && (fn.Name() == "parseExpression" || fn.Name() == "parseNode") && parsePos == token.NoPos {
					parsePos = x.Pos()
				}
				// the helper form: a method whose body is such a loop
				if fn := calleeOf(info, x); fn != nil && loopPos == token.NoPos && fn != m {
					if hd := p.Decl(fn); hd != nil && hd.Body != nil && len(hd.Body.List) <= 2 && core.RecvNamed(fn) == parserT {
						ast.Inspect(hd.Body, func(n2 ast.Node) bool {
							if fs, ok := n2.(*ast.ForStmt); ok && fs.Cond != nil {
								ast.Inspect(fs.Cond, func(n3 ast.Node) bool {
									if id, ok := n3.(*ast.SelectorExpr); ok {
										if cst, _ := info.Uses[id.Sel].(*types.Const); cst != nil && cst.Name() == "NEWLINE" {
											loopPos = x.Pos()
										}
									}
									return true
								})
							}
							return true
						})
					}
				}
			}
			return true
		})
		ok := loopPos != token.NoPos && parsePos != token.NoPos && loopPos < parsePos
		c.Check(ok, "parser."+m.Name()+"|newlines-stepped-over-after-the-operator", posOf(p, fd),
			m.Name()+" builds a binary node (ast."+builds+") and "+ife(ok, "steps over line breaks in a loop before it parses the right operand", "parses the right operand without stepping over line breaks after the operator first: `1 in` newline `[1]` is a syntax error while `1 ==` newline `1` parses"))
	}
	if n < 3 {
		core.Undecidedf("only %d parse functions build binary nodes", n)
	}
	c.Stat("binary_node_parsers", n)
}

// ---------------------------------------------------------------------------
// closersAreExpectedAfterTheNewlines: a parse function that reads a
// comma-separated sequence up to a closing bracket lets the last element be
// followed by a line break: the statement before its final expectPeek(closer)
// is a loop that steps over NEWLINE tokens.  The list, call and map parsers do
// this; a sibling that does not rejects
//
//	{1,
//	 2
//	}
//
// although the same layout is accepted for a list and a map.
func closersAreExpectedAfterTheNewlines(c *core.Ctx) {
	p := c.P
	pp := p.Pkg("parser")
	info := pp.TypesInfo
	parserT := core.MustType(pp, "Parser")
	closers := map[string]bool{"RBRACE": true, "RBRACKET": true, "RPAREN": true}
	isNLLoop := func(s ast.Stmt) bool {
		fs, ok := s.(*ast.ForStmt)
		if !ok || fs.Cond == nil {
			if es, ok := s.(*ast.ExprStmt); ok {
				if call, ok := es.X.(*ast.CallExpr); ok {
					if fn := calleeOf(info, call); fn != nil && fn.Name() == "eatNewlines" {
						return true
					}
				}
			}
			return false
		}
		found := false
		ast.Inspect(fs.Cond, func(n ast.Node) bool {
			if id, ok := n.(*ast.SelectorExpr); ok {
				if cst, _ := info.Uses[id.Sel].(*types.Const); cst != nil && cst.Name() == "NEWLINE" {
					found = true
				}
			}
			return true
		})
		return found
	}
	n := 0
	for _, m := range core.Methods(parserT) {
		fd := p.Decl(m)
		if fd == nil || fd.Body == nil {
			continue
		}
		// only sequence parsers: they test for a comma somewhere
		commas := false
		ast.Inspect(fd.Body, func(nd ast.Node) bool {
			if id, ok := nd.(*ast.SelectorExpr); ok {
				if cst, _ := info.Uses[id.Sel].(*types.Const); cst != nil && cst.Name() == "COMMA" {
					commas = true
				}
			}
			return true
		})
		if !commas {
			continue
		}
		k := 0
		var visit func(list []ast.Stmt)
		visit = func(list []ast.Stmt) {
			for i, s := range list {
				// if !p.expectPeek("...", token.CLOSER) { return nil }
				if is, ok := s.(*ast.IfStmt); ok && is.Init == nil {
					if un, ok := ast.Unparen(is.Cond).(*ast.UnaryExpr); ok && un.Op == token.NOT {
						if call, ok := ast.Unparen(un.X).(*ast.CallExpr); ok && len(call.Args) == 2 {
							if fn := calleeOf(info, call); fn != nil && fn.Name() == "expectPeek" {
								closer := ""
								if sel, ok := call.Args[1].(*ast.SelectorExpr); ok {
									if cst, _ := info.Uses[sel.Sel].(*types.Const); cst != nil && closers[cst.Name()] {
										closer = cst.Name()
									}
								}
								if id, ok := call.Args[1].(*ast.Ident); ok {
									// the closer is a parameter (parseExprList(end))
									if _, isVar := info.Uses[id].(*types.Var); isVar {
										closer = id.Name
									}
								}
								// only the closer that ends a sequence: an element was parsed before it in this list
								if closer != "" && i > 0 {
									k++
									n++
									ok2 := isNLLoop(list[i-1])
									c.Check(ok2, "parser."+m.Name()+"|closer-expected-after-the-newlines|"+sprintf("%s#%d", closer, k), p.Pos(is.Pos()),
										m.Name()+" expects the closing "+closer+" of a comma-separated sequence "+ife(ok2, "after a loop that steps over line breaks", "without stepping over line breaks first: the last element cannot be followed by a line break, which the list, call and map parsers accept"))
								}
							}
						}
					}
				}
				// nested statement lists
				switch x := s.(type) {
				case *ast.IfStmt:
					visit(x.Body.List)
					if eb, ok := x.Else.(*ast.BlockStmt); ok {
						visit(eb.List)
					}
				case *ast.BlockStmt:
					visit(x.List)
				}
			}
		}
		visit(fd.Body.List)
	}
	if n < 3 {
		core.Undecidedf("only %d closing tokens of sequences found", n)
	}
	c.Stat("sequence_closers", n)
}

// ---------------------------------------------------------------------------
// memoIsReadWhereItIsWritten: a function that looks a key up in a map field of
// one object and, on a miss, computes the entry and stores it under the same
// key in the same field of another object never finds what it stored.  In the
// symbol table this made every reference to a captured variable from inside a
// nested block a new free variable of the function (one more cell per
// reference, pushed when the closure is made).
func memoIsReadWhereItIsWritten(c *core.Ctx) {
	p := c.P
	n := 0
	for _, fn := range repoFns(p, "compiler") {
		type acc struct {
			obj  ssa.Value
			key  ssa.Value
			at   ssa.Instruction
			fld  int
			onTy *types.Named
		}
		var reads, writes []acc
		for _, b := range fn.Blocks {
			for _, in := range b.Instrs {
				switch x := in.(type) {
				case *ssa.Lookup:
					if u, ok := x.X.(*ssa.UnOp); ok {
						if fa, ok := u.X.(*ssa.FieldAddr); ok {
							reads = append(reads, acc{fa.X, x.Index, in, fa.Field, core.NamedOf(fa.X.Type())})
						}
					}
				case *ssa.MapUpdate:
					if u, ok := x.Map.(*ssa.UnOp); ok {
						if fa, ok := u.X.(*ssa.FieldAddr); ok {
							writes = append(writes, acc{fa.X, x.Key, in, fa.Field, core.NamedOf(fa.X.Type())})
						}
					}
				}
			}
		}
		for _, w := range writes {
			matched, same := false, false
			var r acc
			for _, rd := range reads {
				if rd.onTy == nil || rd.onTy != w.onTy || rd.fld != w.fld || rd.key != w.key {
					continue
				}
				if !instrReaches(rd.at, w.at) {
					continue
				}
				matched = true
				r = rd
				if rd.obj == w.obj || core.SameStorage(rd.obj, w.obj) {
					same = true
				}
			}
			if matched {
				n++
				st := r.onTy.Underlying().(*types.Struct)
				c.Check(same, core.SSAName(fn)+"|"+st.Field(r.fld).Name()+"|read-where-it-is-written", p.Pos(w.at.Pos()),
					core.SSAName(fn)+" looks a key up in "+r.onTy.Obj().Name()+"."+st.Field(r.fld).Name()+" and later stores under the same key"+ife(same, " in the same table", " in the table of another object: the lookup never finds what was stored, so the entry is computed and appended again on every call (a captured variable referenced from a nested block becomes a new free variable each time)"))
			}
		}
	}
	if n == 0 {
		core.Undecidedf("no function of package compiler both looks up and stores a key in one map field")
	}
	c.Stat("memo_read_write_pairs", n)
}

// ---------------------------------------------------------------------------
// tableIndexesFitTheirOperand: the compiler refers to the entries of its tables
// (constants, names, symbols) by 16-bit instruction operands.  Where it turns
// the length of a table into such an operand (uint16(len(t) - 1)), a
// comparison of that length with a bound dominates the conversion, as it does
// for the constants.  Unbounded, the 65537th entry gets index 0 and the
// instruction silently refers to the first one: after 65536 attribute
// references in one code object, m.b reads m.a.
func tableIndexesFitTheirOperand(c *core.Ctx) {
	p := c.P
	n := 0
	for _, fn := range repoFns(p, "compiler") {
		k := 0
		for _, b := range fn.Blocks {
			for _, in := range b.Instrs {
				cv, ok := in.(*ssa.Convert)
				if !ok {
					continue
				}
				db, ok := cv.Type().Underlying().(*types.Basic)
				if !ok || db.Kind() != types.Uint16 {
					continue
				}
				// the operand derives from len(...) of a slice field
				var lenCall *ssa.Call
				isLen := func(w ssa.Value) bool {
					call, ok := w.(*ssa.Call)
					if !ok {
						return false
					}
					bi, ok := call.Call.Value.(*ssa.Builtin)
					if ok && bi.Name() == "len" {
						lenCall = call
						return true
					}
					return false
				}
				// the index of the entry that was just appended: uint16(len(t) - 1)
				sub, isSub := cv.X.(*ssa.BinOp)
				if !isSub || sub.Op != token.SUB || !isLen(sub.X) {
					continue
				}
				if k1, ok := sub.Y.(*ssa.Const); !ok || k1.Value == nil || k1.Value.ExactString() != "1" {
					continue
				}
				if lenCall == nil {
					continue
				}
				if _, isSlice := lenCall.Call.Args[0].Type().Underlying().(*types.Slice); !isSlice {
					continue
				}
				k++
				n++
				// a dominating comparison of a len() of the same slice with something
				guarded := false
				for _, b2 := range fn.Blocks {
					if len(b2.Instrs) == 0 || b2 == b || !b2.Dominates(b) {
						continue
					}
					iff, ok := b2.Instrs[len(b2.Instrs)-1].(*ssa.If)
					if !ok {
						continue
					}
					bo, ok := iff.Cond.(*ssa.BinOp)
					if !ok {
						continue
					}
					switch bo.Op {
					case token.LSS, token.LEQ, token.GTR, token.GEQ:
						for _, s := range []ssa.Value{bo.X, bo.Y} {
							if lc, ok := s.(*ssa.Call); ok {
								if bi, ok := lc.Call.Value.(*ssa.Builtin); ok && bi.Name() == "len" && (lc.Call.Args[0] == lenCall.Call.Args[0] || sameAccessPath(lc.Call.Args[0], lenCall.Call.Args[0], 0)) {
									guarded = true
								}
							}
						}
					}
				}
				c.Check(guarded, core.SSAName(fn)+"|table-index-fits-16-bits|"+sprintf("%d", k), p.Pos(cv.Pos()),
					core.SSAName(fn)+" turns the length of a table into a 16-bit operand"+ife(guarded, " after comparing that length with a bound", " without comparing that length with a bound: beyond 65536 entries the index wraps around and the instruction refers to another entry"))
			}
		}
	}
	if n == 0 {
		core.Undecidedf("no function of package compiler converts a table length to uint16")
	}
	c.Stat("table_index_conversions", n)
}

// ---------------------------------------------------------------------------
// namesAreResolvedThroughTheNameIndex: the slots of a code object's globals
// include the variables of top-level blocks, under their plain names; a name
// can therefore occur more than once among them.  Code outside the compiler
// that needs the slot of a name (a module's attributes, VirtualMachine.Get)
// asks the compiler's name index (GlobalIndex) and does not scan the slots for
// the name or key a table by the names of all slots: m.x would be the x of an
// `if` block of the module, and Get("i") the counter of a finished loop.
func namesAreResolvedThroughTheNameIndex(c *core.Ctx) {
	p := c.P
	n := 0
	for _, fn := range repoFns(p, "object", "vm", ".") {
		var globalCalls []*ssa.Call
		asksIndex := false
		for _, b := range fn.Blocks {
			for _, in := range b.Instrs {
				call, ok := in.(*ssa.Call)
				if !ok {
					continue
				}
				cal := call.Call.StaticCallee()
				if cal == nil || cal.Signature.Recv() == nil || !core.IsNamed(cal.Signature.Recv().Type(), pkgPath("compiler"), "Code") {
					continue
				}
				switch cal.Name() {
				case "Global":
					if inLoop(b) {
						globalCalls = append(globalCalls, call)
					}
				case "GlobalIndex":
					asksIndex = true
				}
			}
		}
		for _, gc := range globalCalls {
			// is the Name() of the symbol used as a map key or compared?
			keyed := false
			if refs := gc.Referrers(); refs != nil {
				for _, r := range *refs {
					nc, ok := r.(*ssa.Call)
					if !ok || nc.Call.StaticCallee() == nil || nc.Call.StaticCallee().Name() != "Name" {
						continue
					}
					if nrefs := nc.Referrers(); nrefs != nil {
						for _, r2 := range *nrefs {
							switch x := r2.(type) {
							case *ssa.MapUpdate:
								if x.Key == ssa.Value(nc) {
									keyed = true
								}
							case *ssa.BinOp:
								if x.Op == token.EQL || x.Op == token.NEQ {
									keyed = true
								}
							}
						}
					}
				}
			}
			if !keyed {
				continue
			}
			n++
			c.Check(asksIndex, core.SSAName(fn)+"|slot-of-a-name-through-the-name-index", p.Pos(gc.Pos()),
				core.SSAName(fn)+" walks the global slots of a code object and keys or compares by the name of each slot"+ife(asksIndex, ", consulting the compiler's name index (GlobalIndex) for which slot a name means", " without consulting the compiler's name index: a variable of a top-level block has a slot under the same name, and the last (or first) slot with the name wins instead of the top-level variable"))
		}
	}
	c.Pass("repo|slots-by-name", "", sprintf("%d functions outside the compiler walk the global slots and key or compare by name", n))
	c.Stat("slot_walks_by_name", n)
}

// ---------------------------------------------------------------------------
// lexerDoesNotRecurse: the lexer works through its input with loops.  A
// function of the lexer that calls itself (directly or through another lexer
// function) once per construct it skips has a recursion depth that the input
// chooses: a megabyte of `/**/` in a row exhausted the native stack in Next,
// which ends the process.
func lexerDoesNotRecurse(c *core.Ctx) {
	p := c.P
	cg := p.CallGraph()
	lp := p.Pkg("lexer")
	n := 0
	var onCycle []string
	for f := range cg.Nodes {
		if f == nil || f.Pkg == nil || f.Pkg.Pkg != lp.Types || f.Blocks == nil {
			continue
		}
		n++
		if onCycleAvoiding(cg, f, map[*ssa.Function]bool{}) {
			onCycle = append(onCycle, core.SSAName(f))
		}
	}
	sort.Strings(onCycle)
	if n < 10 {
		core.Undecidedf("only %d functions of package lexer in the call graph", n)
	}
	c.Check(len(onCycle) == 0, "lexer|no-recursion", "", sprintf("%d functions of package lexer examined; on a call cycle: %v", n, onCycle)+ifs(len(onCycle) > 0, " (the depth of that recursion is chosen by the input, and the native stack is finite)"))
	c.Stat("lexer_functions", n)
}

// ---------------------------------------------------------------------------
// scratchBuffersStayInTheVM: the VM has arrays of its own in which it
// assembles values for a moment (the locals of a call).  A slice of such an
// array is read element by element inside package vm; it is never handed to
// code that may keep reading it while the VM goes on (a builtin receives its
// arguments as a slice and calls back into the VM, which would refill the
// buffer under it), nor stored anywhere.
func scratchBuffersStayInTheVM(c *core.Ctx) {
	p := c.P
	vmT := vmType(p)
	st := vmT.Underlying().(*types.Struct)
	n := 0
	for _, fn := range repoFns(p, "vm") {
		for _, b := range fn.Blocks {
			for _, in := range b.Instrs {
				sl, ok := in.(*ssa.Slice)
				if !ok {
					continue
				}
				fa, ok := sl.X.(*ssa.FieldAddr)
				if !ok || core.NamedOf(fa.X.Type()) != vmT {
					continue
				}
				arr, isArr := st.Field(fa.Field).Type().Underlying().(*types.Array)
				if !isArr || !core.IsNamed(arr.Elem(), pkgPath("object"), "Object") {
					continue
				}
				n++
				leak := ""
				seen := map[ssa.Value]bool{}
				var follow func(v ssa.Value, depth int)
				follow = func(v ssa.Value, depth int) {
					if depth > 3 || seen[v] || v.Referrers() == nil || leak != "" {
						return
					}
					seen[v] = true
					for _, r := range *v.Referrers() {
						switch x := r.(type) {
						case *ssa.Phi:
							follow(x, depth)
						case *ssa.Slice:
							follow(x, depth)
						case *ssa.Store:
							if x.Val == v {
								if _, isLocal := x.Addr.(*ssa.Alloc); !isLocal {
									leak = "stored at " + p.Pos(x.Pos())
								}
							}
						case *ssa.MakeInterface:
							leak = "boxed at " + p.Pos(x.Pos())
						case ssa.CallInstruction:
							cc := x.Common()
							if bi, ok := cc.Value.(*ssa.Builtin); ok && (bi.Name() == "len" || bi.Name() == "copy" || bi.Name() == "cap" || bi.Name() == "clear") {
								continue // these read or overwrite the elements and keep nothing
							}
							cal := cc.StaticCallee()
							if cal == nil || cal.Pkg == nil || core.RelPkg(cal.Pkg.Pkg) != "vm" || cal.Blocks == nil {
								leak = "handed to code outside package vm at " + p.Pos(x.Pos())
								continue
							}
							for i, a := range cc.Args {
								if a == v && i < len(cal.Params) {
									follow(cal.Params[i], depth+1)
								}
							}
						}
					}
				}
				follow(sl, 0)
				c.Check(leak == "", core.SSAName(fn)+"|scratch-buffer-stays-in-the-vm|"+st.Field(fa.Field).Name()+sprintf("#%d", n), p.Pos(sl.Pos()),
					core.SSAName(fn)+" takes a slice of the VM's own array "+st.Field(fa.Field).Name()+ife(leak == "", ", which is only read element by element inside package vm", ", and it is "+leak+": whoever holds it sees the next values the VM assembles there (a builtin whose callback makes a call finds its own arguments overwritten)"))
			}
		}
	}
	if n == 0 {
		core.Undecidedf("no slice of an object array of the VM is taken")
	}
	c.Stat("scratch_buffer_slices", n)
}

// ---------------------------------------------------------------------------
// loadsFollowTheScopeWalk: which variable an identifier means is decided by
// the symbol table's walk from the innermost scope outward (Resolve).  Every
// load instruction the compiler emits for a name takes its operand from such a
// resolution, or from the symbol the compiler has just inserted itself.  A
// load whose slot comes from a table kept on the side (the host's globals by
// name) bypasses the scopes in between: a closure reads the builtin `list`
// instead of the enclosing function's parameter of that name.
func loadsFollowTheScopeWalk(c *core.Ctx) {
	p := c.P
	cp := p.Pkg("compiler")
	stT := core.MustType(cp, "SymbolTable")
	loads := map[string]bool{"LoadGlobal": true, "LoadFast": true, "LoadFree": true}
	n := 0
	for _, fn := range repoFns(p, "compiler") {
		k := 0
		for _, b := range fn.Blocks {
			for _, in := range b.Instrs {
				call, ok := in.(*ssa.Call)
				if !ok {
					continue
				}
				cal := call.Call.StaticCallee()
				if cal == nil || cal.Name() != "emit" || len(call.Call.Args) < 3 {
					continue
				}
				opk, ok := call.Call.Args[1].(*ssa.Const)
				if !ok || !loads[opConstName(p, opk)] {
					continue
				}
				// the operands are passed as a variadic slice: find what was stored into it
				var operand ssa.Value
				if sl, ok := call.Call.Args[2].(*ssa.Slice); ok {
					if al, ok := sl.X.(*ssa.Alloc); ok && al.Referrers() != nil {
						for _, r := range *al.Referrers() {
							if ia, ok := r.(*ssa.IndexAddr); ok && ia.Referrers() != nil {
								for _, r2 := range *ia.Referrers() {
									if st, ok := r2.(*ssa.Store); ok && operand == nil {
										operand = st.Val
									}
								}
							}
						}
					}
				}
				if operand == nil {
					continue
				}
				k++
				n++
				fromTable := func(w ssa.Value) bool {
					oc, ok := w.(*ssa.Call)
					if !ok {
						return false
					}
					c2 := oc.Call.StaticCallee()
					if c2 == nil || c2.Signature.Recv() == nil || core.NamedOf(c2.Signature.Recv().Type()) != stT {
						return false
					}
					switch {
					case c2.Name() == "Resolve", strings.HasPrefix(c2.Name(), "Insert"), c2.Name() == "Free", c2.Name() == "Get":
						// Get on a table reached from the current code (not a side table)
						return true
					}
					return false
				}
				ok2 := fromTable(operand) || core.DependsOn(operand, fromTable)
				if !ok2 {
					// the slot comes from a resolution that the function is handed (the
					// scope switch in a function of its own): every caller hands it one
					// that the symbol table gave it
					for pi, prm := range fn.Params {
						if !core.DependsOn(operand, func(w ssa.Value) bool { return w == ssa.Value(prm) }) {
							continue
						}
						sites, good := 0, 0
						for _, g := range repoFns(p, "compiler") {
							for _, gb := range g.Blocks {
								for _, gin := range gb.Instrs {
									gc, isCall := gin.(*ssa.Call)
									if !isCall || gc.Call.StaticCallee() != fn || pi >= len(gc.Call.Args) {
										continue
									}
									sites++
									arg := gc.Call.Args[pi]
									if fromTable(arg) || core.DependsOn(arg, fromTable) {
										good++
									}
								}
							}
						}
						if sites > 0 && sites == good {
							ok2 = true
						}
					}
				}
				// ... and not through a map kept by the Compiler itself
				side := core.DependsOn(operand, func(w ssa.Value) bool {
					lk, ok := w.(*ssa.Lookup)
					if !ok {
						return false
					}
					if u, ok := lk.X.(*ssa.UnOp); ok {
						if fa, ok := u.X.(*ssa.FieldAddr); ok && core.IsNamed(fa.X.Type(), pkgPath("compiler"), "Compiler") {
							return true
						}
					}
					return false
				})
				c.Check(ok2 && !side, core.SSAName(fn)+"|load-operand-from-the-scope-walk|"+opConstName(p, opk)+sprintf("#%d", k), p.Pos(call.Pos()),
					core.SSAName(fn)+" emits "+opConstName(p, opk)+ife(ok2 && !side, " with a slot that the symbol table resolved or inserted", " with a slot that does not come from the symbol table's scope walk"+ifs(side, " (it is looked up in a table the Compiler keeps on the side)")+": the scopes between the use and that variable are not consulted, so a variable of an enclosing function with the same name is bypassed"))
			}
		}
	}
	if n < 3 {
		core.Undecidedf("only %d load instructions emitted with a computed slot", n)
	}
	c.Stat("emitted_loads", n)
}

// ---------------------------------------------------------------------------
// assertionsOnTheUnprotectedSurfaceAreChecked: parser.Parse and
// compiler.Compile run in the caller of Eval, with no recover between them and
// the host.  A single-valued type assertion there is a panic in the host when
// the dynamic type is another one.  Each such assertion on a syntax-tree value
// is justified by where the value comes from: the node's type is fixed by the
// constructor or the dispatch that led here (listed below, by function and
// asserted type, with the reason), or the assertion is written in the
// two-valued form.
var uncheckedAssertionsJustified = map[string]string{
	"(*parser.Parser).parseGetAttr|*ast.Ident": "the call is made right after curTokenIs(token.IDENT) succeeded; parseIdent returns nil only for an identifier token with an empty literal, which the lexer's readIdentifier never produces (it is entered on a first identifier character)",
}

func assertionsOnTheUnprotectedSurfaceAreChecked(c *core.Ctx) {
	p := c.P
	n, single := 0, 0
	for _, fn := range repoFns(p, "parser", "compiler") {
		k := map[string]int{}
		for _, b := range fn.Blocks {
			for _, in := range b.Instrs {
				ta, ok := in.(*ssa.TypeAssert)
				if !ok {
					continue
				}
				n++
				if ta.CommaOk {
					continue
				}
				// a type switch clause or a preceding successful two-valued assertion of the same value to the same type
				proven := false
				for _, b2 := range fn.Blocks {
					for _, in2 := range b2.Instrs {
						ta2, ok := in2.(*ssa.TypeAssert)
						if !ok || !ta2.CommaOk || ta2 == ta || !types.Identical(ta2.AssertedType, ta.AssertedType) {
							continue
						}
						if ta2.X != ta.X && !core.SameStorage(ta2.X, ta.X) && !sameAccessPath(ta2.X, ta.X, 0) {
							continue
						}
						if ta2.Referrers() == nil {
							continue
						}
						for _, r := range *ta2.Referrers() {
							if ex, ok := r.(*ssa.Extract); ok && ex.Index == 1 && ex.Referrers() != nil {
								for _, r2 := range *ex.Referrers() {
									if iff, ok := r2.(*ssa.If); ok {
										t := iff.Block().Succs[0]
										if t == b || t.Dominates(b) {
											proven = true
										}
									}
								}
							}
						}
					}
				}
				if proven {
					continue
				}
				single++
				key := core.SSAName(fn) + "|" + types.TypeString(ta.AssertedType, func(pk *types.Package) string { return pk.Name() })
				k[key]++
				full := key
				if k[key] > 1 {
					full = key + sprintf("#%d", k[key])
				}
				why, ok := uncheckedAssertionsJustified[key]
				c.Check(ok, full+"|assertion-justified", p.Pos(ta.Pos()),
					core.SSAName(fn)+" asserts a value to "+ta.AssertedType.String()+" in the single-valued form"+ife(ok, ": "+why, " and the assertion is not in the table of justified ones: if the value can have another dynamic type (a default value that is a minus sign applied to something that is not a number), Compile or Parse panics in the caller of Eval"))
			}
		}
	}
	c.Stat("type_assertions_front_end", n)
	c.Stat("single_valued_unproven", single)
}

// ---------------------------------------------------------------------------
// reflectedMapWalksAreOrderIndependent: reflect.Value.MapRange walks a Go map
// in Go's random order, like a range statement does, without being one.  A
// loop driven by (*reflect.MapIter).Next neither leaves the function from its
// body (the first failing entry in that order would decide the error that is
// reported) nor appends to a slice there.
func reflectedMapWalksAreOrderIndependent(c *core.Ctx) {
	p := c.P
	n := 0
	for _, pk := range p.Pkgs {
		info := pk.TypesInfo
		funcBodies(pk, func(fn *types.Func, fd *ast.FuncDecl) {
			k := 0
			ast.Inspect(fd.Body, func(nd ast.Node) bool {
				fs, ok := nd.(*ast.ForStmt)
				if !ok || fs.Cond == nil {
					return true
				}
				call, ok := ast.Unparen(fs.Cond).(*ast.CallExpr)
				if !ok {
					return true
				}
				cal := calleeOf(info, call)
				if cal == nil || cal.Name() != "Next" || cal.Pkg() == nil || cal.Pkg().Path() != "reflect" {
					return true
				}
				k++
				n++
				bad := ""
				ast.Inspect(fs.Body, func(n2 ast.Node) bool {
					switch x := n2.(type) {
					case *ast.ReturnStmt:
						bad = "leaves the function at " + p.Pos(x.Pos())
					case *ast.CallExpr:
						if id, ok := ast.Unparen(x.Fun).(*ast.Ident); ok && id.Name == "append" {
							if _, isBuiltin := info.Uses[id].(*types.Builtin); isBuiltin {
								bad = "appends to a slice at " + p.Pos(x.Pos())
							}
						}
					case *ast.FuncLit:
						return false
					}
					return true
				})
				c.Check(bad == "", qual(pk, fd)+"|reflect-map-walk-order-independent|"+sprintf("%d", k), p.Pos(fs.Pos()),
					fd.Name.Name+" walks a Go map with reflect.Value.MapRange"+ife(bad == "", " and does nothing in the loop that depends on the order", ", in Go's random order, and "+bad+": which entry that is differs from run to run (the first unconvertible value decides the error)"))
				return true
			})
		})
	}
	if n == 0 {
		c.Pass("repo|no-reflect-map-walks", "", "no loop is driven by (*reflect.MapIter).Next")
	}
	c.Stat("reflect_map_walks", n)
}

// ---------------------------------------------------------------------------
// hostEntryPointsDoNotPush: Run, RunCode and Call start from an empty operand
// stack and what the evaluation leaves there is its result.  The exported
// methods of the VM do not push anything themselves: a value pushed after the
// evaluation (so that TOS shows it) stays there across calls, one more slot
// per Call, until the stack is full.
func hostEntryPointsDoNotPush(c *core.Ctx) {
	p := c.P
	t := VMTable(p)
	push := p.SSAFunc(t.Prims["push"])
	vmT := vmType(p)
	n := 0
	for _, m := range core.Methods(vmT) {
		if !m.Exported() {
			continue
		}
		sf := p.SSAFunc(m)
		if sf == nil || sf.Blocks == nil {
			continue
		}
		n++
		bad := ""
		for _, b := range sf.Blocks {
			for _, in := range b.Instrs {
				if ci, ok := in.(ssa.CallInstruction); ok && ci.Common().StaticCallee() == push {
					bad = p.Pos(in.Pos())
				}
			}
		}
		c.Check(bad == "", "vm.VirtualMachine."+m.Name()+"|pushes-nothing-itself", p.Pos(sf.Pos()),
			"the exported method "+m.Name()+" pushes nothing onto the operand stack itself"+ifs(bad != "", ": it does at "+bad+", and nothing pops that value again, so every invocation leaves the stack one slot deeper"))
	}
	if n < 5 {
		core.Undecidedf("only %d exported methods of VirtualMachine found", n)
	}
	c.Stat("exported_vm_methods", n)
}

// ---------------------------------------------------------------------------
// importStatementsAlwaysImport: the function that compiles an import statement
// emits the import instruction on every path that ends without an error.  A
// path that returns early because the name is bound already drops the
// statement: `import a as m; import other as m` (or `import "pkg/a"` followed
// by `import a`) leaves the first module under the name and never runs the
// second.
func importStatementsAlwaysImport(c *core.Ctx) {
	p := c.P
	n := 0
	for _, fn := range repoFns(p, "compiler") {
		if fn.Parent() != nil {
			continue
		}
		emitBlocks := map[*ssa.BasicBlock]bool{}
		which := ""
		for _, b := range fn.Blocks {
			for _, in := range b.Instrs {
				call, ok := in.(*ssa.Call)
				if !ok {
					continue
				}
				cal := call.Call.StaticCallee()
				if cal == nil || cal.Name() != "emit" || len(call.Call.Args) < 2 {
					continue
				}
				if k, ok := call.Call.Args[1].(*ssa.Const); ok {
					if name := opConstName(p, k); name == "Import" || name == "FromImport" {
						emitBlocks[b] = true
						which = name
					}
				}
			}
		}
		if len(emitBlocks) == 0 {
			continue
		}
		n++
		// a success return reachable from the entry without passing an emitting block
		bad := ""
		seen := map[*ssa.BasicBlock]bool{}
		var walk func(b *ssa.BasicBlock)
		walk = func(b *ssa.BasicBlock) {
			if seen[b] || emitBlocks[b] {
				return
			}
			seen[b] = true
			if len(b.Instrs) > 0 {
				if r, ok := b.Instrs[len(b.Instrs)-1].(*ssa.Return); ok && len(r.Results) > 0 {
					allNil := true
					for _, o := range core.Origins(spilledResult(b, r.Results[len(r.Results)-1])) {
						if k, isK := o.(*ssa.Const); !isK || !k.IsNil() {
							allNil = false
						}
					}
					if allNil {
						bad = p.Pos(r.Pos())
					}
				}
			}
			for _, s := range b.Succs {
				walk(s)
			}
		}
		walk(fn.Blocks[0])
		c.Check(bad == "", core.SSAName(fn)+"|every-success-path-emits-"+which, p.Pos(fn.Pos()),
			core.SSAName(fn)+" emits op."+which+ife(bad == "", " on every path that ends without an error", ", but the return at "+bad+" is reached without it: on that path the import statement compiles to nothing, the module's code never runs and the name keeps what it held"))
	}
	if n < 2 {
		core.Undecidedf("only %d functions of package compiler emit an import instruction", n)
	}
	c.Stat("import_compilers", n)
}

// ---------------------------------------------------------------------------
// pairWalksRememberPairs: the walks over two values in step (Equals, Compare)
// ask the visit record about the pair of containers they are at, not about one
// of them.  Remembering the left one alone, a left operand that contains
// itself is "already being compared" whatever stands on the right: a == b
// holds for a cyclic a and an acyclic b of the same shape while b == a does
// not.
func pairWalksRememberPairs(c *core.Ctx) {
	p := c.P
	op := p.Pkg("object")
	vt := op.Types.Scope().Lookup("visit")
	if vt == nil {
		core.Undecidedf("object.visit not found")
	}
	visitT, _ := vt.Type().(*types.Named)
	n := 0
	for _, fn := range repoFns(p, "object") {
		if fn.Parent() != nil || fn.Signature.Recv() == nil {
			continue
		}
		var other, v *ssa.Parameter
		for _, prm := range fn.Params[1:] {
			if core.IsNamed(prm.Type(), pkgPath("object"), "Object") {
				other = prm
			}
			if pt, ok := prm.Type().(*types.Pointer); ok && core.NamedOf(pt) == visitT {
				v = prm
			}
		}
		if other == nil || v == nil {
			continue
		}
		// calls of methods of the visit record whose result decides an early return
		for _, b := range fn.Blocks {
			for _, in := range b.Instrs {
				call, ok := in.(*ssa.Call)
				if !ok {
					continue
				}
				cal := call.Call.StaticCallee()
				if cal == nil || cal.Signature.Recv() == nil || core.NamedOf(cal.Signature.Recv().Type()) != visitT {
					continue
				}
				if rb, ok := cal.Signature.Results().At(0).Type().Underlying().(*types.Basic); cal.Signature.Results().Len() != 1 || !ok || rb.Kind() != types.Bool {
					continue
				}
				n++
				both := false
				for _, a := range call.Call.Args[1:] {
					if a == ssa.Value(other) || core.DependsOn(a, func(w ssa.Value) bool { return w == ssa.Value(other) }) {
						both = true
					}
				}
				c.Check(both, core.SSAName(fn)+"|pair-remembered", p.Pos(call.Pos()),
					core.SSAName(fn)+" walks two values in step and asks the visit record ("+cal.Name()+") "+ife(both, "about the pair", "about its own container only, not about the other operand: a container that contains itself then counts as already visited whatever it is being compared with, and == stops being symmetric"))
			}
		}
	}
	if n < 2 {
		core.Undecidedf("only %d two-value walks ask the visit record", n)
	}
	c.Stat("pair_walk_guards", n)
}

// ---------------------------------------------------------------------------
// literalsBuildTheirOwnKind: the instruction that builds a container from the
// items on the stack is emitted for a literal of that kind: BuildList for an
// ast.List, BuildSet for an ast.Set, BuildMap for an ast.Map.  Building another
// kind from a literal (a set for the list on the right of `in`) changes what
// the operations on it mean: set membership goes by hash key, list membership
// by ==, so 2.0 in [1, 2, 3] stops being true.
func literalsBuildTheirOwnKind(c *core.Ctx) {
	p := c.P
	want := map[string]string{"BuildList": "List", "BuildSet": "Set", "BuildMap": "Map"}
	n := 0
	for _, fn := range repoFns(p, "compiler") {
		for _, b := range fn.Blocks {
			for _, in := range b.Instrs {
				call, ok := in.(*ssa.Call)
				if !ok {
					continue
				}
				cal := call.Call.StaticCallee()
				if cal == nil || cal.Name() != "emit" || len(call.Call.Args) < 3 {
					continue
				}
				k, ok := call.Call.Args[1].(*ssa.Const)
				if !ok {
					continue
				}
				opn := opConstName(p, k)
				node, ok := want[opn]
				if !ok {
					continue
				}
				n++
				// the syntax-tree types whose accessors feed this function's operand: the parameters of ast pointer type
				// and every value asserted to one
				kinds := map[string]bool{}
				for _, b2 := range fn.Blocks {
					for _, in2 := range b2.Instrs {
						if c2, ok := in2.(*ssa.Call); ok {
							if cc := c2.Call.StaticCallee(); cc != nil && cc.Signature.Recv() != nil {
								if nt := core.NamedOf(cc.Signature.Recv().Type()); nt != nil && nt.Obj().Pkg() != nil && core.RelPkg(nt.Obj().Pkg()) == "ast" && (cc.Name() == "Items" || cc.Name() == "Keys") {
									if instrReaches(in2, in) {
										kinds[nt.Obj().Name()] = true
									}
								}
							}
						}
					}
				}
				var got []string
				for kd := range kinds {
					got = append(got, kd)
				}
				sort.Strings(got)
				ok2 := len(kinds) == 0 || (len(kinds) == 1 && kinds[node])
				c.Check(ok2, core.SSAName(fn)+"|"+opn+"-for-its-own-literal", p.Pos(call.Pos()),
					core.SSAName(fn)+" emits op."+opn+ife(ok2, " for the items of an ast."+node, sprintf(" for the items of %v: a literal of one kind is built as a container of another, whose membership, equality and order are defined differently", got)))
			}
		}
	}
	if n < 3 {
		core.Undecidedf("only %d container-building instructions are emitted", n)
	}
	c.Stat("container_builds", n)
}

func derefStruct(t types.Type) (*types.Struct, bool) {
	if pt, ok := t.Underlying().(*types.Pointer); ok {
		t = pt.Elem()
	}
	st, ok := t.Underlying().(*types.Struct)
	return st, ok
}

// ---------------------------------------------------------------------------
// storedNumbersAreTakenAtFaceValue: the loader of marshalled code takes a
// number it finds in the stored form for what it is.  A test of a stored
// numeric field against zero that makes the loader compute the value some
// other way treats "zero" as "absent", which it cannot tell apart once the
// field is written with omitempty: a function whose every parameter has a
// default has zero required arguments, and loaded back it had one.
func storedNumbersAreTakenAtFaceValue(c *core.Ctx) {
	p := c.P
	n, fields := 0, 0
	for _, fn := range repoFns(p, "compiler") {
		if !strings.HasSuffix(p.Fset.Position(fn.Pos()).Filename, "store.go") {
			continue
		}
		for _, b := range fn.Blocks {
			for _, in := range b.Instrs {
				// loads of numeric fields of the stored-form structs (types named ...Def / state)
				if u, ok := in.(*ssa.UnOp); ok {
					if fa, ok := u.X.(*ssa.FieldAddr); ok {
						if nt := core.NamedOf(fa.X.Type()); nt != nil && (strings.HasSuffix(nt.Obj().Name(), "Def") || nt.Obj().Name() == "state") {
							if bt, ok := u.Type().Underlying().(*types.Basic); ok && bt.Info()&types.IsNumeric != 0 {
								fields++
							}
						}
					}
				}
				bo, ok := in.(*ssa.BinOp)
				if !ok || (bo.Op != token.EQL && bo.Op != token.NEQ) {
					continue
				}
				for _, pair := range [][2]ssa.Value{{bo.X, bo.Y}, {bo.Y, bo.X}} {
					k, ok := pair[1].(*ssa.Const)
					if !ok || k.Value == nil || k.Value.ExactString() != "0" {
						continue
					}
					u, ok := pair[0].(*ssa.UnOp)
					if !ok {
						continue
					}
					fa, ok := u.X.(*ssa.FieldAddr)
					if !ok {
						continue
					}
					nt := core.NamedOf(fa.X.Type())
					if nt == nil || !(strings.HasSuffix(nt.Obj().Name(), "Def") || nt.Obj().Name() == "state") {
						continue
					}
					n++
					c.Check(false, core.SSAName(fn)+"|stored-number-at-face-value|"+fieldNameOf(nt, fa.Field), p.Pos(bo.Pos()),
						core.SSAName(fn)+" tests the stored field "+nt.Obj().Name()+"."+fieldNameOf(nt, fa.Field)+" against zero: a zero that was stored is then handled as if nothing had been stored, and the loaded code differs from the code that was marshalled")
				}
			}
		}
	}
	c.Pass("compiler/store|numeric-fields", "", sprintf("%d loads of numeric fields of the stored form, %d of them compared with zero", fields, n))
	c.Stat("stored_numeric_field_loads", fields)
}

// ---------------------------------------------------------------------------
// tablesAreFoundTheWayTheyAreNumbered: the loader finds the symbol table of a
// code object by the id the compiler gave it, with the search the symbol table
// itself provides over all of its descendants (FindTable).  An index of its
// own built by another walk must visit exactly the same tables; one that looks
// through blocks only one level deep cannot find the table of a function
// declared in an if inside a loop.
func tablesAreFoundTheWayTheyAreNumbered(c *core.Ctx) {
	p := c.P
	cp := p.Pkg("compiler")
	stT := core.MustType(cp, "SymbolTable")
	n := 0
	for _, fn := range repoFns(p, "compiler") {
		if !strings.HasSuffix(p.Fset.Position(fn.Pos()).Filename, "store.go") {
			continue
		}
		// uses of a symbol table id to get a table
		for _, b := range fn.Blocks {
			for _, in := range b.Instrs {
				switch x := in.(type) {
				case *ssa.Call:
					if cal := x.Call.StaticCallee(); cal != nil && cal.Name() == "FindTable" {
						n++
						c.Pass(core.SSAName(fn)+"|table-found-by-the-tables-own-search", p.Pos(x.Pos()), "the table of a code object is found with SymbolTable.FindTable")
					}
				case *ssa.Lookup:
					// a map from id to *SymbolTable built in this file
					if mt, ok := x.X.Type().Underlying().(*types.Map); ok {
						if pt, ok := mt.Elem().(*types.Pointer); ok && core.NamedOf(pt) == stT {
							n++
							// an index of its own is as good as FindTable if the walk that fills it visits every
							// child of every table unconditionally
							complete, filler := indexWalkIsComplete(p, stT)
							c.Check(complete, core.SSAName(fn)+"|table-found-by-the-tables-own-search", p.Pos(x.Pos()),
								core.SSAName(fn)+" finds the symbol table of a code object in an index of its own"+ife(complete, ", filled by a walk ("+filler+") that visits every child of every table", ", and the walk that fills it ("+filler+") does not descend into every child of every table unconditionally: a table it skips (a function declared two blocks deep) is not found, and code that was marshalled cannot be loaded"))
						}
					}
				}
			}
		}
	}
	if n == 0 {
		core.Undecidedf("the loader never looks a symbol table up by id")
	}
	c.Stat("table_lookups_in_loader", n)
}

// indexWalkIsComplete: the function of package compiler that stores symbol
// tables into a map keyed by string recurses into every element of every range
// over a children field without a condition in between.
func indexWalkIsComplete(p *core.Program, stT *types.Named) (bool, string) {
	ci := fieldIdxByName(stT, "children")
	for _, fn := range repoFns(p, "compiler") {
		fills := false
		for _, b := range fn.Blocks {
			for _, in := range b.Instrs {
				if mu, ok := in.(*ssa.MapUpdate); ok {
					if mt, ok := mu.Map.Type().Underlying().(*types.Map); ok {
						if pt, ok := mt.Elem().(*types.Pointer); ok && core.NamedOf(pt) == stT {
							fills = true
						}
					}
				}
			}
		}
		if !fills {
			continue
		}
		ok := true
		ranges := 0
		for _, b := range fn.Blocks {
			for _, in := range b.Instrs {
				rg, isR := in.(*ssa.Range)
				_ = rg
				if isR {
					continue
				}
				// slices are ranged by index loops in SSA: find loads of children used in a loop
				if u, isU := in.(*ssa.UnOp); isU {
					if fa, isF := u.X.(*ssa.FieldAddr); isF && fa.Field == ci && core.NamedOf(fa.X.Type()) == stT {
						ranges++
					}
				}
			}
		}
		// every recursive call sits in a block that is reached from the loop body without passing an If on a field of the child
		for _, b := range fn.Blocks {
			for _, in := range b.Instrs {
				call, isC := in.(*ssa.Call)
				if !isC || call.Call.StaticCallee() != fn {
					continue
				}
				// walk up single-predecessor chain: an If whose condition reads a field of a SymbolTable makes the call conditional
				for _, b2 := range fn.Blocks {
					if len(b2.Instrs) == 0 || b2 == b || !b2.Dominates(b) {
						continue
					}
					iff, isIf := b2.Instrs[len(b2.Instrs)-1].(*ssa.If)
					if !isIf {
						continue
					}
					if core.DependsOn(iff.Cond, func(w ssa.Value) bool {
						fa, ok := w.(*ssa.FieldAddr)
						return ok && core.NamedOf(fa.X.Type()) == stT && fa.Field != ci
					}) {
						ok = false
					}
				}
			}
		}
		if ranges == 0 {
			ok = false
		}
		return ok, fn.Name()
	}
	return false, "no filling function found"
}

// ---------------------------------------------------------------------------
// theSnapshotComesFirst: Compile takes the snapshot it rolls back to before
// anything that can declare a name.  Whatever runs before the snapshot is not
// undone when the input is rejected: with the pass that declares the input's
// top-level functions moved in front of it, the names of a rejected piece stay
// declared, and entering the corrected function is refused as a redefinition.
func theSnapshotComesFirst(c *core.Ctx) {
	p := c.P
	cg := p.CallGraph()
	cp := p.Pkg("compiler")
	compT := core.MustType(cp, "Compiler")
	stT := core.MustType(cp, "SymbolTable")
	var compile *ssa.Function
	for _, fn := range repoFns(p, "compiler") {
		if fn.Name() == "Compile" && fn.Signature.Recv() != nil && core.NamedOf(fn.Signature.Recv().Type()) == compT {
			compile = fn
		}
	}
	if compile == nil {
		core.Undecidedf("Compiler.Compile not found")
	}
	// functions that insert into a symbol table
	var inserts []*ssa.Function
	for _, fn := range repoFns(p, "compiler") {
		if fn.Signature.Recv() != nil && core.NamedOf(fn.Signature.Recv().Type()) == stT && strings.HasPrefix(fn.Name(), "Insert") {
			inserts = append(inserts, fn)
		}
	}
	declares := func(f *ssa.Function) bool {
		for _, ins := range inserts {
			if f == ins || reachesFunc(cg, f, ins, 6) {
				return true
			}
		}
		return false
	}
	var snap ssa.Instruction
	for _, b := range compile.Blocks {
		for _, in := range b.Instrs {
			if call, ok := in.(*ssa.Call); ok {
				if cal := call.Call.StaticCallee(); cal != nil && cal.Name() == "state" && snap == nil {
					snap = in
				}
			}
		}
	}
	if snap == nil {
		core.Undecidedf("Compile takes no snapshot (no call of a state method)")
	}
	n := 0
	for _, b := range compile.Blocks {
		for _, in := range b.Instrs {
			call, ok := in.(*ssa.Call)
			if !ok || in == snap {
				continue
			}
			cal := call.Call.StaticCallee()
			if cal == nil || !core.RepoFunc(cal) || !declares(cal) {
				continue
			}
			n++
			after := instrDominates(snap, in)
			c.Check(after, "compiler.Compiler.Compile|declares-after-the-snapshot|"+cal.Name(), p.Pos(call.Pos()),
				"Compile calls "+cal.Name()+", which can declare names, "+ife(after, "after it has taken the snapshot that a rejected input is rolled back to", "before it takes the snapshot that a rejected input is rolled back to: what "+cal.Name()+" declared stays declared when the input is rejected"))
		}
	}
	if n < 2 {
		core.Undecidedf("only %d calls in Compile can declare names", n)
	}
	c.Stat("declaring_calls_in_compile", n)
}

// ---------------------------------------------------------------------------
// importersRememberOnlySuccesses: an importer may keep what it has compiled.
// It records nothing on a path that ends with an error: "this module does not
// exist" is true of the moment it was asked, and a REPL session or a long-lived
// host can create the file afterwards.
func importersRememberOnlySuccesses(c *core.Ctx) {
	p := c.P
	n := 0
	for _, fn := range repoFns(p, "importer") {
		if fn.Name() != "Import" || fn.Signature.Recv() == nil || fn.Parent() != nil {
			continue
		}
		n++
		bad := ""
		for _, b := range fn.Blocks {
			for _, in := range b.Instrs {
				mu, ok := in.(*ssa.MapUpdate)
				if !ok {
					continue
				}
				// an error return reachable after the store
				seen := map[*ssa.BasicBlock]bool{}
				var walk func(bb *ssa.BasicBlock, from int)
				walk = func(bb *ssa.BasicBlock, from int) {
					for _, x := range bb.Instrs[from:] {
						if r, ok := x.(*ssa.Return); ok && len(r.Results) > 0 {
							for _, o := range core.Origins(spilledResult(bb, r.Results[len(r.Results)-1])) {
								if k, isK := o.(*ssa.Const); !isK || !k.IsNil() {
									bad = p.Pos(mu.Pos())
								}
							}
						}
					}
					for _, s := range bb.Succs {
						if !seen[s] {
							seen[s] = true
							walk(s, 0)
						}
					}
				}
				for i, x := range b.Instrs {
					if x == in {
						walk(b, i+1)
					}
				}
			}
		}
		c.Check(bad == "", core.SSAName(fn)+"|remembers-only-successes", p.Pos(fn.Pos()),
			core.SSAName(fn)+ife(bad == "", " stores into its tables only on paths that end without an error", " stores into one of its tables at "+bad+" on a path that ends with an error: a failure is remembered, and the module stays unavailable after whatever was wrong has been put right"))
	}
	if n < 2 {
		core.Undecidedf("only %d Import methods in package importer", n)
	}
	c.Stat("importers", n)
}

// ---------------------------------------------------------------------------
// encodingsAreChosenByOptionsNotByData: which Go encoding a decode function
// uses (padded or raw) follows from the options the script gave.  A choice
// that also looks at the data (its length) applies another decoder than Go's
// to some inputs: padded text that contains line breaks is rejected, and
// malformed unpadded text is accepted.
func encodingsAreChosenByOptionsNotByData(c *core.Ctx) {
	p := c.P
	n := 0
	for _, fn := range repoFns(p) {
		rel := core.RelPkg(fn.Pkg.Pkg)
		if rel != "builtins" && !strings.HasPrefix(rel, "modules/") {
			continue
		}
		// loads of two different encoding variables of encoding/base64 or base32
		encs := map[*ssa.Global][]*ssa.BasicBlock{}
		for _, b := range fn.Blocks {
			for _, in := range b.Instrs {
				if u, ok := in.(*ssa.UnOp); ok {
					if g, ok := u.X.(*ssa.Global); ok && g.Pkg != nil && (g.Pkg.Pkg.Path() == "encoding/base64" || g.Pkg.Pkg.Path() == "encoding/base32") {
						encs[g] = append(encs[g], b)
					}
				}
			}
		}
		if len(encs) < 2 {
			continue
		}
		n++
		bad := ""
		for _, b := range fn.Blocks {
			if len(b.Instrs) == 0 {
				continue
			}
			iff, ok := b.Instrs[len(b.Instrs)-1].(*ssa.If)
			if !ok {
				continue
			}
			// does this If separate the encodings? (one successor dominates a load of one encoding only)
			separates := false
			for _, blocks := range encs {
				for _, eb := range blocks {
					for _, s := range b.Succs {
						if s == eb || s.Dominates(eb) {
							separates = true
						}
					}
				}
			}
			if !separates {
				continue
			}
			if core.DependsOn(iff.Cond, func(w ssa.Value) bool {
				call, ok := w.(*ssa.Call)
				if !ok {
					return false
				}
				bi, ok := call.Call.Value.(*ssa.Builtin)
				if !ok || bi.Name() != "len" {
					return false
				}
				t := call.Call.Args[0].Type().Underlying()
				if sl, ok := t.(*types.Slice); ok {
					if eb, ok := sl.Elem().Underlying().(*types.Basic); ok && eb.Kind() == types.Uint8 {
						return true
					}
				}
				if bt, ok := t.(*types.Basic); ok && bt.Info()&types.IsString != 0 {
					return true
				}
				return false
			}) {
				bad = p.Pos(iff.Pos())
			}
		}
		c.Check(bad == "", core.SSAName(fn)+"|encoding-chosen-by-options", p.Pos(fn.Pos()),
			core.SSAName(fn)+" chooses between Go's encodings"+ife(bad == "", " without looking at the data", " under a condition (at "+bad+") that depends on the length of the data: for some inputs another decoder than the one the options name is applied, and the result differs from Go's"))
	}
	if n == 0 {
		core.Undecidedf("no module function chooses between two encodings")
	}
	c.Stat("encoding_choices", n)
}

// ---------------------------------------------------------------------------
// paddedEncodingsSeeTheWholeInput: EncodeToString of a padded text encoding
// (base64, base32) is applied to the complete data.  Applied to one piece at a
// time (in a loop, or through a function value that something else calls per
// chunk) every piece whose length is not a multiple of the encoding's block is
// padded on its own, and the concatenation is not the encoding of the input.
func paddedEncodingsSeeTheWholeInput(c *core.Ctx) {
	p := c.P
	n := 0
	for _, fn := range repoFns(p) {
		rel := core.RelPkg(fn.Pkg.Pkg)
		if rel != "builtins" && !strings.HasPrefix(rel, "modules/") && rel != "object" {
			continue
		}
		k := 0
		for _, b := range fn.Blocks {
			for _, in := range b.Instrs {
				isEnc := func(f *ssa.Function) bool {
					if f == nil {
						return false
					}
					name := strings.TrimSuffix(f.Name(), "$bound")
					if name != "EncodeToString" && name != "Encode" {
						return false
					}
					pk := f.Pkg
					if pk == nil && f.Synthetic != "" && f.Signature != nil {
						// bound method wrappers have no package: look at the receiver they capture
						for _, fv := range f.FreeVars {
							if nt := core.NamedOf(fv.Type()); nt != nil && nt.Obj().Pkg() != nil && (nt.Obj().Pkg().Path() == "encoding/base64" || nt.Obj().Pkg().Path() == "encoding/base32") {
								return true
							}
						}
						return false
					}
					return pk != nil && (pk.Pkg.Path() == "encoding/base64" || pk.Pkg.Path() == "encoding/base32")
				}
				switch x := in.(type) {
				case *ssa.Call:
					if isEnc(x.Call.StaticCallee()) {
						k++
						n++
						c.Check(!inLoop(b), core.SSAName(fn)+"|whole-input-encoded|"+sprintf("%d", k), p.Pos(x.Pos()),
							core.SSAName(fn)+" applies a padded encoding"+ife(!inLoop(b), " once, to the complete data", " inside a loop, to one piece of the data at a time: each piece is padded on its own"))
					}
				case *ssa.MakeClosure:
					if f, ok := x.Fn.(*ssa.Function); ok && isEnc(f) {
						k++
						n++
						c.Check(false, core.SSAName(fn)+"|whole-input-encoded|"+sprintf("%d", k), p.Pos(x.Pos()),
							core.SSAName(fn)+" hands the EncodeToString method of a padded encoding on as a function value: whoever calls it decides how much of the data it sees at a time")
					}
				}
			}
		}
	}
	if n < 2 {
		core.Undecidedf("only %d applications of a padded encoding found", n)
	}
	c.Stat("padded_encode_calls", n)
}

// ---------------------------------------------------------------------------
// blockCommentsEndAtTheFirstCloser: a block comment ends at the first "*/"
// after it began.  The function that skips one keeps no count of anything it
// sees inside: with a nesting depth, a "/*" in the comment's text (docs/*.md)
// makes the comment run on to the end of the file, and the program silently
// loses everything after it.
func blockCommentsEndAtTheFirstCloser(c *core.Ctx) {
	p := c.P
	lp := p.Pkg("lexer")
	lexT := core.MustType(lp, "Lexer")
	n := 0
	for _, fn := range repoFns(p, "lexer") {
		if fn.Signature.Recv() == nil || core.NamedOf(fn.Signature.Recv().Type()) != lexT || fn.Signature.Results().Len() != 0 {
			continue
		}
		low := strings.ToLower(fn.Name())
		if !strings.Contains(low, "comment") || !strings.Contains(low, "multi") {
			continue
		}
		n++
		counter := ""
		for _, b := range fn.Blocks {
			for _, in := range b.Instrs {
				phi, ok := in.(*ssa.Phi)
				if !ok {
					continue
				}
				bt, ok := phi.Type().Underlying().(*types.Basic)
				if !ok || bt.Info()&types.IsInteger == 0 {
					continue
				}
				// a value that is carried round the loop and changed by adding or subtracting
				for _, b3 := range fn.Blocks {
					for _, in3 := range b3.Instrs {
						bo, ok := in3.(*ssa.BinOp)
						if !ok || (bo.Op != token.ADD && bo.Op != token.SUB) {
							continue
						}
						fromPhi := bo.X == ssa.Value(phi) || bo.Y == ssa.Value(phi) || core.DependsOn(bo, func(w ssa.Value) bool { return w == ssa.Value(phi) })
						toPhi := core.DependsOn(phi, func(w ssa.Value) bool { return w == ssa.Value(bo) })
						for _, e := range phi.Edges {
							if e == ssa.Value(bo) {
								toPhi = true
							}
						}
						if fromPhi && toPhi {
							counter = p.Pos(bo.Pos())
						}
					}
				}
			}
		}
		c.Check(counter == "", core.SSAName(fn)+"|no-count-inside-a-comment", p.Pos(fn.Pos()),
			core.SSAName(fn)+" skips a block comment"+ife(counter == "", " without counting anything it sees inside", " and keeps a count that it changes at "+counter+": where the comment ends then depends on its text, and a comment that mentions \"/*\" swallows the rest of the file"))
	}
	if n == 0 {
		core.Undecidedf("no block-comment skipping method found in package lexer")
	}
	c.Stat("block_comment_skippers", n)
}

// ---------------------------------------------------------------------------
// diagnosticsStoreTheirTextAsGiven: the constructor of a parser error stores
// the strings it is given (the quoted source line above all) unchanged.  A
// line trimmed of its trailing blanks is not the line of the source any more,
// and columns that lie in the trimmed part point past the quoted text.
func diagnosticsStoreTheirTextAsGiven(c *core.Ctx) {
	p := c.P
	pp := p.Pkg("parser")
	errT := core.MustType(pp, "BaseParserError")
	n := 0
	for _, fn := range repoFns(p, "parser") {
		var alloc *ssa.Alloc
		for _, b := range fn.Blocks {
			for _, in := range b.Instrs {
				if al, ok := in.(*ssa.Alloc); ok && core.NamedOf(al.Type()) == errT {
					alloc = al
				}
			}
		}
		if alloc == nil || alloc.Referrers() == nil {
			continue
		}
		for _, r := range *alloc.Referrers() {
			fa, ok := r.(*ssa.FieldAddr)
			if !ok || fa.Referrers() == nil {
				continue
			}
			for _, r2 := range *fa.Referrers() {
				s, ok := r2.(*ssa.Store)
				if !ok || s.Addr != ssa.Value(fa) {
					continue
				}
				bt, ok := s.Val.Type().Underlying().(*types.Basic)
				if !ok || bt.Info()&types.IsString == 0 {
					continue
				}
				n++
				computed := ""
				for _, o := range core.Origins(s.Val) {
					if call, ok := o.(*ssa.Call); ok {
						if cal := call.Call.StaticCallee(); cal != nil {
							computed = core.SSAName(cal)
						} else {
							computed = "a call"
						}
					}
					if _, ok := o.(*ssa.BinOp); ok {
						computed = "a concatenation"
					}
				}
				c.Check(computed == "", core.SSAName(fn)+"|"+fieldNameOf(errT, fa.Field)+"|stored-as-given", p.Pos(s.Pos()),
					core.SSAName(fn)+" stores "+fieldNameOf(errT, fa.Field)+ife(computed == "", " as it was given", " after passing it through "+computed+": the diagnostic no longer carries the text of the source verbatim"))
			}
		}
	}
	if n < 3 {
		core.Undecidedf("only %d string fields stored by parser error constructors", n)
	}
	c.Stat("diagnostic_string_fields", n)
}

// ---------------------------------------------------------------------------
// thePartialFlagIsForCallStagesOnly: a stage of a pipe that is a call is
// compiled to a partial (the value in the pipe becomes its last argument).
// The flag that tells the call compilers to do so is set only under a test
// that the stage is a call: set for every stage, it reaches the calls inside a
// stage of another form, and `5 | fs[pick()]` indexes the list with a partial.
func thePartialFlagIsForCallStagesOnly(c *core.Ctx) {
	p := c.P
	cp := p.Pkg("compiler")
	codeT := core.MustType(cp, "Code")
	fi := fieldIdxByName(codeT, "pipeActive")
	if fi < 0 {
		core.Undecidedf("compiler.Code.pipeActive not found")
	}
	n := 0
	for _, fn := range repoFns(p, "compiler") {
		// the pipe compiler: emits Call 1 after Swap 1 ... identify by a parameter of type *ast.Pipe
		isPipe := false
		for _, prm := range fn.Params {
			if pt, ok := prm.Type().(*types.Pointer); ok {
				if nt := core.NamedOf(pt); nt != nil && nt.Obj().Name() == "Pipe" && nt.Obj().Pkg() != nil && core.RelPkg(nt.Obj().Pkg()) == "ast" {
					isPipe = true
				}
			}
		}
		if !isPipe || fn.Parent() != nil {
			continue
		}
		for _, s := range storesToField(fn, codeT, fi) {
			k, ok := s.Val.(*ssa.Const)
			if !ok || k.Value == nil || k.Value.String() != "true" {
				continue
			}
			n++
			// dominated by the success edge of a type test of a stage
			guarded := false
			for _, b := range fn.Blocks {
				for _, in := range b.Instrs {
					ta, ok := in.(*ssa.TypeAssert)
					if !ok || !ta.CommaOk || ta.Referrers() == nil {
						continue
					}
					pt, ok := ta.AssertedType.(*types.Pointer)
					if !ok {
						continue
					}
					nt := core.NamedOf(pt)
					if nt == nil || !strings.Contains(nt.Obj().Name(), "Call") {
						continue
					}
					for _, r := range *ta.Referrers() {
						if ex, ok := r.(*ssa.Extract); ok && ex.Index == 1 && ex.Referrers() != nil {
							for _, r2 := range *ex.Referrers() {
								if iff, ok := r2.(*ssa.If); ok {
									t := iff.Block().Succs[0]
									if t == s.Block() || t.Dominates(s.Block()) {
										guarded = true
									}
								}
							}
						}
					}
				}
			}
			c.Check(guarded, core.SSAName(fn)+"|partial-flag-under-a-call-test", p.Pos(s.Pos()),
				core.SSAName(fn)+" sets the flag that turns calls into partials"+ife(guarded, " only for a stage that a type test has shown to be a call", " without testing that the stage is a call: inside a stage of another form (an index expression, a ternary) the calls become partials too, and the stage fails at run time"))
		}
	}
	if n == 0 {
		core.Undecidedf("the pipe compiler never sets Code.pipeActive")
	}
	c.Stat("partial_flag_sets", n)
}

// containsAtomic: the type is, or is a struct or array that holds, a type of
// package sync/atomic.
func containsAtomic(t types.Type, d int) bool {
	if d > 3 {
		return false
	}
	if nt := core.NamedOf(t); nt != nil && nt.Obj().Pkg() != nil {
		if _, isPtr := t.(*types.Pointer); !isPtr && nt.Obj().Pkg().Path() == "sync/atomic" {
			return true
		}
		if nt.Obj().Pkg().Path() == "sync" {
			return false // a lock guards something else, which is looked at in its own right
		}
	}
	switch u := t.Underlying().(type) {
	case *types.Struct:
		for i := 0; i < u.NumFields(); i++ {
			if containsAtomic(u.Field(i).Type(), d+1) {
				return true
			}
		}
	case *types.Array:
		return containsAtomic(u.Elem(), d+1)
	}
	return false
}

// ownStruct: the (pointed-to) type is an unnamed struct or a named type of the repository.
func ownStruct(t types.Type) bool {
	if pt, ok := t.(*types.Pointer); ok {
		t = pt.Elem()
	}
	nt, ok := t.(*types.Named)
	if !ok {
		return true
	}
	return nt.Obj().Pkg() != nil && core.InRepo(nt.Obj().Pkg())
}
