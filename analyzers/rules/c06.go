package rules

import (
	"go/ast"
	"go/token"
	"go/types"
	"strings"

	"golang.org/x/tools/go/packages"

	"risorcheck/core"
)

func init() {
	core.Register(&core.Property{
		ID: "C06",
		Decided: "Every place script code can spin or block observes the context ('promptly' is timing and is NOT decided): (R1) the dispatch loop loads the halt flag (or polls the context) on every iteration, before dispatching, at the top level of the loop body; its halt branch returns the context's error; " +
			"(R2) arming typestate: every exported VirtualMachine method that reaches the dispatch function arms the watcher first, and a fresh VM (result of Clone or a composite literal) on which script code is run — directly or by publishing its callFunction — is armed first; " +
			"(R3) blocking primitives: every select without default and every bare channel operation in object, builtins, vm and the in-tree modules has a case receiving from Done() of a context derived from the function's context parameter; time.Sleep / WaitGroup.Wait / Cond.Wait on builtin paths are wrapped the same way; " +
			"(R4) the arming function clears the halt flag, then starts a watcher that stores non-zero to it when the context is done, and the watcher's other exits depend only on state that is scoped to the run (a channel made in the arming function and closed by the disarming function, or a run identity checked under the run mutex).",
		NotCovered:  "Latency of cancellation; goroutines started by host code; the exec module's child processes (CommandContext).",
		Assumptions: []string{"Go channel/select semantics; context.Context contract", "the watcher's own receive from ctx.Done() is the one accepted bare receive"},
		Rules: []*core.Rule{
			{ID: "C06-R1", Title: "halt flag polled on every dispatch iteration", Floor: 1, Run: c06r1},
			{ID: "C06-R2", Title: "every VM that runs script code is armed for the context", Floor: 3, Run: c06r2},
			{ID: "C06-R3", Title: "blocking primitives select on ctx.Done()", Floor: 6, Run: c06r3},
			{ID: "C06-R4", Title: "watcher is armed per run and scoped to it", Floor: 3, Run: func(c *core.Ctx) { watcherRules(c, "C06") }},
			{ID: "C06-R5", Title: "cancellation observed by a blocking primitive is reported as an error", Floor: 2, Run: c06r5},
			{ID: "C06-R6", Title: "nothing that runs scripts detaches from the caller's cancellation", Floor: 30, Run: ctxNotDetached},
			{ID: "C06-R7", Title: "the VM passes on only contexts derived from the one it was given", Floor: 5, Run: ctxArgsDeriveFromParam},
			{ID: "C06-R8", Title: "arm/disarm pairing on every exit (shared with C07-R2)", Floor: 2, Run: c07r2},
			{ID: "C06-R9", Title: "child processes are killed on cancellation (a replaced Cmd.Cancel is bounded by WaitDelay)", Floor: 1, Run: cancelNeedsWaitDelay},
			{ID: "C06-R10", Title: "clones are armed for the context before they are used", Floor: 1, Run: clonesArmedBeforeUse},
			{ID: "C06-R11", Title: "the halt flag is cleared only by the arming function", Floor: 1, Run: haltClearedOnlyWhenArming},
			{ID: "C06-R12", Title: "a context that is over already is refused before anything runs", Floor: 1, Run: finishedContextIsRefused},
			{ID: "C06-R13", Title: "an error is wrapped as it is, not re-rendered through its text (shared with C01)", Floor: 1, Run: messagesAreNotFormats},
			{ID: "C06-R14", Title: "contexts made from nothing are an explicit table", Floor: 6, Run: detachedContextsAreEnumerated},
			{ID: "C06-R15", Title: "http servers follow the evaluation (request contexts, lifetime)", Floor: 2, Run: httpServersFollowTheEvaluation},
			{ID: "C06-R16", Title: "evaluations end with the context's error", Floor: 1, Run: evaluationsEndWithTheContextError},
			{ID: "C06-R17", Title: "threads are started by the VM", Floor: 1, Run: threadsAreStartedByTheVM},
			{ID: "C06-R18", Title: "derived contexts come from the context given", Floor: 1, Run: derivedContextsComeFromTheParameter},
			{ID: "C06-R19", Title: "a failed callback is not called again by a sort", Floor: 1, Run: failedCallbacksAreNotCalledAgain},
			{ID: "C06-R20", Title: "context errors keep their identity", Floor: 5, Run: contextErrorsKeepTheirIdentity},
			{ID: "C06-R21", Title: "the run counter only counts", Floor: 1, Run: theRunCounterOnlyCounts},
			{ID: "C06-R22", Title: "a refused invocation writes nothing to the VM", Floor: 8, Run: refusedInvocationsWriteNothing},
			{ID: "C06-R23", Title: "evaluations that fail ask the context too", Floor: 1, Run: evaluationsThatFailAskTheContextToo},
			{ID: "C06-R24", Title: "iterators that are not bounded by data poll the context", Floor: 1, Run: iteratorsThatAreNotBoundedByDataPollTheContext},
			{ID: "C06-R25", Title: "what ends a blocked operation waits for no lock that the operation holds", Floor: 1, Run: whatEndsABlockedOperationWaitsForNoLockItHolds},
			{ID: "C06-R26", Title: "callback loops are bounded by what was there", Floor: 1, Run: callbackLoopsAreBoundedByWhatWasThere},
			{ID: "C06-R27", Title: "processes are started with the context", Floor: 2, Run: processesAreStartedWithTheContext},
			{ID: "C06-R28", Title: "an iterator ends when the context does", Floor: 1, Run: anIteratorEndsWhenTheContextDoes},
		},
	})
}

// vmRoles resolves the halt field, arming/disarming functions by role.
type vmRoles struct {
	pk       *packages.Package
	info     *types.Info
	vmT      *types.Named
	halt     *types.Var
	dispatch *types.Func
	arm      *types.Func // contains a go statement / AfterFunc whose function stores non-zero to halt
	disarm   *types.Func // the method every arm-caller defers / calls at the end (writes the same state the watcher reads)
	watcher  *ast.FuncLit
	armDecl  *ast.FuncDecl
}

func isHaltStore(info *types.Info, n ast.Node, halt *types.Var) (ast.Expr, bool) {
	switch x := n.(type) {
	case *ast.AssignStmt:
		for i, l := range x.Lhs {
			if fieldOf(info, l) == halt && i < len(x.Rhs) {
				return x.Rhs[i], true
			}
		}
	case *ast.CallExpr:
		cal := calleeOf(info, x)
		if cal != nil && cal.Pkg() != nil && cal.Pkg().Path() == "sync/atomic" && strings.HasPrefix(cal.Name(), "Store") && len(x.Args) == 2 {
			if u, ok := ast.Unparen(x.Args[0]).(*ast.UnaryExpr); ok && u.Op == token.AND && fieldOf(info, u.X) == halt {
				return x.Args[1], true
			}
			// the flag kept behind a pointer field
			if fieldOf(info, ast.Unparen(x.Args[0])) == halt {
				return x.Args[1], true
			}
		}
		if cal != nil && cal.Name() == "Store" && len(x.Args) == 1 { // atomic.Int32 field
			if se, ok := ast.Unparen(x.Fun).(*ast.SelectorExpr); ok && fieldOf(info, se.X) == halt {
				return x.Args[0], true
			}
		}
	}
	return nil, false
}

func resolveVMRoles(p *core.Program) *vmRoles {
	vmp := p.Pkg("vm")
	r := &vmRoles{pk: vmp, info: vmp.TypesInfo, vmT: core.MustType(vmp, "VirtualMachine")}
	r.dispatch = dispatchFunc(p)
	// halt: the VirtualMachine field the dispatch loop reads in an if-condition that leads to `return ctx.Err()`
	dd := p.Decl(r.dispatch)
	ast.Inspect(dd.Body, func(n ast.Node) bool {
		ifs, ok := n.(*ast.IfStmt)
		if !ok || r.halt != nil {
			return true
		}
		returnsCtxErr := false
		ast.Inspect(ifs.Body, func(m ast.Node) bool {
			if ret, ok := m.(*ast.ReturnStmt); ok && len(ret.Results) == 1 {
				if ce, ok := ret.Results[0].(*ast.CallExpr); ok {
					if cal := calleeOf(r.info, ce); cal != nil && cal.Name() == "Err" {
						returnsCtxErr = true
					}
				}
			}
			return true
		})
		if !returnsCtxErr {
			return true
		}
		ast.Inspect(ifs.Cond, func(m ast.Node) bool {
			if e, ok := m.(ast.Expr); ok {
				if f := fieldOf(r.info, e); f != nil && core.RecvNamedOfField(r.vmT, f) {
					r.halt = f
				}
			}
			return true
		})
		return true
	})
	if r.halt == nil {
		core.Undecidedf("halt flag not found: no if-statement in the dispatch function tests a VirtualMachine field and returns ctx.Err()")
	}
	// arming function
	for _, m := range core.Methods(r.vmT) {
		fd := p.Decl(m)
		if fd == nil || fd.Body == nil {
			continue
		}
		ast.Inspect(fd.Body, func(n ast.Node) bool {
			gs, ok := n.(*ast.GoStmt)
			if !ok {
				return true
			}
			fl, ok := gs.Call.Fun.(*ast.FuncLit)
			if !ok {
				return true
			}
			stores := false
			ast.Inspect(fl.Body, func(k ast.Node) bool {
				if v, ok := isHaltStore(r.info, k, r.halt); ok {
					if c, isC := constInt(r.info, v); !isC || c != 0 {
						stores = true
					}
				}
				return true
			})
			if stores {
				r.arm, r.armDecl, r.watcher = m, fd, fl
			}
			return true
		})
	}
	if r.arm == nil {
		core.Undecidedf("arming function not found: no VirtualMachine method starts a goroutine that stores a non-zero value to %s", r.halt.Name())
	}
	// disarming function: the method (other than arm) that callers of arm defer/call and that writes a field arm also writes
	armWrites := fieldsWritten(r.info, r.armDecl.Body, r.vmT)
	best := 0
	for _, m := range core.Methods(r.vmT) {
		if m == r.arm {
			continue
		}
		fd := p.Decl(m)
		if fd == nil || fd.Body == nil || m.Type().(*types.Signature).Params().Len() != 0 {
			continue
		}
		w := fieldsWritten(r.info, fd.Body, r.vmT)
		n := 0
		for f := range w {
			if armWrites[f] && f != r.halt {
				n++
			}
		}
		if n > best && len(fd.Body.List) <= 12 {
			best = n
			r.disarm = m
		}
	}
	if r.disarm == nil {
		core.Undecidedf("disarming function not found (a parameterless VirtualMachine method writing the run state that %s writes)", r.arm.Name())
	}
	return r
}

func fieldsWritten(info *types.Info, body ast.Node, t *types.Named) map[*types.Var]bool {
	out := map[*types.Var]bool{}
	ast.Inspect(body, func(n ast.Node) bool {
		switch x := n.(type) {
		case *ast.FuncLit:
			return false
		case *ast.AssignStmt:
			for _, l := range x.Lhs {
				if f := fieldOf(info, l); f != nil && core.RecvNamedOfField(t, f) {
					out[f] = true
				}
			}
		case *ast.IncDecStmt:
			if f := fieldOf(info, x.X); f != nil && core.RecvNamedOfField(t, f) {
				out[f] = true
			}
		}
		return true
	})
	return out
}

func c06r1(c *core.Ctx) {
	p := c.P
	r := resolveVMRoles(p)
	dd := p.Decl(r.dispatch)
	sw := dispatchSwitch(r.pk, dd)
	// the loop containing the switch
	var loop *ast.ForStmt
	walkStack(dd.Body, func(n ast.Node, stack []ast.Node) bool {
		if n == ast.Node(sw) {
			for i := len(stack) - 1; i >= 0; i-- {
				if f, ok := stack[i].(*ast.ForStmt); ok {
					loop = f
					break
				}
			}
		}
		return true
	})
	if loop == nil {
		core.Undecidedf("dispatch loop not found")
	}
	// a top-level statement of the loop body, before the switch, that reads halt (or ctx.Done/Err)
	polled := false
	returnsErr := false
	for _, s := range loop.Body.List {
		if s.Pos() >= sw.Pos() {
			break
		}
		ifs, ok := s.(*ast.IfStmt)
		if !ok {
			continue
		}
		reads := false
		ast.Inspect(ifs.Cond, func(m ast.Node) bool {
			if e, ok := m.(ast.Expr); ok && fieldOf(r.info, e) == r.halt {
				reads = true
			}
			return true
		})
		if ifs.Init != nil {
			ast.Inspect(ifs.Init, func(m ast.Node) bool {
				if e, ok := m.(ast.Expr); ok && fieldOf(r.info, e) == r.halt {
					reads = true
				}
				return true
			})
		}
		if !reads {
			continue
		}
		polled = true
		for _, bs := range ifs.Body.List {
			if ret, ok := bs.(*ast.ReturnStmt); ok && len(ret.Results) == 1 {
				if ce, ok := ret.Results[0].(*ast.CallExpr); ok {
					if cal := calleeOf(r.info, ce); cal != nil && cal.Name() == "Err" {
						if se, ok := ce.Fun.(*ast.SelectorExpr); ok {
							if id, ok := se.X.(*ast.Ident); ok && r.info.Uses[id] == ctxParam(r.info, dd) {
								returnsErr = true
							}
						}
					}
				}
			}
		}
	}
	c.Check(polled, "vm."+declName(dd)+"|halt-poll", posOf(p, loop), "the dispatch loop tests the halt flag "+r.halt.Name()+" at the top of every iteration, before dispatching the instruction (a poll inside selected opcode handlers misses code that never executes those opcodes)")
	c.Check(returnsErr, "vm."+declName(dd)+"|halt-returns-ctx-err", posOf(p, loop), "when halted the dispatch function returns the error of its own context parameter")
}

func c06r2(c *core.Ctx) {
	p := c.P
	r := resolveVMRoles(p)
	info := r.info
	// reaches dispatch via receiver calls
	calls := map[*types.Func][]*ast.CallExpr{}
	decls := map[*types.Func]*ast.FuncDecl{}
	for _, m := range core.Methods(r.vmT) {
		fd := p.Decl(m)
		if fd == nil || fd.Body == nil {
			continue
		}
		decls[m] = fd
		ast.Inspect(fd.Body, func(n ast.Node) bool {
			if ce, ok := n.(*ast.CallExpr); ok {
				if cal := calleeOf(info, ce); cal != nil && core.RecvNamed(cal) == r.vmT {
					calls[m] = append(calls[m], ce)
				}
			}
			return true
		})
	}
	reaches := map[*types.Func]bool{r.dispatch: true}
	for changed := true; changed; {
		changed = false
		for m, cs := range calls {
			if reaches[m] {
				continue
			}
			for _, ce := range cs {
				if reaches[calleeOf(info, ce)] {
					reaches[m] = true
					changed = true
				}
			}
		}
	}
	// (a) exported entries: arm before the first dispatch-reaching call, on the same receiver
	var armedUnexported func(m *types.Func, depth int) bool
	armsFirst := func(fd *ast.FuncDecl, recvObj types.Object) (bool, string) {
		armPos := token.NoPos
		for _, ce := range calls[fdFunc(info, fd)] {
			if calleeOf(info, ce) == r.arm {
				if se, ok := ce.Fun.(*ast.SelectorExpr); ok && objOf(info, se.X) == recvObj {
					if armPos == token.NoPos || ce.Pos() < armPos {
						armPos = ce.Pos()
					}
				}
			}
		}
		for _, ce := range calls[fdFunc(info, fd)] {
			cal := calleeOf(info, ce)
			if !reaches[cal] || cal == r.arm {
				continue
			}
			if armPos != token.NoPos && armPos < ce.Pos() {
				continue
			}
			// delegating to another method that arms first is fine
			if armedUnexported(cal, 0) {
				continue
			}
			return false, "calls " + cal.Name() + " before arming"
		}
		return true, ""
	}
	visiting := map[*types.Func]bool{}
	armedUnexported = func(m *types.Func, depth int) bool {
		if depth > 4 || m == r.dispatch || visiting[m] {
			return false
		}
		visiting[m] = true
		defer delete(visiting, m)
		fd := decls[m]
		if fd == nil || fd.Recv == nil || len(fd.Recv.List) == 0 || len(fd.Recv.List[0].Names) == 0 {
			return false
		}
		ok, _ := armsFirst(fd, info.Defs[fd.Recv.List[0].Names[0]])
		// must actually arm somewhere on the way
		arms := false
		for _, ce := range calls[m] {
			if calleeOf(info, ce) == r.arm || armedUnexported2(info, calls, r, calleeOf(info, ce), depth+1) {
				arms = true
			}
		}
		return ok && arms
	}
	n := 0
	for _, m := range core.Methods(r.vmT) {
		if !m.Exported() || !reaches[m] {
			continue
		}
		fd := decls[m]
		if fd.Recv == nil || len(fd.Recv.List[0].Names) == 0 {
			continue
		}
		n++
		ok, why := armsFirst(fd, info.Defs[fd.Recv.List[0].Names[0]])
		arms := false
		for _, ce := range calls[m] {
			cal := calleeOf(info, ce)
			if cal == r.arm || armedUnexported(cal, 0) {
				arms = true
			}
		}
		c.Check(ok && arms, "vm.VirtualMachine."+m.Name()+"|armed-before-dispatch", posOf(p, fd), "exported entry "+m.Name()+" arms the context watcher ("+r.arm.Name()+") before any call that reaches the dispatch function"+ifs(!ok, ": "+why)+ifs(ok && !arms, ": never arms"))
	}
	// (b) fresh VMs: locals assigned from Clone()/createVM()/composite literal on which a dispatch-reaching method is called
	// or whose dispatch-reaching method value is published
	nfresh := 0
	funcBodies(r.pk, func(fn *types.Func, fd *ast.FuncDecl) {
		assigns := localAssignments(info, fd.Body)
		for obj, rhss := range assigns {
			fresh := false
			for _, rhs := range rhss {
				if ce, ok := ast.Unparen(rhs).(*ast.CallExpr); ok {
					if cal := calleeOf(info, ce); cal != nil {
						sig := cal.Type().(*types.Signature)
						if sig.Results().Len() >= 1 && core.NamedOf(sig.Results().At(0).Type()) == r.vmT && cal != r.arm {
							fresh = true
						}
					}
				}
				if u, ok := ast.Unparen(rhs).(*ast.UnaryExpr); ok && u.Op == token.AND {
					if cl, ok := u.X.(*ast.CompositeLit); ok && core.NamedOf(info.TypeOf(cl)) == r.vmT {
						fresh = true
					}
				}
			}
			if !fresh || core.NamedOf(obj.Type()) != r.vmT {
				continue
			}
			// uses of obj as receiver of dispatch-reaching methods
			var runs []*ast.CallExpr
			armed := token.NoPos
			ast.Inspect(fd.Body, func(n ast.Node) bool {
				ce, ok := n.(*ast.CallExpr)
				if !ok {
					return true
				}
				cal := calleeOf(info, ce)
				if cal == nil || core.RecvNamed(cal) != r.vmT {
					return true
				}
				se, ok := ce.Fun.(*ast.SelectorExpr)
				if !ok || objOf(info, se.X) != obj {
					return true
				}
				if cal == r.arm {
					if armed == token.NoPos || ce.Pos() < armed {
						armed = ce.Pos()
					}
					return true
				}
				if reaches[cal] && !cal.Exported() {
					runs = append(runs, ce)
				}
				// publishing: initContext-like methods that hand out vm.callFunction are dispatch entry points
				if publishesCallFunc(p, info, cal, reaches) {
					runs = append(runs, ce)
				}
				return true
			})
			if len(runs) == 0 {
				continue
			}
			nfresh++
			okArmed := armed != token.NoPos
			for _, ce := range runs {
				if armed == token.NoPos || armed > ce.Pos() {
					okArmed = false
				}
			}
			c.Check(okArmed, "vm."+declName(fd)+"|fresh-vm-armed:"+obj.Name(), posOf(p, runs[0]),
				"script code is run on the fresh VM "+obj.Name()+" (a clone / new VM) without arming its watcher for the context: cancellation never sets its halt flag, so the code keeps running after the evaluation returned")
		}
	})
	c.Stat("exported_entries", n)
	c.Stat("fresh_vm_uses", nfresh)
}

func fdFunc(info *types.Info, fd *ast.FuncDecl) *types.Func {
	f, _ := info.Defs[fd.Name].(*types.Func)
	return f
}

func armedUnexported2(info *types.Info, calls map[*types.Func][]*ast.CallExpr, r *vmRoles, m *types.Func, depth int) bool {
	if m == nil || depth > 4 {
		return false
	}
	for _, ce := range calls[m] {
		if calleeOf(info, ce) == r.arm {
			return true
		}
	}
	return false
}

// publishesCallFunc: method whose body passes a method value of a
// dispatch-reaching method of its receiver to another function (initContext).
func publishesCallFunc(p *core.Program, info *types.Info, m *types.Func, reaches map[*types.Func]bool) bool {
	fd := p.Decl(m)
	if fd == nil || fd.Body == nil {
		return false
	}
	found := false
	ast.Inspect(fd.Body, func(n ast.Node) bool {
		ce, ok := n.(*ast.CallExpr)
		if !ok {
			return true
		}
		for _, a := range ce.Args {
			if se, ok := ast.Unparen(a).(*ast.SelectorExpr); ok {
				if sel := info.Selections[se]; sel != nil && sel.Kind() == types.MethodVal {
					if f, ok := sel.Obj().(*types.Func); ok && reaches[f] {
						found = true
					}
				}
			}
		}
		return true
	})
	return found
}

func c06r3(c *core.Ctx) {
	p := c.P
	n := 0
	for _, pk := range p.Pkgs {
		rel := core.RelPkg(pk.Types)
		if !(rel == "object" || rel == "builtins" || rel == "vm" || strings.HasPrefix(rel, "modules/")) {
			continue
		}
		info := pk.TypesInfo
		funcBodies(pk, func(fn *types.Func, fd *ast.FuncDecl) {
			idx := 0
			walkStack(fd, func(nd ast.Node, stack []ast.Node) bool {
				// code inside a goroutine started here is judged separately (must end by timer or ctx)
				switch x := nd.(type) {
				case *ast.SelectStmt:
					n++
					idx++
					key := qual(pk, fd) + "|select#" + itoa(idx)
					hasDefault, hasDone, hasTimer := false, false, false
					for _, cc := range x.Body.List {
						cl := cc.(*ast.CommClause)
						if cl.Comm == nil {
							hasDefault = true
							continue
						}
						ast.Inspect(cl.Comm, func(m ast.Node) bool {
							if ce, ok := m.(*ast.CallExpr); ok {
								if cal := calleeOf(info, ce); cal != nil {
									if cal.Name() == "Done" && isContext(recvTypeOfCall(info, ce)) {
										hasDone = true
									}
									if core.IsPkgFunc(cal, "time", "After") {
										hasTimer = true
									}
								}
							}
							if se, ok := m.(*ast.SelectorExpr); ok {
								if f := fieldOf(info, se); f != nil && f.Name() == "C" && core.IsNamed(info.TypeOf(se.X), "time", "Timer") {
									// a timer case alone does not observe the context
								}
							}
							// a local holding ctx.Done()
							if id, ok := m.(*ast.Ident); ok {
								for _, rhs := range localAssignments(info, fd.Body)[info.Uses[id]] {
									if ce, ok := ast.Unparen(rhs).(*ast.CallExpr); ok {
										if cal := calleeOf(info, ce); cal != nil && cal.Name() == "Done" && isContext(recvTypeOfCall(info, ce)) {
											hasDone = true
										}
									}
								}
							}
							return true
						})
					}
					inGoroutine := enclosedByGo(stack)
					switch {
					case hasDefault:
						c.Pass(key, posOf(p, x), "non-blocking select")
					case hasDone:
						c.Pass(key, posOf(p, x), "blocking select observes ctx.Done()")
					case inGoroutine && hasTimer:
						c.Pass(key, posOf(p, x), "select inside a helper goroutine is bounded by a timer")
					default:
						c.Fail(key, posOf(p, x), "blocking select without a ctx.Done() case: the evaluation cannot be cancelled while it waits here")
					}
					return true
				case *ast.UnaryExpr:
					if x.Op == token.ARROW {
						if insideSelectComm(stack) {
							return true
						}
						n++
						idx++
						key := qual(pk, fd) + "|recv#" + itoa(idx)
						// receive from ctx.Done() itself (the watcher) is the accepted exception
						okd := false
						if ce, ok := ast.Unparen(x.X).(*ast.CallExpr); ok {
							if cal := calleeOf(info, ce); cal != nil && cal.Name() == "Done" {
								okd = true
							}
						}
						if id, ok := ast.Unparen(x.X).(*ast.Ident); ok {
							for _, rhs := range localAssignments(info, fd.Body)[info.Uses[id]] {
								if ce, ok := ast.Unparen(rhs).(*ast.CallExpr); ok {
									if cal := calleeOf(info, ce); cal != nil && cal.Name() == "Done" {
										okd = true
									}
								}
							}
						}
						c.Check(okd || enclosedByGo(stack), key, posOf(p, x), "bare channel receive "+exprStr(x)+" on a synchronous builtin/VM path blocks without observing the context")
					}
				case *ast.SendStmt:
					if insideSelectComm(stack) {
						return true
					}
					if len(stack) > 0 {
						if cc, ok := stack[len(stack)-1].(*ast.CommClause); ok && cc.Comm == ast.Stmt(x) {
							return true
						}
					}
					n++
					idx++
					c.Check(enclosedByGo(stack), qual(pk, fd)+"|send#"+itoa(idx), posOf(p, x), "bare channel send on a synchronous builtin/VM path blocks without observing the context")
				case *ast.CallExpr:
					cal := calleeOf(info, x)
					if cal == nil {
						return true
					}
					blocking := ""
					switch {
					case core.IsPkgFunc(cal, "time", "Sleep"):
						blocking = "time.Sleep"
					case core.IsMethod(cal, "sync", "WaitGroup", "Wait"):
						blocking = "WaitGroup.Wait"
					case core.IsMethod(cal, "sync", "Cond", "Wait"):
						blocking = "Cond.Wait"
					}
					if blocking == "" {
						return true
					}
					n++
					idx++
					key := qual(pk, fd) + "|" + blocking + "#" + itoa(idx)
					if enclosedByGo(stack) {
						c.Pass(key, posOf(p, x), blocking+" inside a helper goroutine")
						return true
					}
					// accepted idiom: Wait after a bounded Shutdown in the same function
					if blocking == "WaitGroup.Wait" && precededByShutdown(info, fd, x.Pos()) {
						c.Pass(key, posOf(p, x), "Wait follows a server Shutdown bounded by a timeout context")
						return true
					}
					c.Fail(key, posOf(p, x), blocking+" on a synchronous builtin/VM path cannot be interrupted by the context")
				}
				return true
			})
		})
	}
	c.Stat("blocking_sites", n)
}

func recvTypeOfCall(info *types.Info, ce *ast.CallExpr) types.Type {
	if se, ok := ast.Unparen(ce.Fun).(*ast.SelectorExpr); ok {
		return info.TypeOf(se.X)
	}
	return nil
}

func enclosedByGo(stack []ast.Node) bool {
	for i := len(stack) - 1; i >= 0; i-- {
		if fl, ok := stack[i].(*ast.FuncLit); ok && i > 0 {
			if ce, ok := stack[i-1].(*ast.CallExpr); ok && ce.Fun == ast.Expr(fl) && i > 1 {
				if _, ok := stack[i-2].(*ast.GoStmt); ok {
					return true
				}
			}
		}
	}
	return false
}

func insideSelectComm(stack []ast.Node) bool {
	for i := len(stack) - 1; i >= 0; i-- {
		switch x := stack[i].(type) {
		case *ast.CommClause:
			// only the Comm part, not the body
			_ = x
			for j := i + 1; j < len(stack); j++ {
				if s, ok := stack[j].(ast.Stmt); ok && x.Comm != nil && s == x.Comm {
					return true
				}
			}
			return false
		case *ast.FuncLit:
			return false
		}
	}
	return false
}

func precededByShutdown(info *types.Info, fd *ast.FuncDecl, pos token.Pos) bool {
	found := false
	ast.Inspect(fd.Body, func(n ast.Node) bool {
		if ce, ok := n.(*ast.CallExpr); ok && ce.Pos() < pos {
			if cal := calleeOf(info, ce); cal != nil && cal.Name() == "Shutdown" {
				found = true
			}
		}
		return true
	})
	return found
}

// ---------------------------------------------------------------- watcher (C06-R4 / C07-R1)

func watcherRules(c *core.Ctx, prop string) {
	p := c.P
	r := resolveVMRoles(p)
	info := r.info
	armName := "vm.VirtualMachine." + r.arm.Name()
	// (1) arming clears halt before starting the watcher
	var goPos token.Pos
	ast.Inspect(r.armDecl.Body, func(n ast.Node) bool {
		if gs, ok := n.(*ast.GoStmt); ok && gs.Call.Fun == ast.Expr(r.watcher) {
			goPos = gs.Pos()
		}
		return true
	})
	cleared := false
	for _, s := range r.armDecl.Body.List {
		if s.Pos() >= goPos {
			break
		}
		ast.Inspect(s, func(n ast.Node) bool {
			if _, isLit := n.(*ast.FuncLit); isLit {
				return false
			}
			if v, ok := isHaltStore(info, n, r.halt); ok {
				if k, isC := constInt(info, v); isC && k == 0 {
					// top level of the function (unconditional)?
					cleared = true
				}
			}
			return true
		})
	}
	c.Check(cleared, armName+"|clears-halt-before-watch", posOf(p, r.armDecl), "the arming function clears the halt flag before it starts the watcher (a halt left over from an earlier run, or cleared only when a run ends, would stop the next run at its first instruction)")
	// no other function clears halt concurrently with a running watcher: the disarming function must not write halt
	dd := p.Decl(r.disarm)
	writes := false
	ast.Inspect(dd.Body, func(n ast.Node) bool {
		if _, ok := isHaltStore(info, n, r.halt); ok {
			writes = true
		}
		return true
	})
	c.Check(!writes, "vm.VirtualMachine."+r.disarm.Name()+"|does-not-write-halt", posOf(p, dd), "the disarming function does not touch the halt flag (a watcher of the finished run may still set it afterwards; only the next arming may clear it)")
	// (2) watcher scoping
	// (a) channels the watcher receives from, other than ctx.Done(): must be made in the arming function and closed/sent by the disarming function
	// (b) or the halt store is guarded by a comparison of run state under the run mutex
	type recvInfo struct {
		expr ast.Expr
		done bool
	}
	var recvs []recvInfo
	assigns := localAssignments(info, r.armDecl.Body)
	isDoneExpr := func(e ast.Expr) bool {
		e = ast.Unparen(e)
		if ce, ok := e.(*ast.CallExpr); ok {
			if cal := calleeOf(info, ce); cal != nil && cal.Name() == "Done" {
				return true
			}
		}
		if id, ok := e.(*ast.Ident); ok {
			for _, rhs := range assigns[info.Uses[id]] {
				if ce, ok := ast.Unparen(rhs).(*ast.CallExpr); ok {
					if cal := calleeOf(info, ce); cal != nil && cal.Name() == "Done" {
						return true
					}
				}
			}
		}
		return false
	}
	ast.Inspect(r.watcher.Body, func(n ast.Node) bool {
		if u, ok := n.(*ast.UnaryExpr); ok && u.Op == token.ARROW {
			recvs = append(recvs, recvInfo{u.X, isDoneExpr(u.X)})
		}
		return true
	})
	observesCtx := false
	for _, rc := range recvs {
		if rc.done {
			observesCtx = true
		}
	}
	c.Check(observesCtx, armName+"|watcher-observes-context", posOf(p, r.watcher), "the watcher receives from the Done() channel of the context passed to the arming function")
	runScoped := false
	var why []string
	for _, rc := range recvs {
		if rc.done {
			continue
		}
		// local made in the arming function?
		madeHere := false
		if id, ok := ast.Unparen(rc.expr).(*ast.Ident); ok {
			for _, rhs := range assigns[info.Uses[id]] {
				if ce, ok := ast.Unparen(rhs).(*ast.CallExpr); ok && isBuiltinCall(info, ce, "make") {
					madeHere = true
				}
			}
		}
		if f := fieldOf(info, rc.expr); f != nil {
			// a VM field: it must be assigned a fresh channel in the arming function
			ast.Inspect(r.armDecl.Body, func(n ast.Node) bool {
				if as, ok := n.(*ast.AssignStmt); ok {
					for i, l := range as.Lhs {
						if fieldOf(info, l) == f && i < len(as.Rhs) {
							if ce, ok := ast.Unparen(as.Rhs[i]).(*ast.CallExpr); ok && isBuiltinCall(info, ce, "make") {
								madeHere = true
							}
							if id, ok := ast.Unparen(as.Rhs[i]).(*ast.Ident); ok {
								for _, rhs := range assigns[info.Uses[id]] {
									if ce, ok := ast.Unparen(rhs).(*ast.CallExpr); ok && isBuiltinCall(info, ce, "make") {
										madeHere = true
									}
								}
							}
						}
					}
				}
				return true
			})
		}
		if madeHere {
			runScoped = true
		} else {
			why = append(why, "the watcher also waits on "+exprStr(rc.expr)+", which is not created by the arming function: a signal left in it by an earlier run ends the next run's watcher at once")
		}
	}
	// (b) guarded store
	guarded := false
	walkStack(r.watcher.Body, func(n ast.Node, stack []ast.Node) bool {
		if _, ok := isHaltStore(info, n, r.halt); !ok {
			return true
		}
		for i := len(stack) - 1; i >= 0; i-- {
			if ifs, ok := stack[i].(*ast.IfStmt); ok {
				ast.Inspect(ifs.Cond, func(m ast.Node) bool {
					if e, ok := m.(ast.Expr); ok {
						if f := fieldOf(info, e); f != nil && core.RecvNamedOfField(r.vmT, f) && f != r.halt {
							guarded = true
						}
					}
					return true
				})
			}
		}
		return true
	})
	c.Check(len(why) == 0, armName+"|watcher-signals-fresh-per-run", posOf(p, r.watcher),
		"every channel the watcher waits on besides ctx.Done() is created by the arming function, i.e. fresh for each run (a per-VM channel can still hold the previous run's signal and end the new watcher at once, leaving the run un-cancellable)", why...)
	c.Check(runScoped || guarded, armName+"|watcher-run-scoped", posOf(p, r.watcher),
		"the watcher is scoped to the run it was started for: it exits through a channel created by the arming function and closed by "+r.disarm.Name()+", and/or sets the halt flag only after checking run state (a watcher that waits on the context alone outlives its run and stops a later one)")
	// Run identity: being released through the run channel is not enough.  When the context ends at the
	// very moment the run does, the watcher's select may already have taken the Done() branch; it then
	// gets to store the halt flag only after stop() and the next start(), where "the VM is running" holds
	// again - for another run.  The guard therefore compares run state with a value captured when arming.
	identity := false
	walkStack(r.watcher.Body, func(n ast.Node, stack []ast.Node) bool {
		if _, ok := isHaltStore(info, n, r.halt); !ok {
			return true
		}
		for i := len(stack) - 1; i >= 0; i-- {
			ifs, ok := stack[i].(*ast.IfStmt)
			if !ok {
				continue
			}
			ast.Inspect(ifs.Cond, func(m ast.Node) bool {
				be, ok := m.(*ast.BinaryExpr)
				if !ok || be.Op != token.EQL {
					return true
				}
				for _, pair := range [][2]ast.Expr{{be.X, be.Y}, {be.Y, be.X}} {
					f := fieldOf(info, pair[0])
					id, isId := ast.Unparen(pair[1]).(*ast.Ident)
					if f == nil || !core.RecvNamedOfField(r.vmT, f) || !isId {
						continue
					}
					if o := info.Uses[id]; o != nil && o.Pos() > r.armDecl.Pos() && o.Pos() < r.watcher.Pos() {
						identity = true // a local of the arming function, captured by the watcher
					}
				}
				return true
			})
		}
		return true
	})
	c.Check(identity, armName+"|watcher-checks-run-identity", posOf(p, r.watcher),
		"the watcher sets the halt flag only if the run in progress is the one it was armed for (it compares run state with a value captured when arming): a watcher woken by its context at the very end of its run otherwise halts the next run, which then returns success with nothing executed")
	// the disarming function closes/sends on the run channel if one is used
	if runScoped {
		closes := false
		ast.Inspect(dd.Body, func(n ast.Node) bool {
			if ce, ok := n.(*ast.CallExpr); ok && isBuiltinCall(info, ce, "close") {
				closes = true
			}
			return true
		})
		c.Check(closes, "vm.VirtualMachine."+r.disarm.Name()+"|closes-run-channel", posOf(p, dd), "the disarming function closes the run channel (close is not lost if nobody is receiving yet, unlike a non-blocking send)")
	}
}
