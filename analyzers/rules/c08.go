package rules

import (
	"go/ast"
	"go/token"
	"go/types"
	"strings"

	"golang.org/x/tools/go/ssa"

	"risorcheck/core"
)

func init() {
	core.Register(&core.Property{
		ID: "C08",
		Decided: "Shape conditions of a faithful Go/script boundary (round-trip equality over all Go types is value-level and NOT decided): " +
			"(R1) every converter registered by reflect.Kind is kind-generic: its From does not apply a single-value type assertion to its parameter (named types of that kind reach it); " +
			"(R2) typed hand-back: a value produced by TypeConverter.To that reaches reflect.Value.Set / Append / SetMapIndex / Call through reflect.ValueOf passes Convert(T) or is guarded by AssignableTo/ConvertibleTo (reflect panics for named parameter/field types otherwise); " +
			"(R3) converters return Nil only for absent inputs: no `return Nil` in a From method is decided by IsZero() (a pointer to a zero value is not nil); " +
			"(R4) Proxy's read paths are effect-free on the proxy (GetAttr/Interface/Inspect/Equals store to no receiver field — a per-proxy memo of host-object state goes stale when the host object changes); " +
			"(R5) a conversion failure of host-supplied globals on the Eval path is returned as an error, not raised as a panic.",
		NotCovered:  "Value equality after a round trip, integer narrowing/overflow, which Go types are representable.",
		Assumptions: []string{"reflect's documented panics (Set/Call with non-assignable values)", "kind-selected converters are exactly the values of the kindConverters literal"},
		Rules: []*core.Rule{
			{ID: "C08-R1", Title: "kind-selected converters are kind-generic", Floor: 10, Run: c08r1},
			{ID: "C08-R2", Title: "typed hand-back to reflect", Floor: 4, Run: c08r2},
			{ID: "C08-R3", Title: "Nil only for absent inputs", Floor: 5, Run: c08r3},
			{ID: "C08-R4", Title: "Proxy read paths are effect-free", Floor: 3, Run: c08r4},
			{ID: "C08-R5", Title: "conversion failures on the Eval path are errors, not panics", Floor: 1, Run: c08r5},
			{ID: "C08-R6", Title: "vm.globals is the conversion of what the host supplies now", Floor: 2, Run: c08r6},
			{ID: "C08-R7", Title: "conversions return fresh objects or immutable singletons", Floor: 20, Run: c08r7},
			{ID: "C08-R8", Title: "converters keep no scratch state between conversions (shared with C09-R7)", Floor: 5, Run: cachedObjectsImmutable},
			{ID: "C08-R9", Title: "the hand-back helper converts unless assignable or inconvertible", Floor: 1, Run: conversionHelperConverts},
			{ID: "C08-R10", Title: "integers handed back to Go do not pass through float64", Floor: 1, Run: intNotThroughFloat},
			{ID: "C08-R11", Title: "run-time filled converter tables are consulted only as memos", Floor: 2, Run: memoTablesAreOnlyMemos},
			{ID: "C08-R12", Title: "objects registered before they are complete are not read by what the constructor calls", Floor: 1, Run: publishedBeforeComplete},
			{ID: "C08-R13", Title: "results of reflect.Value.Interface() are not asserted blindly", Floor: 1, Run: reflectedValuesNotAssertedBlindly},
			{ID: "C08-R14", Title: "reflect.TypeOf of a handed-in value is guarded against nil", Floor: 1, Run: typeOfGuardedAgainstNil},
			{ID: "C08-R15", Title: "converters narrow numbers only under a range test", Floor: 10, Run: converterNarrowingIsRangeChecked},
			{ID: "C08-R16", Title: "From methods test a nil interface before asserting it", Floor: 1, Run: converterInterfaceAssertionsGuardNil},
			{ID: "C08-R17", Title: "reflective method calls pass exactly the script's arguments", Floor: 1, Run: proxyCallPassesExactlyTheArguments},
			{ID: "C08-R18", Title: "array converters compare the list length with the array length", Floor: 1, Run: arraysRejectLongerLists},
			{ID: "C08-R19", Title: "proxies are not built on nil pointers", Floor: 1, Run: proxiesAreNotBuiltOnNilPointers},
			{ID: "C08-R20", Title: "structs in Go slices are proxied in place", Floor: 1, Run: sliceElementsAreProxiedInPlace},
			{ID: "C08-R21", Title: "every output of a reflective call is visited", Floor: 1, Run: everyOutputOfAReflectiveCallIsVisited},
			{ID: "C08-R22", Title: "the hand-back helper rejects what is not assignable", Floor: 1, Run: handbackHelperRejectsTheUnassignable},
			{ID: "C08-R23", Title: "reflected results are nil-tested as values", Floor: 1, Run: reflectedResultsAreNilTestedAsValues},
			{ID: "C08-R24", Title: "float limits reject 2^63", Floor: 1, Run: floatLimitsRejectTwoToThe63},
			{ID: "C08-R25", Title: "attributes are discovered as they are accessed", Floor: 1, Run: attributesAreDiscoveredAsTheyAreAccessed},
			{ID: "C08-R26", Title: "converters hand out what they take back", Floor: 10, Run: convertersHandOutWhatTheyTakeBack},
			{ID: "C08-R27", Title: "recursion over Go types is guarded", Floor: 1, Run: recursionOverGoTypesIsGuarded},
			{ID: "C08-R28", Title: "raised errors are not pushed as values", Floor: 1, Run: raisedErrorsAreNotPushedAsValues},
			{ID: "C08-R29", Title: "converted errors are values", Floor: 1, Run: convertedErrorsAreValues},
			{ID: "C08-R30", Title: "entries made on the way are withdrawn with their cause (shared with C05-R14)", Floor: 1, Run: entriesMadeOnTheWayAreWithdrawnWithTheirCause},
			{ID: "C08-R31", Title: "map lookups use the map's own keys", Floor: 1, Run: mapLookupsUseTheMapsOwnKeys},
			{ID: "C08-R32", Title: "Go values of script objects are not silently nil", Floor: 1, Run: goValuesOfScriptObjectsAreNotSilentlyNil},
			{ID: "C08-R33", Title: "defaults do not replace what the host gave", Floor: 1, Run: defaultsDoNotReplaceWhatTheHostGave},
			{ID: "C08-R34", Title: "one script argument is one Go argument", Floor: 1, Run: oneScriptArgumentIsOneGoArgument},
			{ID: "C08-R35", Title: "containers are filled through the element converter", Floor: 2, Run: containersAreFilledThroughTheElementConverter},
			{ID: "C08-R36", Title: "converters do not format the value", Floor: 10, Run: convertersDoNotFormatTheValue},
			{ID: "C08-R37", Title: "what reflect.Copy copied is looked at", Floor: 1, Run: whatReflectCopyCopiedIsLookedAt},
			{ID: "C08-R38", Title: "a type's name is not its identity", Floor: 1, Run: aTypesNameIsNotItsIdentity},
		},
	})
}

// kindConverterTypes: named types T such that &T{} is a value of a package-level
// map[reflect.Kind]TypeConverter composite literal in package object.
func kindConverterTypes(p *core.Program) []*types.Named {
	obj := p.Pkg("object")
	info := obj.TypesInfo
	var out []*types.Named
	for _, f := range obj.Syntax {
		for _, d := range f.Decls {
			gd, ok := d.(*ast.GenDecl)
			if !ok {
				continue
			}
			for _, sp := range gd.Specs {
				vs, ok := sp.(*ast.ValueSpec)
				if !ok || len(vs.Values) != 1 {
					continue
				}
				cl, ok := vs.Values[0].(*ast.CompositeLit)
				if !ok {
					continue
				}
				mt, ok := info.TypeOf(cl).Underlying().(*types.Map)
				if !ok || !core.IsNamed(mt.Key(), "reflect", "Kind") {
					continue
				}
				for _, e := range cl.Elts {
					kv, ok := e.(*ast.KeyValueExpr)
					if !ok {
						continue
					}
					if nt := core.NamedOf(info.TypeOf(kv.Value)); nt != nil {
						out = append(out, nt)
					}
				}
			}
		}
	}
	return out
}

func c08r1(c *core.Ctx) {
	p := c.P
	obj := p.Pkg("object")
	info := obj.TypesInfo
	ts := kindConverterTypes(p)
	if len(ts) == 0 {
		core.Undecidedf("no map[reflect.Kind]TypeConverter literal found in package object")
	}
	for _, nt := range ts {
		m := core.Method(nt, "From")
		if m == nil {
			c.Fail("object."+nt.Obj().Name()+"|From-missing", p.Pos(nt.Obj().Pos()), "kind converter has no From method")
			continue
		}
		fd := p.Decl(m)
		param := types.Object(nil)
		if fd.Type.Params != nil && len(fd.Type.Params.List) > 0 && len(fd.Type.Params.List[0].Names) > 0 {
			param = info.Defs[fd.Type.Params.List[0].Names[0]]
		}
		bad := ""
		walkStack(fd.Body, func(n ast.Node, stack []ast.Node) bool {
			ta, ok := n.(*ast.TypeAssertExpr)
			if !ok || ta.Type == nil {
				return true
			}
			if id, ok := ast.Unparen(ta.X).(*ast.Ident); !ok || info.Uses[id] != param {
				return true
			}
			// comma-ok form: parent is an assignment/define with two LHS
			if len(stack) > 0 {
				switch px := stack[len(stack)-1].(type) {
				case *ast.AssignStmt:
					if len(px.Lhs) == 2 {
						return true
					}
				case *ast.ValueSpec:
					if len(px.Names) == 2 {
						return true
					}
				}
			}
			if _, isBasic := info.TypeOf(ta.Type).Underlying().(*types.Basic); isBasic {
				bad = exprStr(ta)
			}
			return true
		})
		c.Check(bad == "", "object."+nt.Obj().Name()+".From|kind-generic", posOf(p, fd),
			nt.Obj().Name()+" is selected by reflect.Kind, so values of named types of that kind reach From; it must not assert the unnamed type"+ifs(bad != "", " ("+bad+" panics for e.g. time.Duration)"))
	}
	c.Stat("kind_converters", len(ts))
}

// ---------------------------------------------------------------- R2

func c08r2(c *core.Ctx) {
	p := c.P
	obj := p.Pkg("object")
	sp := p.SSAPkg(obj)
	convI := core.MustType(obj, "TypeConverter")
	var fns []*ssa.Function
	for _, m := range sp.Members {
		if f, ok := m.(*ssa.Function); ok {
			fns = append(fns, f)
			fns = append(fns, f.AnonFuncs...)
		}
		if t, ok := m.(*ssa.Type); ok {
			if nt, ok := t.Type().(*types.Named); ok {
				for _, mm := range core.Methods(nt) {
					if f := p.SSAFunc(mm); f != nil {
						fns = append(fns, f)
						fns = append(fns, f.AnonFuncs...)
					}
				}
			}
		}
	}
	isToResult := func(v ssa.Value) bool {
		for _, o := range core.Origins(v) {
			if e, ok := o.(*ssa.Extract); ok && e.Index == 0 {
				if call, ok := e.Tuple.(*ssa.Call); ok {
					if call.Call.IsInvoke() && call.Call.Method.Name() == "To" && core.NamedOf(call.Call.Value.Type()) == convI {
						return true
					}
					if callee := call.Call.StaticCallee(); callee != nil && callee.Name() == "To" && callee.Signature.Recv() != nil {
						return true
					}
				}
			}
		}
		return false
	}
	n := 0
	seenFn := map[*ssa.Function]bool{}
	for _, f := range fns {
		if seenFn[f] || f.Blocks == nil {
			continue
		}
		seenFn[f] = true
		idx := 0
		for _, b := range f.Blocks {
			for _, in := range b.Instrs {
				call, ok := in.(*ssa.Call)
				if !ok {
					continue
				}
				callee := call.Call.StaticCallee()
				if callee == nil || callee.Pkg == nil || callee.Pkg.Pkg.Path() != "reflect" || (callee.Signature.Recv() == nil && callee.Name() != "Append") {
					continue
				}
				var args []ssa.Value
				switch callee.Name() {
				case "Append":
					args = call.Call.Args[1:]
				case "Set":
					args = call.Call.Args[1:2]
				case "SetMapIndex":
					args = call.Call.Args[2:3]
				case "Call":
					args = call.Call.Args[1:2] // the []reflect.Value slice
				default:
					continue
				}
				// find reflect.ValueOf(x) feeding the argument where x is a To result
				for _, a := range args {
					var sources []*ssa.Call
					collectValueOf(a, &sources, map[ssa.Value]bool{}, 0)
					preConverted := map[*ssa.Call]bool{}
					if callee.Name() == "Call" {
						for vo, conv := range valueOfAppendedTo(f, a) {
							sources = append(sources, vo)
							preConverted[vo] = conv
						}
					}
					for _, vo := range sources {
						if len(vo.Call.Args) != 1 || !isToResult(unbox(vo.Call.Args[0])) {
							continue
						}
						n++
						idx++
						// converted? the value passed is ValueOf(x).Convert(T): then `a` origin is a Convert call, not ValueOf itself
						converted := viaConvert(a, vo) || preConverted[vo]
						// target allocated with the value's own type: reflect.New(reflect.TypeOf(x)).Elem().Set(reflect.ValueOf(x))
						if callee.Name() == "Set" && sameTypeTarget(call.Call.Args[0], vo.Call.Args[0]) {
							converted = true
						}
						guarded := guardedByAssignable(f, b)
						c.Check(converted || guarded, core.SSAName(f)+"|reflect."+callee.Name()+"#"+itoa(idx), p.Pos(call.Pos()),
							"the Go value produced by a TypeConverter.To reaches reflect."+callee.Name()+" through reflect.ValueOf without Convert(T) or an AssignableTo/ConvertibleTo guard: reflect panics when the target field/parameter has a named type (e.g. time.Duration receives int64)")
					}
				}
			}
		}
	}
	c.Stat("typed_handback_sites", n)
}

func unbox(v ssa.Value) ssa.Value {
	if mi, ok := v.(*ssa.MakeInterface); ok {
		return mi.X
	}
	return v
}

func collectValueOf(v ssa.Value, out *[]*ssa.Call, seen map[ssa.Value]bool, depth int) {
	if v == nil || seen[v] || depth > 8 {
		return
	}
	seen[v] = true
	switch x := v.(type) {
	case *ssa.Call:
		if callee := x.Call.StaticCallee(); callee != nil && callee.Pkg != nil && callee.Pkg.Pkg.Path() == "reflect" {
			if callee.Name() == "ValueOf" {
				*out = append(*out, x)
				return
			}
			// Convert / Elem / Addr chains
			for _, a := range x.Call.Args {
				collectValueOf(a, out, seen, depth+1)
			}
		} else if callee != nil && isConversionHelper(callee) {
			for _, a := range x.Call.Args {
				collectValueOf(a, out, seen, depth+1)
			}
		}
	case *ssa.Extract:
		// the value component of a helper that also returns an error
		collectValueOf(x.Tuple, out, seen, depth+1)
	case *ssa.Phi:
		for _, e := range x.Edges {
			collectValueOf(e, out, seen, depth+1)
		}
	case *ssa.UnOp:
		if al, ok := x.X.(*ssa.Alloc); ok {
			if refs := al.Referrers(); refs != nil {
				for _, r := range *refs {
					if st, ok := r.(*ssa.Store); ok && st.Addr == ssa.Value(al) {
						collectValueOf(st.Val, out, seen, depth+1)
					}
				}
			}
		}
	}
}

// valueOfAppendedTo: reflect.ValueOf calls appended to (or stored into) the slice value s.
func valueOfAppendedTo(f *ssa.Function, s ssa.Value) map[*ssa.Call]bool {
	out := map[*ssa.Call]bool{}
	for _, b := range f.Blocks {
		for _, in := range b.Instrs {
			call, ok := in.(*ssa.Call)
			if !ok {
				continue
			}
			if bi, ok := call.Call.Value.(*ssa.Builtin); ok && bi.Name() == "append" && len(call.Call.Args) == 2 {
				if core.IsNamed(sliceElem(call.Type()), "reflect", "Value") {
					// variadic slice of appended values
					if sl, ok := call.Call.Args[1].(*ssa.Slice); ok {
						if al, ok := sl.X.(*ssa.Alloc); ok {
							if refs := al.Referrers(); refs != nil {
								for _, r := range *refs {
									if ia, ok := r.(*ssa.IndexAddr); ok {
										for _, r2 := range *ia.Referrers() {
											if st, ok := r2.(*ssa.Store); ok {
												var vos []*ssa.Call
												collectValueOf(st.Val, &vos, map[ssa.Value]bool{}, 0)
												for _, vo := range vos {
													out[vo] = viaConvert(st.Val, vo)
												}
											}
										}
									}
								}
							}
						}
					}
				}
			}
		}
	}
	_ = s
	return out
}

func sliceElem(t types.Type) types.Type {
	if sl, ok := t.Underlying().(*types.Slice); ok {
		return sl.Elem()
	}
	return nil
}

// viaConvert: between the ValueOf call and the sink argument there is a Convert call.
func viaConvert(sink ssa.Value, vo *ssa.Call) bool {
	found := false
	var walk func(v ssa.Value, depth int, sawConvert bool)
	seen := map[ssa.Value]bool{}
	walk = func(v ssa.Value, depth int, sawConvert bool) {
		if v == nil || depth > 8 || seen[v] {
			return
		}
		seen[v] = true
		if v == ssa.Value(vo) {
			if sawConvert {
				found = true
			}
			return
		}
		switch x := v.(type) {
		case *ssa.Call:
			if callee := x.Call.StaticCallee(); callee != nil && callee.Pkg != nil && callee.Pkg.Pkg.Path() == "reflect" {
				sc := sawConvert || callee.Name() == "Convert"
				for _, a := range x.Call.Args {
					walk(a, depth+1, sc)
				}
			} else if callee != nil && isConversionHelper(callee) {
				for _, a := range x.Call.Args {
					walk(a, depth+1, true)
				}
			}
		case *ssa.Extract:
			walk(x.Tuple, depth+1, sawConvert)
		case *ssa.Phi:
			for _, e := range x.Edges {
				walk(e, depth+1, sawConvert)
			}
		}
	}
	walk(sink, 0, false)
	return found
}

func guardedByAssignable(f *ssa.Function, blk *ssa.BasicBlock) bool {
	for _, b := range f.Blocks {
		for _, in := range b.Instrs {
			call, ok := in.(*ssa.Call)
			if !ok {
				continue
			}
			name := ""
			if call.Call.IsInvoke() {
				name = call.Call.Method.Name()
			} else if callee := call.Call.StaticCallee(); callee != nil {
				name = callee.Name()
			}
			if name != "AssignableTo" && name != "ConvertibleTo" && name != "CanConvert" {
				continue
			}
			if core.BoolGuardDominates(call, true, blk) {
				return true
			}
		}
	}
	return false
}

// ---------------------------------------------------------------- R3

func c08r3(c *core.Ctx) {
	p := c.P
	obj := p.Pkg("object")
	info := obj.TypesInfo
	n := 0
	funcBodies(obj, func(fn *types.Func, fd *ast.FuncDecl) {
		if fn.Name() != "From" || core.RecvNamed(fn) == nil || !strings.HasSuffix(core.RecvNamed(fn).Obj().Name(), "Converter") {
			return
		}
		n++
		bad := ""
		walkStack(fd.Body, func(nd ast.Node, stack []ast.Node) bool {
			ret, ok := nd.(*ast.ReturnStmt)
			if !ok || len(ret.Results) == 0 {
				return true
			}
			if o := objOf(info, ret.Results[0]); o == nil || o.Name() != "Nil" || o.Pkg() == nil || o.Pkg().Path() != pkgPath("object") {
				return true
			}
			for i := len(stack) - 1; i >= 0; i-- {
				ifs, ok := stack[i].(*ast.IfStmt)
				if !ok {
					continue
				}
				ast.Inspect(ifs.Cond, func(k ast.Node) bool {
					if ce, ok := k.(*ast.CallExpr); ok {
						if cal := calleeOf(info, ce); cal != nil && cal.Name() == "IsZero" {
							// IsZero of the input value itself is a nil test; IsZero of what it
							// points to (Indirect/Elem) conflates a zero value with absence
							if se, ok := ast.Unparen(ce.Fun).(*ast.SelectorExpr); ok && derefDerived(info, fd, se.X, 0) {
								bad = exprStr(ifs.Cond)
							}
						}
					}
					return true
				})
			}
			return true
		})
		c.Check(bad == "", "object."+declName(fd)+"|nil-only-for-absent", posOf(p, fd), declName(fd)+" returns Nil only when the input is absent (nil pointer / invalid value), never because the value is the zero value"+ifs(bad != "", ": decided by "+bad))
	})
	c.Stat("from_methods", n)
}

// ---------------------------------------------------------------- R4

func c08r4(c *core.Ctx) {
	p := c.P
	obj := p.Pkg("object")
	proxyT := core.MustType(obj, "Proxy")
	readOnly := []string{"GetAttr", "Interface", "Inspect", "Equals", "Type", "String", "IsTruthy", "Cost", "MarshalJSON", "GoType"}
	for _, name := range readOnly {
		m := core.Method(proxyT, name)
		if m == nil {
			continue
		}
		sf := p.SSAFunc(m)
		if sf == nil || len(sf.Params) == 0 {
			continue
		}
		bad := ""
		all := append([]*ssa.Function{sf}, sf.AnonFuncs...)
		for _, f := range all {
			for _, b := range f.Blocks {
				for _, in := range b.Instrs {
					switch x := in.(type) {
					case *ssa.Store:
						if recvRootedAny(x.Addr, sf) {
							bad = "store to a Proxy field at " + p.Pos(in.Pos())
						}
					case *ssa.MapUpdate:
						if recvRootedAny(x.Map, sf) {
							bad = "update of a Proxy map field at " + p.Pos(in.Pos())
						}
					}
				}
			}
		}
		c.Check(bad == "", "object.Proxy."+name+"|effect-free", p.Pos(sf.Pos()), "Proxy."+name+" reads the host object afresh and keeps no per-proxy state (a cached child/attribute goes stale when the host object is reassigned from Go or from the script)"+ifs(bad != "", ": "+bad))
	}
}

// recvRootedAny: rooted at the method's receiver, also from closures (free variable named like the receiver).
func recvRootedAny(v ssa.Value, method *ssa.Function) bool {
	recv := method.Params[0]
	for i := 0; i < 12 && v != nil; i++ {
		if isRecvValue(v, recv) {
			return true
		}
		if fv, ok := v.(*ssa.FreeVar); ok && fv.Name() == recv.Name() {
			return true
		}
		switch x := v.(type) {
		case *ssa.FieldAddr:
			v = x.X
		case *ssa.IndexAddr:
			v = x.X
		case *ssa.UnOp:
			if x.Op != token.MUL {
				return false
			}
			v = x.X
		default:
			return false
		}
	}
	return false
}

// ---------------------------------------------------------------- R5

func c08r5(c *core.Ctx) {
	p := c.P
	surf, _ := unprotectedSurface(p)
	vmp := p.Pkg("vm")
	n := 0
	for f := range surf {
		if f.Pkg == nil || f.Pkg.Pkg != vmp.Types {
			continue
		}
		for _, b := range f.Blocks {
			for _, in := range b.Instrs {
				pn, ok := in.(*ssa.Panic)
				if !ok || !pn.Pos().IsValid() {
					continue
				}
				// panics with an error value produced by option/conversion code
				isErr := isErrorType(pn.X.Type())
				switch x := pn.X.(type) {
				case *ssa.MakeInterface:
					isErr = isErr || isErrorType(x.X.Type())
				case *ssa.ChangeInterface:
					isErr = isErr || isErrorType(x.X.Type())
				}
				if isErr {
					n++
					c.Fail(core.SSAName(f)+"|panic-on-conversion-error", p.Pos(pn.Pos()), "a conversion/configuration error is raised as a panic on the path of risor.Eval/EvalCode/Call instead of being returned: a global of an unsupported Go type crashes the caller")
				}
			}
		}
	}
	if n == 0 {
		c.Pass("vm|no-panic-on-conversion-error", "vm", "no function of package vm on the Eval path panics with an error value")
	}
}

// isConversionHelper: a repository function that takes a reflect.Value and a
// reflect.Type and converts under an AssignableTo/ConvertibleTo test.
func isConversionHelper(f *ssa.Function) bool {
	if f == nil || f.Blocks == nil || !core.RepoFunc(f) {
		return false
	}
	hasConvert, hasTest := false, false
	for _, b := range f.Blocks {
		for _, in := range b.Instrs {
			if call, ok := in.(*ssa.Call); ok {
				name := ""
				if call.Call.IsInvoke() {
					name = call.Call.Method.Name()
				} else if c := call.Call.StaticCallee(); c != nil {
					name = c.Name()
				}
				switch name {
				case "Convert":
					hasConvert = true
				case "AssignableTo", "ConvertibleTo", "CanConvert":
					hasTest = true
				}
			}
		}
	}
	return hasConvert && hasTest
}

func derefDerived(info *types.Info, fd *ast.FuncDecl, e ast.Expr, depth int) bool {
	if depth > 4 {
		return false
	}
	found := false
	ast.Inspect(e, func(n ast.Node) bool {
		switch x := n.(type) {
		case *ast.CallExpr:
			if cal := calleeOf(info, x); cal != nil && cal.Pkg() != nil && cal.Pkg().Path() == "reflect" && (cal.Name() == "Indirect" || cal.Name() == "Elem") {
				found = true
			}
		case *ast.Ident:
			if o := info.Uses[x]; o != nil {
				for _, r := range localAssignments(info, fd.Body)[o] {
					if derefDerived(info, fd, r, depth+1) {
						found = true
					}
				}
			}
		}
		return true
	})
	return found
}

// sameTypeTarget: the Set receiver derives from reflect.New(reflect.TypeOf(x)) for the same x that is being set.
func sameTypeTarget(recv ssa.Value, x ssa.Value) bool {
	for i := 0; i < 6 && recv != nil; i++ {
		call, ok := recv.(*ssa.Call)
		if !ok {
			return false
		}
		callee := call.Call.StaticCallee()
		if callee == nil || callee.Pkg == nil || callee.Pkg.Pkg.Path() != "reflect" {
			return false
		}
		if callee.Name() == "New" && len(call.Call.Args) == 1 {
			if tc, ok := call.Call.Args[0].(*ssa.Call); ok {
				if c2 := tc.Call.StaticCallee(); c2 != nil && c2.Name() == "TypeOf" && len(tc.Call.Args) == 1 {
					return unbox(tc.Call.Args[0]) == unbox(x) || tc.Call.Args[0] == x
				}
			}
			return false
		}
		if len(call.Call.Args) == 0 {
			return false
		}
		recv = call.Call.Args[0]
	}
	return false
}
