package rules

import (
	"go/token"
	"go/types"
	"sort"
	"strings"

	"golang.org/x/tools/go/ssa"

	"risorcheck/core"
)

// ---------------------------------------------------------------------------
// spawnedResultPassesThrough: the call object that runs a spawned callable on
// its clone (the type whose Call defers the disarming function) returns what
// the callable returned, untouched.  wait() hands that object on: an error the
// function merely returned as a value must not come back raised, and any other
// rewrite changes "exactly the spawned call's result".
func spawnedResultPassesThrough(c *core.Ctx) {
	p := c.P
	r := resolveVMRoles(p)
	disarm := p.SSAFunc(r.disarm)
	n := 0
	for _, fn := range repoFns(p, "vm") {
		if fn.Name() != "Call" || fn.Signature.Recv() == nil || fn.Signature.Results().Len() != 1 {
			continue
		}
		defers := false
		for _, b := range fn.Blocks {
			for _, in := range b.Instrs {
				if d, ok := in.(*ssa.Defer); ok {
					if d.Call.StaticCallee() == disarm {
						defers = true
					}
					// ... or a deferred function that disarms among other things
					if mc, ok := d.Call.Value.(*ssa.MakeClosure); ok {
						if cf, ok := mc.Fn.(*ssa.Function); ok {
							for _, b2 := range cf.Blocks {
								for _, in2 := range b2.Instrs {
									if ci, ok := in2.(ssa.CallInstruction); ok && ci.Common().StaticCallee() == disarm {
										defers = true
									}
								}
							}
						}
					}
				}
			}
		}
		if !defers {
			continue
		}
		for _, b := range fn.Blocks {
			for _, in := range b.Instrs {
				ret, ok := in.(*ssa.Return)
				if !ok || len(ret.Results) != 1 {
					continue
				}
				n++
				rv := spilledResult(b, ret.Results[0])
				why := ""
				for _, o := range core.Origins(rv) {
					call, ok := o.(*ssa.Call)
					if ok && call.Call.IsInvoke() && call.Call.Method.Name() == "Call" {
						continue
					}
					why = "a path returns " + o.String()
					if ok {
						if cal := call.Call.StaticCallee(); cal != nil {
							why = "a path returns the result of " + cal.Name() + " instead"
						}
					}
				}
				c.Check(why == "", core.SSAName(fn)+"|returns-the-callable's-result", p.Pos(ret.Pos()),
					"the thread's call returns the object the spawned callable returned"+ifs(why != "", ": "+why+" (wait() then sees something other than the spawned call's result)"))
			}
		}
	}
	c.Stat("thread_call_returns", n)
}

// ---------------------------------------------------------------------------
// memoTablesAreOnlyMemos: a package-level map that is filled at run time with
// what was computed on demand is a memo: a lookup either returns the entry or
// falls through to computing it.  Testing only whether an entry exists makes
// the result depend on which values happened to be converted earlier in the
// process.
func memoTablesAreOnlyMemos(c *core.Ctx) {
	p := c.P
	fns := repoFunctions(p)
	n := 0
	for _, pk := range p.Pkgs {
		rel := core.RelPkg(pk.Types)
		if !interpreterPkg(rel) {
			continue
		}
		sp := p.SSAPkg(pk)
		if sp == nil {
			continue
		}
		var names []string
		for nm, m := range sp.Members {
			if g, ok := m.(*ssa.Global); ok {
				if pt, ok := g.Type().(*types.Pointer); ok {
					if mt, ok := pt.Elem().Underlying().(*types.Map); ok {
						switch et := mt.Elem().Underlying().(type) {
						case *types.Basic:
							if et.Kind() == types.Bool {
								continue
							}
						case *types.Struct:
							if et.NumFields() == 0 {
								continue
							}
						}
						names = append(names, nm)
					}
				}
			}
		}
		sort.Strings(names)
		for _, nm := range names {
			g := sp.Members[nm].(*ssa.Global)
			runtimeWrite := false
			for _, a := range globalAccesses(g, fns) {
				if a.write && !isInitFunc(a.fn) {
					runtimeWrite = true
				}
			}
			if !runtimeWrite {
				continue
			}
			for _, f := range fns {
				for _, b := range f.Blocks {
					for _, in := range b.Instrs {
						lk, ok := in.(*ssa.Lookup)
						if !ok || !lk.CommaOk {
							continue
						}
						u, ok := lk.X.(*ssa.UnOp)
						if !ok || u.X != ssa.Value(g) {
							continue
						}
						n++
						valueUsed := false
						// check-then-insert under the same key is a registration guard, not a memo probe
						for _, b2 := range f.Blocks {
							for _, i2 := range b2.Instrs {
								if mu, ok := i2.(*ssa.MapUpdate); ok && (mu.Key == lk.Index || core.SameStorage(mu.Key, lk.Index)) {
									if u2, ok := mu.Map.(*ssa.UnOp); ok && u2.X == ssa.Value(g) {
										valueUsed = true
									}
								}
							}
						}
						if refs := lk.Referrers(); refs != nil {
							for _, r := range *refs {
								if ex, ok := r.(*ssa.Extract); ok && ex.Index == 0 && ex.Referrers() != nil {
									for _, r2 := range *ex.Referrers() {
										if _, dbg := r2.(*ssa.DebugRef); !dbg {
											valueUsed = true
										}
									}
								}
							}
						}
						c.Check(valueUsed, core.SSAName(f)+"|memo-lookup-uses-the-entry|"+rel+"."+nm, p.Pos(lk.Pos()),
							"the lookup in the run-time filled table "+nm+" uses the entry it finds"+ifs(!valueUsed, ": only its presence is tested, and presence depends on what was converted earlier in the process"))
					}
				}
			}
		}
	}
	c.Stat("memo_lookups", n)
}

// ---------------------------------------------------------------------------
// publishedBeforeComplete: a constructor that puts its object into a registry
// before it has finished filling it (to stop recursion on cyclic types) hands
// out incomplete objects to everything it calls afterwards.  None of those
// callees reads a field that the constructor writes after publication: what
// they would see (and possibly keep) is the half-built state.
func publishedBeforeComplete(c *core.Ctx) {
	p := c.P
	n := 0
	for _, fn := range repoFns(p, "object") {
		for _, b := range fn.Blocks {
			for _, in := range b.Instrs {
				mu, ok := in.(*ssa.MapUpdate)
				if !ok {
					continue
				}
				// registry: a package-level map
				isReg := false
				for _, o := range core.Origins(mu.Map) {
					if u, ok := o.(*ssa.UnOp); ok {
						if _, ok := u.X.(*ssa.Global); ok {
							isReg = true
						}
					}
				}
				if !isReg {
					continue
				}
				var alloc *ssa.Alloc
				os := core.Origins(mu.Value)
				if len(os) == 1 {
					alloc, _ = os[0].(*ssa.Alloc)
				}
				if alloc == nil {
					continue
				}
				nt := core.NamedOf(alloc.Type())
				if nt == nil {
					continue
				}
				st, ok := nt.Underlying().(*types.Struct)
				if !ok {
					continue
				}
				// late fields: written after publication
				late := map[int]bool{}
				var after []ssa.Instruction
				for _, b2 := range fn.Blocks {
					for _, i2 := range b2.Instrs {
						if i2 == in || !instrDominates(in, i2) {
							continue
						}
						after = append(after, i2)
						switch w := i2.(type) {
						case *ssa.Store:
							if fa, ok := w.Addr.(*ssa.FieldAddr); ok && fa.X == ssa.Value(alloc) {
								late[fa.Field] = true
							}
						case *ssa.MapUpdate:
							for _, o := range core.Origins(w.Map) {
								if u, ok := o.(*ssa.UnOp); ok {
									if fa, ok := u.X.(*ssa.FieldAddr); ok && fa.X == ssa.Value(alloc) {
										late[fa.Field] = true
									}
								}
							}
						}
					}
				}
				if len(late) == 0 {
					continue
				}
				n++
				// functions called (statically, transitively) after publication
				reach := map[*ssa.Function]bool{}
				var visit func(g *ssa.Function)
				visit = func(g *ssa.Function) {
					if g == nil || reach[g] || g == fn || g.Blocks == nil || !core.RepoFunc(g) {
						return
					}
					reach[g] = true
					for _, b3 := range g.Blocks {
						for _, i3 := range b3.Instrs {
							if ci, ok := i3.(ssa.CallInstruction); ok {
								visit(ci.Common().StaticCallee())
							}
							if mc, ok := i3.(*ssa.MakeClosure); ok {
								visit(mc.Fn.(*ssa.Function))
							}
						}
					}
				}
				for _, i2 := range after {
					if ci, ok := i2.(ssa.CallInstruction); ok {
						visit(ci.Common().StaticCallee())
					}
				}
				var readers []string
				for g := range reach {
					for _, b3 := range g.Blocks {
						for _, i3 := range b3.Instrs {
							u, ok := i3.(*ssa.UnOp)
							if !ok || u.Op != token.MUL {
								continue
							}
							fa, ok := u.X.(*ssa.FieldAddr)
							if !ok || core.NamedOf(fa.X.Type()) != nt || !late[fa.Field] {
								continue
							}
							// reading a field of an object the function allocated itself is fine
							if _, own := fa.X.(*ssa.Alloc); own {
								continue
							}
							readers = append(readers, core.SSAName(g)+" reads "+st.Field(fa.Field).Name()+" at "+p.Pos(u.Pos()))
						}
					}
				}
				sort.Strings(readers)
				var lf []string
				for i := range late {
					lf = append(lf, st.Field(i).Name())
				}
				sort.Strings(lf)
				// the error path: an object that cannot be completed is taken out of the registry again
				if res := fn.Signature.Results(); res.Len() > 0 && isErrorType(res.At(res.Len()-1).Type()) {
					var regGlobal *ssa.Global
					for _, o := range core.Origins(mu.Map) {
						if u, ok := o.(*ssa.UnOp); ok {
							if g, ok := u.X.(*ssa.Global); ok {
								regGlobal = g
							}
						}
					}
					deletesFrom := func(f *ssa.Function) []ssa.Instruction {
						var out []ssa.Instruction
						for _, b3 := range f.Blocks {
							for _, i3 := range b3.Instrs {
								call, ok := i3.(*ssa.Call)
								if !ok {
									continue
								}
								if bi, ok := call.Call.Value.(*ssa.Builtin); ok && bi.Name() == "delete" && len(call.Call.Args) > 0 {
									for _, o := range core.Origins(call.Call.Args[0]) {
										if u, ok := o.(*ssa.UnOp); ok && u.X == ssa.Value(regGlobal) {
											out = append(out, i3)
										}
									}
								}
							}
						}
						return out
					}
					deferred := false
					for _, b3 := range fn.Blocks {
						for _, i3 := range b3.Instrs {
							if d, ok := i3.(*ssa.Defer); ok && instrDominates(in, i3) {
								if mc, ok := d.Call.Value.(*ssa.MakeClosure); ok {
									if len(deletesFrom(mc.Fn.(*ssa.Function))) > 0 {
										deferred = true
									}
								}
							}
						}
					}
					badRet := ""
					if !deferred {
						dels := deletesFrom(fn)
						for _, b3 := range fn.Blocks {
							for _, i3 := range b3.Instrs {
								ret, ok := i3.(*ssa.Return)
								if !ok || !instrDominates(in, i3) {
									continue
								}
								last := spilledResult(b3, ret.Results[len(ret.Results)-1])
								if k, ok := last.(*ssa.Const); ok && k.IsNil() {
									continue
								}
								covered := false
								for _, d := range dels {
									if instrDominates(d, i3) {
										covered = true
									}
								}
								if !covered {
									badRet = p.Pos(ret.Pos())
								}
							}
						}
					}
					c.Check(badRet == "", core.SSAName(fn)+"|unpublished-on-error|"+nt.Obj().Name(), p.Pos(in.Pos()),
						fn.Name()+" takes the "+nt.Obj().Name()+" out of the registry again when it cannot complete it"+ifs(badRet != "", ": the error return at "+badRet+" leaves the half-built object registered, and the next request for that Go type gets it as if it were valid"))
				}
				msg := ""
				if len(readers) > 0 {
					msg = ": " + readers[0] + ifs(len(readers) > 1, sprintf(" (and %d more)", len(readers)-1)) + " — during construction of a cyclic type it sees (and may keep) the half-built state"
				}
				c.Check(len(readers) == 0, core.SSAName(fn)+"|published-before-complete|"+nt.Obj().Name(), p.Pos(in.Pos()),
					fn.Name()+" registers the new "+nt.Obj().Name()+" before it fills "+strings.Join(lf, ", ")+"; nothing it calls afterwards reads those fields"+msg)
			}
		}
	}
	c.Stat("early_publications", n)
}

// ---------------------------------------------------------------------------
// floatToIntGuarded: Compare and Equals convert a float to an integer only
// under a range test.  The conversion of a float outside the integer range is
// implementation-defined (MinInt64 on amd64): an ordering computed from it
// contradicts the mirrored case that widens the int to float instead.
func floatToIntGuarded(c *core.Ctx) {
	p := c.P
	n := 0
	for _, fn := range repoFns(p, "object") {
		if fn.Signature.Recv() == nil || (fn.Name() != "Compare" && fn.Name() != "Equals") {
			continue
		}
		n++
		bad := ""
		for _, b := range fn.Blocks {
			for _, in := range b.Instrs {
				cv, ok := in.(*ssa.Convert)
				if !ok {
					continue
				}
				sb, ok1 := cv.X.Type().Underlying().(*types.Basic)
				db, ok2 := cv.Type().Underlying().(*types.Basic)
				if !ok1 || !ok2 || sb.Info()&types.IsFloat == 0 || db.Info()&types.IsInteger == 0 {
					continue
				}
				if _, isK := cv.X.(*ssa.Const); isK {
					continue
				}
				guarded := false
				for _, b2 := range fn.Blocks {
					if len(b2.Instrs) == 0 || (b2 != b && !b2.Dominates(b)) {
						continue
					}
					iff, ok := b2.Instrs[len(b2.Instrs)-1].(*ssa.If)
					if !ok {
						continue
					}
					if bo, ok := iff.Cond.(*ssa.BinOp); ok {
						switch bo.Op {
						case token.LSS, token.LEQ, token.GTR, token.GEQ:
							for _, s := range []ssa.Value{bo.X, bo.Y} {
								if s == cv.X || core.SameStorage(s, cv.X) || core.DependsOn(s, func(w ssa.Value) bool { return w == cv.X || core.SameStorage(w, cv.X) }) {
									guarded = true
								}
							}
						}
					}
				}
				if !guarded && bad == "" {
					bad = p.Pos(cv.Pos())
				}
			}
		}
		c.Check(bad == "", core.SSAName(fn)+"|float-to-int-under-range-test", p.Pos(fn.Pos()),
			core.SSAName(fn)+" converts no float to an integer outside a range test"+ifs(bad != "", ": the conversion at "+bad+" is not dominated by an ordering comparison of the float (out of range the result is implementation-defined and the ordering contradicts the mirrored case)"))
	}
	c.Stat("compare_methods", n)
}

// ---------------------------------------------------------------------------
// childTablesAppendOnly: the id of a symbol table is its position among its
// parent's children (parent.id "." len(children)); the serialised form finds
// tables by that id.  The children list therefore only grows: cutting it gives
// the next table an id that an existing table (still referenced by compiled
// functions) already has.
func childTablesAppendOnly(c *core.Ctx) {
	p := c.P
	cp := p.Pkg("compiler")
	stT := core.MustType(cp, "SymbolTable")
	ci := fieldIdxByName(stT, "children")
	if ci < 0 {
		core.Undecidedf("SymbolTable.children not found")
	}
	// the role: children's length takes part in the id of a new table
	idFromLen := false
	for _, fn := range repoFns(p, "compiler") {
		for _, b := range fn.Blocks {
			for _, in := range b.Instrs {
				call, ok := in.(*ssa.Call)
				if !ok {
					continue
				}
				if bi, ok := call.Call.Value.(*ssa.Builtin); ok && bi.Name() == "len" && len(call.Call.Args) == 1 {
					if _, ok := loadOfField(call.Call.Args[0], stT, ci); ok {
						idFromLen = true
					}
				}
			}
		}
	}
	if !idFromLen {
		core.Undecidedf("no use of len(children): the id scheme of symbol tables changed")
	}
	n := 0
	for _, fn := range repoFns(p, "compiler") {
		for _, b := range fn.Blocks {
			for _, in := range b.Instrs {
				st, ok := in.(*ssa.Store)
				if !ok {
					continue
				}
				fa, ok := st.Addr.(*ssa.FieldAddr)
				if !ok || fa.Field != ci || core.NamedOf(fa.X.Type()) != stT {
					continue
				}
				n++
				okv := true
				for _, o := range core.Origins(st.Val) {
					switch x := o.(type) {
					case *ssa.Call:
						bi, isB := x.Call.Value.(*ssa.Builtin)
						if !isB || bi.Name() != "append" {
							okv = false
						} else if _, isLoad := loadOfField(x.Call.Args[0], stT, ci); !isLoad {
							okv = false
						}
					case *ssa.MakeSlice:
					case *ssa.Slice:
						if _, isAlloc := x.X.(*ssa.Alloc); !isAlloc {
							okv = false
						}
					case *ssa.Const:
						// nil: only for a table that is being created
						if _, fresh := fa.X.(*ssa.Alloc); !fresh {
							okv = false
						}
					default:
						okv = false
					}
				}
				if !okv && onlyFromCompileRollback(p, fn) {
					c.Pass(core.SSAName(fn)+"|children-append-only", p.Pos(st.Pos()), "the list is cut back only while Compile rejects its input (deferred, on the error path): the dropped tables belong to code that never runs")
					continue
				}
				c.Check(okv, core.SSAName(fn)+"|children-append-only", p.Pos(st.Pos()),
					"the list of child tables only grows (append to itself, or the empty list of a new table): a table's id is its position in that list")
			}
		}
	}
	c.Stat("children_stores", n)
}

// ---------------------------------------------------------------------------
// haltClearedOnEveryStart: the arming function clears the halt flag on every
// path on which it reports success, whatever kind of context it was given.  A
// flag left set by an earlier, cancelled run otherwise stops the next run at
// its first instruction - with ctx.Err() == nil, i.e. "success".
func haltClearedOnEveryStart(c *core.Ctx) {
	p := c.P
	r := resolveVMRoles(p)
	arm := p.SSAFunc(r.arm)
	hi := -1
	st := r.vmT.Underlying().(*types.Struct)
	for i := 0; i < st.NumFields(); i++ {
		if st.Field(i) == r.halt {
			hi = i
		}
	}
	if arm == nil || hi < 0 {
		core.Undecidedf("arming function / halt field not resolved")
	}
	isHalt := func(v ssa.Value) bool {
		for _, o := range core.Origins(v) {
			if fa, ok := o.(*ssa.FieldAddr); ok && fa.Field == hi && core.NamedOf(fa.X.Type()) == r.vmT {
				return true
			}
			if _, ok := loadOfField(o, r.vmT, hi); ok {
				return true
			}
		}
		return false
	}
	isZero := func(v ssa.Value) bool {
		k, ok := v.(*ssa.Const)
		return ok && k.Value != nil && k.Int64() == 0
	}
	var clears []ssa.Instruction
	for _, b := range arm.Blocks {
		for _, in := range b.Instrs {
			switch x := in.(type) {
			case *ssa.Store:
				if isHalt(x.Addr) && isZero(x.Val) {
					clears = append(clears, in)
				}
			case *ssa.Call:
				if cal := x.Call.StaticCallee(); cal != nil && cal.Pkg != nil && cal.Pkg.Pkg.Path() == "sync/atomic" && strings.HasPrefix(cal.Name(), "Store") {
					if len(x.Call.Args) == 2 && isHalt(x.Call.Args[0]) && isZero(x.Call.Args[1]) {
						clears = append(clears, in)
					}
				}
			}
		}
	}
	bad := ""
	nret := 0
	for _, b := range arm.Blocks {
		for _, in := range b.Instrs {
			ret, ok := in.(*ssa.Return)
			if !ok || len(ret.Results) == 0 {
				continue
			}
			last := spilledResult(b, ret.Results[len(ret.Results)-1])
			if k, ok := last.(*ssa.Const); !ok || !k.IsNil() {
				continue
			}
			nret++
			covered := false
			for _, cl := range clears {
				if instrDominates(cl, ret) {
					covered = true
				}
			}
			if !covered {
				bad = p.Pos(ret.Pos())
			}
		}
	}
	if nret == 0 {
		core.Undecidedf("%s has no success return", arm.Name())
	}
	c.Check(bad == "" && len(clears) > 0, "vm.VirtualMachine."+arm.Name()+"|halt-cleared-on-every-success-path", p.Pos(arm.Pos()),
		arm.Name()+" clears the halt flag on every path that returns success"+ifs(len(clears) == 0, ": it never clears it")+ifs(bad != "", ": the return at "+bad+" is reached without clearing it (e.g. for a context that cannot be cancelled); a flag left by an earlier cancelled run then ends the new run at once, reported as success"))
}

// ---------------------------------------------------------------------------
// containerInterfaceNotNil: Interface() of a container returns a non-nil Go
// slice or map also when the container is empty: encoders render the Go value
// (a nil slice is JSON null, an empty one is []), and decode(encode(x)) must
// give the empty container back.
func containerInterfaceNotNil(c *core.Ctx) {
	p := c.P
	n := 0
	var nilPath func(v ssa.Value, depth int) string
	nilPath = func(v ssa.Value, depth int) string {
		for _, o := range core.Origins(v) {
			switch x := o.(type) {
			case *ssa.Const:
				if x.IsNil() {
					return "a nil " + x.Type().String()
				}
			case *ssa.Call:
				cal := x.Call.StaticCallee()
				if cal == nil || cal.Blocks == nil || !core.RepoFunc(cal) || depth > 2 {
					continue
				}
				for _, b := range cal.Blocks {
					for _, in := range b.Instrs {
						if ret, ok := in.(*ssa.Return); ok && len(ret.Results) == 1 {
							if w := nilPath(spilledResult(b, ret.Results[0]), depth+1); w != "" {
								return w + " from " + cal.Name() + " (" + p.Pos(ret.Pos()) + ")"
							}
						}
					}
				}
			}
		}
		return ""
	}
	var containerI *types.Interface
	if ct := core.LookupType(p.Pkg("object"), "Container"); ct != nil {
		containerI, _ = ct.Underlying().(*types.Interface)
	}
	if containerI == nil {
		core.Undecidedf("object.Container not found")
	}
	for _, fn := range repoFns(p, "object") {
		if fn.Name() != "Interface" || fn.Signature.Recv() == nil || containerI == nil || !types.Implements(fn.Signature.Recv().Type(), containerI) {
			continue
		}
		for _, b := range fn.Blocks {
			for _, in := range b.Instrs {
				ret, ok := in.(*ssa.Return)
				if !ok || len(ret.Results) != 1 {
					continue
				}
				mi, ok := spilledResult(b, ret.Results[0]).(*ssa.MakeInterface)
				if !ok {
					continue
				}
				switch mi.X.Type().Underlying().(type) {
				case *types.Slice, *types.Map:
				default:
					continue
				}
				n++
				w := nilPath(mi.X, 0)
				c.Check(w == "", core.SSAName(fn)+"|interface-not-nil", p.Pos(ret.Pos()),
					"Interface() returns a non-nil "+mi.X.Type().String()+ifs(w != "", ": it can return "+w+", which encoders render as null instead of an empty container"))
			}
		}
	}
	c.Stat("container_interface_returns", n)
}

// ---------------------------------------------------------------------------
// cursorFieldsMoveTogether: the lexer's cursor is a group of fields (position,
// next position, line, line start, column) that one function advances
// together, one character at a time.  Any other function that moves part of
// the group must maintain all of it: jumping the position while leaving the
// line counter behind gives every later token a position that is not in the
// source.
func cursorFieldsMoveTogether(c *core.Ctx) {
	p := c.P
	lp := p.Pkg("lexer")
	lexT := core.MustType(lp, "Lexer")
	st := lexT.Underlying().(*types.Struct)
	writes := map[*ssa.Function]map[int]bool{}
	for _, fn := range repoFns(p, "lexer") {
		for _, b := range fn.Blocks {
			for _, in := range b.Instrs {
				s, ok := in.(*ssa.Store)
				if !ok {
					continue
				}
				fa, ok := s.Addr.(*ssa.FieldAddr)
				if !ok || core.NamedOf(fa.X.Type()) != lexT {
					continue
				}
				if _, fresh := fa.X.(*ssa.Alloc); fresh {
					continue // constructor
				}
				if bt, ok := st.Field(fa.Field).Type().Underlying().(*types.Basic); !ok || bt.Info()&types.IsInteger == 0 || bt.Kind() == types.Int32 {
					continue
				}
				if writes[fn] == nil {
					writes[fn] = map[int]bool{}
				}
				writes[fn][fa.Field] = true
			}
		}
	}
	// the stepping function: writes the most cursor fields
	var step *ssa.Function
	for fn, w := range writes {
		if step == nil || len(w) > len(writes[step]) || (len(w) == len(writes[step]) && core.SSAName(fn) < core.SSAName(step)) {
			step = fn
		}
	}
	if step == nil || len(writes[step]) < 3 {
		core.Undecidedf("the lexer's stepping function (writer of position, line and column) was not found")
	}
	group := writes[step]
	var fns []*ssa.Function
	for fn := range writes {
		fns = append(fns, fn)
	}
	sort.Slice(fns, func(i, j int) bool { return core.SSAName(fns[i]) < core.SSAName(fns[j]) })
	for _, fn := range fns {
		touches := false
		var missing []string
		for i := range group {
			if writes[fn][i] {
				touches = true
			}
		}
		if !touches {
			continue
		}
		for i := range group {
			if !writes[fn][i] {
				missing = append(missing, st.Field(i).Name())
			}
		}
		sort.Strings(missing)
		c.Check(len(missing) == 0, core.SSAName(fn)+"|cursor-fields-move-together", p.Pos(fn.Pos()),
			fn.Name()+" moves the lexer's cursor and maintains all of its fields"+ifs(len(missing) > 0, ": it does not maintain "+strings.Join(missing, ", ")+" (positions reported after it are not positions in the source)"))
	}
	c.Stat("cursor_fields", len(group))
}

// ---------------------------------------------------------------------------
// plainStringConstantsOnlyForPlainStrings: the compiler turns the raw text of a
// string literal into a constant only where the literal was found not to be a
// template (Template() == nil).  Anywhere else the raw text of 'a {b}' would be
// emitted without interpolation.
func plainStringConstantsOnlyForPlainStrings(c *core.Ctx) {
	p := c.P
	strT := core.MustType(p.Pkg("ast"), "String")
	n := 0
	for _, fn := range repoFns(p, "compiler") {
		for _, b := range fn.Blocks {
			for _, in := range b.Instrs {
				valueCall, ok := in.(*ssa.Call)
				if !ok {
					continue
				}
				f := valueCall.Call.StaticCallee()
				if f == nil || f.Name() != "Value" || f.Signature.Recv() == nil || core.NamedOf(f.Signature.Recv().Type()) != strT {
					continue
				}
				recv := valueCall.Call.Args[0]
				// literals that are expression operands: a parameter or a type-switched expression node
				// (import paths and other names kept in String nodes are not templates)
				operand := false
				for _, o := range core.Origins(recv) {
					switch o.(type) {
					case *ssa.Parameter, *ssa.TypeAssert, *ssa.Extract:
						operand = true
					}
				}
				if !operand {
					continue
				}
				n++
				guarded := false
				for _, b2 := range fn.Blocks {
					if len(b2.Instrs) == 0 {
						continue
					}
					iff, ok := b2.Instrs[len(b2.Instrs)-1].(*ssa.If)
					if !ok {
						continue
					}
					bo, ok := iff.Cond.(*ssa.BinOp)
					if !ok || (bo.Op != token.EQL && bo.Op != token.NEQ) {
						continue
					}
					isTmpl := func(v ssa.Value) bool {
						tc, ok := v.(*ssa.Call)
						if !ok {
							return false
						}
						f := tc.Call.StaticCallee()
						return f != nil && f.Name() == "Template" && len(tc.Call.Args) == 1 && (tc.Call.Args[0] == recv || core.SameStorage(tc.Call.Args[0], recv))
					}
					if !(isTmpl(bo.X) && isNilValue(bo.Y)) && !(isTmpl(bo.Y) && isNilValue(bo.X)) {
						continue
					}
					succ := b2.Succs[0]
					if bo.Op == token.NEQ {
						succ = b2.Succs[1]
					}
					if succ == b || succ.Dominates(b) {
						guarded = true
					}
				}
				c.Check(guarded, core.SSAName(fn)+"|raw-text-under-template-test", p.Pos(valueCall.Pos()),
					"the raw text of a string literal is used as its value only on the branch where Template() is nil"+ifs(!guarded, ": here a template literal ('… {x} …') would be taken without interpolation"))
			}
		}
	}
	c.Stat("string_value_sites", n)
}

func isNilValue(v ssa.Value) bool {
	k, ok := v.(*ssa.Const)
	return ok && k.IsNil()
}

// ---------------------------------------------------------------------------
// blockScopesOpenedUnconditionally: a compiler function that opens a block
// scope (SymbolTable.NewBlock) opens it on every path that goes on to compile
// the block's statements.  A block compiled without its scope declares its
// names (multi-assignments, named functions, imports) in the enclosing scope.
func blockScopesOpenedUnconditionally(c *core.Ctx) {
	p := c.P
	cp := p.Pkg("compiler")
	stT := core.MustType(cp, "SymbolTable")
	compT := core.MustType(cp, "Compiler")
	newBlock := core.Method(stT, "NewBlock")
	dispatch := core.Method(compT, "compile")
	if newBlock == nil || dispatch == nil {
		core.Undecidedf("SymbolTable.NewBlock / Compiler.compile not found")
	}
	nb, disp := p.SSAFunc(newBlock), p.SSAFunc(dispatch)
	n := 0
	for _, fn := range repoFns(p, "compiler") {
		var opens []ssa.Instruction
		var compiles []ssa.Instruction
		for _, b := range fn.Blocks {
			for _, in := range b.Instrs {
				if ci, ok := in.(ssa.CallInstruction); ok {
					switch ci.Common().StaticCallee() {
					case nb:
						opens = append(opens, in)
					case disp:
						compiles = append(compiles, in)
					}
				}
			}
		}
		if len(opens) == 0 {
			continue
		}
		n++
		bad := ""
		for _, o := range opens {
			for _, d := range compiles {
				if !instrDominates(o, d) && !instrDominates(d, o) {
					bad = p.Pos(d.Pos())
				}
			}
			// and with no dispatcher call in the function itself (statements compiled by a helper): the scope dominates every normal exit
			if len(compiles) == 0 {
				for _, b := range fn.Blocks {
					for _, in := range b.Instrs {
						if ret, ok := in.(*ssa.Return); ok && len(ret.Results) > 0 && !instrDominates(o, ret) {
							// early returns before the scope is opened are fine when they return an error
							last := spilledResult(b, ret.Results[len(ret.Results)-1])
							if k, ok := last.(*ssa.Const); ok && k.IsNil() {
								bad = p.Pos(ret.Pos())
							}
						}
					}
				}
			}
		}
		c.Check(bad == "", core.SSAName(fn)+"|block-scope-opened-on-every-path", p.Pos(fn.Pos()),
			fn.Name()+" opens its block scope on every path that compiles the block"+ifs(bad != "", ": the statements compiled at "+bad+" can be reached without the scope (their declarations land in the enclosing scope)"))
	}
	c.Stat("scope_openers", n)
}
