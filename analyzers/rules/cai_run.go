package rules

import (
	"fmt"
	"go/ast"
	"go/types"
	"sort"
	"strings"

	"risorcheck/core"
)

// assignmentOperators: token strings registered with parser handlers that
// construct ast.Assign / ast.SetAttr nodes (same tables as C01-R2).
func assignmentOperators(p *core.Program) []string {
	pp := p.Pkg("parser")
	info := pp.TypesInfo
	parserT := core.MustType(pp, "Parser")
	regM := map[*types.Func]bool{}
	for _, m := range core.Methods(parserT) {
		sig := m.Type().(*types.Signature)
		if sig.Params().Len() == 2 && core.IsNamed(sig.Params().At(0).Type(), pkgPath("token"), "Type") {
			if n := core.NamedOf(sig.Params().At(1).Type()); n != nil && n.Obj().Name() == "infixParseFn" {
				regM[m] = true
			}
		}
	}
	constructsAssign := func(h *types.Func) bool {
		fd := p.Decl(h)
		found := false
		if fd == nil {
			return false
		}
		ast.Inspect(fd.Body, func(n ast.Node) bool {
			if ce, ok := n.(*ast.CallExpr); ok {
				if cal := calleeOf(info, ce); cal != nil && cal.Pkg() != nil && cal.Pkg().Path() == pkgPath("ast") && (cal.Name() == "NewAssign" || cal.Name() == "NewAssignIndex") {
					found = true
				}
			}
			return true
		})
		return found
	}
	var out []string
	funcBodies(pp, func(fn *types.Func, fd *ast.FuncDecl) {
		ast.Inspect(fd.Body, func(n ast.Node) bool {
			ce, ok := n.(*ast.CallExpr)
			if !ok || !regM[calleeOf(info, ce)] || len(ce.Args) != 2 {
				return true
			}
			h, _ := objOf(info, ce.Args[1]).(*types.Func)
			if h != nil && constructsAssign(h) {
				if s, ok := constString(info, ce.Args[0]); ok {
					out = append(out, s)
				}
			}
			return true
		})
	})
	sort.Strings(out)
	return out
}

// ---------------------------------------------------------------- driver

type caiPath struct {
	Net      *Lin
	Dead     bool
	Problems []string
	Facts    map[string]bool
	Trace    []string
	Sets     map[string]string // description -> height
	LoopFlags map[string]string // bool fields of loop records created on this path
}

type caiFnResult struct {
	Fn      *types.Func
	NodeSym string
	NodeT   types.Type
	Paths   []caiPath
}

func (a *caiAn) analyze(m *types.Func) *caiFnResult {
	fd := a.methods[m]
	a.curFn = m
	st := &cState{H: Const(0), Env: map[types.Object]cVal{}, Facts: map[string]bool{}, Sub: core.Subst{}, Sets: map[int]*posSetData{}, Loops: map[int]*loopRec{}, Pending: map[int]*cLabel{}}
	res := &caiFnResult{Fn: m}
	for _, f := range fd.Type.Params.List {
		for _, n := range f.Names {
			obj := a.info.Defs[n]
			if obj == nil {
				continue
			}
			v := a.symbolic(n.Name, obj.Type())
			st.Env[obj] = v
			if nv, ok := v.(vNode); ok && res.NodeT == nil {
				res.NodeSym, res.NodeT = nv.Sym, nv.Typ
			}
		}
	}
	outs := a.execBlock(fd.Body.List, []*cState{st})
	boundSomewhere, unbound := map[string]bool{}, map[string]bool{}
	defer func() {
		// a collected jump set must be patched on at least one path of the function
		for d := range unbound {
			if !boundSomewhere[d] {
				res.Paths = append(res.Paths, caiPath{Dead: true, Problems: []string{"jump positions collected in " + d + " are never bound to a target"}, Facts: map[string]bool{}, Sets: map[string]string{}})
			}
		}
	}()
	if res.NodeT == nil {
		if nt := a.fnOfClause[m]; nt != nil {
			res.NodeT = types.NewPointer(nt)
		}
	}
	for _, o := range outs {
		if o.St == stRetErr {
			continue
		}
		p := caiPath{Facts: o.Facts, Trace: o.Trace, Sets: map[string]string{}, LoopFlags: map[string]string{}}
		for _, l := range o.Loops {
			if l.Generic {
				continue
			}
			for f, v := range l.Bools {
				if b, ok := v.(vBool); ok && b.Known {
					p.LoopFlags[f.Name()] = fmt.Sprint(b.B)
				} else if iv, ok := v.(vInt); ok && iv.L.IsConst() {
					p.LoopFlags[f.Name()] = fmt.Sprint(iv.L.K)
				} else {
					p.LoopFlags[f.Name()] = "?"
				}
			}
		}
		if o.H == nil {
			p.Dead = true
		} else {
			p.Net = o.Sub.Apply(o.H)
		}
		if len(o.Ctx) > 0 {
			o.problem("emission context opened but not closed")
		}
		for _, l := range o.Pending {
			o.problem("jump %s is never bound to a target", l.Desc)
		}
		for id, s := range o.Sets {
			if s.N > 0 && !o.isGenericLoopSet(id) {
				if s.Bound {
					boundSomewhere[s.Desc] = true
				} else {
					unbound[s.Desc] = true
				}
			}
			if s.H != nil {
				p.Sets[s.Desc] = o.Sub.Apply(s.H).String()
			}
		}
		// unresolved unification variables in the net are a modelling gap
		if p.Net != nil {
			for k := range p.Net.T {
				if strings.HasPrefix(k, "?") {
					// the exit point was revived by a label that no jump was ever
					// bound to on this path: it is unreachable
					p.Dead = true
				}
			}
		}
		// every slot compiled while a loop record was open sits at the body height
		for _, l := range o.Loops {
			if l.Generic || l.BodyH == nil {
				continue
			}
			for _, sl := range l.Slots {
				if !o.Sub.Apply(sl.H).Sub(o.Sub.Apply(l.BodyH)).IsZero() {
					o.problem("[R3] slot %s is compiled at height %s while the loop's break/continue labels assume height %s", sl.Child, o.Sub.Apply(sl.H), o.Sub.Apply(l.BodyH))
				}
			}
		}
		// child slots: resolve heights now; a slot whose height still depends on a
		// label no jump was bound to is unreachable on this path
		for _, sr := range o.SlotRecs {
			h := o.Sub.Apply(sr.OffLin)
			unresolved := false
			for k := range h.T {
				if strings.HasPrefix(k, "?") {
					unresolved = true
				}
			}
			if unresolved {
				continue
			}
			key := sr.Fn + "|" + sr.Site + "|" + h.String() + "|" + fmt.Sprint(sr.InLoopBody) + "|" + fmt.Sprint(sr.CtxDepth)
			if _, ok := a.slots[key]; !ok {
				c := *sr
				c.OffLin = h
				c.Offset = h.String()
				a.slots[key] = &c
			}
		}
		p.Problems = dedup(o.Problems)
		res.Paths = append(res.Paths, p)
	}
	return res
}

// contractFor: required net effect of compiling a node of the function's
// parameter type on a path with the given facts; ok=false if undetermined.
func (a *caiAn) contractFor(r *caiFnResult, p caiPath) (*Lin, string) {
	if r.NodeT == nil {
		return nil, "no node parameter"
	}
	nt := core.NamedOf(r.NodeT)
	if v, known := a.isExprOfType(r.NodeT); known {
		if inf, ok := a.inferred[nt]; ok {
			return inf, "inferred"
		}
		if v {
			return Const(1), "IsExpression()=true"
		}
		return Const(0), "IsExpression()=false"
	}
	if m := core.Method(nt, "IsExpression"); m != nil {
		st := &cState{Facts: p.Facts, Sub: core.Subst{}}
		if v, ok := a.evalASTMethod(m, vNode{Sym: r.NodeSym, Typ: r.NodeT}, st); ok {
			if b, ok := v.(vBool); ok {
				return a.indicator(b, st), "IsExpression()=" + b.Pred
			}
		}
	}
	return nil, "IsExpression() not evaluable"
}

func renderPath(p caiPath) string {
	var fs []string
	for k, v := range p.Facts {
		if strings.HasPrefix(k, "err@") {
			continue
		}
		if v {
			fs = append(fs, k)
		} else {
			fs = append(fs, "!"+k)
		}
	}
	sort.Strings(fs)
	if len(fs) > 8 {
		fs = append(fs[:8], "…")
	}
	return fmt.Sprintf("when %s", strings.Join(fs, " ∧ "))
}
