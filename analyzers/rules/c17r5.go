package rules

import (
	"strings"

	"golang.org/x/tools/go/ssa"

	"risorcheck/core"
)

// c17r5: the loader links objects by the ids the file carries.  Every store of
// a *Code into Function.code (and of a parent into Code.parent) in the
// unmarshalling code pairs two objects one of which was found by a map lookup
// keyed by the other's id field; pairing by position relies on two enumeration
// orders (code objects pre-order, function constants pool by pool) that agree
// only for linear nestings.
func c17r5(c *core.Ctx) {
	p := c.P
	cp := p.Pkg("compiler")
	fnT := core.MustType(cp, "Function")
	codeT := core.MustType(cp, "Code")
	codeF := fieldByName(fnT, "code")
	parentF := fieldByName(codeT, "parent")
	if codeF == nil || parentF == nil {
		core.Undecidedf("Function.code / Code.parent not found")
	}
	byIDLookup := func(v ssa.Value) bool {
		return core.DependsOn(v, func(w ssa.Value) bool {
			lk, ok := w.(*ssa.Lookup)
			if !ok {
				return false
			}
			return core.DependsOn(lk.Index, func(x ssa.Value) bool {
				switch fa := x.(type) {
				case *ssa.FieldAddr:
					if f := fieldVar(fa); f != nil && strings.HasSuffix(strings.ToLower(f.Name()), "id") {
						return true
					}
				case *ssa.Field:
					if f := fieldVarOfField(fa); f != nil && strings.HasSuffix(strings.ToLower(f.Name()), "id") {
						return true
					}
				}
				return false
			})
		})
	}
	n := 0
	for fn := range p.AllFunctions() {
		if fn.Blocks == nil || fn.Pkg == nil || fn.Pkg.Pkg != cp.Types {
			continue
		}
		if !strings.HasSuffix(p.Fset.Position(fn.Pos()).Filename, "store.go") {
			continue
		}
		for _, b := range fn.Blocks {
			for _, in := range b.Instrs {
				st, ok := in.(*ssa.Store)
				if !ok {
					continue
				}
				fa, ok := st.Addr.(*ssa.FieldAddr)
				if !ok {
					continue
				}
				f := fieldVar(fa)
				if f != codeF && f != parentF {
					continue
				}
				if k, isC := st.Val.(*ssa.Const); isC && k.IsNil() {
					continue
				}
				n++
				ok2 := byIDLookup(fa.X) || byIDLookup(st.Val)
				c.Check(ok2, core.SSAName(fn)+"|link:"+f.Name()+"|by-id", p.Pos(st.Pos()),
					"the reloaded "+f.Name()+" link joins two objects through a map lookup keyed by the id recorded in the file")
			}
		}
	}
	c.Stat("link_stores", n)
}
