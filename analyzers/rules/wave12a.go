package rules

import (
	"go/ast"
	"go/token"
	"go/types"
	"sort"
	"strings"

	"golang.org/x/tools/go/ssa"

	"risorcheck/core"
)

// Generalisations written after the first evaluation of the twelfth wave.

// ---------------------------------------------------------------------------
// theDispatchLoopGivesNilNoMeaningOfItsOwn: nil is a value like any other to
// the dispatch loop: it pushes it, and the objects decide what it means to
// them.  The loop and the VM's helpers never compare an operand with the Nil
// object.  A clause that does takes "evaluates to nil" for something else
// ("was left out"): x[n:] with n == nil becomes x[:], where it was a type
// error.
func theDispatchLoopGivesNilNoMeaningOfItsOwn(c *core.Ctx) {
	p := c.P
	op := p.Pkg("object")
	nilG := op.Types.Scope().Lookup("Nil")
	isNilObj := func(v ssa.Value) bool {
		for _, o := range originsThroughInterfaces(v) {
			if u, ok := o.(*ssa.UnOp); ok && u.Op == token.MUL {
				if g, ok := u.X.(*ssa.Global); ok && g.Object() == nilG {
					return true
				}
			}
		}
		return false
	}
	n, cmp := 0, 0
	for _, fn := range repoFns(p, "vm") {
		k := 0
		for _, b := range fn.Blocks {
			for _, in := range b.Instrs {
				bo, ok := in.(*ssa.BinOp)
				if !ok || (bo.Op != token.EQL && bo.Op != token.NEQ) {
					continue
				}
				if _, isIface := bo.X.Type().Underlying().(*types.Interface); !isIface {
					continue
				}
				cmp++
				if !isNilObj(bo.X) && !isNilObj(bo.Y) {
					continue
				}
				n++
				k++
				c.Check(false, core.SSAName(fn)+"|compares-with-the-Nil-object|"+sprintf("%d", k), p.Pos(bo.Pos()),
					fn.Name()+" compares a value with the Nil object: nil then means something to the VM that it does not mean to the script (an operand that evaluates to nil is taken for one that was left out: x[n:] with n == nil gives x[:] instead of a type error)")
			}
		}
	}
	c.Pass("vm|interface-comparisons", "", sprintf("%d comparisons of interface values in package vm, %d of them with the Nil object", cmp, n))
	c.Stat("vm_interface_comparisons", cmp)
}

// ---------------------------------------------------------------------------
// operatorsDoNotManufactureConstants: the value of `a && b` and `a || b` is one
// of the operands, the one that decided.  The functions that compile an
// infix node emit no instruction that pushes a constant (True, False, Nil):
// compiled as `a ? b : false`, `name || "anon"` is true and `0 && x` is false.
func operatorsDoNotManufactureConstants(c *core.Ctx) {
	p := c.P
	cp := p.Pkg("compiler")
	info := cp.TypesInfo
	n := 0
	funcBodies(cp, func(fn *types.Func, fd *ast.FuncDecl) {
		// functions whose node parameter is an *ast.Infix
		sig := fn.Type().(*types.Signature)
		takesInfix := false
		for i := 0; i < sig.Params().Len(); i++ {
			if pt, ok := sig.Params().At(i).Type().(*types.Pointer); ok {
				if nt, ok := pt.Elem().(*types.Named); ok && nt.Obj().Name() == "Infix" && nt.Obj().Pkg() != nil && core.RelPkg(nt.Obj().Pkg()) == "ast" {
					takesInfix = true
				}
			}
		}
		if !takesInfix {
			return
		}
		n++
		bad := ""
		ast.Inspect(fd.Body, func(nd ast.Node) bool {
			ce, ok := nd.(*ast.CallExpr)
			if !ok || len(ce.Args) == 0 {
				return true
			}
			sel, ok := ce.Fun.(*ast.SelectorExpr)
			if !ok || sel.Sel.Name != "emit" {
				return true
			}
			switch exprStr(ce.Args[0]) {
			case "op.True", "op.False", "op.Nil":
				bad = exprStr(ce.Args[0]) + " at " + p.Pos(ce.Pos())
			}
			return true
		})
		_ = info
		c.Check(bad == "", qual(cp, fd)+"|pushes-no-constant", p.Pos(fd.Pos()),
			fd.Name.Name+" compiles an infix operator"+ife(bad == "", " and emits no instruction that pushes a constant: the value of the expression comes from its operands", " and emits "+bad+": the value of a short-circuit operator is the operand that decided (name || \"anon\" is the name, 0 && x is 0), not a boolean made up in its place"))
	})
	if n < 3 {
		core.Undecidedf("only %d compile functions take an *ast.Infix", n)
	}
	c.Stat("infix_compile_functions", n)
}

// ---------------------------------------------------------------------------
// everyFunctionLiteralGetsItsOwnCode: a function literal is compiled where it
// stands: its names are resolved in the scope it is written in.  The function
// that compiles it makes a new child code object (newChild) before it emits
// anything, on every path.  A path that emits the loading instructions for a
// code object compiled earlier (a memo of literals by their text) gives a
// second literal the name resolutions of the first: the same text under
// another binding of x reads and writes the first x.
func everyFunctionLiteralGetsItsOwnCode(c *core.Ctx) {
	p := c.P
	var makers []*ssa.Function
	var newChild *ssa.Function
	for _, fn := range repoFns(p, "compiler") {
		if fn.Name() == "newChild" && fn.Signature.Recv() != nil {
			newChild = fn
		}
	}
	if newChild == nil {
		core.Undecidedf("Code.newChild not found")
	}
	emits := map[*ssa.Function]bool{}
	for _, fn := range repoFns(p, "compiler") {
		if fn.Name() == "emit" && fn.Signature.Recv() != nil {
			emits[fn] = true
		}
	}
	for i := 0; i < 2; i++ {
		for _, fn := range repoFns(p, "compiler") {
			if emits[fn] {
				continue
			}
			for _, b := range fn.Blocks {
				for _, in := range b.Instrs {
					if ci, ok := in.(ssa.CallInstruction); ok {
						if cal := ci.Common().StaticCallee(); cal != nil && emits[cal] {
							emits[fn] = true
						}
					}
				}
			}
		}
	}
	for _, fn := range repoFns(p, "compiler") {
		if fn.Parent() != nil {
			continue
		}
		for _, b := range fn.Blocks {
			for _, in := range b.Instrs {
				if ci, ok := in.(ssa.CallInstruction); ok && ci.Common().StaticCallee() == newChild {
					makers = append(makers, fn)
				}
			}
		}
	}
	if len(makers) == 0 {
		core.Undecidedf("no compile function calls newChild")
	}
	n := 0
	seen := map[*ssa.Function]bool{}
	for _, fn := range makers {
		if seen[fn] {
			continue
		}
		seen[fn] = true
		var mk ssa.Instruction
		for _, b := range fn.Blocks {
			for _, in := range b.Instrs {
				if ci, ok := in.(ssa.CallInstruction); ok && ci.Common().StaticCallee() == newChild && mk == nil {
					mk = in
				}
			}
		}
		n++
		bad := ""
		for _, b := range fn.Blocks {
			for _, in := range b.Instrs {
				ci, ok := in.(ssa.CallInstruction)
				if !ok || in == mk {
					continue
				}
				cal := ci.Common().StaticCallee()
				if cal == nil || !emits[cal] || cal.Name() == "formatError" {
					continue
				}
				if _, isDefer := in.(*ssa.Defer); isDefer {
					continue
				}
				if !instrDominates(mk, in) {
					bad = "calls " + cal.Name() + ", which emits instructions, at " + p.Pos(in.Pos()) + " on a path that has not made a new code object"
				}
			}
		}
		c.Check(bad == "", core.SSAName(fn)+"|new-code-before-anything-is-emitted", p.Pos(mk.Pos()),
			fn.Name()+" makes a child code object for the function it compiles"+ife(bad == "", " before it emits anything, on every path", "; it "+bad+": a literal that is served from code compiled for another place keeps that place's name resolutions"))
	}
	c.Stat("child_code_makers", n)
}

// ---------------------------------------------------------------------------
// aHostCallLeavesTheResumePointAlone: Run resumes the main code where the last
// Run stopped, at the instruction pointer the VM keeps; a REPL relies on it.
// A Call from the host in between runs a function and puts the pointer back
// (callFunction saves it and restores it).  Nothing that Call does before it
// hands over to callFunction writes the pointer: set to zero there "for a
// clean start", it is zero that callFunction saves and restores, and the next
// Run executes the whole session again from the top.
func aHostCallLeavesTheResumePointAlone(c *core.Ctx) {
	p := c.P
	vmT := vmType(p)
	ipi := fieldIdxByName(vmT, "ip")
	if ipi < 0 {
		core.Undecidedf("VirtualMachine.ip not found")
	}
	fns := repoFns(p, "vm")
	writes := map[*ssa.Function]bool{}
	for _, fn := range fns {
		if len(storesToField(fn, vmT, ipi)) > 0 {
			writes[fn] = true
		}
	}
	for i := 0; i < 2; i++ {
		for _, fn := range fns {
			if writes[fn] {
				continue
			}
			for _, b := range fn.Blocks {
				for _, in := range b.Instrs {
					if ci, ok := in.(ssa.CallInstruction); ok {
						if _, isDefer := in.(*ssa.Defer); isDefer {
							continue
						}
						if cal := ci.Common().StaticCallee(); cal != nil && writes[cal] && cal.Pkg == fn.Pkg {
							writes[fn] = true
						}
					}
				}
			}
		}
	}
	n := 0
	for _, fn := range fns {
		if fn.Object() == nil || !fn.Object().Exported() || fn.Name() != "Call" || fn.Signature.Recv() == nil || core.NamedOf(fn.Signature.Recv().Type()) != vmT {
			continue
		}
		// the hand-over: the call of the function that saves and restores the pointer (it loads ip and stores it back)
		var hand ssa.Instruction
		for _, b := range fn.Blocks {
			for _, in := range b.Instrs {
				if ci, ok := in.(ssa.CallInstruction); ok {
					if cal := ci.Common().StaticCallee(); cal != nil && cal.Name() == "callFunction" {
						hand = in
					}
				}
			}
		}
		if hand == nil {
			continue
		}
		n++
		bad := ""
		for _, b := range fn.Blocks {
			for _, in := range b.Instrs {
				if in == hand || !instrReaches(in, hand) {
					continue
				}
				if st, ok := in.(*ssa.Store); ok {
					if fa, ok := st.Addr.(*ssa.FieldAddr); ok && fa.Field == ipi && core.NamedOf(fa.X.Type()) == vmT {
						bad = "stores to VirtualMachine.ip at " + p.Pos(st.Pos())
					}
				}
				if ci, ok := in.(ssa.CallInstruction); ok {
					if _, isDefer := in.(*ssa.Defer); isDefer {
						continue
					}
					if cal := ci.Common().StaticCallee(); cal != nil && writes[cal] && cal.Name() != "start" {
						bad = "calls " + cal.Name() + ", which writes VirtualMachine.ip, at " + p.Pos(in.Pos())
					}
				}
			}
		}
		c.Check(bad == "", core.SSAName(fn)+"|ip-untouched-before-the-call", p.Pos(hand.Pos()),
			fn.Name()+" hands over to callFunction, which saves the instruction pointer and puts it back"+ife(bad == "", "; nothing before that writes the pointer", "; before that it "+bad+": that value is what is saved and put back, and the next Run starts the main code from there (the whole REPL session runs again)"))
	}
	if n == 0 {
		core.Undecidedf("VirtualMachine.Call / callFunction not found")
	}
}

var _ = sort.Strings
var _ = strings.HasPrefix

// ---------------------------------------------------------------------------
// mapLookupsUseTheMapsOwnKeys: reflect.Value.MapIndex panics when the key is
// not assignable to the map's key type.  A key that comes out of the same map
// (MapKeys, a MapIter) always is; one that is made from something else
// (reflect.ValueOf of a plain string for a map whose key type is a named
// string type) is converted to the key type first.
func mapLookupsUseTheMapsOwnKeys(c *core.Ctx) {
	p := c.P
	n := 0
	for _, fn := range repoFns(p, "object", "builtins") {
		k := 0
		for _, b := range fn.Blocks {
			for _, in := range b.Instrs {
				call, ok := in.(*ssa.Call)
				if !ok || !isReflectCall(&call.Call, "Value", "MapIndex") || len(call.Call.Args) < 2 {
					continue
				}
				n++
				k++
				bad := ""
				for _, o := range core.Origins(call.Call.Args[1]) {
					oc, ok := o.(*ssa.Call)
					if !ok {
						continue
					}
					cal := oc.Call.StaticCallee()
					if cal != nil && cal.Pkg != nil && cal.Pkg.Pkg.Path() == "reflect" && cal.Name() == "ValueOf" {
						bad = "made with reflect.ValueOf at " + p.Pos(oc.Pos()) + " and not converted to the key type"
					}
				}
				c.Check(bad == "", core.SSAName(fn)+"|MapIndex|key-of-the-maps-own-type|"+sprintf("%d", k), p.Pos(call.Pos()),
					fn.Name()+" looks a key up in a Go map with reflect.Value.MapIndex"+ife(bad == "", "; the key comes out of the map itself or is converted", "; the key is "+bad+": for a map whose key type is a named string type (map[Region]int) the lookup panics"))
			}
		}
	}
	if n == 0 {
		c.Pass("object|no-MapIndex", "", "no call of reflect.Value.MapIndex")
	}
	c.Stat("mapindex_calls", n)
}

// ---------------------------------------------------------------------------
// processWideObjectsAreNotConfigured: net/http's DefaultClient (like the other
// Default... variables of the standard library) belongs to the process.  The
// repository does not store into such an object, neither directly nor through
// a field of its own that has been given one: a timeout set on the client of
// one request would otherwise be the timeout of every evaluation in the
// process (and only ever go down).
func processWideObjectsAreNotConfigured(c *core.Ctx) {
	p := c.P
	type fk struct {
		nt  *types.Named
		idx int
	}
	foreignGlobal := func(v ssa.Value) string {
		for _, o := range core.Origins(v) {
			if u, ok := o.(*ssa.UnOp); ok && u.Op == token.MUL {
				if g, ok := u.X.(*ssa.Global); ok && g.Pkg != nil && !core.InRepo(g.Pkg.Pkg) {
					if _, isPtr := u.Type().Underlying().(*types.Pointer); isPtr {
						return g.Pkg.Pkg.Path() + "." + g.Name()
					}
				}
			}
		}
		return ""
	}
	fns := repoFns(p)
	// fields of repository structs that are given a process-wide object
	tainted := map[fk]string{}
	for _, fn := range fns {
		for _, b := range fn.Blocks {
			for _, in := range b.Instrs {
				st, ok := in.(*ssa.Store)
				if !ok {
					continue
				}
				fa, ok := st.Addr.(*ssa.FieldAddr)
				if !ok {
					continue
				}
				if g := foreignGlobal(st.Val); g != "" {
					if nt := core.NamedOf(fa.X.Type()); nt != nil {
						tainted[fk{nt, fa.Field}] = g + " (stored at " + p.Pos(st.Pos()) + ")"
					}
				}
			}
		}
	}
	n, stores := 0, 0
	for _, fn := range fns {
		k := 0
		for _, b := range fn.Blocks {
			for _, in := range b.Instrs {
				st, ok := in.(*ssa.Store)
				if !ok {
					continue
				}
				fa, ok := st.Addr.(*ssa.FieldAddr)
				if !ok {
					continue
				}
				stores++
				what := foreignGlobal(fa.X)
				if what == "" {
					for _, o := range core.Origins(fa.X) {
						if u, ok := o.(*ssa.UnOp); ok && u.Op == token.MUL {
							if fa2, ok := u.X.(*ssa.FieldAddr); ok {
								if nt := core.NamedOf(fa2.X.Type()); nt != nil {
									if g, ok := tainted[fk{nt, fa2.Field}]; ok {
										what = g
									}
								}
							}
						}
					}
				}
				if what == "" {
					continue
				}
				n++
				k++
				c.Check(false, core.SSAName(fn)+"|writes-through-a-process-wide-object|"+sprintf("%d", k), p.Pos(st.Pos()),
					fn.Name()+" stores into "+what+", an object of the standard library that every user of it in the process shares: what one evaluation sets there (the timeout of one request) holds for all of them")
			}
		}
	}
	c.Pass("repo|stores-through-process-wide-objects", "", sprintf("%d field stores examined, %d of them through an object that a package of the standard library exports as a variable", stores, n))
	c.Stat("field_stores_examined", stores)
}

// ---------------------------------------------------------------------------
// nilBeliefsHoldAcrossFunctions: when one caller of a function tests its
// result for nil before using it, the function can return nil, and every
// other caller that reads through the result tests it too (or one of the two
// is wrong).  On the unprotected surface (compiler, parser) the untested use
// is a nil dereference that comes out of Compile or Parse as a Go panic
// (continue outside a loop, after the test was kept for break only).
func nilBeliefsHoldAcrossFunctions(c *core.Ctx) {
	p := c.P
	fns := repoFns(p, "compiler", "parser")
	type site struct {
		fn     *ssa.Function
		call   *ssa.Call
		tested bool
		deref  ssa.Instruction
	}
	byCallee := map[*ssa.Function][]*site{}
	for _, fn := range fns {
		for _, b := range fn.Blocks {
			for _, in := range b.Instrs {
				call, ok := in.(*ssa.Call)
				if !ok {
					continue
				}
				cal := call.Call.StaticCallee()
				if cal == nil || !core.RepoFunc(cal) || cal.Signature.Results().Len() != 1 {
					continue
				}
				if _, isPtr := cal.Signature.Results().At(0).Type().Underlying().(*types.Pointer); !isPtr {
					continue
				}
				// the callee has a path that returns nil
				canNil := false
				for _, cb := range cal.Blocks {
					if r, ok := cb.Instrs[len(cb.Instrs)-1].(*ssa.Return); ok && len(r.Results) == 1 {
						for _, o := range core.Origins(spilledResult(cb, r.Results[0])) {
							if k, ok := o.(*ssa.Const); ok && k.IsNil() {
								canNil = true
							}
						}
					}
				}
				if !canNil || call.Referrers() == nil {
					continue
				}
				s := &site{fn: fn, call: call}
				var guards []*ssa.BasicBlock
				for _, r := range *call.Referrers() {
					if bo, ok := r.(*ssa.BinOp); ok && (bo.Op == token.EQL || bo.Op == token.NEQ) && (isNilValue(bo.X) || isNilValue(bo.Y)) {
						s.tested = true
						if bo.Referrers() != nil {
							for _, r2 := range *bo.Referrers() {
								if iff, ok := r2.(*ssa.If); ok {
									nn := iff.Block().Succs[0]
									if bo.Op == token.EQL {
										nn = iff.Block().Succs[1]
									}
									guards = append(guards, nn)
								}
							}
						}
					}
				}
				for _, r := range *call.Referrers() {
					isDeref := false
					switch x := r.(type) {
					case *ssa.FieldAddr:
						isDeref = x.X == ssa.Value(call)
					case *ssa.UnOp:
						isDeref = x.Op == token.MUL && x.X == ssa.Value(call)
					}
					if !isDeref {
						continue
					}
					covered := false
					for _, g := range guards {
						if g == r.Block() || g.Dominates(r.Block()) {
							covered = true
						}
					}
					if !covered && s.deref == nil {
						s.deref = r
					}
				}
				byCallee[cal] = append(byCallee[cal], s)
			}
		}
	}
	n := 0
	var cals []*ssa.Function
	for cal := range byCallee {
		cals = append(cals, cal)
	}
	sort.Slice(cals, func(i, j int) bool { return core.SSAName(cals[i]) < core.SSAName(cals[j]) })
	for _, cal := range cals {
		sites := byCallee[cal]
		anyTested := false
		for _, s := range sites {
			if s.tested {
				anyTested = true
			}
		}
		if !anyTested {
			continue
		}
		k := map[*ssa.Function]int{}
		for _, s := range sites {
			n++
			k[s.fn]++
			c.Check(s.deref == nil, core.SSAName(s.fn)+"|"+cal.Name()+"|tested-before-use|"+sprintf("%d", k[s.fn]), p.Pos(s.call.Pos()),
				s.fn.Name()+" calls "+cal.Name()+", which can return nil and whose result other callers test"+ife(s.deref == nil, "; this caller reads through the result only where it has tested it (or not at all)", "; this caller reads through the result untested at "+posOfInstr(p, s.deref)+": a nil result is a Go panic in the compiler or parser, which nothing recovers (a continue statement outside a loop)"))
		}
	}
	if n == 0 {
		core.Undecidedf("no nil-returning function of the front end has a caller that tests its result")
	}
	c.Stat("nil_belief_sites", n)
}

func posOfInstr(p *core.Program, in ssa.Instruction) string {
	if in == nil {
		return "-"
	}
	return p.Pos(in.Pos())
}

// ---------------------------------------------------------------------------
// cyclesAreLookedForAtEveryLevelPastTheThreshold: the walk over nested
// containers starts to remember the containers it is in once it is deeper
// than a threshold, and from there on remembers every one of them: the test
// that decides it is an ordering comparison of the depth.  Remembering one
// container in k (depth % k == 0) finds a cycle only after up to k trips
// round it, so the native recursion gets k times deeper than the cycle is
// long, and a long cycle exhausts the stack.
func cyclesAreLookedForAtEveryLevelPastTheThreshold(c *core.Ctx) {
	p := c.P
	op := p.Pkg("object")
	visitT := core.LookupType(op, "visit")
	if visitT == nil {
		core.Undecidedf("object.visit not found")
	}
	di := fieldIdxByName(visitT, "depth")
	n := 0
	for _, m := range core.Methods(visitT) {
		fn := p.SSAFunc(m)
		if fn == nil || fn.Blocks == nil {
			continue
		}
		// methods that look something up in a map of the record (the "is it active" test)
		looks := false
		for _, b := range fn.Blocks {
			for _, in := range b.Instrs {
				if _, ok := in.(*ssa.Lookup); ok {
					looks = true
				}
			}
		}
		if !looks {
			continue
		}
		n++
		bad := ""
		ordered := false
		for _, b := range fn.Blocks {
			for _, in := range b.Instrs {
				bo, ok := in.(*ssa.BinOp)
				if !ok {
					continue
				}
				fromDepth := core.DependsOn(bo, func(w ssa.Value) bool {
					if u, ok := w.(*ssa.UnOp); ok && u.Op == token.MUL {
						if fa, ok := u.X.(*ssa.FieldAddr); ok && fa.Field == di && core.NamedOf(fa.X.Type()) == visitT {
							return true
						}
					}
					return false
				})
				if !fromDepth {
					continue
				}
				switch bo.Op {
				case token.REM, token.AND:
					bad = "takes the depth modulo something at " + p.Pos(bo.Pos())
				case token.GEQ, token.GTR, token.LSS, token.LEQ:
					ordered = true
				}
			}
		}
		ok := bad == "" && ordered
		c.Check(ok, "object.visit."+m.Name()+"|every-level-past-the-threshold", p.Pos(fn.Pos()),
			"visit."+m.Name()+" decides by the depth whether to look the container up among the active ones"+ife(ok, ", with an ordering comparison: past the threshold every level is looked at", ife(bad != "", "; it "+bad+": only one level in so many is looked at, a cycle is found after that many trips round it, and a long cycle exhausts the native stack first", ", but not with an ordering comparison of the depth")))
	}
	if n < 2 {
		core.Undecidedf("only %d methods of visit look containers up", n)
	}
	c.Stat("visit_lookups", n)
}

// ---------------------------------------------------------------------------
// errorConstructorsMakeNewObjects: an error object carries a flag (raised)
// that its users set and clear on the object they hold: try clears it on the
// error it hands to the handler.  The functions of package object that make an
// error object out of a Go error (New...Error) therefore return an object of
// their own and never hand their argument back, changed or not: with the
// stored result of a failed thread handed on as it is, the first try(t.wait)
// clears the flag for every later wait(), which then returns the error as a
// value instead of failing.
func errorConstructorsMakeNewObjects(c *core.Ctx) {
	p := c.P
	op := p.Pkg("object")
	errT := core.MustType(op, "Error")
	n := 0
	for _, fn := range repoFns(p, "object") {
		if fn.Parent() != nil || fn.Signature.Recv() != nil || fn.Object() == nil || !fn.Object().Exported() {
			continue
		}
		res := fn.Signature.Results()
		if res.Len() != 1 {
			continue
		}
		pt, ok := res.At(0).Type().(*types.Pointer)
		if !ok || core.NamedOf(pt.Elem()) != errT {
			continue
		}
		n++
		bad := ""
		for _, b := range fn.Blocks {
			r, ok := b.Instrs[len(b.Instrs)-1].(*ssa.Return)
			if !ok {
				continue
			}
			for _, o := range core.Origins(spilledResult(b, r.Results[0])) {
				switch x := o.(type) {
				case *ssa.Alloc:
				case *ssa.Call:
					// a method that hands its receiver back (WithRaised) called on something that is not new here
					cal := x.Call.StaticCallee()
					if cal != nil && cal.Signature.Recv() != nil && len(x.Call.Args) > 0 && returnsItsReceiver(cal) {
						if !freshObject(p, x.Call.Args[0], 0) {
							bad = "returns what " + cal.Name() + " hands back for a value that was passed in, at " + p.Pos(x.Pos())
						}
					} else if !freshObject(p, x, 0) {
						bad = "returns the result of " + calleeName(&x.Call) + " at " + p.Pos(x.Pos()) + ", which is not a new object on every path"
					}
				case *ssa.Const:
				default:
					bad = "returns a value that it did not make, at " + p.Pos(r.Pos())
				}
			}
		}
		c.Check(bad == "", core.SSAName(fn)+"|returns-an-object-of-its-own", p.Pos(fn.Pos()),
			fn.Name()+" makes an error object"+ife(bad == "", " and returns one of its own on every path", "; it "+bad+": the caller then shares the object with whoever holds the original, and a flag set or cleared on it (try clears raised) is set or cleared for them too (a failed thread's wait() stops failing after one try(t.wait))"))
	}
	if n < 3 {
		core.Undecidedf("only %d exported constructors of *object.Error found", n)
	}
	c.Stat("error_constructors", n)
}

func returnsItsReceiver(fn *ssa.Function) bool {
	if fn.Blocks == nil || len(fn.Params) == 0 {
		return false
	}
	for _, b := range fn.Blocks {
		if r, ok := b.Instrs[len(b.Instrs)-1].(*ssa.Return); ok && len(r.Results) == 1 {
			for _, o := range core.Origins(spilledResult(b, r.Results[0])) {
				if o == ssa.Value(fn.Params[0]) {
					return true
				}
			}
		}
	}
	return false
}

// ---------------------------------------------------------------------------
// argumentsAreNotCutToAFixedSize: copy() copies as many elements as fit.  Where
// the destination is an array of fixed size and the source a slice of
// arguments whose length the caller decides, a test of that length comes
// first: otherwise what does not fit is dropped without a word (the go
// statement and fn.spawn() accept 256 arguments; a copy into [64]Object hands
// the thread the first 64).
func argumentsAreNotCutToAFixedSize(c *core.Ctx) {
	p := c.P
	n := 0
	for _, fn := range repoFns(p, "object", "vm", "builtins") {
		k := 0
		for _, b := range fn.Blocks {
			for _, in := range b.Instrs {
				call, ok := in.(*ssa.Call)
				if !ok {
					continue
				}
				bi, ok := call.Call.Value.(*ssa.Builtin)
				if !ok || bi.Name() != "copy" || len(call.Call.Args) != 2 {
					continue
				}
				// destination: a slice of a fixed-size array
				fixed := int64(-1)
				for _, o := range core.Origins(call.Call.Args[0]) {
					if sl, ok := o.(*ssa.Slice); ok {
						if pt, ok := sl.X.Type().Underlying().(*types.Pointer); ok {
							if at, ok := pt.Elem().Underlying().(*types.Array); ok {
								fixed = at.Len()
								// cut to a length first (tmp[:argc]): the length is what matters then
								if sl.High != nil {
									fixed = -2
									_ = fixed
									fixed = at.Len()
								}
							}
						}
					}
				}
				if fixed < 0 {
					continue
				}
				// source: a parameter (or something derived from one)
				src := call.Call.Args[1]
				fromParam := false
				for _, o := range core.Origins(src) {
					if _, ok := o.(*ssa.Parameter); ok {
						fromParam = true
					}
				}
				if !fromParam {
					continue
				}
				n++
				k++
				tested := false
				// an ordering test of len(src) in front of the copy, one of whose branches does not reach it
				for _, b2 := range fn.Blocks {
					for _, in2 := range b2.Instrs {
						bo, ok := in2.(*ssa.BinOp)
						if !ok {
							continue
						}
						switch bo.Op {
						case token.GTR, token.GEQ, token.LSS, token.LEQ:
						default:
							continue
						}
						isLen := func(v ssa.Value) bool {
							for _, o := range core.Origins(v) {
								if lc, ok := o.(*ssa.Call); ok {
									if lb, ok := lc.Call.Value.(*ssa.Builtin); ok && lb.Name() == "len" && (lc.Call.Args[0] == src || core.SameStorage(lc.Call.Args[0], src)) {
										return true
									}
								}
							}
							return false
						}
						if (isLen(bo.X) || isLen(bo.Y)) && bo.Referrers() != nil {
							for _, r := range *bo.Referrers() {
								if iff, ok := r.(*ssa.If); ok && (iff.Block() == b || iff.Block().Dominates(b)) {
									tested = true
								}
							}
						}
					}
				}
				c.Check(tested, core.SSAName(fn)+"|copy-into-a-fixed-array|"+sprintf("%d", k), p.Pos(call.Pos()),
					fn.Name()+" copies a slice that its caller supplies into an array of "+sprintf("%d", fixed)+" elements"+ife(tested, " after an ordering test of the slice's length", " without testing the slice's length first: copy takes what fits and drops the rest, and the callee runs with fewer arguments than it was given"))
			}
		}
	}
	if n == 0 {
		c.Pass("repo|no-copy-of-arguments-into-a-fixed-array", "", "no copy of a caller-supplied slice into a fixed-size array")
	}
	c.Stat("fixed_array_copies", n)
}

// ---------------------------------------------------------------------------
// optionsKeepWhatTheyAreGiven: an option of package risor records what the host
// passed.  Where the closure replaces the value by nil before it stores it (a
// guard against an interface that holds a nil pointer), the nil is stored
// only on a path on which reflect's IsNil has said yes: a guard that also
// takes the branch for other reasons (any value that is not a pointer) throws
// the host's OS away, and the evaluation runs on the real one.
func optionsKeepWhatTheyAreGiven(c *core.Ctx) {
	p := c.P
	root := p.Pkg("")
	cfgT := core.MustType(root, "Config")
	n := 0
	for _, fn := range repoFns(p, ".") {
		if fn.Parent() == nil || fn.Signature.Params().Len() != 1 {
			continue
		}
		if pt, ok := fn.Signature.Params().At(0).Type().(*types.Pointer); !ok || core.NamedOf(pt.Elem()) != cfgT {
			continue
		}
		k := 0
		for _, b := range fn.Blocks {
			for _, in := range b.Instrs {
				st, ok := in.(*ssa.Store)
				if !ok {
					continue
				}
				fa, ok := st.Addr.(*ssa.FieldAddr)
				if !ok || core.NamedOf(fa.X.Type()) != cfgT {
					continue
				}
				if _, isIface := st.Val.Type().Underlying().(*types.Interface); !isIface {
					continue
				}
				n++
				k++
				bad := ""
				if phi, ok := st.Val.(*ssa.Phi); ok {
					for i, e := range phi.Edges {
						kc, isK := e.(*ssa.Const)
						if !isK || !kc.IsNil() {
							continue
						}
						// the nil comes in over this edge: the edge's block must be behind IsNil() == true
						pred := phi.Block().Preds[i]
						behind := false
						for _, b2 := range fn.Blocks {
							for _, in2 := range b2.Instrs {
								call, ok := in2.(*ssa.Call)
								if !ok || !isReflectCall(&call.Call, "Value", "IsNil") || call.Referrers() == nil {
									continue
								}
								for _, r := range *call.Referrers() {
									if iff, ok := r.(*ssa.If); ok {
										t := iff.Block().Succs[0]
										if len(t.Preds) == 1 && (t == pred || t.Dominates(pred)) {
											behind = true
										}
									}
								}
							}
						}
						if !behind {
							bad = "nil reaches the store over a path that IsNil() has not vouched for (" + p.Pos(st.Pos()) + ")"
						}
					}
				}
				// the parameter is captured by reference when the closure assigns to it: the nil is
				// then a store into the captured variable
				if u, ok := st.Val.(*ssa.UnOp); ok && u.Op == token.MUL {
					if fv, ok := u.X.(*ssa.FreeVar); ok && fv.Referrers() != nil {
						for _, r := range *fv.Referrers() {
							s2, ok := r.(*ssa.Store)
							if !ok || s2.Addr != ssa.Value(fv) {
								continue
							}
							if kc, isK := s2.Val.(*ssa.Const); !isK || !kc.IsNil() {
								continue
							}
							behind := false
							for _, b2 := range fn.Blocks {
								for _, in2 := range b2.Instrs {
									call, ok := in2.(*ssa.Call)
									if !ok || !isReflectCall(&call.Call, "Value", "IsNil") || call.Referrers() == nil {
										continue
									}
									for _, r2 := range *call.Referrers() {
										if iff, ok := r2.(*ssa.If); ok {
											t := iff.Block().Succs[0]
											if len(t.Preds) == 1 && (t == s2.Block() || t.Dominates(s2.Block())) {
												behind = true
											}
										}
									}
								}
							}
							if !behind {
								bad = "nil is assigned to the value at " + p.Pos(s2.Pos()) + " on a path that IsNil() has not vouched for"
							}
						}
					}
				}
				stt := cfgT.Underlying().(*types.Struct)
				c.Check(bad == "", core.SSAName(fn)+"|"+stt.Field(fa.Field).Name()+"|stores-what-it-was-given|"+sprintf("%d", k), p.Pos(st.Pos()),
					"the option "+fn.Parent().Name()+" stores into Config."+stt.Field(fa.Field).Name()+ife(bad == "", " what the host passed (or nil where the value is a nil pointer)", ": "+bad+"; a host value that is not a pointer (an OS implemented by a struct value) is thrown away, and the evaluation uses the default instead"))
			}
		}
	}
	if n < 2 {
		core.Undecidedf("only %d option closures store an interface value into the Config", n)
	}
	c.Stat("interface_option_stores", n)
}

// ---------------------------------------------------------------------------
// mountRelativePathsGoToTheMountOnly: looking a path up in the mount table
// gives the mount and the path inside the mount's source.  That second path
// means something to the source only; the virtual OS does not keep it (as its
// working directory, say): kept, `chdir("/data/sub")` makes the working
// directory "/sub", and every relative path after it is served by whatever
// is mounted at "/".
func mountRelativePathsGoToTheMountOnly(c *core.Ctx) {
	p := c.P
	osp := p.Pkg("os")
	vosT := core.MustType(osp, "VirtualOS")
	var find *ssa.Function
	for _, fn := range repoFns(p, "os") {
		if fn.Name() == "findMount" {
			find = fn
		}
	}
	if find == nil {
		core.Undecidedf("VirtualOS.findMount not found")
	}
	n := 0
	for _, fn := range repoFns(p, "os") {
		k := 0
		for _, b := range fn.Blocks {
			for _, in := range b.Instrs {
				call, ok := in.(*ssa.Call)
				if !ok || call.Call.StaticCallee() != find || call.Referrers() == nil {
					continue
				}
				var rel ssa.Value
				for _, r := range *call.Referrers() {
					if ex, ok := r.(*ssa.Extract); ok && ex.Index == 1 {
						rel = ex
					}
				}
				if rel == nil {
					continue
				}
				n++
				k++
				bad := ""
				for _, b2 := range fn.Blocks {
					for _, in2 := range b2.Instrs {
						st, ok := in2.(*ssa.Store)
						if !ok {
							continue
						}
						fa, ok := st.Addr.(*ssa.FieldAddr)
						if !ok || core.NamedOf(fa.X.Type()) != vosT {
							continue
						}
						if core.DependsOn(st.Val, func(w ssa.Value) bool { return w == rel }) {
							stt := vosT.Underlying().(*types.Struct)
							bad = "stores it (or something made from it) in VirtualOS." + stt.Field(fa.Field).Name() + " at " + p.Pos(st.Pos())
						}
					}
				}
				c.Check(bad == "", core.SSAName(fn)+"|mount-relative-path-not-kept|"+sprintf("%d", k), p.Pos(call.Pos()),
					fn.Name()+" looks a path up in the mount table"+ife(bad == "", " and hands the path inside the mount to the mount's source only", " and "+bad+": that is a path inside one mount, not a path of the virtual file system (after chdir(\"/data/sub\") the working directory is \"/sub\", which belongs to the mount at \"/\")"))
			}
		}
	}
	if n < 5 {
		core.Undecidedf("only %d calls of findMount", n)
	}
	c.Stat("findMount_calls", n)
}

// ---------------------------------------------------------------------------
// theImportRootIsAbsoluteWheneverItCanBe: the local importer makes its root
// absolute when it is built, so that a later change of the working directory
// does not move it.  Once filepath.Abs has succeeded, what is stored as the
// root comes from its result on every path: a further step that can fail
// (resolving symbolic links of a directory that does not exist yet) falls
// back to the absolute path, not to the relative one the host passed.
func theImportRootIsAbsoluteWheneverItCanBe(c *core.Ctx) {
	p := c.P
	n := 0
	for _, fn := range repoFns(p, "importer") {
		var abs *ssa.Call
		for _, b := range fn.Blocks {
			for _, in := range b.Instrs {
				if call, ok := in.(*ssa.Call); ok {
					if cal := call.Call.StaticCallee(); cal != nil && cal.Pkg != nil && cal.Pkg.Pkg.Path() == "path/filepath" && cal.Name() == "Abs" {
						abs = call
					}
				}
			}
		}
		if abs == nil || abs.Referrers() == nil {
			continue
		}
		// the block entered when Abs succeeded
		var okBlock *ssa.BasicBlock
		var absVal ssa.Value
		for _, r := range *abs.Referrers() {
			ex, ok := r.(*ssa.Extract)
			if !ok {
				continue
			}
			if ex.Index == 0 {
				absVal = ex
			}
			if ex.Index == 1 && ex.Referrers() != nil {
				for _, r2 := range *ex.Referrers() {
					if bo, ok := r2.(*ssa.BinOp); ok && bo.Referrers() != nil {
						for _, r3 := range *bo.Referrers() {
							if iff, ok := r3.(*ssa.If); ok {
								if bo.Op == token.EQL {
									okBlock = iff.Block().Succs[0]
								} else if bo.Op == token.NEQ {
									okBlock = iff.Block().Succs[1]
								}
							}
						}
					}
				}
			}
		}
		if okBlock == nil || absVal == nil {
			continue
		}
		// the value that ends up in a struct field of string type (the root): phi edges from blocks after the success
		for _, b := range fn.Blocks {
			for _, in := range b.Instrs {
				st, ok := in.(*ssa.Store)
				if !ok {
					continue
				}
				fa, ok := st.Addr.(*ssa.FieldAddr)
				if !ok {
					continue
				}
				if bt, ok := st.Val.Type().Underlying().(*types.Basic); !ok || bt.Kind() != types.String {
					continue
				}
				if !core.DependsOn(st.Val, func(w ssa.Value) bool { return w == absVal }) {
					continue
				}
				n++
				bad := ""
				var walk func(v ssa.Value, seen map[ssa.Value]bool)
				walk = func(v ssa.Value, seen map[ssa.Value]bool) {
					phi, ok := v.(*ssa.Phi)
					if !ok || seen[v] {
						return
					}
					seen[v] = true
					for i, e := range phi.Edges {
						pred := phi.Block().Preds[i]
						afterOK := pred == okBlock || okBlock.Dominates(pred)
						if _, isPhi := e.(*ssa.Phi); isPhi {
							walk(e, seen)
							continue
						}
						if afterOK && !core.DependsOn(e, func(w ssa.Value) bool { return w == absVal }) {
							bad = "on a path where filepath.Abs has succeeded the stored value does not come from its result (" + p.Pos(phi.Pos()) + ")"
						}
					}
				}
				walk(st.Val, map[ssa.Value]bool{})
				nt := core.NamedOf(fa.X.Type())
				name := "?"
				if nt != nil {
					name = nt.Obj().Name() + "." + fieldNameOf(nt, fa.Field)
				}
				c.Check(bad == "", core.SSAName(fn)+"|"+name+"|absolute-once-Abs-succeeded", p.Pos(st.Pos()),
					fn.Name()+" stores the import root in "+name+ife(bad == "", "; wherever filepath.Abs succeeded, what is stored comes from its result", ": "+bad+"; the root stays relative and follows every later chdir, so imports load files from outside the configured root"))
			}
		}
	}
	if n == 0 {
		core.Undecidedf("no importer constructor stores a path made with filepath.Abs")
	}
	c.Stat("absolute_root_stores", n)
}

// ---------------------------------------------------------------------------
// threeWayResultsAreMinusOneZeroOrOne: Compare answers -1, 0 or 1, and some of
// its callers rely on exactly that (Sort asks `== -1`).  A function that
// implements Compare returns constants, or what another Compare returned:
// never the result of arithmetic (the difference of two lengths orders two
// lists correctly under `<` and leaves them unsorted under sort()).
func threeWayResultsAreMinusOneZeroOrOne(c *core.Ctx) {
	p := c.P
	n := 0
	isCompare := func(fn *ssa.Function) bool {
		name := strings.ToLower(fn.Name())
		if !strings.HasPrefix(name, "compare") {
			return false
		}
		res := fn.Signature.Results()
		if res.Len() == 0 {
			return false
		}
		bt, ok := res.At(0).Type().Underlying().(*types.Basic)
		return ok && bt.Kind() == types.Int
	}
	for _, fn := range repoFns(p, "object") {
		if !isCompare(fn) {
			continue
		}
		n++
		bad := ""
		for _, b := range fn.Blocks {
			r, ok := b.Instrs[len(b.Instrs)-1].(*ssa.Return)
			if !ok || len(r.Results) == 0 {
				continue
			}
			for _, o := range core.Origins(spilledResult(b, r.Results[0])) {
				switch x := o.(type) {
				case *ssa.Const:
					if x.Value != nil {
						if v := x.Int64(); v < -1 || v > 1 {
							bad = "returns the constant " + x.Value.String() + " at " + p.Pos(r.Pos())
						}
					}
				case *ssa.Extract:
					// the result of another comparison
				case *ssa.Call:
				case *ssa.BinOp:
					bad = "returns the result of an arithmetic operation (" + x.Op.String() + ") at " + p.Pos(x.Pos())
				case *ssa.UnOp:
					if x.Op == token.SUB {
						// -result of another comparison
						continue
					}
					bad = "returns a value read from memory at " + p.Pos(x.Pos())
				case *ssa.Convert:
					bad = "returns a converted number at " + p.Pos(x.Pos())
				}
			}
		}
		c.Check(bad == "", core.SSAName(fn)+"|answers-minus-one-zero-or-one", p.Pos(fn.Pos()),
			fn.Name()+" answers a three-way comparison"+ife(bad == "", " with -1, 0, 1 or what another comparison answered", "; it "+bad+": callers that ask for exactly -1 (Sort) take every other negative number for \"not less\", and lists whose lengths differ by two or more stay unsorted"))
	}
	if n < 10 {
		core.Undecidedf("only %d Compare functions found in package object", n)
	}
	c.Stat("compare_functions", n)
}

// ---------------------------------------------------------------------------
// symbolsAreWrittenByTheSymbolTableOnly: Compile takes a rejected input back by
// cutting the symbol tables to the length they had: what the input added goes.
// What the input changed in a symbol that was there before stays.  The compile
// functions therefore do not store into the fields of a Symbol; the symbol
// table's own methods do, on symbols they have just made (or through the one
// setter that the rollback knows).  An import that marks the existing symbol
// of its name constant makes `x = x + 1` fail after a rejected `import m as x`.
func symbolsAreWrittenByTheSymbolTableOnly(c *core.Ctx) {
	p := c.P
	cp := p.Pkg("compiler")
	symT := core.MustType(cp, "Symbol")
	stT := core.MustType(cp, "SymbolTable")
	n := 0
	for _, fn := range repoFns(p, "compiler") {
		k := 0
		for _, b := range fn.Blocks {
			for _, in := range b.Instrs {
				st, ok := in.(*ssa.Store)
				if !ok {
					continue
				}
				fa, ok := st.Addr.(*ssa.FieldAddr)
				if !ok || core.NamedOf(fa.X.Type()) != symT {
					continue
				}
				n++
				root := fn
				for root.Parent() != nil {
					root = root.Parent()
				}
				inTable := root.Signature.Recv() != nil && core.NamedOf(root.Signature.Recv().Type()) == stT
				fresh := isFreshAlloc(fa.X)
				if inTable || fresh {
					continue
				}
				k++
				c.Check(false, core.SSAName(fn)+"|Symbol."+fieldNameOf(symT, fa.Field)+"|written-by-the-symbol-table-only|"+sprintf("%d", k), p.Pos(st.Pos()),
					fn.Name()+" stores into Symbol."+fieldNameOf(symT, fa.Field)+" of a symbol it did not make: the rollback after a rejected input removes what the input added to the tables and cannot undo this (a name marked constant by a rejected import stays constant)")
			}
		}
	}
	if n == 0 {
		core.Undecidedf("no store into a field of compiler.Symbol found")
	}
	c.Pass("compiler|symbol-field-stores", "", sprintf("%d stores into fields of Symbol examined", n))
	c.Stat("symbol_field_stores", n)
}

// ---------------------------------------------------------------------------
// encodedTextIsNotEdited: what an encoder of the standard library returns is a
// document in its format.  The repository does not run a text replacement over
// it: a replacement cannot tell an escape sequence from the same characters
// inside a string value (`<` back to `<` also rewrites the value
// "\\u003c" into the invalid escape `\<`), and the decoder then rejects what
// the encoder wrote.
func encodedTextIsNotEdited(c *core.Ctx) {
	p := c.P
	n, enc := 0, 0
	for _, fn := range repoFns(p) {
		rel := core.RelPkg(fn.Pkg.Pkg)
		if !(rel == "builtins" || rel == "object" || strings.HasPrefix(rel, "modules/")) {
			continue
		}
		k := 0
		for _, b := range fn.Blocks {
			for _, in := range b.Instrs {
				call, ok := in.(*ssa.Call)
				if !ok {
					continue
				}
				cal := call.Call.StaticCallee()
				if cal == nil || cal.Pkg == nil {
					continue
				}
				path := cal.Pkg.Pkg.Path()
				if strings.HasPrefix(path, "encoding/") && strings.HasPrefix(cal.Name(), "Marshal") {
					enc++
				}
				isEdit := (path == "strings" || path == "bytes") && strings.HasPrefix(cal.Name(), "Replace")
				if cal.Signature.Recv() != nil {
					if nt := core.NamedOf(cal.Signature.Recv().Type()); nt != nil && nt.Obj().Pkg() != nil && (nt.Obj().Pkg().Path() == "strings" && nt.Obj().Name() == "Replacer" || nt.Obj().Pkg().Path() == "regexp" && strings.HasPrefix(cal.Name(), "Replace")) {
						isEdit = true
					}
				}
				if !isEdit {
					continue
				}
				from := ""
				for _, a := range call.Call.Args {
					if core.DependsOn(a, func(w ssa.Value) bool {
						if ex, ok := w.(*ssa.Extract); ok {
							if ec, ok := ex.Tuple.(*ssa.Call); ok {
								if c2 := ec.Call.StaticCallee(); c2 != nil && c2.Pkg != nil && strings.HasPrefix(c2.Pkg.Pkg.Path(), "encoding/") && strings.HasPrefix(c2.Name(), "Marshal") {
									return true
								}
							}
						}
						return false
					}) {
						from = "an encoder of the standard library"
					}
				}
				if from == "" {
					continue
				}
				n++
				k++
				c.Check(false, core.SSAName(fn)+"|"+cal.Name()+"|encoded-text-not-edited|"+sprintf("%d", k), p.Pos(call.Pos()),
					fn.Name()+" runs "+cal.Name()+" over the output of "+from+": a text replacement cannot tell the encoder's escapes from the same characters in a value, and what comes out may not decode (json.marshal(.., indent) of a string that contains \\u003c literally)")
			}
		}
	}
	c.Pass("repo|encoder-output", "", sprintf("%d calls of standard encoders, %d of their results edited as text", enc, n))
	c.Stat("standard_encoder_calls", enc)
}

// ---------------------------------------------------------------------------
// readOnlyOperationsDoNotWriteTheContainer: printing, comparing, measuring
// and iterating a list, map or set leaves the object as it was, also for the
// length of the operation: the methods that implement these operations (and
// the closures they defer) store into no field of the receiver.  A flag set
// for the duration of Inspect ("am I being printed already?") is a write by a
// read: two threads that print one list at the same time see "[...]" for a
// list that does not contain itself, and race on the flag.
var readOnlyContainerMethods = map[string]bool{
	"Inspect": true, "String": true, "Equals": true, "Compare": true, "Interface": true, "MarshalJSON": true,
	"Len": true, "Contains": true, "Iter": true, "IsTruthy": true, "Cost": true, "Type": true, "HashKey": true,
	"Keys": true, "Values": true, "GetItem": true, "GetSlice": true, "Value": true, "SortedKeys": true,
	"SortedItems": true, "Enumerate": true, "Count": true, "Index": true, "Copy": true, "Get": true, "GetWithObject": true,
}

func readOnlyOperationsDoNotWriteTheContainer(c *core.Ctx) {
	p := c.P
	op := p.Pkg("object")
	n := 0
	for _, tn := range []string{"List", "Map", "Set"} {
		nt := core.LookupType(op, tn)
		if nt == nil {
			continue
		}
		for _, m := range core.Methods(nt) {
			if !readOnlyContainerMethods[m.Name()] {
				continue
			}
			fn := p.SSAFunc(m)
			if fn == nil || fn.Blocks == nil {
				continue
			}
			n++
			bad := ""
			var walk func(f *ssa.Function, d int)
			walk = func(f *ssa.Function, d int) {
				for _, b := range f.Blocks {
					for _, in := range b.Instrs {
						switch x := in.(type) {
						case *ssa.Store:
							if fa, ok := x.Addr.(*ssa.FieldAddr); ok && core.NamedOf(fa.X.Type()) == nt && !isFreshAlloc(fa.X) {
								bad = "stores into " + tn + "." + fieldNameOf(nt, fa.Field) + " at " + p.Pos(x.Pos())
							}
						case *ssa.MakeClosure:
							if cf, ok := x.Fn.(*ssa.Function); ok && d < 2 {
								walk(cf, d+1)
							}
						}
					}
				}
			}
			walk(fn, 0)
			c.Check(bad == "", "object."+tn+"."+m.Name()+"|does-not-write-the-container", p.Pos(fn.Pos()),
				tn+"."+m.Name()+" reads the container"+ife(bad == "", " and stores into none of its fields", "; it "+bad+": an operation that only reads is a write for as long as it runs, and two threads that do it to one container at the same time get each other's state (string(shared) in two threads yields \"[...]\") and race"))
		}
	}
	if n < 20 {
		core.Undecidedf("only %d read-only methods of List, Map and Set found", n)
	}
	c.Stat("read_only_container_methods", n)
}

// ---------------------------------------------------------------------------
// iteratorsThatAreNotBoundedByDataPollTheContext: a builtin that drains an
// iterator (set(x), keys(x), list(x)) runs as long as the iterator yields.
// An iterator over stored data ends when the data does; one that computes its
// values (the integers up to n) is as long as the script says for free
// (set(1000000000000)), and nothing in the draining loop looks at the
// context.  The Next method of such an iterator does: it uses the context it
// is handed, so that a cancelled evaluation stops producing.
func iteratorsThatAreNotBoundedByDataPollTheContext(c *core.Ctx) {
	p := c.P
	op := p.Pkg("object")
	iterI := core.MustType(op, "Iterator")
	n := 0
	for _, nm := range op.Types.Scope().Names() {
		tn, ok := op.Types.Scope().Lookup(nm).(*types.TypeName)
		if !ok {
			continue
		}
		nt, ok := tn.Type().(*types.Named)
		if !ok {
			continue
		}
		if !types.Implements(types.NewPointer(nt), iterI.Underlying().(*types.Interface)) {
			continue
		}
		stt, ok := nt.Underlying().(*types.Struct)
		if !ok {
			continue
		}
		// iterators that hold no slice, map, channel, string or other object to go through
		holdsData := false
		for i := 0; i < stt.NumFields(); i++ {
			ft := stt.Field(i).Type()
			switch u := ft.Underlying().(type) {
			case *types.Slice, *types.Map, *types.Chan, *types.Interface:
				_ = u
				if stt.Field(i).Name() != "current" {
					holdsData = true
				}
			case *types.Pointer:
				if stt.Field(i).Name() != "current" && !stt.Field(i).Embedded() {
					holdsData = true
				}
			case *types.Basic:
				if u.Kind() == types.String {
					holdsData = true
				}
			}
		}
		if holdsData {
			continue
		}
		next := core.Method(nt, "Next")
		if next == nil {
			continue
		}
		fn := p.SSAFunc(next)
		if fn == nil || fn.Blocks == nil || len(fn.Params) < 2 {
			continue
		}
		n++
		uses := fn.Params[1].Referrers() != nil && len(*fn.Params[1].Referrers()) > 0
		// ... at every step: the look at the context is on the way to every
		// return of a value (a look that is taken only every so often, by a
		// test of the value that counting downwards never passes again, is
		// no look)
		if uses {
			var looks []ssa.Instruction
			for _, r := range *fn.Params[1].Referrers() {
				if in, ok := r.(ssa.Instruction); ok {
					looks = append(looks, in)
				}
			}
			for _, b := range fn.Blocks {
				for _, in := range b.Instrs {
					ret, ok := in.(*ssa.Return)
					if !ok || len(ret.Results) != 2 {
						continue
					}
					if k, isK := spilledResult(b, ret.Results[1]).(*ssa.Const); isK && k.Value != nil && k.Value.ExactString() == "false" {
						continue
					}
					seen := false
					for _, l := range looks {
						if instrDominates(l, ret) {
							seen = true
						}
					}
					if !seen {
						uses = false
					}
				}
			}
		}
		c.Check(uses, "object."+nt.Obj().Name()+".Next|polls-the-context", p.Pos(fn.Pos()),
			nt.Obj().Name()+" goes through no stored data: how long it yields is a number the script chose"+ife(uses, "; its Next looks at the context", "; its Next ignores the context, so a builtin that drains it (set(1000000000000)) runs on after the evaluation was cancelled"))
	}
	if n == 0 {
		core.Undecidedf("no iterator type without stored data found")
	}
	c.Stat("computed_iterators", n)
}

// ---------------------------------------------------------------------------
// goValuesOfScriptObjectsAreNotSilentlyNil: some script objects have no Go
// value (a function, a module): their Interface() is nil.  A converter that
// hands Interface() to Go as the value of an argument or a field looks at the
// result first: a nil for an object that is not nil is refused, not passed on
// (a script function given to a parameter of type interface{} arrived as nil,
// and nothing said so).
func goValuesOfScriptObjectsAreNotSilentlyNil(c *core.Ctx) {
	p := c.P
	to, _ := converterMethods(p)
	objI := core.MustType(p.Pkg("object"), "Object")
	n := 0
	for _, fn := range to {
		for _, b := range fn.Blocks {
			for _, in := range b.Instrs {
				call, ok := in.(*ssa.Call)
				if !ok || !call.Call.IsInvoke() || call.Call.Method.Name() != "Interface" || core.NamedOf(call.Call.Value.Type()) != objI {
					continue
				}
				// returned as the converted value?
				returned := false
				for _, b2 := range fn.Blocks {
					if r, ok := b2.Instrs[len(b2.Instrs)-1].(*ssa.Return); ok && len(r.Results) > 0 {
						for _, o := range core.Origins(spilledResult(b2, r.Results[0])) {
							if o == ssa.Value(call) {
								returned = true
							}
						}
					}
				}
				if !returned {
					continue
				}
				n++
				tested := false
				if call.Referrers() != nil {
					for _, r := range *call.Referrers() {
						if bo, ok := r.(*ssa.BinOp); ok && (bo.Op == token.EQL || bo.Op == token.NEQ) && (isNilValue(bo.X) || isNilValue(bo.Y)) {
							tested = true
						}
					}
				}
				c.Check(tested, core.SSAName(fn)+"|Interface-result-tested-for-nil", p.Pos(call.Pos()),
					core.SSAName(fn)+" hands Go the Interface() of whatever script object it is given"+ife(tested, " after testing the result for nil", " without testing the result: an object that has no Go value (a function, a module) arrives in Go as nil, silently"))
			}
		}
	}
	if n == 0 {
		core.Undecidedf("no converter hands out Object.Interface() as the converted value")
	}
	c.Stat("interface_handouts", n)
}

// ---------------------------------------------------------------------------
// defaultsDoNotReplaceWhatTheHostGave: the globals of a configuration start
// with what the host gave (WithGlobal, WithGlobals) and are filled up with the
// defaults.  The function that enters the defaults looks each name up first
// and leaves a name alone that is there already: entered unconditionally, a
// default of the same name replaces the host's value, which is then neither
// represented in the script nor refused (WithGlobal("len", 5): len is the
// builtin).
func defaultsDoNotReplaceWhatTheHostGave(c *core.Ctx) {
	p := c.P
	root := p.Pkg("")
	cfgT := core.MustType(root, "Config")
	gi := fieldIdxByName(cfgT, "globals")
	if gi < 0 {
		core.Undecidedf("Config.globals not found")
	}
	n := 0
	for _, fn := range repoFns(p, ".") {
		// the function that ranges over the result of DefaultGlobals
		ranges := false
		for _, b := range fn.Blocks {
			for _, in := range b.Instrs {
				if rg, ok := in.(*ssa.Range); ok {
					for _, o := range core.Origins(rg.X) {
						if call, ok := o.(*ssa.Call); ok {
							if cal := call.Call.StaticCallee(); cal != nil && cal.Name() == "DefaultGlobals" {
								ranges = true
							}
						}
					}
				}
			}
		}
		if !ranges {
			continue
		}
		for _, mu := range updatesMapFieldAll(fn, cfgT, gi) {
			n++
			guarded := false
			for _, b := range fn.Blocks {
				for _, in := range b.Instrs {
					lk, ok := in.(*ssa.Lookup)
					if !ok || !lk.CommaOk || lk.Referrers() == nil {
						continue
					}
					sameMap := false
					for _, o := range core.Origins(lk.X) {
						if u, ok := o.(*ssa.UnOp); ok && u.Op == token.MUL {
							if fa, ok := u.X.(*ssa.FieldAddr); ok && fa.Field == gi && core.NamedOf(fa.X.Type()) == cfgT {
								sameMap = true
							}
						}
					}
					if !sameMap || !(lk.Index == mu.Key || core.SameStorage(lk.Index, mu.Key)) {
						continue
					}
					for _, r := range *lk.Referrers() {
						ex, ok := r.(*ssa.Extract)
						if !ok || ex.Index != 1 || ex.Referrers() == nil {
							continue
						}
						for _, r2 := range *ex.Referrers() {
							if iff, ok := r2.(*ssa.If); ok {
								absent := iff.Block().Succs[1]
								if absent == mu.Block() || absent.Dominates(mu.Block()) {
									guarded = true
								}
							}
						}
					}
				}
			}
			c.Check(guarded, core.SSAName(fn)+"|default-entered-only-where-the-name-is-free", p.Pos(mu.Pos()),
				fn.Name()+" enters the default globals into the configuration"+ife(guarded, ", each only where the name is not taken yet", " whatever is there: a value that the host gave under the name of a default global is replaced by the default, silently (WithGlobal(\"len\", 5): the script sees the builtin)"))
		}
	}
	if n == 0 {
		core.Undecidedf("no function enters the result of DefaultGlobals into Config.globals")
	}
}

// ---------------------------------------------------------------------------
// removalsComeLast: a configuration is built up (the defaults, then what the
// host replaces) and then cut down (what the host removes).  In that order a
// removed name is gone whatever was put in its place; the other way round,
// WithGlobalOverride("os", mod) next to WithoutGlobal("os.exit") hands the
// script a module that still has exit.  In Config.init no function that
// enters values into the globals is called after the one that deletes from
// them.
func removalsComeLast(c *core.Ctx) {
	p := c.P
	root := p.Pkg("")
	cfgT := core.MustType(root, "Config")
	gi := fieldIdxByName(cfgT, "globals")
	var initFn *ssa.Function
	for _, fn := range repoFns(p, ".") {
		if fn.Name() == "init" && fn.Signature.Recv() != nil && core.NamedOf(fn.Signature.Recv().Type()) == cfgT {
			initFn = fn
		}
	}
	if initFn == nil || gi < 0 {
		core.Undecidedf("Config.init / Config.globals not found")
	}
	deletes := func(fn *ssa.Function) bool {
		for _, b := range fn.Blocks {
			for _, in := range b.Instrs {
				if ci, ok := in.(ssa.CallInstruction); ok {
					if bi, ok := ci.Common().Value.(*ssa.Builtin); ok && bi.Name() == "delete" {
						for _, o := range core.Origins(ci.Common().Args[0]) {
							if u, ok := o.(*ssa.UnOp); ok && u.Op == token.MUL {
								if fa, ok := u.X.(*ssa.FieldAddr); ok && fa.Field == gi && core.NamedOf(fa.X.Type()) == cfgT {
									return true
								}
							}
						}
					}
				}
			}
		}
		return false
	}
	var removers, adders []ssa.Instruction
	for _, b := range initFn.Blocks {
		for _, in := range b.Instrs {
			ci, ok := in.(ssa.CallInstruction)
			if !ok {
				continue
			}
			cal := ci.Common().StaticCallee()
			if cal == nil || cal.Blocks == nil || !core.RepoFunc(cal) {
				continue
			}
			if deletes(cal) {
				removers = append(removers, in)
			} else if len(updatesMapFieldAll(cal, cfgT, gi)) > 0 {
				adders = append(adders, in)
			}
		}
	}
	if len(removers) == 0 || len(adders) == 0 {
		core.Undecidedf("Config.init calls %d functions that delete from the globals and %d that enter into them", len(removers), len(adders))
	}
	bad := ""
	for _, r := range removers {
		for _, a := range adders {
			if instrReaches(r, a) {
				bad = calleeName(a.(ssa.CallInstruction).Common()) + " (at " + p.Pos(a.Pos()) + ") after " + calleeName(r.(ssa.CallInstruction).Common())
			}
		}
	}
	c.Check(bad == "", "..Config.init|removals-come-last", p.Pos(initFn.Pos()),
		"Config.init builds the globals up and cuts them down"+ife(bad == "", ", in that order", "; it calls "+bad+": what is put in place after the removals is not looked at by them (a module given with WithGlobalOverride keeps the member that WithoutGlobal names)"))
}

// ---------------------------------------------------------------------------
// assignmentTargetsAreEvaluatedBeforeTheValue: in `l[f()] = g()` and
// `h().x = g()` the expressions of the target stand to the left of the value
// and are evaluated first, as they are in the compound forms (`l[f()] += g()`).
// The functions that compile an assignment to an item or an attribute compile
// the value only after they have compiled the target's expressions; the
// instruction that stores wants the value deepest on the stack, and the
// operands are swapped into that order after all of them were computed.
func assignmentTargetsAreEvaluatedBeforeTheValue(c *core.Ctx) {
	p := c.P
	cp := p.Pkg("compiler")
	compT := core.MustType(cp, "Compiler")
	disp := p.SSAFunc(core.Method(compT, "compile"))
	if disp == nil {
		core.Undecidedf("Compiler.compile not found")
	}
	n := 0
	for _, fn := range repoFns(p, "compiler") {
		if fn.Parent() != nil || len(fn.Params) < 2 {
			continue
		}
		pt, ok := fn.Params[1].Type().(*types.Pointer)
		if !ok {
			continue
		}
		nt := core.NamedOf(pt.Elem())
		if nt == nil || nt.Obj().Pkg() == nil || core.RelPkg(nt.Obj().Pkg()) != "ast" || (nt.Obj().Name() != "Assign" && nt.Obj().Name() != "SetAttr") {
			continue
		}
		var values, targets []ssa.Instruction
		for _, b := range fn.Blocks {
			for _, in := range b.Instrs {
				ci, ok := in.(ssa.CallInstruction)
				if !ok || ci.Common().StaticCallee() != disp || len(ci.Common().Args) < 2 {
					continue
				}
				for _, o := range originsThroughInterfaces(ci.Common().Args[1]) {
					call, ok := o.(*ssa.Call)
					if !ok {
						continue
					}
					name := ""
					if call.Call.IsInvoke() {
						name = call.Call.Method.Name()
					} else if cal := call.Call.StaticCallee(); cal != nil && cal.Signature.Recv() != nil {
						name = cal.Name()
					}
					switch name {
					case "Value":
						values = append(values, in)
					case "Left", "Index", "Object":
						targets = append(targets, in)
					}
				}
			}
		}
		if len(values) == 0 || len(targets) == 0 {
			continue
		}
		for i, v := range values {
			n++
			ok := false
			for _, t := range targets {
				if t != v && instrDominates(t, v) {
					ok = true
				}
			}
			c.Check(ok, core.SSAName(fn)+"|target-before-value|"+sprintf("%d", i+1), p.Pos(v.Pos()),
				fn.Name()+" compiles the value of the assignment"+ife(ok, " after the expressions of its target", " before any expression of its target: `l[f()] = g()` calls g first and f second, the other way round from `l[f()] += g()` and from the order in which they are written"))
		}
	}
	if n < 3 {
		core.Undecidedf("only %d value sites in functions that compile assignments to items and attributes", n)
	}
	c.Stat("assignment_value_sites", n)
}
