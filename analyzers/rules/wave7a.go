package rules

import (
	"go/token"
	"go/types"

	"golang.org/x/tools/go/ssa"

	"risorcheck/core"
)

// ---------------------------------------------------------------------------
// savedIPBelongsToLoadedCode: the VM's saved instruction pointer is an offset
// into whatever code ran last.  An entry point that resumes at the saved ip
// (Run, for REPL-style appended code) does so only on the branch where the
// code it is about to run is still in the loaded-code table; after a RunCode
// of other code the saved ip is an offset into that other code, and resuming
// there starts the main code in the middle of an instruction or past its end.
func savedIPBelongsToLoadedCode(c *core.Ctx) {
	p := c.P
	vmp := p.Pkg("vm")
	vmT := core.MustType(vmp, "VirtualMachine")
	ipI, lcI := fieldIdxByName(vmT, "ip"), fieldIdxByName(vmT, "loadedCode")
	act := core.Method(vmT, "activateCode")
	if ipI < 0 || lcI < 0 || act == nil {
		core.Undecidedf("VirtualMachine.ip / loadedCode / activateCode not found")
	}
	actF := p.SSAFunc(act)
	n := 0
	for _, fn := range repoFns(p, "vm") {
		if fn.Signature.Recv() == nil || core.NamedOf(fn.Signature.Recv().Type()) != vmT {
			continue
		}
		for _, b := range fn.Blocks {
			for _, in := range b.Instrs {
				call, ok := in.(*ssa.Call)
				if !ok || call.Call.StaticCallee() != actF {
					continue
				}
				// the ip argument: the second int parameter (fp, ip, code)
				var ipArg ssa.Value
				ints := 0
				for _, a := range call.Call.Args[1:] {
					if bt, ok := a.Type().Underlying().(*types.Basic); ok && bt.Kind() == types.Int {
						ints++
						if ints == 2 {
							ipArg = a
						}
					}
				}
				if ipArg == nil {
					continue
				}
				// saved-ip edges
				var savedEdges []*ssa.BasicBlock
				direct := false
				var visit func(v ssa.Value, seen map[ssa.Value]bool)
				visit = func(v ssa.Value, seen map[ssa.Value]bool) {
					if seen[v] {
						return
					}
					seen[v] = true
					if _, ok := loadOfField(v, vmT, ipI); ok {
						direct = true
						return
					}
					if phi, ok := v.(*ssa.Phi); ok {
						for i, e := range phi.Edges {
							if _, ok := loadOfField(e, vmT, ipI); ok {
								savedEdges = append(savedEdges, phi.Block().Preds[i])
							} else {
								visit(e, seen)
							}
						}
					}
				}
				visit(ipArg, map[ssa.Value]bool{})
				if !direct && len(savedEdges) == 0 {
					continue
				}
				// only entry points that take the code to run as a parameter are judged
				var codeP *ssa.Parameter
				for _, prm := range fn.Params {
					if core.IsNamed(prm.Type(), pkgPath("compiler"), "Code") {
						codeP = prm
					}
				}
				if codeP == nil {
					continue
				}
				n++
				// blocks on which "codeP is in loadedCode" is known to hold
				var present []*ssa.BasicBlock
				for _, b2 := range fn.Blocks {
					for _, i2 := range b2.Instrs {
						lk, ok := i2.(*ssa.Lookup)
						if !ok || !lk.CommaOk || lk.Index != ssa.Value(codeP) {
							continue
						}
						if _, ok := loadOfField(lk.X, vmT, lcI); !ok || lk.Referrers() == nil {
							continue
						}
						for _, r := range *lk.Referrers() {
							ex, ok := r.(*ssa.Extract)
							if !ok || ex.Index != 1 || ex.Referrers() == nil {
								continue
							}
							for _, r2 := range *ex.Referrers() {
								if iff, ok := r2.(*ssa.If); ok {
									present = append(present, iff.Block().Succs[0])
								}
							}
						}
					}
				}
				covered := !direct
				for _, e := range savedEdges {
					okE := false
					for _, pb := range present {
						if pb == e || pb.Dominates(e) {
							okE = true
						}
					}
					if !okE {
						covered = false
					}
				}
				c.Check(covered, core.SSAName(fn)+"|saved-ip-only-for-loaded-code", p.Pos(call.Pos()),
					fn.Name()+" resumes at the saved instruction pointer only on the branch where the code to run is still loaded"+ifs(!covered, ": the saved ip is also used when other code ran last (it is then an offset into that other code)"))
			}
		}
	}
	c.Stat("resuming_entry_points", n)
	_ = token.NoPos
}

// ---------------------------------------------------------------------------
// scriptStringsAreJSONStringsOnlyWhenUTF8: encoding/json replaces every
// invalid UTF-8 byte of a Go string with U+FFFD.  A string constant of the
// program (arbitrary bytes: "\377") is therefore written as a JSON string only
// on a branch where utf8.ValidString holds; otherwise the reloaded program
// computes with different strings ("\377" == "\376" becomes true).
func scriptStringsAreJSONStringsOnlyWhenUTF8(c *core.Ctx) {
	p := c.P
	n := 0
	for _, fn := range repoFns(p, "compiler") {
		marshals := false
		for _, b := range fn.Blocks {
			for _, in := range b.Instrs {
				if ci, ok := in.(ssa.CallInstruction); ok {
					if cal := ci.Common().StaticCallee(); cal != nil && cal.Pkg != nil && cal.Pkg.Pkg.Path() == "encoding/json" && cal.Name() == "Marshal" {
						marshals = true
					}
				}
			}
		}
		if !marshals {
			continue
		}
		for _, b := range fn.Blocks {
			for _, in := range b.Instrs {
				ta, ok := in.(*ssa.TypeAssert)
				if !ok || !core.IsStringType(ta.AssertedType) {
					continue
				}
				// the asserted string (directly, or the first component of a comma-ok assertion)
				vals := []ssa.Value{ta}
				if ta.CommaOk && ta.Referrers() != nil {
					vals = nil
					for _, r := range *ta.Referrers() {
						if ex, ok := r.(*ssa.Extract); ok && ex.Index == 0 {
							vals = append(vals, ex)
						}
					}
				}
				for _, v := range vals {
					if v.Referrers() == nil {
						continue
					}
					for _, r := range *v.Referrers() {
						st, ok := r.(*ssa.Store)
						if !ok || st.Val != v {
							continue
						}
						if _, isField := st.Addr.(*ssa.FieldAddr); !isField {
							continue
						}
						n++
						guarded := false
						for _, b2 := range fn.Blocks {
							if len(b2.Instrs) == 0 {
								continue
							}
							iff, ok := b2.Instrs[len(b2.Instrs)-1].(*ssa.If)
							if !ok {
								continue
							}
							cond, truth := iff.Cond, true
							if u, ok := cond.(*ssa.UnOp); ok && u.Op == token.NOT {
								cond, truth = u.X, false
							}
							call, ok := cond.(*ssa.Call)
							if !ok {
								continue
							}
							cal := call.Call.StaticCallee()
							if cal == nil || cal.Pkg == nil || cal.Pkg.Pkg.Path() != "unicode/utf8" || cal.Name() != "ValidString" || len(call.Call.Args) != 1 || call.Call.Args[0] != v {
								continue
							}
							succ := b2.Succs[0]
							if !truth {
								succ = b2.Succs[1]
							}
							if succ == st.Block() || succ.Dominates(st.Block()) {
								guarded = true
							}
						}
						c.Check(guarded, core.SSAName(fn)+"|json-string-only-when-valid-utf8", p.Pos(st.Pos()),
							fn.Name()+" writes a string constant of the program as a JSON string only where utf8.ValidString holds (encoding/json replaces invalid bytes with U+FFFD)")
					}
				}
			}
		}
	}
	c.Stat("string_constants_to_json", n)
}

// ---------------------------------------------------------------------------
// spStaysInRange: the operand stack is a fixed array and overflow is detected by
// Go's bounds check.  The stack pointer is moved up only after the new slot has
// been written (the bounds check passed): a push that increments first leaves
// sp == len(stack) behind when it panics, and everything that cleans up after
// the failed run (unwinding, clearing, TOS) then indexes outside the array - the
// VM fails every later invocation.
func spStaysInRange(c *core.Ctx) {
	p := c.P
	vmp := p.Pkg("vm")
	vmT := core.MustType(vmp, "VirtualMachine")
	spI, stI := fieldIdxByName(vmT, "sp"), fieldIdxByName(vmT, "stack")
	if spI < 0 || stI < 0 {
		core.Undecidedf("VirtualMachine.sp / stack not found")
	}
	isSPplus := func(v ssa.Value) (int64, bool) {
		bo, ok := v.(*ssa.BinOp)
		if !ok || bo.Op != token.ADD {
			return 0, false
		}
		if _, ok := loadOfField(bo.X, vmT, spI); !ok {
			return 0, false
		}
		k, ok := bo.Y.(*ssa.Const)
		if !ok || k.Value == nil {
			return 0, false
		}
		return k.Int64(), true
	}
	n := 0
	for _, fn := range repoFns(p, "vm") {
		for _, b := range fn.Blocks {
			for _, in := range b.Instrs {
				st, ok := in.(*ssa.Store)
				if !ok {
					continue
				}
				fa, ok := st.Addr.(*ssa.FieldAddr)
				if !ok || fa.Field != spI || core.NamedOf(fa.X.Type()) != vmT {
					continue
				}
				k, up := isSPplus(st.Val)
				if !up || k <= 0 {
					continue
				}
				n++
				checked := false
				for _, b2 := range fn.Blocks {
					for _, i2 := range b2.Instrs {
						ia, ok := i2.(*ssa.IndexAddr)
						if !ok {
							continue
						}
						sfa, ok := ia.X.(*ssa.FieldAddr)
						if !ok || sfa.Field != stI || core.NamedOf(sfa.X.Type()) != vmT {
							continue
						}
						if k2, ok := isSPplus(ia.Index); ok && k2 >= k && instrDominates(i2, in) {
							checked = true
						}
					}
				}
				c.Check(checked, core.SSAName(fn)+"|sp-advanced-after-the-slot-was-written", p.Pos(st.Pos()),
					fn.Name()+" moves the stack pointer up only after stack[sp+"+itoa(int(k))+"] has been indexed (the bounds check passed)"+ifs(!checked, ": incrementing first leaves sp outside the array when the stack is full, and the clean-up after the failed run indexes with it"))
			}
		}
	}
	c.Stat("sp_increments", n)
}
