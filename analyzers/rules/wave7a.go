package rules

import (
	"go/token"
	"go/types"
	"strings"

	"golang.org/x/tools/go/ssa"

	"risorcheck/core"
)

// ---------------------------------------------------------------------------
// savedIPBelongsToLoadedCode: the VM's saved instruction pointer is an offset
// into whatever code ran last.  An entry point that resumes at the saved ip
// (Run, for REPL-style appended code) does so only on the branch where the
// code it is about to run is still in the loaded-code table; after a RunCode
// of other code the saved ip is an offset into that other code, and resuming
// there starts the main code in the middle of an instruction or past its end.
func savedIPBelongsToLoadedCode(c *core.Ctx) {
	p := c.P
	vmp := p.Pkg("vm")
	vmT := core.MustType(vmp, "VirtualMachine")
	ipI, lcI := fieldIdxByName(vmT, "ip"), fieldIdxByName(vmT, "loadedCode")
	act := core.Method(vmT, "activateCode")
	if ipI < 0 || lcI < 0 || act == nil {
		core.Undecidedf("VirtualMachine.ip / loadedCode / activateCode not found")
	}
	actF := p.SSAFunc(act)
	n := 0
	for _, fn := range repoFns(p, "vm") {
		if fn.Signature.Recv() == nil || core.NamedOf(fn.Signature.Recv().Type()) != vmT {
			continue
		}
		for _, b := range fn.Blocks {
			for _, in := range b.Instrs {
				call, ok := in.(*ssa.Call)
				if !ok || call.Call.StaticCallee() != actF {
					continue
				}
				// the ip argument: the second int parameter (fp, ip, code)
				var ipArg ssa.Value
				ints := 0
				for _, a := range call.Call.Args[1:] {
					if bt, ok := a.Type().Underlying().(*types.Basic); ok && bt.Kind() == types.Int {
						ints++
						if ints == 2 {
							ipArg = a
						}
					}
				}
				if ipArg == nil {
					continue
				}
				// saved-ip edges
				var savedEdges []*ssa.BasicBlock
				direct := false
				var visit func(v ssa.Value, seen map[ssa.Value]bool)
				visit = func(v ssa.Value, seen map[ssa.Value]bool) {
					if seen[v] {
						return
					}
					seen[v] = true
					if _, ok := loadOfField(v, vmT, ipI); ok {
						direct = true
						return
					}
					if phi, ok := v.(*ssa.Phi); ok {
						for i, e := range phi.Edges {
							if _, ok := loadOfField(e, vmT, ipI); ok {
								savedEdges = append(savedEdges, phi.Block().Preds[i])
							} else {
								visit(e, seen)
							}
						}
					}
				}
				visit(ipArg, map[ssa.Value]bool{})
				if !direct && len(savedEdges) == 0 {
					continue
				}
				// only entry points that take the code to run as a parameter are judged
				var codeP *ssa.Parameter
				for _, prm := range fn.Params {
					if core.IsNamed(prm.Type(), pkgPath("compiler"), "Code") {
						codeP = prm
					}
				}
				if codeP == nil {
					continue
				}
				n++
				// blocks on which "codeP is in loadedCode" is known to hold
				var present []*ssa.BasicBlock
				for _, b2 := range fn.Blocks {
					for _, i2 := range b2.Instrs {
						lk, ok := i2.(*ssa.Lookup)
						if !ok || !lk.CommaOk || lk.Index != ssa.Value(codeP) {
							continue
						}
						if _, ok := loadOfField(lk.X, vmT, lcI); !ok || lk.Referrers() == nil {
							continue
						}
						for _, r := range *lk.Referrers() {
							ex, ok := r.(*ssa.Extract)
							if !ok || ex.Index != 1 || ex.Referrers() == nil {
								continue
							}
							for _, r2 := range *ex.Referrers() {
								if iff, ok := r2.(*ssa.If); ok {
									present = append(present, iff.Block().Succs[0])
								}
							}
						}
					}
				}
				// ... or nothing has run on the VM yet (no active code): the ip is the one the host set
				acI := fieldIdxByName(vmT, "activeCode")
				type edge struct{ from, to *ssa.BasicBlock }
				accepted := map[edge]bool{}
				for _, pb := range present {
					for _, pr := range pb.Preds {
						accepted[edge{pr, pb}] = true
					}
				}
				for _, b2 := range fn.Blocks {
					if len(b2.Instrs) == 0 {
						continue
					}
					iff, ok := b2.Instrs[len(b2.Instrs)-1].(*ssa.If)
					if !ok {
						continue
					}
					bo, ok := iff.Cond.(*ssa.BinOp)
					if !ok || (bo.Op != token.EQL && bo.Op != token.NEQ) {
						continue
					}
					var other ssa.Value
					if isNilValue(bo.Y) {
						other = bo.X
					} else if isNilValue(bo.X) {
						other = bo.Y
					}
					if other == nil || acI < 0 {
						continue
					}
					if _, ok := loadOfField(other, vmT, acI); !ok {
						continue
					}
					if bo.Op == token.EQL {
						accepted[edge{b2, b2.Succs[0]}] = true
					} else {
						accepted[edge{b2, b2.Succs[1]}] = true
					}
				}
				var justified func(b *ssa.BasicBlock, depth int) bool
				justified = func(b *ssa.BasicBlock, depth int) bool {
					for _, pb := range present {
						if pb == b || pb.Dominates(b) {
							return true
						}
					}
					if depth > 3 || len(b.Preds) == 0 {
						return false
					}
					for _, pr := range b.Preds {
						if accepted[edge{pr, b}] {
							continue
						}
						if !justified(pr, depth+1) {
							return false
						}
					}
					return true
				}
				covered := !direct
				for _, e := range savedEdges {
					if !justified(e, 0) {
						covered = false
					}
				}
				// the converse: an ip the host set before anything ran (WithInstructionOffset, SetIP) is honoured
				hostIP := direct
				for _, e := range savedEdges {
					for _, pr := range e.Preds {
						if accepted[edge{pr, e}] {
							if iff, ok := pr.Instrs[len(pr.Instrs)-1].(*ssa.If); ok {
								if bo, ok := iff.Cond.(*ssa.BinOp); ok {
									for _, side := range []ssa.Value{bo.X, bo.Y} {
										if _, ok := loadOfField(side, vmT, acI); ok {
											hostIP = true
										}
									}
								}
							}
						}
					}
				}
				c.Check(hostIP, core.SSAName(fn)+"|host-set-ip-honoured-before-the-first-run", p.Pos(call.Pos()),
					fn.Name()+" starts at the ip the host set (WithInstructionOffset, SetIP) when nothing has run on the VM yet"+ifs(!hostIP, ": the saved ip is used only for loaded code, so an offset given to a new VM is ignored"))
				c.Check(covered, core.SSAName(fn)+"|saved-ip-only-for-loaded-code", p.Pos(call.Pos()),
					fn.Name()+" resumes at the saved instruction pointer only where the code to run is still loaded, or nothing has run yet"+ifs(!covered, ": the saved ip is also used when other code ran last (it is then an offset into that other code)"))
			}
		}
	}
	c.Stat("resuming_entry_points", n)
	_ = token.NoPos
}

// ---------------------------------------------------------------------------
// scriptStringsAreJSONStringsOnlyWhenUTF8: encoding/json replaces every
// invalid UTF-8 byte of a Go string with U+FFFD.  A string constant of the
// program (arbitrary bytes: "\377") is therefore written as a JSON string only
// on a branch where utf8.ValidString holds; otherwise the reloaded program
// computes with different strings ("\377" == "\376" becomes true).
func scriptStringsAreJSONStringsOnlyWhenUTF8(c *core.Ctx) {
	p := c.P
	n := 0
	for _, fn := range repoFns(p, "compiler") {
		marshals := false
		for _, b := range fn.Blocks {
			for _, in := range b.Instrs {
				if ci, ok := in.(ssa.CallInstruction); ok {
					if cal := ci.Common().StaticCallee(); cal != nil && cal.Pkg != nil && cal.Pkg.Pkg.Path() == "encoding/json" && cal.Name() == "Marshal" {
						marshals = true
					}
				}
			}
		}
		if !marshals {
			continue
		}
		for _, b := range fn.Blocks {
			for _, in := range b.Instrs {
				ta, ok := in.(*ssa.TypeAssert)
				if !ok || !core.IsStringType(ta.AssertedType) {
					continue
				}
				// the asserted string (directly, or the first component of a comma-ok assertion)
				vals := []ssa.Value{ta}
				if ta.CommaOk && ta.Referrers() != nil {
					vals = nil
					for _, r := range *ta.Referrers() {
						if ex, ok := r.(*ssa.Extract); ok && ex.Index == 0 {
							vals = append(vals, ex)
						}
					}
				}
				for _, v := range vals {
					if v.Referrers() == nil {
						continue
					}
					for _, r := range *v.Referrers() {
						st, ok := r.(*ssa.Store)
						if !ok || st.Val != v {
							continue
						}
						if _, isField := st.Addr.(*ssa.FieldAddr); !isField {
							continue
						}
						n++
						guarded := false
						for _, b2 := range fn.Blocks {
							if len(b2.Instrs) == 0 {
								continue
							}
							iff, ok := b2.Instrs[len(b2.Instrs)-1].(*ssa.If)
							if !ok {
								continue
							}
							cond, truth := iff.Cond, true
							if u, ok := cond.(*ssa.UnOp); ok && u.Op == token.NOT {
								cond, truth = u.X, false
							}
							call, ok := cond.(*ssa.Call)
							if !ok {
								continue
							}
							cal := call.Call.StaticCallee()
							if cal == nil || cal.Pkg == nil || cal.Pkg.Pkg.Path() != "unicode/utf8" || cal.Name() != "ValidString" || len(call.Call.Args) != 1 || call.Call.Args[0] != v {
								continue
							}
							succ := b2.Succs[0]
							if !truth {
								succ = b2.Succs[1]
							}
							if succ == st.Block() || succ.Dominates(st.Block()) {
								guarded = true
							}
						}
						c.Check(guarded, core.SSAName(fn)+"|json-string-only-when-valid-utf8", p.Pos(st.Pos()),
							fn.Name()+" writes a string constant of the program as a JSON string only where utf8.ValidString holds (encoding/json replaces invalid bytes with U+FFFD)")
					}
				}
			}
		}
	}
	c.Stat("string_constants_to_json", n)
}

// ---------------------------------------------------------------------------
// spStaysInRange: the operand stack is a fixed array and overflow is detected by
// Go's bounds check.  The stack pointer is moved up only after the new slot has
// been written (the bounds check passed): a push that increments first leaves
// sp == len(stack) behind when it panics, and everything that cleans up after
// the failed run (unwinding, clearing, TOS) then indexes outside the array - the
// VM fails every later invocation.
func spStaysInRange(c *core.Ctx) {
	p := c.P
	vmp := p.Pkg("vm")
	vmT := core.MustType(vmp, "VirtualMachine")
	spI, stI := fieldIdxByName(vmT, "sp"), fieldIdxByName(vmT, "stack")
	if spI < 0 || stI < 0 {
		core.Undecidedf("VirtualMachine.sp / stack not found")
	}
	isSPplus := func(v ssa.Value) (int64, bool) {
		bo, ok := v.(*ssa.BinOp)
		if !ok || bo.Op != token.ADD {
			return 0, false
		}
		if _, ok := loadOfField(bo.X, vmT, spI); !ok {
			return 0, false
		}
		k, ok := bo.Y.(*ssa.Const)
		if !ok || k.Value == nil {
			return 0, false
		}
		return k.Int64(), true
	}
	n := 0
	for _, fn := range repoFns(p, "vm") {
		for _, b := range fn.Blocks {
			for _, in := range b.Instrs {
				st, ok := in.(*ssa.Store)
				if !ok {
					continue
				}
				fa, ok := st.Addr.(*ssa.FieldAddr)
				if !ok || fa.Field != spI || core.NamedOf(fa.X.Type()) != vmT {
					continue
				}
				k, up := isSPplus(st.Val)
				if !up || k <= 0 {
					continue
				}
				n++
				checked := false
				for _, b2 := range fn.Blocks {
					for _, i2 := range b2.Instrs {
						ia, ok := i2.(*ssa.IndexAddr)
						if !ok {
							continue
						}
						sfa, ok := ia.X.(*ssa.FieldAddr)
						if !ok || sfa.Field != stI || core.NamedOf(sfa.X.Type()) != vmT {
							continue
						}
						if k2, ok := isSPplus(ia.Index); ok && k2 >= k && instrDominates(i2, in) {
							checked = true
						}
					}
				}
				c.Check(checked, core.SSAName(fn)+"|sp-advanced-after-the-slot-was-written", p.Pos(st.Pos()),
					fn.Name()+" moves the stack pointer up only after stack[sp+"+itoa(int(k))+"] has been indexed (the bounds check passed)"+ifs(!checked, ": incrementing first leaves sp outside the array when the stack is full, and the clean-up after the failed run indexes with it"))
			}
		}
	}
	c.Stat("sp_increments", n)
}

// ---------------------------------------------------------------------------
// initErrorReachesTheCaller: Config.init() reports an invalid configuration (an
// override that cannot be converted).  The entry points of the root package that
// build a Config and run code test that error before they run anything: a
// dropped error means the script runs with the globals the host asked to replace.
func initErrorReachesTheCaller(c *core.Ctx) {
	p := c.P
	root := p.Pkg("")
	cfgT := core.MustType(root, "Config")
	initM := core.Method(cfgT, "init")
	newCfg := core.LookupFunc(root, "NewConfig")
	if initM == nil || newCfg == nil {
		core.Undecidedf("Config.init / NewConfig not found")
	}
	initF, newF := p.SSAFunc(initM), p.SSAFunc(newCfg)
	n := 0
	// helpers that make the configuration for an entry point: they call
	// NewConfig and return the *Config with an error
	builders := map[*ssa.Function]bool{}
	for _, fn := range repoFns(p, "") {
		if fn.Parent() != nil || fn.Signature.Recv() != nil || fn == newF {
			continue
		}
		res := fn.Signature.Results()
		if res.Len() != 2 || core.NamedOf(res.At(0).Type()) != cfgT || !isErrorType(res.At(1).Type()) {
			continue
		}
		calls := false
		for _, b := range fn.Blocks {
			for _, in := range b.Instrs {
				if ci, ok := in.(ssa.CallInstruction); ok && ci.Common().StaticCallee() == newF {
					calls = true
				}
			}
		}
		if !calls {
			continue
		}
		builders[fn] = true
		n++
		bad := ""
		for _, b := range fn.Blocks {
			for _, in := range b.Instrs {
				ret, ok := in.(*ssa.Return)
				if !ok || len(ret.Results) != 2 {
					continue
				}
				if k, isK := spilledResult(b, ret.Results[1]).(*ssa.Const); !isK || !k.IsNil() {
					continue
				}
				tested := false
				for _, b2 := range fn.Blocks {
					for _, in2 := range b2.Instrs {
						if call, ok := in2.(*ssa.Call); ok && call.Call.StaticCallee() == initF && call.Referrers() != nil && core.NilCheckedErrDominates(call, b) {
							tested = true
						}
					}
				}
				if !tested {
					bad = p.Pos(ret.Pos())
				}
			}
		}
		c.Check(bad == "", core.SSAName(fn)+"|init-error-tested-before-success", p.Pos(fn.Pos()),
			fn.Name()+" makes the configuration for an entry point and reports success only after it has tested the error of Config.init()"+ifs(bad != "", ": the return at "+bad+" is reached without that test (NewConfig has run init already and dropped its error): an invalid override is dropped silently and the script gets the object the host asked to replace"))
	}
	for _, fn := range repoFns(p, "") {
		if fn.Parent() != nil || fn.Signature.Recv() != nil || builders[fn] {
			continue
		}
		var runs []ssa.Instruction
		builds := false
		for _, b := range fn.Blocks {
			for _, in := range b.Instrs {
				ci, ok := in.(ssa.CallInstruction)
				if !ok {
					continue
				}
				cal := ci.Common().StaticCallee()
				if cal == nil {
					continue
				}
				if cal == newF || builders[cal] {
					builds = true
				}
				if cal.Pkg != nil && core.RelPkg(cal.Pkg.Pkg) == "vm" && (strings.HasPrefix(cal.Name(), "Run") || cal.Name() == "Call") {
					runs = append(runs, in)
				}
			}
		}
		if !builds || len(runs) == 0 {
			continue
		}
		n++
		// a call of init (or of a helper that makes the configuration) whose error is compared with nil and whose success branch dominates every run
		okAll := true
		for _, r := range runs {
			okr := false
			for _, b := range fn.Blocks {
				for _, in := range b.Instrs {
					call, ok := in.(*ssa.Call)
					if !ok || call.Referrers() == nil {
						continue
					}
					if call.Call.StaticCallee() == initF && core.NilCheckedErrDominates(call, r.Block()) {
						okr = true
					}
					if builders[call.Call.StaticCallee()] {
						for _, ref := range *call.Referrers() {
							if ex, ok := ref.(*ssa.Extract); ok && ex.Index == 1 && core.NilCheckedErrDominates(ex, r.Block()) {
								okr = true
							}
						}
					}
				}
			}
			if !okr {
				okAll = false
			}
		}
		c.Check(okAll, core.SSAName(fn)+"|init-error-tested-before-running", p.Pos(fn.Pos()),
			fn.Name()+" tests the error of Config.init() before it runs code"+ifs(!okAll, ": an invalid override is dropped silently and the script gets the object the host asked to replace"))
	}
	c.Stat("config_building_entry_points", n)
}

// ---------------------------------------------------------------------------
// pathDescentAdvances: a loop that resolves a dotted path one element at a time
// looks each element up on what the previous step found, not on the
// loop-invariant root: otherwise every name deeper than two levels is looked up
// in the wrong module and a deny-list entry or override for it is ignored.
func pathDescentAdvances(c *core.Ctx) {
	p := c.P
	modT := core.MustType(p.Pkg("object"), "Module")
	n := 0
	for _, fn := range repoFns(p, "") {
		for _, b := range fn.Blocks {
			for _, in := range b.Instrs {
				call, ok := in.(*ssa.Call)
				if !ok {
					continue
				}
				cal := call.Call.StaticCallee()
				if cal == nil || cal.Name() != "GetAttr" || cal.Signature.Recv() == nil || core.NamedOf(cal.Signature.Recv().Type()) != modT {
					continue
				}
				// inside a loop over a []string, with the element as the looked-up name
				if !inLoop(b) || len(call.Call.Args) < 2 {
					continue
				}
				elem := core.DependsOn(call.Call.Args[1], func(w ssa.Value) bool {
					if u, ok := w.(*ssa.UnOp); ok {
						_, isIdx := u.X.(*ssa.IndexAddr)
						return isIdx
					}
					_, isNext := w.(*ssa.Next)
					return isNext
				})
				if !elem {
					continue
				}
				n++
				_, invariant := call.Call.Args[0].(*ssa.Parameter)
				c.Check(!invariant, core.SSAName(fn)+"|path-descent-advances", p.Pos(call.Pos()),
					fn.Name()+" looks each path element up on the module found by the previous step"+ifs(invariant, ": every element is looked up on the root module, so names nested more than two levels deep resolve wrongly (a deny-list entry or override for them is ignored)"))
			}
		}
	}
	c.Stat("path_descents", n)
}

// ---------------------------------------------------------------------------
// reflectedValuesNotAssertedBlindly: what comes out of reflect.Value.Interface()
// has the dynamic type of the host's value.  A single-value type assertion on it
// (x.(string)) panics for every named type of the same kind (type PK string);
// the conversion code of package object runs before the VM's recover boundary
// when globals are converted, so that panic reaches the caller of Eval.
func reflectedValuesNotAssertedBlindly(c *core.Ctx) {
	p := c.P
	n, sites := 0, 0
	for _, fn := range repoFns(p, "object") {
		for _, b := range fn.Blocks {
			for _, in := range b.Instrs {
				ta, ok := in.(*ssa.TypeAssert)
				if !ok {
					continue
				}
				fromReflect := false
				for _, o := range core.Origins(ta.X) {
					if call, ok := o.(*ssa.Call); ok {
						if cal := call.Call.StaticCallee(); cal != nil && cal.Pkg != nil && cal.Pkg.Pkg.Path() == "reflect" && cal.Name() == "Interface" {
							fromReflect = true
						}
					}
				}
				if !fromReflect {
					continue
				}
				sites++
				if ta.CommaOk {
					continue
				}
				if _, isIface := ta.AssertedType.Underlying().(*types.Interface); isIface {
					continue
				}
				n++
				c.Check(false, core.SSAName(fn)+"|reflected-value-asserted-blindly|"+ta.AssertedType.String(), p.Pos(ta.Pos()),
					fn.Name()+" asserts the result of reflect.Value.Interface() to "+ta.AssertedType.String()+" without the comma-ok form: a host value of a named type of that kind panics here, outside the VM's recover boundary when globals are converted")
			}
		}
	}
	c.Pass("object|reflected-values", "", sprintf("%d type assertions on reflect.Value.Interface() results in package object, %d of them single-valued on a concrete type", sites, n))
	c.Stat("reflect_interface_assertions", sites)
}

// ---------------------------------------------------------------------------
// typeOfGuardedAgainstNil: reflect.TypeOf(nil) is nil, and every method of a nil
// reflect.Type panics.  Where package object asks for the type of a value it
// was handed as an interface, the nil interface is handled first.
func typeOfGuardedAgainstNil(c *core.Ctx) {
	p := c.P
	n := 0
	for _, fn := range repoFns(p, "object") {
		for _, b := range fn.Blocks {
			for _, in := range b.Instrs {
				call, ok := in.(*ssa.Call)
				if !ok {
					continue
				}
				cal := call.Call.StaticCallee()
				if cal == nil || cal.Pkg == nil || cal.Pkg.Pkg.Path() != "reflect" || cal.Name() != "TypeOf" || len(call.Call.Args) != 1 {
					continue
				}
				// the conversion code (what runs when globals, fields and arguments cross the boundary)
				if !strings.HasSuffix(p.Fset.Position(call.Pos()).Filename, "typeconv.go") {
					continue
				}
				arg := call.Call.Args[0]
				// a value converted from a concrete type here is never the nil interface
				if mi, ok := arg.(*ssa.MakeInterface); ok {
					if _, isIface := mi.X.Type().Underlying().(*types.Interface); !isIface {
						continue
					}
				}
				// only when the type is used for more than a comparison: passed on or a method is called on it
				used := false
				if refs := call.Referrers(); refs != nil {
					for _, r := range *refs {
						switch x := r.(type) {
						case *ssa.BinOp, *ssa.DebugRef:
						case *ssa.MakeInterface, *ssa.ChangeInterface:
							// handed to a formatting function: a nil Type prints, it is not dereferenced
						case ssa.CallInstruction:
							if x.Common().IsInvoke() && x.Common().Value == ssa.Value(call) {
								used = true // a method of the Type
							} else if callee := x.Common().StaticCallee(); callee != nil && core.RepoFunc(callee) {
								used = true
							} else if callee != nil && callee.Pkg != nil && callee.Pkg.Pkg.Path() == "reflect" {
								used = true // reflect.New, Zero, MakeSlice ... panic on a nil Type
							}
						default:
							used = true
						}
					}
				}
				if !used {
					continue
				}
				n++
				guarded := false
				root := arg
				if ct, ok := root.(*ssa.ChangeInterface); ok {
					root = ct.X
				}
				for _, b2 := range fn.Blocks {
					if len(b2.Instrs) == 0 || (b2 != b && !b2.Dominates(b)) {
						continue
					}
					iff, ok := b2.Instrs[len(b2.Instrs)-1].(*ssa.If)
					if !ok {
						continue
					}
					if bo, ok := iff.Cond.(*ssa.BinOp); ok && (bo.Op == token.EQL || bo.Op == token.NEQ) {
						if (bo.X == root && isNilValue(bo.Y)) || (bo.Y == root && isNilValue(bo.X)) {
							guarded = true
						}
					}
				}
				// the type's nil-ness is tested before use instead
				if refs := call.Referrers(); refs != nil && !guarded {
					for _, r := range *refs {
						if bo, ok := r.(*ssa.BinOp); ok && (isNilValue(bo.X) || isNilValue(bo.Y)) {
							guarded = true
						}
					}
				}
				// or the callee it is handed to tests it
				if !guarded {
					if refs := call.Referrers(); refs != nil {
						all := true
						any := false
						for _, r := range *refs {
							ci, ok := r.(ssa.CallInstruction)
							if !ok {
								if _, dbg := r.(*ssa.DebugRef); !dbg {
									all = false
								}
								continue
							}
							any = true
							callee := ci.Common().StaticCallee()
							// (a function of the repository: reflect's own functions test for nil in order to panic)
							if callee == nil || callee.Blocks == nil || !core.RepoFunc(callee) || !nilTestsParam(callee, ci.Common().Args, call) {
								all = false
							}
						}
						guarded = all && any
					}
				}
				c.Check(guarded, core.SSAName(fn)+"|typeof-guarded-against-nil", p.Pos(call.Pos()),
					fn.Name()+" handles the nil interface before it uses reflect.TypeOf of a value it was handed"+ifs(!guarded, ": for an untyped nil the type is nil and the first method call on it panics (outside the VM's recover boundary when globals are converted)"))
			}
		}
	}
	c.Stat("typeof_sites", n)
}

// nilTestsParam: the callee compares the parameter that receives v with nil
// in its entry block.
func nilTestsParam(callee *ssa.Function, args []ssa.Value, v ssa.Value) bool {
	for i, a := range args {
		if a != v || i >= len(callee.Params) {
			continue
		}
		prm := callee.Params[i]
		if refs := prm.Referrers(); refs != nil {
			for _, r := range *refs {
				if bo, ok := r.(*ssa.BinOp); ok && (bo.Op == token.EQL || bo.Op == token.NEQ) && (isNilValue(bo.X) || isNilValue(bo.Y)) && bo.Block() == callee.Blocks[0] {
					return true
				}
			}
		}
	}
	return false
}
