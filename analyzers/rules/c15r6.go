package rules

import (
	"go/ast"
	"go/token"
	"go/types"
	"sort"

	"risorcheck/core"
)

// c15r6: mirrored cases of Equals compute the same relation.  Where A.Equals
// has a case for *B and B.Equals has a case for *A, the two conditions are the
// same expression once receiver and operand are renamed to their types
// (float64(Int.value) == Float.value on both sides).  Repairing or refining one
// side only makes == asymmetric.
func c15r6(c *core.Ctx) {
	p := c.P
	op := p.Pkg("object")
	info := op.TypesInfo
	type key struct{ a, b string }
	conds := map[key]string{}
	poss := map[key]string{}
	funcBodies(op, func(fn *types.Func, fd *ast.FuncDecl) {
		if fn.Name() != "Equals" || fd.Recv == nil || len(fd.Recv.List[0].Names) == 0 {
			return
		}
		rt := core.RecvNamed(fn)
		if rt == nil {
			return
		}
		recvObj := info.Defs[fd.Recv.List[0].Names[0]]
		for _, s := range fd.Body.List {
			ts, ok := s.(*ast.TypeSwitchStmt)
			if !ok {
				continue
			}
			for _, cc := range ts.Body.List {
				cl := cc.(*ast.CaseClause)
				if len(cl.List) != 1 {
					continue
				}
				bt := core.NamedOf(info.TypeOf(cl.List[0]))
				if bt == nil || bt == rt || bt.Obj().Pkg() != op.Types {
					continue
				}
				otherObj := info.Implicits[cl]
				// the condition under which the case returns True
				cond := ""
				for _, bs := range cl.Body {
					ifs, ok := bs.(*ast.IfStmt)
					if !ok || ifs.Init != nil && false {
						continue
					}
					retTrue := false
					for _, x := range ifs.Body.List {
						if r, ok := x.(*ast.ReturnStmt); ok && len(r.Results) == 1 {
							if id, ok := r.Results[0].(*ast.Ident); ok && id.Name == "True" {
								retTrue = true
							}
						}
					}
					if !retTrue {
						continue
					}
					pre := ""
					if ifs.Init != nil {
						pre = normEq(info, ifs.Init, recvObj, otherObj, rt.Obj().Name(), bt.Obj().Name()) + ";"
					}
					cond = pre + normEq(info, ifs.Cond, recvObj, otherObj, rt.Obj().Name(), bt.Obj().Name())
				}
				if cond == "" {
					for _, bs := range cl.Body {
						if r, ok := bs.(*ast.ReturnStmt); ok && len(r.Results) == 1 {
							cond = "return " + normEq(info, r.Results[0], recvObj, otherObj, rt.Obj().Name(), bt.Obj().Name())
						}
					}
				}
				if cond == "" {
					cond = "?"
				}
				k := key{rt.Obj().Name(), bt.Obj().Name()}
				conds[k] = cond
				poss[k] = posOf(p, cl)
			}
		}
	})
	var keys []key
	for k := range conds {
		keys = append(keys, k)
	}
	sort.Slice(keys, func(i, j int) bool { return keys[i].a+keys[i].b < keys[j].a+keys[j].b })
	n := 0
	for _, k := range keys {
		if k.a > k.b {
			continue
		}
		m, ok := conds[key{k.b, k.a}]
		if !ok {
			continue // one-sided cases are C15-R1's business
		}
		n++
		a := conds[k]
		c.Check(a == m && a != "?", "object.Equals|"+k.a+"~"+k.b+"|mirror", poss[k],
			k.a+".Equals(*"+k.b+") and "+k.b+".Equals(*"+k.a+") test the same relation: `"+a+"` vs `"+m+"`")
	}
	c.Stat("mirrored_pairs", n)
}

// normEq renders an expression with receiver/operand renamed to their type
// names and the operands of commutative operators sorted.
func normEq(info *types.Info, n ast.Node, recv, other types.Object, rname, oname string) string {
	switch x := n.(type) {
	case *ast.ParenExpr:
		return normEq(info, x.X, recv, other, rname, oname)
	case *ast.Ident:
		switch info.Uses[x] {
		case recv:
			if recv != nil {
				return rname
			}
		case other:
			if other != nil {
				return oname
			}
		}
		return x.Name
	case *ast.SelectorExpr:
		return normEq(info, x.X, recv, other, rname, oname) + "." + x.Sel.Name
	case *ast.BinaryExpr:
		l, r := normEq(info, x.X, recv, other, rname, oname), normEq(info, x.Y, recv, other, rname, oname)
		switch x.Op {
		case token.EQL, token.NEQ, token.LAND, token.LOR, token.ADD, token.MUL:
			if l > r {
				l, r = r, l
			}
		}
		return "(" + l + " " + x.Op.String() + " " + r + ")"
	case *ast.UnaryExpr:
		return x.Op.String() + normEq(info, x.X, recv, other, rname, oname)
	case *ast.CallExpr:
		s := normEq(info, x.Fun, recv, other, rname, oname) + "("
		for i, a := range x.Args {
			if i > 0 {
				s += ","
			}
			s += normEq(info, a, recv, other, rname, oname)
		}
		return s + ")"
	case *ast.BasicLit:
		return x.Value
	case *ast.AssignStmt:
		s := ""
		for _, r := range x.Rhs {
			s += normEq(info, r, recv, other, rname, oname)
		}
		return ":=" + s
	case *ast.StarExpr:
		return "*" + normEq(info, x.X, recv, other, rname, oname)
	case *ast.IndexExpr:
		return normEq(info, x.X, recv, other, rname, oname) + "[" + normEq(info, x.Index, recv, other, rname, oname) + "]"
	}
	if e, ok := n.(ast.Expr); ok {
		return exprStr(e)
	}
	return "?"
}
