package rules

import (
	"go/token"
	"go/types"
	"strconv"
	"sort"
	"strings"

	"golang.org/x/tools/go/ssa"

	"risorcheck/core"
)

// Rules about the host OS implementations, written after the ninth wave.

// osImplementations returns the named types of package os (the repository's)
// whose pointer implements the OS interface.
func osImplementations(p *core.Program) (iface *types.Interface, impls []*types.Named) {
	op := p.Pkg("os")
	ifT := core.MustType(op, "OS")
	iface, _ = ifT.Underlying().(*types.Interface)
	if iface == nil {
		core.Undecidedf("os.OS is not an interface")
	}
	sc := op.Types.Scope()
	for _, name := range sc.Names() {
		tn, ok := sc.Lookup(name).(*types.TypeName)
		if !ok {
			continue
		}
		nt, ok := tn.Type().(*types.Named)
		if !ok {
			continue
		}
		if _, isStruct := nt.Underlying().(*types.Struct); !isStruct {
			continue
		}
		if types.Implements(types.NewPointer(nt), iface) {
			impls = append(impls, nt)
		}
	}
	return
}

// ---------------------------------------------------------------------------
// sharedOSStateIsLocked: one OS implementation serves every goroutine of an
// evaluation (spawn, go) and usually every evaluation of the host.  A field
// that one of its OS-interface methods writes (the environment, the working
// directory) is therefore accessed, in all of the type's methods, with one
// mutex of the receiver held.  Unguarded, two goroutines calling setenv crash
// the host with "fatal error: concurrent map writes", which no recover catches.
func sharedOSStateIsLocked(c *core.Ctx) {
	p := c.P
	iface, impls := osImplementations(p)
	if len(impls) < 2 {
		core.Undecidedf("only %d implementations of os.OS found", len(impls))
	}
	inIface := map[string]bool{}
	for i := 0; i < iface.NumMethods(); i++ {
		inIface[iface.Method(i).Name()] = true
	}
	n := 0
	for _, nt := range impls {
		st := nt.Underlying().(*types.Struct)
		type access struct {
			fn    *ssa.Function
			in    ssa.Instruction
			write bool
		}
		acc := map[int][]access{}
		var methods []*ssa.Function
		for _, fn := range repoFns(p, "os") {
			root := fn
			for root.Parent() != nil {
				root = root.Parent()
			}
			if root.Signature.Recv() == nil || core.NamedOf(root.Signature.Recv().Type()) != nt {
				continue
			}
			methods = append(methods, fn)
		}
		for _, fn := range methods {
			for _, b := range fn.Blocks {
				for _, in := range b.Instrs {
					fa, ok := in.(*ssa.FieldAddr)
					if !ok || core.NamedOf(fa.X.Type()) != nt {
						continue
					}
					refs := fa.Referrers()
					if refs == nil {
						continue
					}
					for _, r := range *refs {
						switch x := r.(type) {
						case *ssa.Store:
							if x.Addr == fa {
								acc[fa.Field] = append(acc[fa.Field], access{fn, x, true})
							}
						case *ssa.UnOp:
							// a load: the value may be a map that is then updated
							w := false
							if lr := x.Referrers(); lr != nil {
								for _, r2 := range *lr {
									switch y := r2.(type) {
									case *ssa.MapUpdate:
										if y.Map == x {
											w = true
										}
									case *ssa.Call:
										if bi, ok := y.Call.Value.(*ssa.Builtin); ok && bi.Name() == "delete" {
											w = true
										}
									}
								}
							}
							acc[fa.Field] = append(acc[fa.Field], access{fn, x, w})
						}
					}
				}
			}
		}
		held := map[*ssa.Function]map[ssa.Instruction]core.LockSet{}
		for fi := 0; fi < st.NumFields(); fi++ {
			as := acc[fi]
			writtenByScripts := false
			for _, a := range as {
				root := a.fn
				for root.Parent() != nil {
					root = root.Parent()
				}
				if a.write && inIface[root.Name()] {
					writtenByScripts = true
				}
			}
			if !writtenByScripts {
				continue
			}
			if selfSynchronised(st.Field(fi).Type()) {
				continue
			}
			n++
			// the lock most accesses hold
			count := map[string]int{}
			for _, a := range as {
				if held[a.fn] == nil {
					held[a.fn] = core.HeldLocks(a.fn)
				}
				for k := range held[a.fn][a.in] {
					count[k]++
				}
			}
			best := ""
			for k, v := range count {
				if best == "" || v > count[best] || (v == count[best] && k < best) {
					best = k
				}
			}
			var bad []string
			for _, a := range as {
				if best == "" || !held[a.fn][a.in][best] {
					bad = append(bad, core.SSAName(a.fn)+" ("+p.Pos(a.in.Pos())+")")
				}
			}
			sort.Strings(bad)
			c.Check(len(bad) == 0, "os."+nt.Obj().Name()+"."+st.Field(fi).Name()+"|accessed-under-one-lock", p.Pos(st.Field(fi).Pos()),
				"field "+st.Field(fi).Name()+" of "+nt.Obj().Name()+" is written by a method of the OS interface, so scripts change it while other goroutines and evaluations use the same OS; "+
					ife(len(bad) == 0, sprintf("all %d accesses in the type's methods hold %s", len(as), best), sprintf("%d of %d accesses hold no common lock (%s): %s", len(bad), len(as), ife(best == "", "no lock is taken at all", "most hold "+best), strings.Join(bad, ", "))))
		}
	}
	if n == 0 {
		core.Undecidedf("no field of an OS implementation is written by a method of the OS interface")
	}
	c.Stat("script_written_os_fields", n)
}

// ---------------------------------------------------------------------------
// osImplementationsAgreeOnConstants: where one implementation of the OS
// interface answers a method with a constant (a path separator), every other
// implementation that also answers that method with a constant gives the same
// one.  Two methods of one implementation that return the same constant where
// the reference implementation returns two different ones is the copy-paste
// form of this mistake.
func osImplementationsAgreeOnConstants(c *core.Ctx) {
	p := c.P
	iface, impls := osImplementations(p)
	constOf := func(nt *types.Named, name string) (string, bool) {
		for _, fn := range repoFns(p, "os") {
			if fn.Name() != name || fn.Signature.Recv() == nil || core.NamedOf(fn.Signature.Recv().Type()) != nt || fn.Parent() != nil {
				continue
			}
			val := ""
			for _, b := range fn.Blocks {
				for _, in := range b.Instrs {
					if r, ok := in.(*ssa.Return); ok {
						if len(r.Results) != 1 {
							return "", false
						}
						k, ok := r.Results[0].(*ssa.Const)
						if !ok || k.Value == nil {
							return "", false
						}
						if val != "" && val != k.Value.ExactString() {
							return "", false
						}
						val = k.Value.ExactString()
					}
				}
			}
			return val, val != ""
		}
		return "", false
	}
	n := 0
	for i := 0; i < iface.NumMethods(); i++ {
		name := iface.Method(i).Name()
		vals := map[string][]string{}
		for _, nt := range impls {
			if v, ok := constOf(nt, name); ok {
				vals[v] = append(vals[v], nt.Obj().Name())
			}
		}
		total := 0
		for _, who := range vals {
			total += len(who)
		}
		if total < 2 {
			continue
		}
		n++
		var desc []string
		for v, who := range vals {
			sort.Strings(who)
			desc = append(desc, strings.Join(who, "/")+" -> "+v)
		}
		sort.Strings(desc)
		c.Check(len(vals) == 1, "os.OS."+name+"|implementations-return-the-same-constant", "",
			"the implementations of OS."+name+" that answer with a constant give "+ife(len(vals) == 1, "the same one", "different ones")+": "+strings.Join(desc, "; "))
	}
	if n == 0 {
		core.Undecidedf("no method of os.OS is answered with a constant by two implementations")
	}
	c.Stat("constant_methods", n)
}

// ---------------------------------------------------------------------------
// resolversKeepNothing: an attribute resolver computes its value from the
// context it is given (os.stdout is the standard output of the OS that context
// carries).  The resolver object belongs to a module, which outlives the
// context and is shared by every evaluation that is given the same globals: a
// ResolveAttr method therefore stores nothing in its receiver.  A cached value
// is the stream of whichever OS asked first, handed to every later evaluation
// whatever OS it runs under (and written by concurrent evaluations unguarded).
func resolversKeepNothing(c *core.Ctx) {
	p := c.P
	n := 0
	for _, fn := range repoFns(p) {
		if fn.Name() != "ResolveAttr" || fn.Signature.Recv() == nil || fn.Parent() != nil || len(fn.Params) < 2 {
			continue
		}
		if !core.IsNamed(fn.Params[1].Type(), "context", "Context") {
			continue
		}
		n++
		recv := fn.Params[0]
		bad := ""
		for _, b := range fn.Blocks {
			for _, in := range b.Instrs {
				st, ok := in.(*ssa.Store)
				if !ok {
					continue
				}
				if fa, ok := st.Addr.(*ssa.FieldAddr); ok && fa.X == recv {
					bad = p.Pos(st.Pos())
				}
			}
		}
		c.Check(bad == "", core.SSAName(fn)+"|keeps-nothing", p.Pos(fn.Pos()),
			core.SSAName(fn)+" resolves an attribute for a context"+ife(bad == "", " and stores nothing in its receiver", " and stores into its receiver at "+bad+": what was resolved under one context (one host OS) is handed to every later evaluation that shares the module, and concurrent evaluations write the field unguarded"))
	}
	if n == 0 {
		core.Undecidedf("no ResolveAttr method with a context parameter found")
	}
	c.Stat("attr_resolvers", n)
	// the resolver functions themselves (what NewDynamicAttr is given): they are called with the
	// context of whoever accesses the attribute, and write neither a variable they have captured
	// nor a package variable (a file object made on first use and kept: the stream of the first
	// evaluation's OS for every later one)
	m := 0
	for _, fn := range repoFns(p) {
		k := 0
		for _, b := range fn.Blocks {
			for _, in := range b.Instrs {
				call, ok := in.(*ssa.Call)
				if !ok {
					continue
				}
				cal := call.Call.StaticCallee()
				if cal == nil || cal.Name() != "NewDynamicAttr" || !core.RepoFunc(cal) {
					continue
				}
				for _, a := range call.Call.Args {
					var res *ssa.Function
					if ct, ok := a.(*ssa.ChangeType); ok {
						a = ct.X
					}
					switch x := a.(type) {
					case *ssa.MakeClosure:
						res, _ = x.Fn.(*ssa.Function)
					case *ssa.Function:
						res = x
					}
					if res == nil || res.Blocks == nil {
						continue
					}
					m++
					k++
					bad := ""
					var walk func(f *ssa.Function, d int)
					walk = func(f *ssa.Function, d int) {
						for _, b2 := range f.Blocks {
							for _, in2 := range b2.Instrs {
								switch x := in2.(type) {
								case *ssa.Store:
									root := addrRoot(x.Addr)
									if root == nil {
										root = x.Addr
									}
									switch root.(type) {
									case *ssa.FreeVar, *ssa.Global:
										bad = "writes " + root.Name() + " at " + p.Pos(x.Pos())
									}
								case *ssa.MakeClosure:
									if cf, ok := x.Fn.(*ssa.Function); ok && d < 3 {
										walk(cf, d+1)
									}
								}
							}
						}
					}
					walk(res, 0)
					c.Check(bad == "", core.SSAName(fn)+"|resolver-"+sprintf("%d", k)+"|keeps-nothing", p.Pos(call.Pos()),
						core.SSAName(fn)+" makes a dynamic attribute"+ife(bad == "", " whose resolver writes nothing outside its own frame", " whose resolver "+bad+": what was resolved under the context of one evaluation (its host OS) is kept and handed to every later one that shares the module object (os.stdout of the first evaluation's OS, or of the real process)"))
				}
			}
		}
	}
	c.Stat("resolver_functions", m)
}

// ---------------------------------------------------------------------------
// configurationErrorsAreNotDiscarded: while the host's configuration is turned
// into the global environment (package risor), a repository function that is
// handed a value to install and reports failure through an error result is
// never called as a bare statement.
// A discarded error there means that something the host asked for (an override
// of a module attribute) silently did not happen, and the script gets the
// original.
func configurationErrorsAreNotDiscarded(c *core.Ctx) {
	p := c.P
	n := 0
	for _, fn := range repoFns(p, ".") {
		for _, b := range fn.Blocks {
			for _, in := range b.Instrs {
				call, ok := in.(*ssa.Call)
				if !ok {
					continue
				}
				cal := call.Call.StaticCallee()
				if cal == nil || !core.RepoFunc(cal) {
					continue
				}
				res := cal.Signature.Results()
				if res.Len() == 0 || !isErrorType(res.At(res.Len()-1).Type()) {
					continue
				}
				// only calls that are handed a value to install: an interface-typed
				// argument that is not the nil literal (removing a name that is not
				// there, or re-running a cached init, loses nothing)
				installs := false
				args := call.Call.Args
				if cal.Signature.Recv() != nil && len(args) > 0 {
					args = args[1:]
				}
				for _, a := range args {
					if _, isIface := a.Type().Underlying().(*types.Interface); isIface && !isNilValue(a) {
						installs = true
					}
				}
				if !installs {
					continue
				}
				n++
				used := call.Referrers() != nil && len(*call.Referrers()) > 0
				c.Check(used, core.SSAName(fn)+"|error-of-"+cal.Name()+"-looked-at|"+sprintf("%d", countBefore(fn, in, cal)), p.Pos(call.Pos()),
					core.SSAName(fn)+" calls "+core.SSAName(cal)+ife(used, " and looks at its error", " as a bare statement: its error is discarded, so a failure (an override the module refuses) goes unreported and the configuration silently differs from what the host asked for"))
			}
		}
	}
	if n == 0 {
		core.Undecidedf("package risor calls no repository function that returns an error")
	}
	c.Stat("error_returning_calls", n)
}

// countBefore numbers the calls of cal in fn up to in (stable keys without line numbers).
func countBefore(fn *ssa.Function, at ssa.Instruction, cal *ssa.Function) int {
	k := 0
	for _, b := range fn.Blocks {
		for _, in := range b.Instrs {
			if call, ok := in.(*ssa.Call); ok && call.Call.StaticCallee() == cal {
				k++
			}
			if in == at {
				return k
			}
		}
	}
	return k
}

// ---------------------------------------------------------------------------
// theOSGivenToTheVMComesFirst: the function that decides which OS an
// evaluation runs under looks at the OS the host gave this VM (WithOS) before
// it looks into the context.  Every VM installs its OS (the real one, by
// default) in the context it hands to builtins; a builtin that starts an
// evaluation of its own under a host-supplied OS passes that context on, and
// if the context wins the sandboxed evaluation runs against the outer OS.
func theOSGivenToTheVMComesFirst(c *core.Ctx) {
	p := c.P
	vmT := vmType(p)
	oi := fieldIdxByName(vmT, "os")
	if oi < 0 {
		core.Undecidedf("VirtualMachine.os not found")
	}
	n := 0
	for _, fn := range repoFns(p, "vm") {
		var getOS ssa.Instruction
		var fieldTest *ssa.If
		for _, b := range fn.Blocks {
			for _, in := range b.Instrs {
				if call, ok := in.(*ssa.Call); ok {
					if cal := call.Call.StaticCallee(); cal != nil && cal.Name() == "GetOS" && cal.Pkg != nil && core.RelPkg(cal.Pkg.Pkg) == "os" {
						getOS = in
					}
				}
				if iff, ok := in.(*ssa.If); ok {
					if bo, ok := iff.Cond.(*ssa.BinOp); ok {
						for _, pair := range [][2]ssa.Value{{bo.X, bo.Y}, {bo.Y, bo.X}} {
							if _, ok := loadOfField(pair[0], vmT, oi); ok && isNilValue(pair[1]) {
								fieldTest = iff
							}
						}
					}
				}
			}
		}
		if getOS == nil || fieldTest == nil {
			continue
		}
		n++
		first := fieldTest.Block().Dominates(getOS.Block()) && fieldTest.Block() != getOS.Block()
		c.Check(first, core.SSAName(fn)+"|own-os-before-context-os", p.Pos(getOS.Pos()),
			core.SSAName(fn)+" chooses between the OS given to the VM and the one carried by the context"+ife(first, ", looking at the VM's own first", ", and asks the context first: an evaluation started by a builtin under a host-supplied OS (WithOS) is handed the calling VM's context, which carries that VM's OS, and runs against it instead"))
	}
	if n == 0 {
		core.Undecidedf("no function of package vm chooses between VirtualMachine.os and the context's OS")
	}
	c.Stat("os_choices", n)
}

// ---------------------------------------------------------------------------
// mountsHandTheirSourceARootedPath: the function that picks the mount for a
// path hands the mount's source the rest of the path from the source's root:
// every string it returns together with a mount begins with a slash (it is a
// constant that does, a concatenation that begins with one, or a value that a
// strings.HasPrefix(v, "/") test has passed).  What is left after trimming the
// mount point "/" is relative, and a local file system resolves a relative
// path against the working directory of the process.
func mountsHandTheirSourceARootedPath(c *core.Ctx) {
	p := c.P
	n := 0
	for _, fn := range repoFns(p, "os") {
		res := fn.Signature.Results()
		if res.Len() != 3 || fn.Parent() != nil {
			continue
		}
		if pt, ok := res.At(0).Type().(*types.Pointer); !ok || core.NamedOf(pt) == nil || core.NamedOf(pt).Obj().Name() != "Mount" {
			continue
		}
		if b, ok := res.At(1).Type().Underlying().(*types.Basic); !ok || b.Kind() != types.String {
			continue
		}
		for _, b := range fn.Blocks {
			for _, in := range b.Instrs {
				r, ok := in.(*ssa.Return)
				if !ok || len(r.Results) != 3 {
					continue
				}
				if k, ok := r.Results[2].(*ssa.Const); !ok || k.Value == nil || k.Value.String() != "true" {
					continue
				}
				n++
				bad := ""
				cur := fn // the function whose blocks the value lives in
				var visit func(v ssa.Value, from, to *ssa.BasicBlock, d int)
				visit = func(v ssa.Value, from, to *ssa.BasicBlock, d int) {
					if d > 6 {
						bad = "too deep"
						return
					}
					// the path is made by a helper of the package: every string it returns
					if call, isCall := v.(*ssa.Call); isCall {
						if cal := call.Call.StaticCallee(); cal != nil && cal.Blocks != nil && cal.Pkg == fn.Pkg && cal != cur && cal.Signature.Results().Len() == 1 {
							saved := cur
							cur = cal
							for _, cb := range cal.Blocks {
								for _, cin := range cb.Instrs {
									if cr, ok := cin.(*ssa.Return); ok && len(cr.Results) == 1 {
										visit(cr.Results[0], cb, cb, d+1)
									}
								}
							}
							cur = saved
							return
						}
					}
					switch x := v.(type) {
					case *ssa.Const:
						if x.Value == nil || !strings.HasPrefix(constStringVal(x), "/") {
							bad = "the constant " + x.String()
						}
					case *ssa.BinOp:
						if k, ok := x.X.(*ssa.Const); ok && x.Op == token.ADD && strings.HasPrefix(constStringVal(k), "/") {
							return
						}
						bad = "a concatenation that does not begin with a slash"
					case *ssa.Phi:
						for i, e := range x.Edges {
							visit(e, x.Block().Preds[i], x.Block(), d+1)
						}
					default:
						// a value that passed strings.HasPrefix(v, "/") on the way to `from`
						ok := false
						for _, b2 := range cur.Blocks {
							if len(b2.Instrs) == 0 {
								continue
							}
							iff, isIf := b2.Instrs[len(b2.Instrs)-1].(*ssa.If)
							if !isIf {
								continue
							}
							call, isCall := iff.Cond.(*ssa.Call)
							neg := false
							if u, isU := iff.Cond.(*ssa.UnOp); isU && u.Op == token.NOT {
								call, isCall = u.X.(*ssa.Call)
								neg = true
							}
							if !isCall {
								continue
							}
							cal := call.Call.StaticCallee()
							if cal == nil || cal.Pkg == nil || cal.Pkg.Pkg.Path() != "strings" || cal.Name() != "HasPrefix" || len(call.Call.Args) != 2 || call.Call.Args[0] != v {
								continue
							}
							if k, isK := call.Call.Args[1].(*ssa.Const); !isK || constStringVal(k) != "/" {
								continue
							}
							t := b2.Succs[0]
							if neg {
								t = b2.Succs[1]
							}
							if from != nil && (t == from || t.Dominates(from)) {
								ok = true
							}
							// the edge itself is the passing branch of the test
							if from == b2 && to == t {
								ok = true
							}
						}
						if !ok {
							bad = "a value that no strings.HasPrefix(v, \"/\") test has passed"
						}
					}
				}
				visit(r.Results[1], b, b, 0)
				c.Check(bad == "", core.SSAName(fn)+"|source-path-is-rooted|"+sprintf("%d", n), p.Pos(r.Pos()),
					core.SSAName(fn)+" returns a mount together with the path for its source"+ife(bad == "", ", which begins with a slash on every path", ", which may be "+bad+": trimming the mount point \"/\" leaves a relative path, and a local file system resolves that against the working directory of the process"))
			}
		}
	}
	if n == 0 {
		core.Undecidedf("no function of package os returns a mount together with a path")
	}
	c.Stat("mount_resolutions", n)
}

func constStringVal(k *ssa.Const) string {
	if k == nil || k.Value == nil {
		return ""
	}
	s := k.Value.ExactString()
	if len(s) >= 2 && s[0] == '"' {
		if u, err := strconvUnquote(s); err == nil {
			return u
		}
	}
	return s
}

func strconvUnquote(s string) (string, error) { return strconv.Unquote(s) }

// ---------------------------------------------------------------------------
// memberNamesAreLastSegments: a dotted global name (cloud.aws.s3.delete_bucket)
// is a path of modules followed by one member name.  The name handed to
// Module.Override is never what strings.Cut leaves after the first dot, nor
// the second part of a two-way SplitN: for a member nested more than one level
// deep that remainder still contains dots, names no attribute of the first
// module, and the removal silently does nothing.
func memberNamesAreLastSegments(c *core.Ctx) {
	p := c.P
	n := 0
	for _, fn := range repoFns(p, ".") {
		k := 0
		for _, b := range fn.Blocks {
			for _, in := range b.Instrs {
				call, ok := in.(*ssa.Call)
				if !ok {
					continue
				}
				cal := call.Call.StaticCallee()
				if cal == nil || cal.Name() != "Override" || cal.Signature.Recv() == nil || !core.IsNamed(cal.Signature.Recv().Type(), pkgPath("object"), "Module") || len(call.Call.Args) < 2 {
					continue
				}
				n++
				k++
				bad := ""
				for _, o := range core.Origins(call.Call.Args[1]) {
					if ex, ok := o.(*ssa.Extract); ok {
						if sc, ok := ex.Tuple.(*ssa.Call); ok {
							if c2 := sc.Call.StaticCallee(); c2 != nil && c2.Pkg != nil && c2.Pkg.Pkg.Path() == "strings" && c2.Name() == "Cut" && ex.Index == 1 {
								bad = "what strings.Cut leaves after the first separator"
							}
						}
					}
					if u, ok := o.(*ssa.UnOp); ok {
						if ia, ok := u.X.(*ssa.IndexAddr); ok {
							for _, so := range core.Origins(ia.X) {
								if sc, ok := so.(*ssa.Call); ok {
									if c2 := sc.Call.StaticCallee(); c2 != nil && c2.Pkg != nil && c2.Pkg.Pkg.Path() == "strings" && c2.Name() == "SplitN" {
										bad = "a part of a strings.SplitN with a limit"
									}
								}
							}
						}
					}
				}
				c.Check(bad == "", core.SSAName(fn)+"|member-name-is-the-last-segment|"+sprintf("%d", k), p.Pos(call.Pos()),
					core.SSAName(fn)+" names the member for Module.Override"+ife(bad == "", " with a single segment of the dotted name", " with "+bad+", which for a member nested two or more modules deep still contains dots: no module has such an attribute, and the refusal is not reported"))
			}
		}
	}
	if n == 0 {
		core.Undecidedf("package risor never calls Module.Override")
	}
	c.Stat("override_calls", n)
}
