package rules

import (
	"go/ast"
	"go/token"
	"go/types"
	"strings"

	"golang.org/x/tools/go/ssa"

	"risorcheck/core"
)

// brokenLexicographicIfForm: the statement form of the broken two-key
// comparison: `if a.X < b.X { return true }; return a.Y < b.Y` with nothing in
// between that settles a.X > b.X.  Checked for comparison function literals and
// for functions named Less/less.
func brokenLexicographicIfForm(c *core.Ctx) {
	p := c.P
	n := 0
	for _, pk := range p.Pkgs {
		info := pk.TypesInfo
		rel := core.RelPkg(pk.Types)
		check := func(owner string, body *ast.BlockStmt, idx *int) {
			if body == nil || len(body.List) < 2 {
				return
			}
			keyPair := func(e ast.Expr) (string, string, string, token.Token, bool) {
				be, ok := ast.Unparen(e).(*ast.BinaryExpr)
				if !ok || (be.Op != token.LSS && be.Op != token.GTR) {
					return "", "", "", 0, false
				}
				lx, ok1 := ast.Unparen(be.X).(*ast.SelectorExpr)
				ly, ok2 := ast.Unparen(be.Y).(*ast.SelectorExpr)
				if !ok1 || !ok2 || lx.Sel.Name != ly.Sel.Name {
					return "", "", "", 0, false
				}
				return exprStr(lx.X), exprStr(ly.X), lx.Sel.Name, be.Op, true
			}
			for i := 0; i+1 < len(body.List); i++ {
				ifs1, ok := body.List[i].(*ast.IfStmt)
				if !ok || ifs1.Else != nil || ifs1.Init != nil || len(ifs1.Body.List) != 1 {
					continue
				}
				ret1, ok := ifs1.Body.List[0].(*ast.ReturnStmt)
				if !ok || len(ret1.Results) != 1 || exprStr(ret1.Results[0]) != "true" {
					continue
				}
				a1, b1, f1, op1, ok := keyPair(ifs1.Cond)
				if !ok {
					continue
				}
				ret2, ok := body.List[i+1].(*ast.ReturnStmt)
				if !ok || len(ret2.Results) != 1 {
					continue
				}
				a2, b2, f2, op2, ok := keyPair(ret2.Results[0])
				if !ok || a1 != a2 || b1 != b2 || f1 == f2 || op1 != op2 {
					continue
				}
				_ = info
				n++
				*idx++
				c.Fail(rel+"."+owner+"|lexicographic-if#"+itoa(*idx), posOf(p, ifs1),
					"`if "+exprStr(ifs1.Cond)+" { return true }; return "+exprStr(ret2.Results[0])+"` is not a lexicographic comparison: when the first keys differ the other way the second key still decides (needs `if "+a1+"."+f1+" != "+b1+"."+f1+" { return false }` in between)")
			}
		}
		funcBodies(pk, func(fn *types.Func, fd *ast.FuncDecl) {
			idx := 0
			if strings.EqualFold(fn.Name(), "less") {
				check(declName(fd), fd.Body, &idx)
			}
			ast.Inspect(fd.Body, func(nd ast.Node) bool {
				if fl, ok := nd.(*ast.FuncLit); ok {
					if sig, ok := info.TypeOf(fl).(*types.Signature); ok && sig.Results().Len() == 1 {
						if b, ok := sig.Results().At(0).Type().Underlying().(*types.Basic); ok && b.Kind() == types.Bool {
							check(declName(fd), fl.Body, &idx)
						}
					}
				}
				return true
			})
		})
	}
	if n == 0 {
		c.Pass("no-broken-lexicographic-if-form", "repo", "no comparison function of the form `if a.X < b.X { return true }; return a.Y < b.Y`")
	}
}

// lexicographicBoth runs both shapes of the rule.
func lexicographicBoth(c *core.Ctx) {
	brokenLexicographicLess(c)
	brokenLexicographicIfForm(c)
}

// callRunsTheCodeFirst (C07-R13): risor.Call looks the function up only after
// it has run the code it was given on the VM.  Deciding "already evaluated" by
// finding a global of that name serves a function left behind by other code, or
// by an evaluation of the same code that was cut short.
func callRunsTheCodeFirst(c *core.Ctx) {
	p := c.P
	root := p.Pkg("")
	f := core.LookupFunc(root, "Call")
	if f == nil {
		core.Undecidedf("risor.Call not found")
	}
	sf := p.SSAFunc(f)
	vmT := core.MustType(p.Pkg("vm"), "VirtualMachine")
	var runs, gets []ssa.Instruction
	for _, b := range sf.Blocks {
		for _, in := range b.Instrs {
			ci, ok := in.(ssa.CallInstruction)
			if !ok {
				continue
			}
			cal := ci.Common().StaticCallee()
			if cal == nil || cal.Signature.Recv() == nil || core.NamedOf(cal.Signature.Recv().Type()) != vmT {
				continue
			}
			switch {
			case strings.HasPrefix(cal.Name(), "Run"):
				runs = append(runs, in)
			case cal.Name() == "Get":
				gets = append(gets, in)
			}
		}
	}
	if len(runs) == 0 || len(gets) == 0 {
		core.Undecidedf("risor.Call: no Run*/Get call on the VM found (runs=%d gets=%d)", len(runs), len(gets))
	}
	for i, g := range gets {
		dominated := false
		for _, r := range runs {
			rb, gb := r.Block(), g.Block()
			if rb == gb {
				for _, x := range rb.Instrs {
					if x == r {
						dominated = true
						break
					}
					if x == g {
						break
					}
				}
			} else if rb.Dominates(gb) {
				dominated = true
			}
		}
		c.Check(dominated, "risor.Call|Get#"+itoa(i+1)+"|after-running-the-code", p.Pos(g.Pos()),
			"risor.Call reads the function from the VM only after it has run the given code on it")
	}
}

// vmNotPooled (C11-R9, C09-R8, C07-R14): a VirtualMachine is never put into a
// process-wide pool or other package-level container.  A recycled VM carries
// what its previous owner configured (input globals, modules, OS): the next
// evaluation can import a module its own configuration removed.
func vmNotPooled(c *core.Ctx) {
	p := c.P
	vmT := core.MustType(p.Pkg("vm"), "VirtualMachine")
	n := 0
	bad := 0
	for _, fn := range repoFns(p) {
		for _, b := range fn.Blocks {
			for _, in := range b.Instrs {
				ci, ok := in.(ssa.CallInstruction)
				if !ok {
					continue
				}
				cal := ci.Common().StaticCallee()
				if cal == nil || cal.Signature.Recv() == nil {
					continue
				}
				recvT := core.NamedOf(cal.Signature.Recv().Type())
				if recvT == nil || recvT.Obj().Pkg() == nil || recvT.Obj().Pkg().Path() != "sync" {
					continue
				}
				if cal.Name() != "Put" && cal.Name() != "Store" && cal.Name() != "LoadOrStore" {
					continue
				}
				for _, a := range ci.Common().Args[1:] {
					v := a
					if mi, ok := v.(*ssa.MakeInterface); ok {
						v = mi.X
					}
					n++
					if core.NamedOf(v.Type()) == vmT {
						bad++
						c.Fail(core.SSAName(fn)+"|"+recvT.Obj().Name()+"."+cal.Name()+"|vm-in-shared-container", p.Pos(in.Pos()),
							fn.Name()+" puts a VirtualMachine into a sync."+recvT.Obj().Name()+": the next user inherits the previous configuration's globals, modules and OS")
					}
				}
			}
		}
	}
	if bad == 0 {
		c.Pass("no-vm-in-shared-container", "repo", "no VirtualMachine is stored in a sync.Pool / sync.Map")
	}
	c.Stat("shared_container_stores", n)
}

// vmOptionsFromConfig (C12-R7): every option list the root package hands to the
// vm package comes from (*Config).VMOpts, the one place that adds the host OS,
// the importer and the concurrency switch next to the globals.  A second,
// shorter list for "an existing VM" silently drops WithOS.
func vmOptionsFromConfig(c *core.Ctx) {
	p := c.P
	root := p.Pkg("")
	cfgT := core.MustType(root, "Config")
	vmOpts := p.SSAFunc(core.MustMethod(cfgT, "VMOpts"))
	vmPkg := p.Pkg("vm").Types
	n := 0
	for _, fn := range repoFns(p, "") {
		if fn == vmOpts {
			continue
		}
		k := 0
		for _, b := range fn.Blocks {
			for _, in := range b.Instrs {
				ci, ok := in.(ssa.CallInstruction)
				if !ok {
					continue
				}
				cal := ci.Common().StaticCallee()
				if cal == nil || cal.Pkg == nil || cal.Pkg.Pkg != vmPkg || !cal.Signature.Variadic() {
					continue
				}
				last := cal.Signature.Params().At(cal.Signature.Params().Len() - 1)
				sl, ok := last.Type().Underlying().(*types.Slice)
				if !ok || !core.IsNamed(sl.Elem(), pkgPath("vm"), "Option") {
					continue
				}
				arg := ci.Common().Args[len(ci.Common().Args)-1]
				n++
				k++
				okv := true
				why := ""
				for _, o := range core.Origins(arg) {
					switch x := o.(type) {
					case *ssa.Call:
						if x.Call.StaticCallee() != vmOpts {
							okv = false
							why = "it comes from " + x.Call.Value.Name()
						}
					case *ssa.Const:
					default:
						okv = false
						why = "it is built here (" + o.String() + ")"
					}
				}
				c.Check(okv, core.SSAName(fn)+"|"+cal.Name()+"#"+itoa(k)+"|options-from-VMOpts", p.Pos(in.Pos()),
					fn.Name()+" passes vm."+cal.Name()+" the option list of Config.VMOpts()"+ifs(!okv, ": "+why+", which need not contain the OS, importer and concurrency options"))
			}
		}
	}
	if n == 0 {
		core.Undecidedf("the root package passes no option list to package vm")
	}
}

// limitedReadsAreChecked (C19-R8): reading through io.LimitReader and stopping
// there truncates silently — a value longer than the limit comes back shorter,
// with no error.  Every ReadAll of a LimitReader is followed by a comparison of
// the number of bytes read with the limit.
func limitedReadsAreChecked(c *core.Ctx) {
	p := c.P
	n := 0
	for _, fn := range repoFns(p) {
		k := 0
		for _, b := range fn.Blocks {
			for _, in := range b.Instrs {
				call, ok := in.(*ssa.Call)
				if !ok {
					continue
				}
				cal := call.Call.StaticCallee()
				if cal == nil || cal.Pkg == nil || cal.Pkg.Pkg == nil || cal.Pkg.Pkg.Path() != "io" || cal.Name() != "ReadAll" {
					continue
				}
				limited := false
				for _, o := range core.Origins(call.Call.Args[0]) {
					src := o
					if mi, ok := src.(*ssa.MakeInterface); ok {
						src = mi.X
					}
					if lc, ok := src.(*ssa.Call); ok {
						if lcal := lc.Call.StaticCallee(); lcal != nil && lcal.Pkg != nil && lcal.Pkg.Pkg != nil && lcal.Pkg.Pkg.Path() == "io" && lcal.Name() == "LimitReader" {
							limited = true
						}
					}
				}
				if !limited {
					continue
				}
				n++
				k++
				// len(result) compared somewhere in the function
				checked := false
				if call.Referrers() != nil {
					for _, r := range *call.Referrers() {
						ex, ok := r.(*ssa.Extract)
						if !ok || ex.Index != 0 || ex.Referrers() == nil {
							continue
						}
						for _, r2 := range *ex.Referrers() {
							lc, ok := r2.(*ssa.Call)
							if !ok {
								continue
							}
							if bi, ok := lc.Call.Value.(*ssa.Builtin); ok && bi.Name() == "len" && lc.Referrers() != nil {
								for _, r3 := range *lc.Referrers() {
									if bo, ok := r3.(*ssa.BinOp); ok {
										switch bo.Op {
										case token.GTR, token.GEQ, token.LSS, token.LEQ, token.EQL, token.NEQ:
											checked = true
										}
									}
									if cv, ok := r3.(*ssa.Convert); ok && cv.Referrers() != nil {
										for _, r4 := range *cv.Referrers() {
											if _, ok := r4.(*ssa.BinOp); ok {
												checked = true
											}
										}
									}
								}
							}
						}
					}
				}
				c.Check(checked, core.SSAName(fn)+"|ReadAll(LimitReader)#"+itoa(k)+"|length-checked", p.Pos(call.Pos()),
					fn.Name()+" reads through an io.LimitReader and compares the length read with the limit (otherwise longer input is silently cut)")
			}
		}
	}
	if n == 0 {
		c.Pass("no-limited-read", "repo", "no io.ReadAll of an io.LimitReader")
	}
}

// indexMapsFollowTheirSlice (C18-R9, C17-R10): where a map field of a struct
// indexes a slice field of the same struct (m[key] = len(s)-1 next to s =
// append(s, ...)), every function that cuts the slice back or replaces it also
// writes the map.  The compile rollback truncates `names`; an index map that is
// left as it was hands later pieces positions that no longer exist.
func indexMapsFollowTheirSlice(c *core.Ctx) {
	p := c.P
	type pair struct {
		t     *types.Named
		slice int
		index int
	}
	var pairs []pair
	fns := repoFns(p, "compiler")
	// discover pairs: MapUpdate on field M of X whose value depends on len(load of field S of the same X)
	for _, fn := range fns {
		for _, b := range fn.Blocks {
			for _, in := range b.Instrs {
				mu, ok := in.(*ssa.MapUpdate)
				if !ok {
					continue
				}
				ml, ok := mu.Map.(*ssa.UnOp)
				if !ok {
					continue
				}
				mfa, ok := ml.X.(*ssa.FieldAddr)
				if !ok {
					continue
				}
				nt := core.NamedOf(mfa.X.Type())
				if nt == nil {
					continue
				}
				core.DependsOn(mu.Value, func(w ssa.Value) bool {
					call, ok := w.(*ssa.Call)
					if !ok {
						return false
					}
					bi, ok := call.Call.Value.(*ssa.Builtin)
					if !ok || bi.Name() != "len" {
						return false
					}
					sl, ok := call.Call.Args[0].(*ssa.UnOp)
					if !ok {
						return false
					}
					sfa, ok := sl.X.(*ssa.FieldAddr)
					if !ok || core.NamedOf(sfa.X.Type()) != nt {
						return false
					}
					if _, isSlice := sl.Type().Underlying().(*types.Slice); !isSlice {
						return false
					}
					dup := false
					for _, pr := range pairs {
						if pr.t == nt && pr.slice == sfa.Field && pr.index == mfa.Field {
							dup = true
						}
					}
					if !dup {
						pairs = append(pairs, pair{nt, sfa.Field, mfa.Field})
					}
					return false
				})
			}
		}
	}
	n := 0
	for _, pr := range pairs {
		st := pr.t.Underlying().(*types.Struct)
		for _, fn := range fns {
			shrinks, writesIndex := token.NoPos, false
			for _, b := range fn.Blocks {
				for _, in := range b.Instrs {
					switch x := in.(type) {
					case *ssa.Store:
						fa, ok := x.Addr.(*ssa.FieldAddr)
						if !ok || core.NamedOf(fa.X.Type()) != pr.t {
							continue
						}
						if fa.Field == pr.index {
							writesIndex = true
						}
						if fa.Field == pr.slice {
							for _, o := range core.Origins(x.Val) {
								switch y := o.(type) {
								case *ssa.Slice:
									if _, isAlloc := y.X.(*ssa.Alloc); !isAlloc {
										shrinks = x.Pos()
									}
								case *ssa.Call:
									if bi, ok := y.Call.Value.(*ssa.Builtin); !ok || bi.Name() != "append" {
										shrinks = x.Pos()
									}
								case *ssa.MakeSlice, *ssa.Const:
									if fn.Name() != "init" && !strings.HasPrefix(fn.Name(), "New") && !strings.HasPrefix(fn.Name(), "new") {
										shrinks = x.Pos()
									}
								}
							}
						}
					case *ssa.MapUpdate:
						if ml, ok := x.Map.(*ssa.UnOp); ok {
							if fa, ok := ml.X.(*ssa.FieldAddr); ok && core.NamedOf(fa.X.Type()) == pr.t && fa.Field == pr.index {
								writesIndex = true
							}
						}
					case *ssa.Call:
						if bi, ok := x.Call.Value.(*ssa.Builtin); ok && bi.Name() == "delete" {
							if ml, ok := x.Call.Args[0].(*ssa.UnOp); ok {
								if fa, ok := ml.X.(*ssa.FieldAddr); ok && core.NamedOf(fa.X.Type()) == pr.t && fa.Field == pr.index {
									writesIndex = true
								}
							}
						}
					}
				}
			}
			if shrinks == token.NoPos {
				continue
			}
			// construction of a fresh object is not a shrink of an indexed slice
			n++
			c.Check(writesIndex, core.SSAName(fn)+"|"+pr.t.Obj().Name()+"."+st.Field(pr.slice).Name()+"~"+st.Field(pr.index).Name()+"|index-follows-slice", p.Pos(shrinks),
				fn.Name()+" cuts back or replaces "+pr.t.Obj().Name()+"."+st.Field(pr.slice).Name()+" and keeps the index map "+st.Field(pr.index).Name()+" in step")
		}
	}
	if len(pairs) == 0 {
		c.Pass("no-index-map", "compiler", "no map field of a compiler struct indexes a slice field of the same struct")
	}
	c.Stat("index_pairs", len(pairs))
	c.Stat("shrinking_functions", n)
}
