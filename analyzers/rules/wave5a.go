package rules

import (
	"go/ast"
	"go/token"
	"go/types"
	"strings"

	"golang.org/x/tools/go/ssa"

	"risorcheck/core"
)

// brokenLexicographicIfForm: the statement form of the broken two-key
// comparison: `if a.X < b.X { return true }; return a.Y < b.Y` with nothing in
// between that settles a.X > b.X.  Checked for comparison function literals and
// for functions named Less/less.
func brokenLexicographicIfForm(c *core.Ctx) {
	p := c.P
	n := 0
	for _, pk := range p.Pkgs {
		info := pk.TypesInfo
		rel := core.RelPkg(pk.Types)
		check := func(owner string, body *ast.BlockStmt, idx *int) {
			if body == nil || len(body.List) < 2 {
				return
			}
			keyPair := func(e ast.Expr) (string, string, string, token.Token, bool) {
				be, ok := ast.Unparen(e).(*ast.BinaryExpr)
				if !ok || (be.Op != token.LSS && be.Op != token.GTR) {
					return "", "", "", 0, false
				}
				lx, ok1 := ast.Unparen(be.X).(*ast.SelectorExpr)
				ly, ok2 := ast.Unparen(be.Y).(*ast.SelectorExpr)
				if !ok1 || !ok2 || lx.Sel.Name != ly.Sel.Name {
					return "", "", "", 0, false
				}
				return exprStr(lx.X), exprStr(ly.X), lx.Sel.Name, be.Op, true
			}
			for i := 0; i+1 < len(body.List); i++ {
				ifs1, ok := body.List[i].(*ast.IfStmt)
				if !ok || ifs1.Else != nil || ifs1.Init != nil || len(ifs1.Body.List) != 1 {
					continue
				}
				ret1, ok := ifs1.Body.List[0].(*ast.ReturnStmt)
				if !ok || len(ret1.Results) != 1 || exprStr(ret1.Results[0]) != "true" {
					continue
				}
				a1, b1, f1, op1, ok := keyPair(ifs1.Cond)
				if !ok {
					continue
				}
				ret2, ok := body.List[i+1].(*ast.ReturnStmt)
				if !ok || len(ret2.Results) != 1 {
					continue
				}
				a2, b2, f2, op2, ok := keyPair(ret2.Results[0])
				if !ok || a1 != a2 || b1 != b2 || f1 == f2 || op1 != op2 {
					continue
				}
				_ = info
				n++
				*idx++
				c.Fail(rel+"."+owner+"|lexicographic-if#"+itoa(*idx), posOf(p, ifs1),
					"`if "+exprStr(ifs1.Cond)+" { return true }; return "+exprStr(ret2.Results[0])+"` is not a lexicographic comparison: when the first keys differ the other way the second key still decides (needs `if "+a1+"."+f1+" != "+b1+"."+f1+" { return false }` in between)")
			}
		}
		funcBodies(pk, func(fn *types.Func, fd *ast.FuncDecl) {
			idx := 0
			if strings.EqualFold(fn.Name(), "less") {
				check(declName(fd), fd.Body, &idx)
			}
			ast.Inspect(fd.Body, func(nd ast.Node) bool {
				if fl, ok := nd.(*ast.FuncLit); ok {
					if sig, ok := info.TypeOf(fl).(*types.Signature); ok && sig.Results().Len() == 1 {
						if b, ok := sig.Results().At(0).Type().Underlying().(*types.Basic); ok && b.Kind() == types.Bool {
							check(declName(fd), fl.Body, &idx)
						}
					}
				}
				return true
			})
		})
	}
	if n == 0 {
		c.Pass("no-broken-lexicographic-if-form", "repo", "no comparison function of the form `if a.X < b.X { return true }; return a.Y < b.Y`")
	}
}

// lexicographicBoth runs both shapes of the rule.
func lexicographicBoth(c *core.Ctx) {
	brokenLexicographicLess(c)
	brokenLexicographicIfForm(c)
}

// callRunsTheCodeFirst (C07-R13): risor.Call looks the function up only after
// it has run the code it was given on the VM.  Deciding "already evaluated" by
// finding a global of that name serves a function left behind by other code, or
// by an evaluation of the same code that was cut short.
func callRunsTheCodeFirst(c *core.Ctx) {
	p := c.P
	root := p.Pkg("")
	f := core.LookupFunc(root, "Call")
	if f == nil {
		core.Undecidedf("risor.Call not found")
	}
	sf := p.SSAFunc(f)
	vmT := core.MustType(p.Pkg("vm"), "VirtualMachine")
	var runs, gets []ssa.Instruction
	for _, b := range sf.Blocks {
		for _, in := range b.Instrs {
			ci, ok := in.(ssa.CallInstruction)
			if !ok {
				continue
			}
			cal := ci.Common().StaticCallee()
			if cal == nil {
				continue
			}
			// a helper of the package that does the running or the looking up
			// (Call split into smaller functions) stands for what it does
			if cal.Pkg == sf.Pkg && cal.Blocks != nil && cal != sf {
				r, g := vmCallsIn(cal, vmT, 0)
				if r {
					runs = append(runs, in)
				}
				if g {
					gets = append(gets, in)
				}
				continue
			}
			if cal.Signature.Recv() == nil || core.NamedOf(cal.Signature.Recv().Type()) != vmT {
				continue
			}
			switch {
			case strings.HasPrefix(cal.Name(), "Run"):
				runs = append(runs, in)
			case cal.Name() == "Get":
				gets = append(gets, in)
			}
		}
	}
	if len(runs) == 0 || len(gets) == 0 {
		core.Undecidedf("risor.Call: no Run*/Get call on the VM found (runs=%d gets=%d)", len(runs), len(gets))
	}
	for i, g := range gets {
		dominated := false
		for _, r := range runs {
			rb, gb := r.Block(), g.Block()
			if rb == gb {
				for _, x := range rb.Instrs {
					if x == r {
						dominated = true
						break
					}
					if x == g {
						break
					}
				}
			} else if rb.Dominates(gb) {
				dominated = true
			}
		}
		c.Check(dominated, "risor.Call|Get#"+itoa(i+1)+"|after-running-the-code", p.Pos(g.Pos()),
			"risor.Call reads the function from the VM only after it has run the given code on it")
	}
}

// vmNotPooled (C11-R9, C09-R8, C07-R14): a VirtualMachine is never put into a
// process-wide pool or other package-level container.  A recycled VM carries
// what its previous owner configured (input globals, modules, OS): the next
// evaluation can import a module its own configuration removed.
func vmNotPooled(c *core.Ctx) {
	p := c.P
	vmT := core.MustType(p.Pkg("vm"), "VirtualMachine")
	n := 0
	bad := 0
	for _, fn := range repoFns(p) {
		for _, b := range fn.Blocks {
			for _, in := range b.Instrs {
				ci, ok := in.(ssa.CallInstruction)
				if !ok {
					continue
				}
				cal := ci.Common().StaticCallee()
				if cal == nil || cal.Signature.Recv() == nil {
					continue
				}
				recvT := core.NamedOf(cal.Signature.Recv().Type())
				if recvT == nil || recvT.Obj().Pkg() == nil || recvT.Obj().Pkg().Path() != "sync" {
					continue
				}
				if cal.Name() != "Put" && cal.Name() != "Store" && cal.Name() != "LoadOrStore" {
					continue
				}
				for _, a := range ci.Common().Args[1:] {
					v := a
					if mi, ok := v.(*ssa.MakeInterface); ok {
						v = mi.X
					}
					n++
					if core.NamedOf(v.Type()) == vmT {
						bad++
						c.Fail(core.SSAName(fn)+"|"+recvT.Obj().Name()+"."+cal.Name()+"|vm-in-shared-container", p.Pos(in.Pos()),
							fn.Name()+" puts a VirtualMachine into a sync."+recvT.Obj().Name()+": the next user inherits the previous configuration's globals, modules and OS")
					}
				}
			}
		}
	}
	if bad == 0 {
		c.Pass("no-vm-in-shared-container", "repo", "no VirtualMachine is stored in a sync.Pool / sync.Map")
	}
	c.Stat("shared_container_stores", n)
}

// vmOptionsFromConfig (C12-R7): every option list the root package hands to the
// vm package comes from (*Config).VMOpts, the one place that adds the host OS,
// the importer and the concurrency switch next to the globals.  A second,
// shorter list for "an existing VM" silently drops WithOS.
func vmOptionsFromConfig(c *core.Ctx) {
	p := c.P
	root := p.Pkg("")
	cfgT := core.MustType(root, "Config")
	vmOpts := p.SSAFunc(core.MustMethod(cfgT, "VMOpts"))
	vmPkg := p.Pkg("vm").Types
	n := 0
	for _, fn := range repoFns(p, "") {
		if fn == vmOpts {
			continue
		}
		k := 0
		for _, b := range fn.Blocks {
			for _, in := range b.Instrs {
				ci, ok := in.(ssa.CallInstruction)
				if !ok {
					continue
				}
				cal := ci.Common().StaticCallee()
				if cal == nil || cal.Pkg == nil || cal.Pkg.Pkg != vmPkg || !cal.Signature.Variadic() {
					continue
				}
				last := cal.Signature.Params().At(cal.Signature.Params().Len() - 1)
				sl, ok := last.Type().Underlying().(*types.Slice)
				if !ok || !core.IsNamed(sl.Elem(), pkgPath("vm"), "Option") {
					continue
				}
				arg := ci.Common().Args[len(ci.Common().Args)-1]
				n++
				k++
				okv := true
				why := ""
				for _, o := range core.Origins(arg) {
					switch x := o.(type) {
					case *ssa.Call:
						if x.Call.StaticCallee() != vmOpts {
							okv = false
							why = "it comes from " + x.Call.Value.Name()
						}
					case *ssa.Const:
					default:
						okv = false
						why = "it is built here (" + o.String() + ")"
					}
				}
				c.Check(okv, core.SSAName(fn)+"|"+cal.Name()+"#"+itoa(k)+"|options-from-VMOpts", p.Pos(in.Pos()),
					fn.Name()+" passes vm."+cal.Name()+" the option list of Config.VMOpts()"+ifs(!okv, ": "+why+", which need not contain the OS, importer and concurrency options"))
			}
		}
	}
	if n == 0 {
		core.Undecidedf("the root package passes no option list to package vm")
	}
}

// limitedReadsAreChecked (C19-R8): reading through io.LimitReader and stopping
// there truncates silently — a value longer than the limit comes back shorter,
// with no error.  Every ReadAll of a LimitReader is followed by a comparison of
// the number of bytes read with the limit.
func limitedReadsAreChecked(c *core.Ctx) {
	p := c.P
	n := 0
	for _, fn := range repoFns(p) {
		k := 0
		for _, b := range fn.Blocks {
			for _, in := range b.Instrs {
				call, ok := in.(*ssa.Call)
				if !ok {
					continue
				}
				cal := call.Call.StaticCallee()
				if cal == nil || cal.Pkg == nil || cal.Pkg.Pkg == nil || cal.Pkg.Pkg.Path() != "io" || cal.Name() != "ReadAll" {
					continue
				}
				limited := false
				for _, o := range core.Origins(call.Call.Args[0]) {
					src := o
					if mi, ok := src.(*ssa.MakeInterface); ok {
						src = mi.X
					}
					if lc, ok := src.(*ssa.Call); ok {
						if lcal := lc.Call.StaticCallee(); lcal != nil && lcal.Pkg != nil && lcal.Pkg.Pkg != nil && lcal.Pkg.Pkg.Path() == "io" && lcal.Name() == "LimitReader" {
							limited = true
						}
					}
				}
				if !limited {
					continue
				}
				n++
				k++
				// len(result) compared somewhere in the function
				checked := false
				if call.Referrers() != nil {
					for _, r := range *call.Referrers() {
						ex, ok := r.(*ssa.Extract)
						if !ok || ex.Index != 0 || ex.Referrers() == nil {
							continue
						}
						for _, r2 := range *ex.Referrers() {
							lc, ok := r2.(*ssa.Call)
							if !ok {
								continue
							}
							if bi, ok := lc.Call.Value.(*ssa.Builtin); ok && bi.Name() == "len" && lc.Referrers() != nil {
								for _, r3 := range *lc.Referrers() {
									if bo, ok := r3.(*ssa.BinOp); ok {
										switch bo.Op {
										case token.GTR, token.GEQ, token.LSS, token.LEQ, token.EQL, token.NEQ:
											checked = true
										}
									}
									if cv, ok := r3.(*ssa.Convert); ok && cv.Referrers() != nil {
										for _, r4 := range *cv.Referrers() {
											if _, ok := r4.(*ssa.BinOp); ok {
												checked = true
											}
										}
									}
								}
							}
						}
					}
				}
				c.Check(checked, core.SSAName(fn)+"|ReadAll(LimitReader)#"+itoa(k)+"|length-checked", p.Pos(call.Pos()),
					fn.Name()+" reads through an io.LimitReader and compares the length read with the limit (otherwise longer input is silently cut)")
			}
		}
	}
	if n == 0 {
		c.Pass("no-limited-read", "repo", "no io.ReadAll of an io.LimitReader")
	}
}

// indexMapsFollowTheirSlice (C18-R9, C17-R10): where a map field of a struct
// indexes a slice field of the same struct (m[key] = len(s)-1 next to s =
// append(s, ...)), every function that cuts the slice back or replaces it also
// writes the map.  The compile rollback truncates `names`; an index map that is
// left as it was hands later pieces positions that no longer exist.
func indexMapsFollowTheirSlice(c *core.Ctx) {
	p := c.P
	type pair struct {
		t     *types.Named
		slice int
		index int
	}
	var pairs []pair
	fns := repoFns(p, "compiler")
	// discover pairs: MapUpdate on field M of X whose value depends on len(load of field S of the same X)
	for _, fn := range fns {
		for _, b := range fn.Blocks {
			for _, in := range b.Instrs {
				mu, ok := in.(*ssa.MapUpdate)
				if !ok {
					continue
				}
				ml, ok := mu.Map.(*ssa.UnOp)
				if !ok {
					continue
				}
				mfa, ok := ml.X.(*ssa.FieldAddr)
				if !ok {
					continue
				}
				nt := core.NamedOf(mfa.X.Type())
				if nt == nil {
					continue
				}
				core.DependsOn(mu.Value, func(w ssa.Value) bool {
					call, ok := w.(*ssa.Call)
					if !ok {
						return false
					}
					bi, ok := call.Call.Value.(*ssa.Builtin)
					if !ok || bi.Name() != "len" {
						return false
					}
					sl, ok := call.Call.Args[0].(*ssa.UnOp)
					if !ok {
						return false
					}
					sfa, ok := sl.X.(*ssa.FieldAddr)
					if !ok || core.NamedOf(sfa.X.Type()) != nt {
						return false
					}
					if _, isSlice := sl.Type().Underlying().(*types.Slice); !isSlice {
						return false
					}
					dup := false
					for _, pr := range pairs {
						if pr.t == nt && pr.slice == sfa.Field && pr.index == mfa.Field {
							dup = true
						}
					}
					if !dup {
						pairs = append(pairs, pair{nt, sfa.Field, mfa.Field})
					}
					return false
				})
			}
		}
	}
	n := 0
	for _, pr := range pairs {
		st := pr.t.Underlying().(*types.Struct)
		for _, fn := range fns {
			shrinks, writesIndex := token.NoPos, false
			for _, b := range fn.Blocks {
				for _, in := range b.Instrs {
					switch x := in.(type) {
					case *ssa.Store:
						fa, ok := x.Addr.(*ssa.FieldAddr)
						if !ok || core.NamedOf(fa.X.Type()) != pr.t {
							continue
						}
						if fa.Field == pr.index {
							writesIndex = true
						}
						if fa.Field == pr.slice {
							for _, o := range core.Origins(x.Val) {
								switch y := o.(type) {
								case *ssa.Slice:
									if _, isAlloc := y.X.(*ssa.Alloc); !isAlloc {
										shrinks = x.Pos()
									}
								case *ssa.Call:
									if bi, ok := y.Call.Value.(*ssa.Builtin); !ok || bi.Name() != "append" {
										shrinks = x.Pos()
									}
								case *ssa.MakeSlice, *ssa.Const:
									if fn.Name() != "init" && !strings.HasPrefix(fn.Name(), "New") && !strings.HasPrefix(fn.Name(), "new") {
										shrinks = x.Pos()
									}
								}
							}
						}
					case *ssa.MapUpdate:
						if ml, ok := x.Map.(*ssa.UnOp); ok {
							if fa, ok := ml.X.(*ssa.FieldAddr); ok && core.NamedOf(fa.X.Type()) == pr.t && fa.Field == pr.index {
								writesIndex = true
							}
						}
					case *ssa.Call:
						if bi, ok := x.Call.Value.(*ssa.Builtin); ok && bi.Name() == "delete" {
							if ml, ok := x.Call.Args[0].(*ssa.UnOp); ok {
								if fa, ok := ml.X.(*ssa.FieldAddr); ok && core.NamedOf(fa.X.Type()) == pr.t && fa.Field == pr.index {
									writesIndex = true
								}
							}
						}
					}
				}
			}
			if shrinks == token.NoPos {
				continue
			}
			// construction of a fresh object is not a shrink of an indexed slice
			n++
			c.Check(writesIndex, core.SSAName(fn)+"|"+pr.t.Obj().Name()+"."+st.Field(pr.slice).Name()+"~"+st.Field(pr.index).Name()+"|index-follows-slice", p.Pos(shrinks),
				fn.Name()+" cuts back or replaces "+pr.t.Obj().Name()+"."+st.Field(pr.slice).Name()+" and keeps the index map "+st.Field(pr.index).Name()+" in step")
		}
	}
	if len(pairs) == 0 {
		c.Pass("no-index-map", "compiler", "no map field of a compiler struct indexes a slice field of the same struct")
	}
	c.Stat("index_pairs", len(pairs))
	c.Stat("shrinking_functions", n)
}

// derivedConstructorsCopyEveryField (C02-R11): a constructor that builds a T
// from another *T field by field (NewClosure from the function template) sets
// every field that the primary constructors of T set.  A field added to the
// primary constructor and forgotten here is silently zero in every derived
// value — a closure that is no longer "named", has no defaults, ...
func derivedConstructorsCopyEveryField(c *core.Ctx) {
	p := c.P
	op := p.Pkg("object")
	info := op.TypesInfo
	type lit struct {
		fn      *types.Func
		fd      *ast.FuncDecl
		fields  map[string]bool
		derived bool
	}
	byType := map[*types.Named][]lit{}
	funcBodies(op, func(fn *types.Func, fd *ast.FuncDecl) {
		sig := fn.Type().(*types.Signature)
		if sig.Recv() != nil || sig.Results().Len() < 1 {
			return
		}
		nt := core.NamedOf(sig.Results().At(0).Type())
		if nt == nil || nt.Obj().Pkg() != op.Types {
			return
		}
		if _, isStruct := nt.Underlying().(*types.Struct); !isStruct {
			return
		}
		derived := false
		for i := 0; i < sig.Params().Len(); i++ {
			if core.NamedOf(sig.Params().At(i).Type()) == nt {
				derived = true
			}
		}
		ast.Inspect(fd.Body, func(n ast.Node) bool {
			cl, ok := n.(*ast.CompositeLit)
			if !ok || core.NamedOf(info.TypeOf(cl)) != nt {
				return true
			}
			l := lit{fn: fn, fd: fd, fields: map[string]bool{}, derived: derived}
			for _, e := range cl.Elts {
				if kv, ok := e.(*ast.KeyValueExpr); ok {
					l.fields[exprStr(kv.Key)] = true
				}
			}
			byType[nt] = append(byType[nt], l)
			return true
		})
	})
	n := 0
	for nt, ls := range byType {
		primary := map[string]bool{}
		for _, l := range ls {
			if !l.derived {
				for f := range l.fields {
					primary[f] = true
				}
			}
		}
		for _, l := range ls {
			if !l.derived {
				continue
			}
			n++
			var missing []string
			for f := range primary {
				if !l.fields[f] {
					missing = append(missing, f)
				}
			}
			sortStrings(missing)
			c.Check(len(missing) == 0, "object."+l.fn.Name()+"|copies-every-field-of-"+nt.Obj().Name(), posOf(p, l.fd),
				l.fn.Name()+" builds a "+nt.Obj().Name()+" from another one and sets every field the primary constructors set"+ifs(len(missing) > 0, "; missing: "+strings.Join(missing, ", ")))
		}
	}
	c.Stat("derived_constructors", n)
}

func sortStrings(s []string) {
	for i := 1; i < len(s); i++ {
		for j := i; j > 0 && s[j] < s[j-1]; j-- {
			s[j], s[j-1] = s[j-1], s[j]
		}
	}
}

// cellsAreMadeByTheVM (C02-R12): object.NewCell is called only by the dispatch
// function (MakeCell).  A cell made anywhere else — a "detached" copy of a
// closure for a new thread — is a second binding: writes through one are not
// seen through the other.
func cellsAreMadeByTheVM(c *core.Ctx) {
	p := c.P
	newCell := core.LookupFunc(p.Pkg("object"), "NewCell")
	if newCell == nil {
		core.Undecidedf("object.NewCell not found")
	}
	nc := p.SSAFunc(newCell)
	dispatch := p.SSAFunc(dispatchFunc(p))
	n := 0
	for _, fn := range repoFns(p) {
		for _, b := range fn.Blocks {
			for _, in := range b.Instrs {
				ci, ok := in.(ssa.CallInstruction)
				if !ok || ci.Common().StaticCallee() != nc {
					continue
				}
				n++
				c.Check(fn == dispatch, core.SSAName(fn)+"|NewCell|made-by-the-dispatch-function", p.Pos(in.Pos()),
					"cells are created by the VM's MakeCell handler only; "+fn.Name()+" creating one makes a second, unshared binding")
			}
		}
	}
	// composite literals of Cell outside its constructor
	cellT := core.LookupType(p.Pkg("object"), "Cell")
	if cellT != nil {
		for _, fn := range repoFns(p) {
			if fn == nc {
				continue
			}
			for _, b := range fn.Blocks {
				for _, in := range b.Instrs {
					if al, ok := in.(*ssa.Alloc); ok && al.Heap {
						if pt, ok := al.Type().Underlying().(*types.Pointer); ok && core.NamedOf(pt.Elem()) == cellT {
							n++
							c.Fail(core.SSAName(fn)+"|Cell-literal", p.Pos(al.Pos()), fn.Name()+" allocates an object.Cell itself")
						}
					}
				}
			}
		}
	}
	if n == 0 {
		core.Undecidedf("object.NewCell is never called")
	}
}

// maybeNilLocalsAreTested (C03-R13): on the surface that no recover protects, a
// pointer that is nil on one of the paths merging into it (declared with `var`,
// assigned only in some branches) is tested before it is dereferenced.
func maybeNilLocalsAreTested(c *core.Ctx) {
	p := c.P
	surf, _ := unprotectedSurface(p)
	var fns []*ssa.Function
	for f := range surf {
		if f.Blocks != nil {
			fns = append(fns, f)
		}
	}
	sortFns(fns)
	n := 0
	for _, fn := range fns {
		k := 0
		for _, b := range fn.Blocks {
			for _, in := range b.Instrs {
				phi, ok := in.(*ssa.Phi)
				if !ok {
					continue
				}
				if _, isPtr := phi.Type().Underlying().(*types.Pointer); !isPtr {
					continue
				}
				hasNil, hasVal := false, false
				for _, e := range phi.Edges {
					if k2, isC := e.(*ssa.Const); isC && k2.IsNil() {
						hasNil = true
					} else {
						hasVal = true
					}
				}
				if !hasNil || !hasVal || phi.Referrers() == nil {
					continue
				}
				for _, r := range *phi.Referrers() {
					var risky ssa.Instruction
					switch x := r.(type) {
					case *ssa.Call:
						if len(x.Call.Args) > 0 && x.Call.Args[0] == ssa.Value(phi) && !x.Call.IsInvoke() {
							if cal := x.Call.StaticCallee(); cal != nil && cal.Signature.Recv() != nil {
								// a method with a pointer receiver that reads a field
								risky = x
							}
						}
					case *ssa.FieldAddr:
						if x.X == ssa.Value(phi) {
							risky = x
						}
					}
					if risky == nil {
						continue
					}
					n++
					if nonNilGuardDominates(phi, risky.Block()) {
						continue
					}
					if tokenGuardCoversChain(p, fn) {
						c.Pass(core.SSAName(fn)+"|maybe-nil|token-guard-covers-dispatch", p.Pos(risky.Pos()), "the nil path is excluded: the function returns early unless the next token is one of the kinds its if/else-if chain handles")
						continue
					}
					k++
					c.Fail(core.SSAName(fn)+"|maybe-nil#"+itoa(k), p.Pos(risky.Pos()),
						fn.Name()+" dereferences a pointer that is nil on one of the paths that reach this point (it is assigned only in some branches) without testing it")
				}
			}
		}
		if k == 0 {
			// one obligation per function that has such merges
		}
	}
	if n == 0 {
		c.Pass("no-maybe-nil-dereference", "surface", "no dereference of a pointer merged with nil on the unprotected surface")
	}
	c.Stat("maybe_nil_dereferences_judged", n)
}

func sortFns(fns []*ssa.Function) {
	for i := 1; i < len(fns); i++ {
		for j := i; j > 0 && core.SSAName(fns[j]) < core.SSAName(fns[j-1]); j-- {
			fns[j], fns[j-1] = fns[j-1], fns[j]
		}
	}
}

// tokenGuardCoversChain: the function begins with `if !peekTokenIs(A) && !peekTokenIs(B) ... { return }`,
// advances once, and then dispatches with `if curTokenIs(A) {...} else if curTokenIs(B) {...}`
// over a superset of {A, B, ...}: the fall-through of the chain is unreachable.
func tokenGuardCoversChain(p *core.Program, fn *ssa.Function) bool {
	o, _ := fn.Object().(*types.Func)
	if o == nil {
		return false
	}
	fd := p.Decl(o)
	pk := p.DeclPkg(o)
	if fd == nil || pk == nil || fd.Body == nil {
		return false
	}
	info := pk.TypesInfo
	tokOf := func(e ast.Expr, method string) (string, bool) {
		ce, ok := ast.Unparen(e).(*ast.CallExpr)
		if !ok || len(ce.Args) != 1 {
			return "", false
		}
		cal := calleeOf(info, ce)
		if cal == nil || cal.Name() != method {
			return "", false
		}
		if k, _ := objOf(info, ce.Args[0]).(*types.Const); k != nil {
			return k.Name(), true
		}
		return "", false
	}
	guard := map[string]bool{}
	var guardIf *ast.IfStmt
	for _, st := range fd.Body.List {
		ifs, ok := st.(*ast.IfStmt)
		if !ok {
			continue
		}
		// conjunction of negated peekTokenIs
		okAll := true
		var conj func(e ast.Expr)
		conj = func(e ast.Expr) {
			e = ast.Unparen(e)
			if be, ok := e.(*ast.BinaryExpr); ok && be.Op == token.LAND {
				conj(be.X)
				conj(be.Y)
				return
			}
			if ue, ok := e.(*ast.UnaryExpr); ok && ue.Op == token.NOT {
				if t, ok := tokOf(ue.X, "peekTokenIs"); ok {
					guard[t] = true
					return
				}
			}
			okAll = false
		}
		conj(ifs.Cond)
		returns := false
		for _, bs := range ifs.Body.List {
			if _, ok := bs.(*ast.ReturnStmt); ok {
				returns = true
			}
		}
		if okAll && returns && len(guard) > 0 {
			guardIf = ifs
			break
		}
		guard = map[string]bool{}
	}
	if guardIf == nil {
		return false
	}
	// exactly one nextToken between the guard and the chain, then the chain
	handled := map[string]bool{}
	advances := 0
	for _, st := range fd.Body.List {
		if st.Pos() <= guardIf.Pos() {
			continue
		}
		if es, ok := st.(*ast.ExprStmt); ok {
			if ce, ok := es.X.(*ast.CallExpr); ok {
				if cal := calleeOf(info, ce); cal != nil && cal.Name() == "nextToken" {
					advances++
					continue
				}
			}
		}
		if ifs, ok := st.(*ast.IfStmt); ok {
			cur := ifs
			for cur != nil {
				if t, ok := tokOf(cur.Cond, "curTokenIs"); ok {
					handled[t] = true
				} else {
					break
				}
				next, _ := cur.Else.(*ast.IfStmt)
				cur = next
			}
			if len(handled) > 0 {
				break
			}
		}
	}
	if advances != 1 || len(handled) == 0 {
		return false
	}
	for t := range guard {
		if !handled[t] {
			return false
		}
	}
	return true
}

// noWritesUnderReadLock (C09-R9, C03-R14): a map that lives outside the function
// is not written while only the read half of a sync.RWMutex is held.  RLock
// admits any number of holders; two of them inserting at once is a "concurrent
// map writes" fatal error that no recover can stop.
func noWritesUnderReadLock(c *core.Ctx) {
	p := c.P
	n := 0
	for _, fn := range repoFns(p) {
		usesR := false
		for _, b := range fn.Blocks {
			for _, in := range b.Instrs {
				if ci, ok := in.(ssa.CallInstruction); ok {
					if cal := ci.Common().StaticCallee(); cal != nil && cal.Name() == "RLock" && cal.Pkg != nil && cal.Pkg.Pkg != nil && cal.Pkg.Pkg.Path() == "sync" {
						usesR = true
					}
				}
			}
		}
		if !usesR {
			continue
		}
		n++
		// forward may-analysis: read-locked (by RLock, not yet RUnlocked on this path); write-locked likewise
		type state struct{ r, w bool }
		in := map[*ssa.BasicBlock]state{}
		seen := map[*ssa.BasicBlock]bool{}
		work := []*ssa.BasicBlock{fn.Blocks[0]}
		bad := ""
		for len(work) > 0 {
			b := work[0]
			work = work[1:]
			cur := in[b]
			for _, ins := range b.Instrs {
				if ci, ok := ins.(ssa.CallInstruction); ok {
					if _, isDefer := ins.(*ssa.Defer); !isDefer {
						if cal := ci.Common().StaticCallee(); cal != nil && cal.Pkg != nil && cal.Pkg.Pkg != nil && cal.Pkg.Pkg.Path() == "sync" {
							switch cal.Name() {
							case "RLock":
								cur.r = true
							case "RUnlock":
								cur.r = false
							case "Lock":
								cur.w = true
							case "Unlock":
								cur.w = false
							}
						}
					}
				}
				if cur.r && !cur.w {
					var m ssa.Value
					switch x := ins.(type) {
					case *ssa.MapUpdate:
						m = x.Map
					case *ssa.Call:
						if bi, ok := x.Call.Value.(*ssa.Builtin); ok && bi.Name() == "delete" {
							m = x.Call.Args[0]
						}
					}
					if m != nil {
						for _, o := range core.Origins(m) {
							if u, ok := o.(*ssa.UnOp); ok {
								switch u.X.(type) {
								case *ssa.Global, *ssa.FieldAddr:
									bad = p.Pos(ins.Pos())
								}
							}
						}
					}
					// the same through a callee: what is called under the read lock writes shared state
					if ci, ok := ins.(ssa.CallInstruction); ok {
						if _, isDefer := ins.(*ssa.Defer); !isDefer {
							if cal := ci.Common().StaticCallee(); cal != nil && core.RepoFunc(cal) {
								if w := writesSharedState(p, cal, 3, map[*ssa.Function]bool{}); w != "" {
									bad = p.Pos(ins.Pos()) + " (" + cal.Name() + " → " + w + ")"
								}
							}
						}
					}
				}
			}
			for _, s := range b.Succs {
				ns := state{in[s].r || cur.r, in[s].w && cur.w}
				if !seen[s] {
					ns = cur
				}
				if !seen[s] || ns != in[s] {
					in[s] = ns
					seen[s] = true
					work = append(work, s)
				}
			}
		}
		c.Check(bad == "", core.SSAName(fn)+"|no-write-under-RLock", p.Pos(fn.Pos()),
			fn.Name()+" writes shared maps only under the write lock"+ifs(bad != "", "; the map write at "+bad+" happens while only RLock is held"))
	}
	if n == 0 {
		c.Pass("no-RLock-users", "repo", "no function takes a read lock")
	}
	c.Stat("rlock_users", n)
}

// noSharedUnsafeStdlibObjects (C09-R10): no package-level variable holds a
// standard-library object that is documented as not safe for concurrent use
// (*math/rand.Rand from rand.New, bytes.Buffer, strings.Builder, bufio and json
// stream objects).  Every VM in the process would use it at the same time.
func noSharedUnsafeStdlibObjects(c *core.Ctx) {
	p := c.P
	unsafe := map[string]bool{
		"math/rand.Rand": true, "math/rand/v2.Rand": true, "bytes.Buffer": true, "strings.Builder": true,
		"bufio.Reader": true, "bufio.Writer": true, "bufio.Scanner": true, "bufio.ReadWriter": true,
		"encoding/json.Encoder": true, "encoding/json.Decoder": true, "text/tabwriter.Writer": true,
		"compress/gzip.Writer": true, "compress/gzip.Reader": true,
	}
	n, bad := 0, 0
	for _, pk := range p.Pkgs {
		sp := p.SSAPkg(pk)
		if sp == nil {
			continue
		}
		var names []string
		for name, m := range sp.Members {
			if _, ok := m.(*ssa.Global); ok {
				names = append(names, name)
			}
		}
		sortStrings(names)
		for _, name := range names {
			g := sp.Members[name].(*ssa.Global)
			if !g.Pos().IsValid() || strings.HasSuffix(p.Fset.Position(g.Pos()).Filename, "_test.go") {
				continue
			}
			n++
			t := g.Type().(*types.Pointer).Elem()
			if pt, ok := t.Underlying().(*types.Pointer); ok {
				t = pt.Elem()
			}
			nt := core.NamedOf(t)
			if nt == nil || nt.Obj().Pkg() == nil {
				continue
			}
			if unsafe[nt.Obj().Pkg().Path()+"."+nt.Obj().Name()] {
				bad++
				c.Fail(core.RelPkg(pk.Types)+"."+name+"|shared-unsafe-object", p.Pos(g.Pos()),
					"package-level variable "+name+" holds a "+nt.Obj().Pkg().Path()+"."+nt.Obj().Name()+", which is not safe for concurrent use; every VM in the process shares it")
			}
		}
	}
	if bad == 0 {
		c.Pass("no-shared-unsafe-stdlib-object", "repo", "no package-level variable holds a standard-library object that is unsafe for concurrent use")
	}
	c.Stat("package_variables", n)
}

// setIPAcceptsTheEnd (C18-R10): the position "one past the last instruction"
// is a valid instruction pointer — it is where the REPL parks the VM after a
// failed piece so that the rest of that piece never runs.  If SetIP checks its
// argument against the instruction count at all, the comparison admits equality.
func setIPAcceptsTheEnd(c *core.Ctx) {
	p := c.P
	vmT := core.MustType(p.Pkg("vm"), "VirtualMachine")
	ipF := fieldByName(vmT, "ip")
	n := 0
	for _, m := range core.Methods(vmT) {
		sf := p.SSAFunc(m)
		if sf == nil || sf.Blocks == nil || !m.Exported() || len(sf.Params) != 2 || !isIntegerType(sf.Params[1].Type()) {
			continue
		}
		// stores its int parameter into vm.ip
		prm := sf.Params[1]
		sets := false
		for _, b := range sf.Blocks {
			for _, in := range b.Instrs {
				if st, ok := in.(*ssa.Store); ok && st.Val == ssa.Value(prm) {
					if fa, ok := st.Addr.(*ssa.FieldAddr); ok && fieldVar(fa) == ipF {
						sets = true
					}
				}
			}
		}
		if !sets {
			continue
		}
		n++
		bad := ""
		for _, b := range sf.Blocks {
			for _, in := range b.Instrs {
				bo, ok := in.(*ssa.BinOp)
				if !ok {
					continue
				}
				isCount := func(v ssa.Value) bool {
					return core.DependsOn(v, func(w ssa.Value) bool {
						if call, ok := w.(*ssa.Call); ok {
							if cal := call.Call.StaticCallee(); cal != nil && (cal.Name() == "InstructionCount") {
								return true
							}
							if bi, ok := call.Call.Value.(*ssa.Builtin); ok && bi.Name() == "len" {
								return true
							}
						}
						return false
					}) || func() bool {
						call, ok := v.(*ssa.Call)
						if !ok {
							return false
						}
						cal := call.Call.StaticCallee()
						return cal != nil && cal.Name() == "InstructionCount"
					}()
				}
				// value >= count  or  count <= value refuse the end position
				if (bo.Op == token.GEQ && bo.X == ssa.Value(prm) && isCount(bo.Y)) || (bo.Op == token.LEQ && bo.Y == ssa.Value(prm) && isCount(bo.X)) {
					bad = p.Pos(bo.Pos())
				}
			}
		}
		c.Check(bad == "", "vm.VirtualMachine."+m.Name()+"|end-position-accepted", p.Pos(sf.Pos()),
			m.Name()+" accepts the position just past the last instruction"+ifs(bad != "", "; the comparison at "+bad+" refuses it"))
	}
	if n == 0 {
		core.Undecidedf("no exported VirtualMachine method stores an int parameter into ip")
	}
}

// writesSharedState: fn (or a static callee, to the given depth) updates a map
// reached from a package variable or a field, or stores to a field of an object
// it did not allocate itself.  Returns a description of the first such write.
func writesSharedState(p *core.Program, fn *ssa.Function, depth int, seen map[*ssa.Function]bool) string {
	if fn == nil || fn.Blocks == nil || seen[fn] || depth < 0 {
		return ""
	}
	seen[fn] = true
	for _, b := range fn.Blocks {
		for _, in := range b.Instrs {
			switch x := in.(type) {
			case *ssa.MapUpdate:
				for _, o := range core.Origins(x.Map) {
					if u, ok := o.(*ssa.UnOp); ok {
						switch u.X.(type) {
						case *ssa.Global, *ssa.FieldAddr:
							return "map write at " + p.Pos(x.Pos())
						}
					}
				}
			case *ssa.Store:
				if fa, ok := x.Addr.(*ssa.FieldAddr); ok {
					root := addrRoot(fa)
					if u, ok := root.(*ssa.UnOp); ok {
						root = addrRoot(u.X)
					}
					switch root.(type) {
					case *ssa.Parameter, *ssa.Global:
						return "field write at " + p.Pos(x.Pos())
					}
				}
			}
		}
	}
	for _, b := range fn.Blocks {
		for _, in := range b.Instrs {
			if ci, ok := in.(ssa.CallInstruction); ok {
				if cal := ci.Common().StaticCallee(); cal != nil && core.RepoFunc(cal) {
					if w := writesSharedState(p, cal, depth-1, seen); w != "" {
						return cal.Name() + " → " + w
					}
				}
			}
		}
	}
	return ""
}

// vmCallsIn: fn (or a function of its package that it calls, two levels deep)
// calls a Run* method / the Get method of the VM.
func vmCallsIn(fn *ssa.Function, vmT *types.Named, depth int) (runs, gets bool) {
	if fn.Blocks == nil || depth > 2 {
		return
	}
	for _, b := range fn.Blocks {
		for _, in := range b.Instrs {
			ci, ok := in.(ssa.CallInstruction)
			if !ok {
				continue
			}
			cal := ci.Common().StaticCallee()
			if cal == nil {
				continue
			}
			if cal.Signature.Recv() != nil && core.NamedOf(cal.Signature.Recv().Type()) == vmT {
				if strings.HasPrefix(cal.Name(), "Run") {
					runs = true
				}
				if cal.Name() == "Get" {
					gets = true
				}
				continue
			}
			if cal.Pkg == fn.Pkg && cal != fn {
				r, g := vmCallsIn(cal, vmT, depth+1)
				runs, gets = runs || r, gets || g
			}
		}
	}
	return
}
