package rules

import (
	"go/ast"
	"go/token"
	"go/types"
	"sort"
	"strings"
	"unicode"

	"golang.org/x/tools/go/packages"
	"golang.org/x/tools/go/ssa"

	"risorcheck/core"
)

func init() {
	core.Register(&core.Property{
		ID: "C19",
		Decided: "Structural agreement between the library wrappers and the Go functions they wrap (equality of results over all arguments is value-level and NOT decided): " +
			"(R1) namesake: a builtin registered under name n in a module that mirrors a Go package P (strings, strconv, math, filepath, regexp) calls P's function CamelCase(n) — through the generated shim where there is one — with its converted arguments in positional order; four reasoned exceptions are tabled; " +
			"(R2) no second opinion: a wrapper whose Go function reports invalid input through an error result does not pre-validate the converted arguments itself (its own range test would have to replicate Go's rules exactly, e.g. base 0 of ParseInt); " +
			"(R3) codec pairing: every registered codec has both directions, both use the same encoding object, and the pair is a known inverse pair of the standard library that consumes its whole input (json.Marshal/json.Unmarshal, EncodeToString/DecodeString, gzip.NewWriter/NewReader, QueryEscape/QueryUnescape, csv Writer/Reader); the json module uses the same pair as the json codec.",
		NotCovered:  "Everything value-level: empty separators, invalid UTF-8, 2^53, the behaviour of the Go functions themselves.",
		Assumptions: []string{"the table of inverse pairs of the Go standard library in rules/c19.go", "snake_case builtin names map to CamelCase Go names"},
		Rules: []*core.Rule{
			{ID: "C19-R1", Title: "wrappers call their Go namesake with arguments in order", Floor: 25, Run: c19r1},
			{ID: "C19-R2", Title: "wrappers do not pre-validate what Go validates", Floor: 5, Run: c19r2},
			{ID: "C19-R3", Title: "codecs pair known inverse functions over the whole input", Floor: 5, Run: c19r3},
			{ID: "C19-R4", Title: "string methods return their Go namesake's result on every path", Floor: 8, Run: c19r4},
			{ID: "C19-R5", Title: "encoders return storage of their own (nothing taken from and returned to a pool)", Floor: 1, Run: func(c *core.Ctx) { pooledResult(c) }},
			{ID: "C19-R6", Title: "results are cached only after their error was checked", Floor: 3, Run: func(c *core.Ctx) { publishBeforeErrorCheck(c) }},
			{ID: "C19-R7", Title: "MarshalJSON methods quote with encoding/json", Floor: 3, Run: jsonMarshalersUseJSON},
			{ID: "C19-R8", Title: "limited reads are checked for truncation", Floor: 1, Run: limitedReadsAreChecked},
			{ID: "C19-R9", Title: "Interface() of a container is never a nil slice or map", Floor: 2, Run: containerInterfaceNotNil},
			{ID: "C19-R10", Title: "a wrapper that sorts a Go error by type ends on every kind", Floor: 1, Run: errorBranchesDoNotFallThrough},
			{ID: "C19-R11", Title: "a wrapper returns its Go namesake's result as it is", Floor: 20, Run: wrapperResultsNotReinterpreted},
			{ID: "C19-R12", Title: "the json codec and json.marshal hand the same value to encoding/json", Floor: 1, Run: jsonCodecAndModuleEncodeTheSameThing},
			{ID: "C19-R13", Title: "a byte of a string does not stand for a character", Floor: 1, Run: stringBytesAreNotCharacters},
			{ID: "C19-R14", Title: "Repeat counts from scripts are validated", Floor: 1, Run: repeatCountsAreValidated},
			{ID: "C19-R15", Title: "containers never encode as JSON null", Floor: 2, Run: containersNeverEncodeAsNull},
			{ID: "C19-R16", Title: "integer divisors from scripts are tested", Floor: 1, Run: scriptDivisionsAreGuarded},
			{ID: "C19-R17", Title: "byte_slice methods call their bytes namesake", Floor: 10, Run: byteSliceMethodsCallTheirNamesake},
			{ID: "C19-R18", Title: "encodings are chosen by options, not by data", Floor: 1, Run: encodingsAreChosenByOptionsNotByData},
			{ID: "C19-R19", Title: "padded encodings see the whole input", Floor: 2, Run: paddedEncodingsSeeTheWholeInput},
			{ID: "C19-R20", Title: "module builtins call the Go function they are named after", Floor: 30, Run: moduleFunctionsCallTheirNamesake},
			{ID: "C19-R21", Title: "encoded text is not edited", Floor: 1, Run: encodedTextIsNotEdited},
			{ID: "C19-R22", Title: "script-supplied sizes are tested before make (shared with C16-R27)", Floor: 3, Run: scriptSizesAreTestedBeforeMake},
			{ID: "C19-R23", Title: "methods of strings and byte slices call their Go namesake", Floor: 10, Run: methodsCallTheirGoNamesake},
			{ID: "C19-R24", Title: "what a walk enters it leaves on every path", Floor: 2, Run: whatIsEnteredIsLeft},
			{ID: "C19-R25", Title: "regexp methods answer with the regexp", Floor: 1, Run: regexpMethodsAnswerWithTheRegexp},
			{ID: "C19-R26", Title: "a codec writes into storage of its own", Floor: 1, Run: aCodecWritesIntoStorageOfItsOwn},
		},
	})
}

func camel(s string) string {
	parts := strings.Split(s, "_")
	for i, p := range parts {
		if p == "" {
			continue
		}
		r := []rune(p)
		r[0] = unicode.ToUpper(r[0])
		parts[i] = string(r)
	}
	return strings.Join(parts, "")
}

type wrapperInfo struct {
	module string
	name   string // script name
	fn     *types.Func
	pk     *packages.Package
	goPkg  string
}

var mirrored = map[string]string{"modules/strings": "strings", "modules/strconv": "strconv", "modules/math": "math", "modules/filepath": "path/filepath", "modules/regexp": "regexp", "modules/bytes": "bytes"}

// registeredWrappers: entries of the map literal passed to object.NewBuiltinsModule
// (or returned by Builtins()) of the form "name": object.NewBuiltin("name", Fn).
func registeredWrappers(p *core.Program) []wrapperInfo {
	var out []wrapperInfo
	for rel, goPkg := range mirrored {
		if !p.HasPkg(rel) {
			continue
		}
		pk := p.Pkg(rel)
		info := pk.TypesInfo
		for _, f := range pk.Syntax {
			seenFn := map[*types.Func]bool{}
			ast.Inspect(f, func(n ast.Node) bool {
				var keyExpr ast.Expr
				var val ast.Expr
				switch x := n.(type) {
				case *ast.KeyValueExpr:
					keyExpr, val = x.Key, x.Value
				case *ast.AssignStmt:
					// generated registration: builtins["index"] = object.NewBuiltin("index", Index)
					if len(x.Lhs) == 1 && len(x.Rhs) == 1 {
						if ix, ok := x.Lhs[0].(*ast.IndexExpr); ok {
							keyExpr, val = ix.Index, x.Rhs[0]
						}
					}
				}
				if keyExpr == nil {
					return true
				}
				name, ok := constString(info, keyExpr)
				if !ok {
					return true
				}
				ce, ok := ast.Unparen(val).(*ast.CallExpr)
				if !ok || len(ce.Args) < 2 {
					return true
				}
				cal := calleeOf(info, ce)
				if cal == nil || cal.Name() != "NewBuiltin" {
					return true
				}
				fn, _ := objOf(info, ce.Args[1]).(*types.Func)
				if fn == nil || seenFn[fn] {
					return true
				}
				seenFn[fn] = true
				out = append(out, wrapperInfo{rel, name, fn, pk, goPkg})
				return true
			})
		}
	}
	sort.Slice(out, func(i, j int) bool { return out[i].module+out[i].name < out[j].module+out[j].name })
	return out
}

// c19Exceptions: wrappers that deliberately do not call their namesake.
var c19Exceptions = map[string]string{
	"modules/filepath.abs":      "must resolve against the mediated OS's working directory (C12) instead of filepath.Abs",
	"modules/filepath.walk_dir": "must walk the mediated OS's filesystem (C12) instead of filepath.WalkDir",
	"modules/regexp.match":      "string form of the namesake: regexp.MatchString",
}

// goCallsIn: calls to functions of Go package path made by fn (directly or through repository helpers in the same package, depth 2).
func goCallsIn(p *core.Program, fn *types.Func, goPkg string, depth int) []*ast.CallExpr {
	fd := p.Decl(fn)
	pk := p.DeclPkg(fn)
	if fd == nil || pk == nil || fd.Body == nil || depth > 2 {
		return nil
	}
	var out []*ast.CallExpr
	ast.Inspect(fd.Body, func(n ast.Node) bool {
		ce, ok := n.(*ast.CallExpr)
		if !ok {
			return true
		}
		cal := calleeOf(pk.TypesInfo, ce)
		if cal == nil || cal.Pkg() == nil {
			return true
		}
		if cal.Pkg().Path() == goPkg {
			out = append(out, ce)
		} else if cal.Pkg() == pk.Types && core.RecvNamed(cal) == nil {
			out = append(out, goCallsIn(p, cal, goPkg, depth+1)...)
		}
		return true
	})
	return out
}

func c19r1(c *core.Ctx) {
	p := c.P
	ws := registeredWrappers(p)
	nAgree := 0
	for _, w := range ws {
		goP := (*types.Package)(nil)
		for _, im := range w.pk.Types.Imports() {
			if im.Path() == w.goPkg {
				goP = im
			}
		}
		if goP == nil {
			continue
		}
		want := camel(w.name)
		target, _ := goP.Scope().Lookup(want).(*types.Func)
		if target == nil {
			continue // no namesake in the Go package: nothing to agree with
		}
		key := w.module + "." + w.name + "|calls:" + w.goPkg + "." + want
		if why, ok := c19Exceptions[w.module+"."+w.name]; ok {
			c.Pass(key, posOf(p, p.Decl(w.fn)), "reasoned exception: "+why)
			continue
		}
		calls := goCallsIn(p, w.fn, w.goPkg, 0)
		var hit *ast.CallExpr
		for _, ce := range calls {
			pk := w.pk
			if cal := calleeOf(pk.TypesInfo, ce); cal == target {
				hit = ce
			}
		}
		if hit == nil {
			var names []string
			for _, ce := range calls {
				names = append(names, exprStr(ce.Fun))
			}
			c.Fail(key, posOf(p, p.Decl(w.fn)), "builtin "+w.name+" of module "+w.module+" must call "+w.goPkg+"."+want+" (it calls: "+strings.Join(names, ", ")+")")
			continue
		}
		nAgree++
		// positional order: the i-th Go argument derives from the i-th script argument (args[i])
		okOrder, why := argsInOrder(p, w, hit)
		c.Check(okOrder, key, posOf(p, hit), "builtin "+w.name+" passes its converted arguments to "+w.goPkg+"."+want+" in positional order"+ifs(!okOrder, ": "+why))
	}
	c.Stat("registered_wrappers", len(ws))
	c.Stat("wrappers_with_namesake", nAgree)
}

// argsInOrder: each argument of the Go call that derives from args[k] appears at a position whose k is non-decreasing and distinct.
func argsInOrder(p *core.Program, w wrapperInfo, call *ast.CallExpr) (bool, string) {
	fd := p.Decl(w.fn)
	info := w.pk.TypesInfo
	// which args[k] feeds each local: x, err := object.AsString(args[k])
	src := map[types.Object]int{}
	var argsObj types.Object
	if fd.Type.Params != nil {
		for _, f := range fd.Type.Params.List {
			for _, nm := range f.Names {
				if sl, ok := info.Defs[nm].Type().(*types.Slice); ok && core.IsNamed(sl.Elem(), pkgPath("object"), "Object") {
					argsObj = info.Defs[nm]
				}
			}
		}
	}
	if argsObj == nil {
		return true, "" // shim with typed parameters: order is by parameter
	}
	indexOf := func(e ast.Expr) int {
		k := -1
		ast.Inspect(e, func(n ast.Node) bool {
			if ix, ok := n.(*ast.IndexExpr); ok {
				if id, ok := ix.X.(*ast.Ident); ok && info.Uses[id] == argsObj {
					if v, ok := constInt(info, ix.Index); ok {
						k = int(v)
					}
				}
			}
			return true
		})
		return k
	}
	ast.Inspect(fd.Body, func(n ast.Node) bool {
		if as, ok := n.(*ast.AssignStmt); ok && len(as.Rhs) == 1 {
			if k := indexOf(as.Rhs[0]); k >= 0 {
				if id, ok := as.Lhs[0].(*ast.Ident); ok {
					if o := objOfIdent(info, id); o != nil {
						src[o] = k
					}
				}
			}
		}
		return true
	})
	last := -1
	for i, a := range call.Args {
		k := indexOf(a)
		ast.Inspect(a, func(n ast.Node) bool {
			if id, ok := n.(*ast.Ident); ok {
				if kk, ok := src[info.Uses[id]]; ok {
					k = kk
				}
			}
			return true
		})
		if k < 0 {
			continue
		}
		if k <= last {
			return false, sprintf("Go argument %d is taken from script argument %d, after script argument %d was already used", i, k, last)
		}
		last = k
	}
	return true, ""
}

func c19r2(c *core.Ctx) {
	p := c.P
	ws := registeredWrappers(p)
	n := 0
	for _, w := range ws {
		goP := (*types.Package)(nil)
		for _, im := range w.pk.Types.Imports() {
			if im.Path() == w.goPkg {
				goP = im
			}
		}
		if goP == nil {
			continue
		}
		target, _ := goP.Scope().Lookup(camel(w.name)).(*types.Func)
		if target == nil {
			continue
		}
		sig := target.Type().(*types.Signature)
		returnsErr := sig.Results().Len() > 0 && isErrorType(sig.Results().At(sig.Results().Len()-1).Type())
		if !returnsErr {
			continue
		}
		n++
		fd := p.Decl(w.fn)
		info := w.pk.TypesInfo
		// locals holding converted arguments
		converted := map[types.Object]bool{}
		ast.Inspect(fd.Body, func(nd ast.Node) bool {
			if as, ok := nd.(*ast.AssignStmt); ok && len(as.Rhs) == 1 {
				if ce, ok := ast.Unparen(as.Rhs[0]).(*ast.CallExpr); ok {
					if cal := calleeOf(info, ce); cal != nil && cal.Pkg() != nil && cal.Pkg().Path() == pkgPath("object") && strings.HasPrefix(cal.Name(), "As") {
						if id, ok := as.Lhs[0].(*ast.Ident); ok {
							converted[objOfIdent(info, id)] = true
						}
					}
				}
			}
			return true
		})
		// position of the wrapped call
		callPos := token.NoPos
		for _, ce := range goCallsIn(p, w.fn, w.goPkg, 0) {
			if calleeOf(info, ce) == target {
				callPos = ce.Pos()
			}
		}
		bad := ""
		ast.Inspect(fd.Body, func(nd ast.Node) bool {
			ifs, ok := nd.(*ast.IfStmt)
			if !ok || (callPos != token.NoPos && ifs.Pos() > callPos) {
				return true
			}
			// condition compares a converted argument with something and the body returns
			mentions := false
			ast.Inspect(ifs.Cond, func(k ast.Node) bool {
				if be, ok := k.(*ast.BinaryExpr); ok {
					switch be.Op {
					case token.LSS, token.GTR, token.LEQ, token.GEQ, token.EQL, token.NEQ:
						for _, side := range []ast.Expr{be.X, be.Y} {
							if id, ok := ast.Unparen(side).(*ast.Ident); ok && converted[info.Uses[id]] {
								mentions = true
							}
						}
					}
				}
				return true
			})
			if !mentions {
				return true
			}
			for _, s := range ifs.Body.List {
				if _, isRet := s.(*ast.ReturnStmt); isRet {
					bad = exprStr(ifs.Cond)
				}
			}
			return true
		})
		c.Check(bad == "", w.module+"."+w.name+"|no-prevalidation", posOf(p, fd),
			w.goPkg+"."+camel(w.name)+" reports invalid arguments through its error result; the wrapper must not reject arguments on its own"+ifs(bad != "", " (it returns early when "+bad+"), which has to replicate Go's rules exactly — values Go accepts are refused"))
	}
	c.Stat("error_returning_namesakes", n)
}

// ---------------------------------------------------------------- R3

type pairRule struct {
	enc, dec string // "pkg.Func" or "pkg.Type.Method"
}

var inversePairs = []pairRule{
	{"encoding/json.Marshal", "encoding/json.Unmarshal"},
	{"encoding/base64.Encoding.EncodeToString", "encoding/base64.Encoding.DecodeString"},
	{"encoding/base64.Encoding.EncodeToString", "encoding/base64.Encoding.Decode"},
	{"encoding/base32.Encoding.EncodeToString", "encoding/base32.Encoding.DecodeString"},
	{"encoding/base32.Encoding.EncodeToString", "encoding/base32.Encoding.Decode"},
	{"encoding/hex.EncodeToString", "encoding/hex.DecodeString"},
	{"encoding/hex.EncodeToString", "encoding/hex.Decode"},
	{"net/url.QueryEscape", "net/url.QueryUnescape"},
	{"compress/gzip.NewWriter", "compress/gzip.NewReader"},
	{"encoding/csv.NewWriter", "encoding/csv.NewReader"},
}

// partialDecoders: decoding entry points that stop after the first value and accept trailing data.
var partialDecoders = map[string]bool{"encoding/json.Decoder.Decode": true, "encoding/json.NewDecoder": true}

func stdCalls(p *core.Program, f *ssa.Function, depth int, seen map[*ssa.Function]bool, out map[string]bool) {
	if f == nil || f.Blocks == nil || seen[f] || depth > 3 {
		return
	}
	seen[f] = true
	for _, b := range f.Blocks {
		for _, in := range b.Instrs {
			ci, ok := in.(ssa.CallInstruction)
			if !ok {
				continue
			}
			callee := ci.Common().StaticCallee()
			if callee == nil || callee.Pkg == nil {
				continue
			}
			if core.RepoFunc(callee) {
				if callee.Pkg == f.Pkg {
					stdCalls(p, callee, depth+1, seen, out)
				}
				continue
			}
			name := callee.Pkg.Pkg.Path() + "."
			if callee.Signature.Recv() != nil {
				if nt := core.NamedOf(callee.Signature.Recv().Type()); nt != nil {
					name += nt.Obj().Name() + "."
				}
			}
			out[name+callee.Name()] = true
		}
	}
	for _, a := range f.AnonFuncs {
		stdCalls(p, a, depth+1, seen, out)
	}
}

func c19r3(c *core.Ctx) {
	p := c.P
	bp := p.Pkg("builtins")
	info := bp.TypesInfo
	reg := core.LookupFunc(bp, "RegisterCodec")
	if reg == nil {
		core.Undecidedf("builtins.RegisterCodec not found")
	}
	n := 0
	var jsonEnc, jsonDec map[string]bool
	funcBodies(bp, func(fn *types.Func, fd *ast.FuncDecl) {
		ast.Inspect(fd.Body, func(nd ast.Node) bool {
			ce, ok := nd.(*ast.CallExpr)
			if !ok || calleeOf(info, ce) != reg || len(ce.Args) != 2 {
				return true
			}
			name, _ := constString(info, ce.Args[0])
			var encF, decF *types.Func
			ast.Inspect(ce.Args[1], func(k ast.Node) bool {
				if kv, ok := k.(*ast.KeyValueExpr); ok {
					if id, ok := kv.Key.(*ast.Ident); ok {
						f, _ := objOf(info, kv.Value).(*types.Func)
						switch id.Name {
						case "Encode":
							encF = f
						case "Decode":
							decF = f
						}
					}
				}
				return true
			})
			n++
			key := "builtins.codec:" + name
			if encF == nil || decF == nil {
				c.Fail(key+"|both-directions", posOf(p, ce), "codec "+name+" must register both an encoder and a decoder")
				return true
			}
			enc, dec := map[string]bool{}, map[string]bool{}
			stdCalls(p, p.SSAFunc(encF), 0, map[*ssa.Function]bool{}, enc)
			stdCalls(p, p.SSAFunc(decF), 0, map[*ssa.Function]bool{}, dec)
			if name == "json" {
				jsonEnc, jsonDec = enc, dec
			}
			paired := ""
			for _, pr := range inversePairs {
				if enc[pr.enc] && dec[pr.dec] {
					paired = pr.enc + " / " + pr.dec
				}
			}
			c.Check(paired != "", key+"|inverse-pair", posOf(p, ce), "codec "+name+" pairs an encoder and decoder that are inverses in the Go standard library"+ifs(paired != "", " ("+paired+")")+ifs(paired == "", " — encoder uses {"+strings.Join(interesting(enc), ", ")+"}, decoder uses {"+strings.Join(interesting(dec), ", ")+"}"))
			partial := ""
			for d := range dec {
				if partialDecoders[d] {
					partial = d
				}
			}
			c.Check(partial == "", key+"|whole-input", posOf(p, ce), "the decoder of codec "+name+" consumes its whole input"+ifs(partial != "", ": "+partial+" stops after the first value and silently accepts trailing data, so malformed input is not rejected"))
			// same encoding object on both sides (base64.StdEncoding etc.)
			encObjs, decObjs := encodingObjects(p, encF), encodingObjects(p, decF)
			if len(encObjs) > 0 || len(decObjs) > 0 {
				c.Check(strings.Join(encObjs, ",") == strings.Join(decObjs, ","), key+"|same-encoding-object", posOf(p, ce), "both directions of codec "+name+" use the same encoding object (enc: "+strings.Join(encObjs, ",")+"; dec: "+strings.Join(decObjs, ",")+")")
			}
			return true
		})
	})
	// modules/json uses the same pair as the json codec
	if p.HasPkg("modules/json") && jsonEnc != nil {
		mp := p.Pkg("modules/json")
		used := map[string]bool{}
		for _, m := range p.SSAPkg(mp).Members {
			if f, ok := m.(*ssa.Function); ok {
				stdCalls(p, f, 0, map[*ssa.Function]bool{}, used)
			}
		}
		okj := used["encoding/json.Marshal"] == jsonEnc["encoding/json.Marshal"] && used["encoding/json.Unmarshal"] == jsonDec["encoding/json.Unmarshal"] && !used["encoding/json.Decoder.Decode"]
		c.Check(okj, "modules/json|agrees-with-codec", "modules/json", "json.marshal/json.unmarshal of the json module use the same standard-library pair as the json codec")
	}
	c.Stat("codecs", n)
}

func interesting(m map[string]bool) []string {
	var out []string
	for k := range m {
		if strings.HasPrefix(k, "encoding/") || strings.HasPrefix(k, "compress/") || strings.HasPrefix(k, "net/url") {
			out = append(out, k)
		}
	}
	sort.Strings(out)
	return out
}

// encodingObjects: package-level encoding objects (base64.StdEncoding, …) referenced by fn.
func encodingObjects(p *core.Program, fn *types.Func) []string {
	fd := p.Decl(fn)
	pk := p.DeclPkg(fn)
	if fd == nil || pk == nil {
		return nil
	}
	seen := map[string]bool{}
	ast.Inspect(fd.Body, func(n ast.Node) bool {
		if se, ok := n.(*ast.SelectorExpr); ok {
			if v, ok := pk.TypesInfo.Uses[se.Sel].(*types.Var); ok && v.Pkg() != nil && strings.HasPrefix(v.Pkg().Path(), "encoding/") && v.Parent() == v.Pkg().Scope() {
				seen[v.Pkg().Name()+"."+v.Name()] = true
			}
		}
		return true
	})
	return sortedKeys(seen)
}
