package rules

import (
	"fmt"
	"go/types"
	"sort"

	"risorcheck/core"
)

// Field anchors by type.  The rules name the fields they are about
// (VirtualMachine.loadedCode, SymbolTable.symbols, ...).  A field that is
// renamed is still the same field: when the name is not found, the field is
// looked for by the type it had when the rule was written, provided that type
// is (and was) unique in its struct.  The table is frozen from the pinned tree
// (`risorcheck -fieldhints`); a field whose type is shared with another field
// of the struct (sp, ip, fp: int) has no entry and is found by name or by the
// role resolvers only.  This is not a match on source text: it identifies a
// field by its declared type, and answers "not found" when that is ambiguous.

func typeKey(t types.Type) string {
	return types.TypeString(t, func(p *types.Package) string { return p.Name() })
}

func hintKey(nt *types.Named, field string) string {
	pkg := ""
	if nt.Obj().Pkg() != nil {
		pkg = nt.Obj().Pkg().Path()
	}
	return pkg + "." + nt.Obj().Name() + "." + field
}

// fieldByHint: the unique field of nt whose type is the one recorded for name.
func fieldByHint(nt *types.Named, name string) int {
	want, ok := fieldTypeHints[hintKey(nt, name)]
	if !ok {
		return -1
	}
	st, ok := nt.Underlying().(*types.Struct)
	if !ok {
		return -1
	}
	found := -1
	for i := 0; i < st.NumFields(); i++ {
		if typeKey(st.Field(i).Type()) == want {
			if found >= 0 {
				return -1 // ambiguous today
			}
			found = i
		}
	}
	return found
}

// DumpFieldHints prints the table for the struct types of the repository's packages.
func DumpFieldHints(p *core.Program) {
	var lines []string
	for _, pk := range p.Pkgs {
		sc := pk.Types.Scope()
		for _, n := range sc.Names() {
			tn, ok := sc.Lookup(n).(*types.TypeName)
			if !ok {
				continue
			}
			nt, ok := tn.Type().(*types.Named)
			if !ok {
				continue
			}
			st, ok := nt.Underlying().(*types.Struct)
			if !ok {
				continue
			}
			count := map[string]int{}
			for i := 0; i < st.NumFields(); i++ {
				count[typeKey(st.Field(i).Type())]++
			}
			for i := 0; i < st.NumFields(); i++ {
				k := typeKey(st.Field(i).Type())
				if count[k] == 1 {
					lines = append(lines, fmt.Sprintf("\t%q: %q,", hintKey(nt, st.Field(i).Name()), k))
				}
			}
		}
	}
	sort.Strings(lines)
	for _, l := range lines {
		fmt.Println(l)
	}
}

// anchorName: the name under which the rules know field i of nt: its own name,
// or - when the field was renamed - the name whose recorded type it has (and
// which no field of the struct bears today).  Exception tables and obligation
// keys use the anchor name, so that a rename changes neither.
func anchorName(nt *types.Named, i int) string {
	st := nt.Underlying().(*types.Struct)
	f := st.Field(i)
	if _, known := fieldTypeHints[hintKey(nt, f.Name())]; known {
		return f.Name()
	}
	prefix := hintKey(nt, "")
	tk := typeKey(f.Type())
	cand := ""
	for k, v := range fieldTypeHints {
		if len(k) <= len(prefix) || k[:len(prefix)] != prefix || v != tk {
			continue
		}
		old := k[len(prefix):]
		taken := false
		for j := 0; j < st.NumFields(); j++ {
			if st.Field(j).Name() == old {
				taken = true
			}
		}
		if taken {
			continue
		}
		if cand != "" && cand != old {
			return f.Name()
		}
		cand = old
	}
	if cand != "" && fieldByHint(nt, cand) == i {
		return cand
	}
	return f.Name()
}
