package rules

import (
	"fmt"
	"go/ast"
	"go/constant"
	"go/token"
	"go/types"
	"strings"

	"risorcheck/core"
)

func (a *caiAn) symbolic(sym string, t types.Type) cVal {
	if t == nil {
		return vUnknown{Why: sym}
	}
	if isErrorType(t) {
		return vErr{}
	}
	switch u := t.Underlying().(type) {
	case *types.Slice:
		if isIntSlice(t) {
			return vUnknown{Why: sym + ":[]int"}
		}
		return vSlice{Sym: sym, Elem: u.Elem(), Len: Sym("len(" + sym + ")")}
	case *types.Map:
		return vSlice{Sym: sym, Elem: u.Elem(), Len: Sym("len(" + sym + ")")}
	case *types.Basic:
		if u.Info()&types.IsString != 0 {
			return vStr{Sym: sym}
		}
		if u.Info()&types.IsBoolean != 0 {
			return vBool{Pred: sym}
		}
		if u.Info()&types.IsInteger != 0 {
			return vInt{L: Sym(sym)}
		}
	case *types.Interface, *types.Pointer:
		if a.isASTType(t) {
			return vNode{Sym: sym, Typ: t}
		}
		if core.NamedOf(t) == a.loopT {
			return vUnknown{Why: sym + ":loop"}
		}
	}
	return vUnknown{Why: sym + ":" + t.String()}
}

func (a *caiAn) isASTType(t types.Type) bool {
	n := core.NamedOf(t)
	return n != nil && n.Obj().Pkg() != nil && n.Obj().Pkg().Path() == pkgPath("ast")
}

func (a *caiAn) evalPure(e ast.Expr, st *cState) (cVal, bool) {
	c := st.clone()
	v, outs := a.eval(e, c)
	return v, len(outs) == 1
}

func (a *caiAn) constVal(v constant.Value) cVal {
	switch v.Kind() {
	case constant.Int:
		i, _ := constant.Int64Val(v)
		return vInt{L: Const(int(i))}
	case constant.String:
		return vStr{S: constant.StringVal(v), Known: true}
	case constant.Bool:
		return vBool{Known: true, B: constant.BoolVal(v)}
	}
	return vUnknown{Why: "const"}
}

func (a *caiAn) eval(e ast.Expr, st *cState) (cVal, []*cState) {
	one := []*cState{st}
	if tv, ok := a.info.Types[e]; ok && tv.Value != nil {
		return a.constVal(tv.Value), one
	}
	switch e := e.(type) {
	case *ast.ParenExpr:
		return a.eval(e.X, st)
	case *ast.BasicLit:
		return vUnknown{Why: "lit"}, one
	case *ast.Ident:
		obj := a.info.Uses[e]
		if _, ok := obj.(*types.Nil); ok {
			return vNil{}, one
		}
		if v, ok := st.Env[obj]; ok {
			return v, one
		}
		if obj != nil {
			if _, isVar := obj.(*types.Var); isVar {
				return a.symbolic(e.Name, obj.Type()), one
			}
		}
		return vUnknown{Why: "ident " + e.Name}, one
	case *ast.SelectorExpr:
		f := fieldOf(a.info, e)
		if f == a.fCurrent {
			return vCode{Cur: true}, one
		}
		if xv, ok := a.evalPure(e.X, st); ok && f != nil {
			switch x := xv.(type) {
			case vLoop:
				rec := st.Loops[x.ID]
				if isIntSlice(f.Type()) {
					id, ok := rec.Sets[f]
					if !ok {
						id = a.newSet(st, "loop."+f.Name())
						rec.Sets[f] = id
					}
					return vPosSet{ID: id}, one
				}
				if b, ok := rec.Bools[f]; ok {
					return b, one
				}
				if rec.Generic {
					if isIntegerType(f.Type()) {
						return vInt{L: Sym("loop." + f.Name())}, one
					}
					return vBool{Pred: "loop." + f.Name()}, one
				}
				return a.zero(f.Type(), f.Name()), one
			case vNode:
				return a.symbolic(x.Sym+"."+f.Name(), f.Type()), one
			}
		}
		if t := a.info.TypeOf(e); t != nil {
			return a.symbolic(exprStr(e), t), one
		}
		return vUnknown{Why: exprStr(e)}, one
	case *ast.UnaryExpr:
		v, outs := a.eval(e.X, st)
		if e.Op == token.NOT {
			if b, ok := v.(vBool); ok {
				if b.Known {
					return vBool{Known: true, B: !b.B}, outs
				}
				b.Neg = !b.Neg
				return b, outs
			}
		}
		if e.Op == token.SUB {
			if i, ok := v.(vInt); ok {
				return vInt{L: i.L.Scale(-1)}, outs
			}
		}
		if e.Op == token.AND {
			return v, outs
		}
		return vUnknown{Why: "unary"}, outs
	case *ast.BinaryExpr:
		return a.evalBinary(e, st)
	case *ast.CallExpr:
		return a.evalCall(e, st)
	case *ast.IndexExpr:
		xv, _ := a.evalPure(e.X, st)
		switch x := xv.(type) {
		case vPosSet:
			return vElemOf{ID: x.ID}, one
		case vSlice:
			iv, _ := a.evalPure(e.Index, st)
			idx := exprStr(e.Index)
			if i, ok := iv.(vInt); ok {
				if i.L.Sub(x.Len.AddK(-1)).IsZero() {
					idx = "last"
				} else if i.L.IsConst() {
					idx = fmt.Sprint(i.L.K)
					if x.Len.IsConst() && i.L.K == x.Len.K-1 {
						idx = "last"
					}
				} else if len(i.L.T) == 1 && i.L.K == 0 {
					for k := range i.L.T {
						if strings.HasPrefix(k, "idx:") {
							idx = strings.TrimPrefix(k, "idx:")
						}
					}
				}
			}
			return a.symbolic(x.Sym+"["+idx+"]", x.Elem), one
		}
		return vUnknown{Why: "index"}, one
	case *ast.CompositeLit:
		t := a.info.TypeOf(e)
		if sl, ok := t.Underlying().(*types.Slice); ok {
			return vSlice{Sym: "lit@" + a.pos(e), Elem: sl.Elem(), Len: Const(len(e.Elts))}, one
		}
		return vUnknown{Why: "complit"}, one
	case *ast.TypeAssertExpr:
		v, outs := a.eval(e.X, st)
		if n, ok := v.(vNode); ok && e.Type != nil {
			nt := n
			nt.Typ = a.info.TypeOf(e.Type)
			pred := "is(" + n.Sym + "," + exprStr(e.Type) + ")"
			return vTuple{Vs: []cVal{nt, vBool{Pred: pred}}}, outs
		}
		return vTuple{Vs: []cVal{v, vBool{Pred: "assert@" + a.pos(e)}}}, outs
	case *ast.FuncLit:
		return vUnknown{Why: "funclit"}, one
	case *ast.SliceExpr:
		v, outs := a.eval(e.X, st)
		if s, ok := v.(vSlice); ok {
			s.Sym = s.Sym + "[:]"
			s.Len = Sym("len(" + s.Sym + ")")
			return s, outs
		}
		return vUnknown{Why: "slice"}, outs
	case *ast.StarExpr:
		return vUnknown{Why: "deref"}, one
	case *ast.KeyValueExpr:
		return vUnknown{Why: "kv"}, one
	}
	core.Undecidedf("CAI: %s: unsupported expression %T", a.pos(e), e)
	return nil, nil
}

func (a *caiAn) normExpr(e ast.Expr, st *cState) string {
	v, ok := a.evalPure(e, st)
	if ok {
		switch v := v.(type) {
		case vNode:
			return v.Sym
		case vInt:
			return v.L.String()
		case vStr:
			if v.Known {
				return fmt.Sprintf("%q", v.S)
			}
			return v.Sym
		case vSlice:
			return v.Sym
		}
	}
	return exprStr(e)
}

func (a *caiAn) evalBinary(e *ast.BinaryExpr, st *cState) (cVal, []*cState) {
	one := []*cState{st}
	lv, _ := a.evalPure(e.X, st)
	rv, _ := a.evalPure(e.Y, st)
	key := func() string {
		return a.normExpr(e.X, st) + " " + e.Op.String() + " " + a.normExpr(e.Y, st)
	}
	switch e.Op {
	case token.ADD, token.SUB:
		li, lok := lv.(vInt)
		ri, rok := rv.(vInt)
		if lok && rok {
			if e.Op == token.ADD {
				return vInt{L: li.L.Add(ri.L)}, one
			}
			return vInt{L: li.L.Sub(ri.L)}, one
		}
		if e.Op == token.SUB {
			if lp, ok := lv.(vPos); ok {
				switch rv.(type) {
				case vPos, vElemOf:
					return vDelta{To: lp.L}, one
				}
			}
		}
		return vUnknown{Why: "arith"}, one
	case token.EQL, token.NEQ:
		res := func(eq bool) (cVal, []*cState) {
			if e.Op == token.NEQ {
				eq = !eq
			}
			return vBool{Known: true, B: eq}, one
		}
		_, lnil := lv.(vNil)
		_, rnil := rv.(vNil)
		if lnil && rnil {
			return res(true)
		}
		if lnil || rnil {
			other, oe := rv, e.Y
			if rnil {
				other, oe = lv, e.X
			}
			switch o := other.(type) {
			case vNode:
				return vBool{Pred: "nil(" + o.Sym + ")", Neg: e.Op == token.NEQ}, one
			case vErr:
				return vBool{Pred: "err@" + a.pos(oe), Neg: e.Op == token.NEQ}, one
			case vLoop:
				if st.Loops[o.ID].Generic {
					return vBool{Pred: "noloop", Neg: e.Op == token.NEQ}, one
				}
				return res(false)
			case vPos, vPosSet:
				return res(false)
			}
			return vBool{Pred: "nil(" + a.normExpr(oe, st) + ")", Neg: e.Op == token.NEQ}, one
		}
		li, lok := lv.(vInt)
		ri, rok := rv.(vInt)
		if lok && rok {
			d := st.Sub.Apply(li.L).Sub(st.Sub.Apply(ri.L))
			if d.IsConst() {
				return res(d.K == 0)
			}
			if len(d.T) == 1 && (li.L.IsConst() || ri.L.IsConst()) && !(ri.L.IsZero() || li.L.IsZero()) {
				for sym, c := range d.T {
					if c == 1 || c == -1 {
						return vBool{Pred: fmt.Sprintf("eq:%s:%d", sym, -d.K*c), Neg: e.Op == token.NEQ}, one
					}
				}
			}
			if ri.L.IsZero() || li.L.IsZero() {
				x := li.L
				if li.L.IsZero() {
					x = ri.L
				}
				return vBool{Pred: "empty:" + st.Sub.Apply(x).String(), Neg: e.Op == token.NEQ}, one
			}
		}
		if _, ok := lv.(vPos); ok && rok {
			// positions of emitted jumps are never the zero/sentinel value
			return res(false)
		}
		ls, lsok := lv.(vStr)
		rs, rsok := rv.(vStr)
		if lsok && rsok && ls.Known && rs.Known {
			return res(ls.S == rs.S)
		}
		if lsok && rsok && (ls.Known != rs.Known) {
			// symbolic string compared with a literal: a fact keyed by symbol and literal
			sym, lit := ls.Sym, rs.S
			if ls.Known {
				sym, lit = rs.Sym, ls.S
			}
			// exclusivity: the same symbol already known equal to a different literal
			for f, val := range st.Facts {
				if val && strings.HasPrefix(f, "streq:"+sym+":") && f != "streq:"+sym+":"+lit {
					return res(false)
				}
			}
			return vBool{Pred: "streq:" + sym + ":" + lit, Neg: e.Op == token.NEQ}, one
		}
		return vBool{Pred: key(), Neg: e.Op == token.NEQ}, one
	case token.LSS, token.GTR, token.LEQ, token.GEQ:
		li, lok := lv.(vInt)
		ri, rok := rv.(vInt)
		if lok && rok {
			d := st.Sub.Apply(li.L).Sub(st.Sub.Apply(ri.L))
			if d.IsConst() {
				switch e.Op {
				case token.LSS:
					return vBool{Known: true, B: d.K < 0}, one
				case token.GTR:
					return vBool{Known: true, B: d.K > 0}, one
				case token.LEQ:
					return vBool{Known: true, B: d.K <= 0}, one
				case token.GEQ:
					return vBool{Known: true, B: d.K >= 0}, one
				}
			}
			// i < count-1 inside a range loop: decided by the lastiter fact
			if e.Op == token.LSS && len(li.L.T) == 1 && li.L.K == 0 {
				for k := range li.L.T {
					if strings.HasPrefix(k, "idx:") {
						for f, val := range st.Facts {
							if strings.HasPrefix(f, "lastiter:") && ri.L.K == -1 && len(ri.L.T) == 1 {
								return vBool{Known: true, B: !val}, one
							}
						}
					}
				}
			}
			// len(x) > 0 / len(x) >= 1: emptiness fact
			if len(d.T) >= 1 {
				var x *Lin
				neg := false
				switch {
				case e.Op == token.GTR && ri.L.IsZero():
					x, neg = li.L, true // len > 0  == !empty
				case e.Op == token.LSS && li.L.IsZero():
					x, neg = ri.L, true
				case e.Op == token.GEQ && ri.L.IsConst() && ri.L.K == 1:
					x, neg = li.L, true
				}
				if x != nil {
					return vBool{Pred: "empty:" + st.Sub.Apply(x).String(), Neg: neg}, one
				}
			}
		}
		return vBool{Pred: key()}, one
	case token.LAND, token.LOR:
		return vBool{Pred: key()}, one
	}
	return vUnknown{Why: "binop"}, one
}

// ---------------------------------------------------------------- calls

func (a *caiAn) newSet(st *cState, desc string) int {
	id := a.id()
	st.Sets[id] = &posSetData{Desc: desc}
	return id
}

func (a *caiAn) setIDFor(e ast.Node) int { return int(e.Pos()) + 1_000_000 }

func (a *caiAn) hereLabel(st *cState, desc string) *cLabel {
	h := st.H
	if h == nil {
		h = Sym(fmt.Sprintf("?%d", a.id()))
		st.H = h // a label at a dead point revives it with an unknown height
	}
	return &cLabel{ID: a.id(), H: h, Desc: desc}
}

func (a *caiAn) resultByType(e *ast.CallExpr) cVal {
	t := a.info.TypeOf(e)
	if t == nil {
		return vUnknown{Why: "call"}
	}
	if tup, ok := t.(*types.Tuple); ok {
		var vs []cVal
		for i := 0; i < tup.Len(); i++ {
			vs = append(vs, a.symbolic(exprStr(e.Fun)+fmt.Sprintf("#%d@%s", i, a.pos(e)), tup.At(i).Type()))
		}
		return vTuple{Vs: vs}
	}
	return a.symbolic(exprStr(e.Fun)+"@"+a.pos(e), t)
}

func (a *caiAn) evalCall(e *ast.CallExpr, st *cState) (cVal, []*cState) {
	one := []*cState{st}
	if tv, ok := a.info.Types[e.Fun]; ok && tv.IsType() && len(e.Args) == 1 {
		return a.eval(e.Args[0], st)
	}
	switch {
	case isBuiltinCall(a.info, e, "len"):
		if fieldOf(a.info, e.Args[0]) == a.fInstr {
			return vPos{L: a.hereLabel(st, "pos@"+a.pos(e))}, one
		}
		v, _ := a.evalPure(e.Args[0], st)
		switch x := v.(type) {
		case vSlice:
			return vInt{L: x.Len}, one
		case vNil:
			return vInt{L: Const(0)}, one
		case vPosSet:
			if x.ID >= 0 && st.Sets[x.ID] != nil && !st.isLoopSet(x.ID) {
				return vInt{L: Const(st.Sets[x.ID].N)}, one
			}
		}
		return vInt{L: Sym("len(" + a.normExpr(e.Args[0], st) + ")")}, one
	case isBuiltinCall(a.info, e, "append"):
		v, _ := a.evalPure(e.Args[0], st)
		switch x := v.(type) {
		case vPosSet:
			cur := one
			ps := x
			var val cVal
			for _, arg := range e.Args[1:] {
				var next []*cState
				for _, s := range cur {
					v, outs := a.eval(arg, s)
					val = v
					next = append(next, outs...)
				}
				cur = next
			}
			id := ps.ID
			if id < 0 {
				id = a.setIDFor(e.Args[0])
				if ident, ok := e.Args[0].(*ast.Ident); ok {
					if o := a.info.Uses[ident]; o != nil {
						id = int(o.Pos()) + 1_000_000
					}
				}
			}
			for _, s := range cur {
				if s.Sets[id] == nil {
					s.Sets[id] = &posSetData{Desc: exprStr(e.Args[0])}
				}
				if p, ok := val.(vPos); ok {
					sd := s.Sets[id]
					if sd.H == nil {
						sd.H = p.L.H
					} else if !s.Sub.Unify(sd.H, p.L.H) {
						s.problem("%s: jump positions collected in %s have different stack heights (%s vs %s)", a.pos(e), sd.Desc, s.Sub.Apply(sd.H), s.Sub.Apply(p.L.H))
					}
					sd.N++
					delete(s.Pending, p.L.ID)
				}
			}
			ps.ID = id
			return ps, cur
		case vSlice:
			if e.Ellipsis.IsValid() {
				x.Len = Sym("len(" + x.Sym + "+...)")
			} else {
				x.Len = x.Len.AddK(len(e.Args) - 1)
			}
			return x, one
		}
		return vUnknown{Why: "append"}, one
	case isBuiltinCall(a.info, e, "make"):
		t := a.info.TypeOf(e)
		if sl, ok := t.Underlying().(*types.Slice); ok {
			if isIntSlice(t) {
				return vPosSet{ID: -1}, one
			}
			n := Const(0)
			if len(e.Args) > 1 {
				if v, ok := a.evalPure(e.Args[1], st); ok {
					if i, ok := v.(vInt); ok {
						n = i.L
					}
				}
			}
			return vSlice{Sym: "make@" + a.pos(e), Elem: sl.Elem(), Len: n}, one
		}
		return vUnknown{Why: "make"}, one
	case isBuiltinCall(a.info, e, "panic"):
		st.St = stRetErr
		return vUnknown{}, one
	}
	if m := a.compilerMethod(e); m != nil {
		switch m {
		case a.emit:
			return a.doEmit(e, st)
		case a.changeOperand:
			return a.doBind(e, st)
		case a.calcDelta:
			l := a.hereLabel(st, "here@"+a.pos(e))
			if sv, ok := a.evalPure(e.Args[0], st); ok {
				if p, ok := sv.(vPos); ok {
					l.From = p.L
				}
			}
			return vTuple{Vs: []cVal{vDelta{To: l}, vNil{}}}, one
		case a.curPos:
			return vPos{L: a.hereLabel(st, "pos@"+a.pos(e))}, one
		case a.dispatch:
			return a.doCompileChild(e, st)
		case a.startLoop:
			id := a.id()
			rec := &loopRec{Sets: map[*types.Var]int{}, Bools: map[*types.Var]cVal{}, BaseH: st.H}
			st.Loops[id] = rec
			// fields of the record initialised from the call's arguments: &loop{kind: kind}
			if fd := a.methods[m]; fd != nil && fd.Type.Params != nil {
				var params []types.Object
				for _, fl := range fd.Type.Params.List {
					for _, nm := range fl.Names {
						params = append(params, a.info.Defs[nm])
					}
				}
				ast.Inspect(fd.Body, func(n ast.Node) bool {
					cl, ok := n.(*ast.CompositeLit)
					if !ok || core.NamedOf(a.info.TypeOf(cl)) != a.loopT {
						return true
					}
					for _, el := range cl.Elts {
						kv, ok := el.(*ast.KeyValueExpr)
						if !ok {
							continue
						}
						kid, ok := kv.Key.(*ast.Ident)
						if !ok {
							continue
						}
						f, _ := a.info.Uses[kid].(*types.Var)
						vid, ok := kv.Value.(*ast.Ident)
						if f == nil || !ok {
							continue
						}
						for i, po := range params {
							if a.info.Uses[vid] == po && i < len(e.Args) {
								if av, ok := a.evalPure(e.Args[i], st); ok {
									rec.Bools[f] = av
								}
							}
						}
					}
					return true
				})
			}
			return vLoop{ID: id}, one
		case a.currentLoop:
			id := a.id()
			st.Loops[id] = &loopRec{Sets: map[*types.Var]int{}, Bools: map[*types.Var]cVal{}, Generic: true}
			return vLoop{ID: id}, one
		}
		if a.emitting[m] {
			return a.inline(m, e, st)
		}
		return a.resultByType(e), one
	}
	if se, ok := e.Fun.(*ast.SelectorExpr); ok {
		recv, _ := a.evalPure(se.X, st)
		if n, ok := recv.(vNode); ok {
			return a.nodeMethod(n, se.Sel.Name, e, st), one
		}
	}
	return a.resultByType(e), one
}

// nodeMethod: method call on an AST node.  Trivial accessors (single return of
// an expression over receiver fields) are evaluated on the symbolic receiver
// so that accessor and IsExpression agree on field symbols.
func (a *caiAn) nodeMethod(n vNode, name string, e *ast.CallExpr, st *cState) cVal {
	t := a.info.TypeOf(e)
	if nt := core.NamedOf(n.Typ); nt != nil {
		if _, isI := nt.Underlying().(*types.Interface); !isI {
			if m := core.Method(nt, name); m != nil {
				if v, ok := a.evalASTMethod(m, n, st); ok {
					return v
				}
			}
		}
	}
	if name == "IsExpression" {
		if v, known := a.isExprOfType(n.Typ); known {
			return vBool{Known: true, B: v}
		}
		return vBool{Pred: "isExpr(" + n.Sym + ")"}
	}
	sym := n.Sym + "." + name
	if tup, ok := t.(*types.Tuple); ok {
		var vs []cVal
		for i := 0; i < tup.Len(); i++ {
			vs = append(vs, a.symbolic(fmt.Sprintf("%s#%d", sym, i), tup.At(i).Type()))
		}
		return vTuple{Vs: vs}
	}
	return a.symbolic(sym, t)
}

// evalASTMethod evaluates a method of package ast whose body is a single
// return statement on a symbolic receiver.
func (a *caiAn) evalASTMethod(m *types.Func, recv vNode, st *cState) (cVal, bool) {
	fd := a.p.Decl(m)
	if fd == nil || fd.Body == nil || fd.Recv == nil || len(fd.Recv.List) != 1 || len(fd.Recv.List[0].Names) != 1 {
		return nil, false
	}
	if v, ok := a.keyCollector(fd, recv); ok {
		return v, true
	}
	if len(fd.Body.List) != 1 {
		return nil, false
	}
	ret, ok := fd.Body.List[0].(*ast.ReturnStmt)
	if !ok {
		return nil, false
	}
	info := a.astP.TypesInfo
	robj := info.Defs[fd.Recv.List[0].Names[0]]
	var ev func(e ast.Expr) (cVal, bool)
	ev = func(e ast.Expr) (cVal, bool) {
		e = ast.Unparen(e)
		if tv, ok := info.Types[e]; ok && tv.Value != nil {
			return a.constVal(tv.Value), true
		}
		switch x := e.(type) {
		case *ast.Ident:
			if info.Uses[x] == robj {
				return recv, true
			}
			if _, isNil := info.Uses[x].(*types.Nil); isNil {
				return vNil{}, true
			}
		case *ast.SelectorExpr:
			if id, ok := x.X.(*ast.Ident); ok && info.Uses[id] == robj {
				if sel := info.Selections[x]; sel != nil && sel.Kind() == types.FieldVal {
					return a.symbolic(recv.Sym+"."+x.Sel.Name, sel.Obj().Type()), true
				}
			}
		case *ast.BinaryExpr:
			if x.Op == token.EQL || x.Op == token.NEQ {
				l, ok1 := ev(x.X)
				r, ok2 := ev(x.Y)
				if ok1 && ok2 {
					if _, rnil := r.(vNil); rnil {
						if ln, ok := l.(vNode); ok {
							return vBool{Pred: "nil(" + ln.Sym + ")", Neg: x.Op == token.NEQ}, true
						}
					}
				}
			}
		}
		return nil, false
	}
	if len(ret.Results) == 1 {
		return ev(ret.Results[0])
	}
	var vs []cVal
	for _, r := range ret.Results {
		v, ok := ev(r)
		if !ok {
			return nil, false
		}
		vs = append(vs, v)
	}
	return vTuple{Vs: vs}, len(vs) > 0
}

// keyCollector recognises an accessor that returns every key of a receiver map
// field exactly once (optionally sorted):
//
//	X := make([]T, 0, ...); for K := range recv.F { X = append(X, K) }; sort...(X, ...); return X
//
// Its result has the length of the field, which is what lets the emitted count
// of a loop over it be related to len(recv.F).
func (a *caiAn) keyCollector(fd *ast.FuncDecl, recv vNode) (cVal, bool) {
	info := a.astP.TypesInfo
	robj := info.Defs[fd.Recv.List[0].Names[0]]
	l := fd.Body.List
	if len(l) < 3 {
		return nil, false
	}
	as, ok := l[0].(*ast.AssignStmt)
	if !ok || as.Tok != token.DEFINE || len(as.Lhs) != 1 || len(as.Rhs) != 1 {
		return nil, false
	}
	xid, ok := as.Lhs[0].(*ast.Ident)
	if !ok {
		return nil, false
	}
	xobj := info.Defs[xid]
	mk, ok := as.Rhs[0].(*ast.CallExpr)
	if !ok || !isBuiltinCall(info, mk, "make") || len(mk.Args) < 2 {
		return nil, false
	}
	if z, isC := constInt(info, mk.Args[1]); !isC || z != 0 {
		return nil, false
	}
	rs, ok := l[1].(*ast.RangeStmt)
	if !ok || rs.Value != nil || len(rs.Body.List) != 1 {
		return nil, false
	}
	fsel, ok := ast.Unparen(rs.X).(*ast.SelectorExpr)
	if !ok {
		return nil, false
	}
	if id, ok := fsel.X.(*ast.Ident); !ok || info.Uses[id] != robj {
		return nil, false
	}
	fld := fieldOf(info, fsel)
	if fld == nil {
		return nil, false
	}
	if _, isMap := fld.Type().Underlying().(*types.Map); !isMap {
		return nil, false
	}
	kid, ok := rs.Key.(*ast.Ident)
	if !ok {
		return nil, false
	}
	ap, ok := rs.Body.List[0].(*ast.AssignStmt)
	if !ok || len(ap.Lhs) != 1 || len(ap.Rhs) != 1 || objOf(info, ap.Lhs[0]) != xobj {
		return nil, false
	}
	ac, ok := ap.Rhs[0].(*ast.CallExpr)
	if !ok || !isBuiltinCall(info, ac, "append") || len(ac.Args) != 2 || objOf(info, ac.Args[0]) != xobj || objOf(info, ac.Args[1]) != info.Defs[kid] {
		return nil, false
	}
	for _, s := range l[2 : len(l)-1] {
		es, ok := s.(*ast.ExprStmt)
		if !ok {
			return nil, false
		}
		ce, ok := es.X.(*ast.CallExpr)
		if !ok || len(ce.Args) == 0 || objOf(info, ce.Args[0]) != xobj {
			return nil, false
		}
		if cal := calleeOf(info, ce); cal == nil || cal.Pkg() == nil || (cal.Pkg().Path() != "sort" && cal.Pkg().Path() != "slices") {
			return nil, false
		}
	}
	ret, ok := l[len(l)-1].(*ast.ReturnStmt)
	if !ok || len(ret.Results) != 1 || objOf(info, ret.Results[0]) != xobj {
		return nil, false
	}
	sl, ok := xobj.Type().Underlying().(*types.Slice)
	if !ok {
		return nil, false
	}
	fsym := recv.Sym + "." + fld.Name()
	return vSlice{Sym: fsym + "#keys", Elem: sl.Elem(), Len: Sym("len(" + fsym + ")")}, true
}

// isExprOfType: the value of IsExpression() for static type t, when it is the
// same constant for every concrete node type t can hold.
func (a *caiAn) isExprOfType(t types.Type) (val bool, known bool) {
	nt := core.NamedOf(t)
	if nt == nil {
		return false, false
	}
	constOf := func(ct *types.Named) (bool, bool) {
		m := core.Method(ct, "IsExpression")
		if m == nil {
			return false, false
		}
		fd := a.p.Decl(m)
		if fd == nil || fd.Body == nil || len(fd.Body.List) != 1 {
			return false, false
		}
		ret, ok := fd.Body.List[0].(*ast.ReturnStmt)
		if !ok || len(ret.Results) != 1 {
			return false, false
		}
		tv := a.astP.TypesInfo.Types[ret.Results[0]]
		if tv.Value == nil || tv.Value.Kind() != constant.Bool {
			return false, false
		}
		return constant.BoolVal(tv.Value), true
	}
	if it, ok := nt.Underlying().(*types.Interface); ok {
		first := true
		all := false
		for _, ct := range astNodeTypes(a.p) {
			if !types.Implements(types.NewPointer(ct), it) {
				continue
			}
			v, k := constOf(ct)
			if !k {
				return false, false
			}
			if first {
				all, first = v, false
			} else if v != all {
				return false, false
			}
		}
		if first {
			return false, false
		}
		return all, true
	}
	return constOf(nt)
}

func (a *caiAn) doEmit(e *ast.CallExpr, st *cState) (cVal, []*cState) {
	one := []*cState{st}
	ov, _ := a.evalPure(e.Args[0], st)
	oi, ok := ov.(vInt)
	if !ok || !oi.L.IsConst() {
		st.problem("%s: non-constant opcode", a.pos(e))
		return vUnknown{}, one
	}
	name := a.opByVal[int64(oi.L.K)]
	cl := a.vm.Clauses[name]
	decl, declared := declaredVMEffects[name]
	if cl == nil {
		st.problem("%s: opcode %s has no VM handler", a.pos(e), name)
		return vUnknown{}, one
	}
	var ops []*Lin
	for _, arg := range e.Args[1:] {
		v, _ := a.evalPure(arg, st)
		if i, ok := v.(vInt); ok {
			ops = append(ops, st.Sub.Apply(i.L))
		} else {
			ops = append(ops, Sym("opnd@"+a.pos(arg)))
		}
	}
	subst := func(l *Lin) *Lin {
		r := Const(l.K)
		for s, c := range l.T {
			var idx int
			if n, _ := fmt.Sscanf(s, "opnd%d", &idx); n == 1 && idx < len(ops) && !strings.Contains(s, "*") {
				r = r.AddScaled(ops[idx], c)
			} else {
				r = r.AddScaled(Sym(s), c)
			}
		}
		return r
	}
	// select outcomes consistent with constant operands
	type eff struct {
		net  *Lin
		jump bool
		end  string
	}
	var effs []eff
	if declared {
		effs = append(effs, eff{net: subst(decl.Net), end: decl.End})
	} else {
		if len(cl.Problems) > 0 {
			st.problem("%s: handler of %s could not be summarised: %s", a.pos(e), name, strings.Join(cl.Problems, "; "))
			return vUnknown{}, one
		}
		for _, o := range cl.Outcomes {
			feasible := true
			for _, f := range o.Facts {
				if f.Opnd < len(ops) && ops[f.Opnd].IsConst() {
					if (int64(ops[f.Opnd].K) == f.K) != f.Eq {
						feasible = false
					}
				}
			}
			if !feasible {
				continue
			}
			ef := eff{net: subst(o.Net()), jump: o.Jump, end: o.End}
			dup := false
			for _, x := range effs {
				if x.jump == ef.jump && x.end == ef.end && x.net.Sub(ef.net).IsZero() {
					dup = true
				}
			}
			if !dup {
				effs = append(effs, ef)
			}
		}
	}
	posLabel := a.hereLabel(st, name+"@"+a.pos(e))
	var fall, jump []eff
	for _, ef := range effs {
		switch {
		case ef.end == "ret":
			// leaves eval: nothing after this instruction on that outcome
		case ef.jump:
			jump = append(jump, ef)
		default:
			fall = append(fall, ef)
		}
	}
	uniq := func(es []eff) (*Lin, bool) {
		if len(es) == 0 {
			return nil, true
		}
		for _, x := range es[1:] {
			if !x.net.Sub(es[0].net).IsZero() {
				return nil, false
			}
		}
		return es[0].net, true
	}
	fnet, ok1 := uniq(fall)
	jnet, ok2 := uniq(jump)
	if !ok1 || !ok2 {
		st.problem("%s: %s has several possible stack effects for these operands", a.pos(e), name)
		return vUnknown{}, one
	}
	h0 := st.H
	st.Trace = append(st.Trace, name)
	backward := a.vm.jumpBackward(name)
	switch {
	case len(jump) == 0 && len(fall) == 0:
		st.H = nil // e.g. Halt / ReturnValue(declared terminal)
		return vPos{L: posLabel}, one
	case len(jump) == 0:
		st.H = h0.Add(fnet)
		return vPos{L: posLabel}, one
	case backward:
		if tgt := a.backTarget(e, st); tgt != nil {
			if !st.Sub.Unify(h0.Add(jnet), tgt.H) {
				st.problem("%s: backward jump leaves height %s but its target %s was emitted at height %s", a.pos(e), st.Sub.Apply(h0.Add(jnet)), tgt.Desc, st.Sub.Apply(tgt.H))
			}
		} else {
			st.problem("%s: backward jump whose target position cannot be resolved", a.pos(e))
		}
		if len(fall) == 0 {
			st.H = nil
		} else {
			st.H = h0.Add(fnet)
		}
		return vPos{L: posLabel}, one
	default:
		j := &cLabel{ID: a.id(), H: h0.Add(jnet), IsJump: true, Desc: name + "@" + a.pos(e), Pos: posLabel}
		st.Pending[j.ID] = j
		if len(fall) == 0 {
			st.H = nil
		} else {
			st.H = h0.Add(fnet)
		}
		return vPos{L: j}, one
	}
}

func (a *caiAn) backTarget(e *ast.CallExpr, st *cState) *cLabel {
	if len(e.Args) < 2 {
		return nil
	}
	v, _ := a.evalPure(e.Args[1], st)
	if d, ok := v.(vDelta); ok && d.To != nil {
		from := d.To.From
		if from == nil {
			return nil
		}
		if from.IsJump && from.Pos != nil {
			return from.Pos
		}
		return from
	}
	return nil
}

func (a *caiAn) doBind(e *ast.CallExpr, st *cState) (cVal, []*cState) {
	one := []*cState{st}
	siteV, _ := a.evalPure(e.Args[0], st)
	dv, _ := a.evalPure(e.Args[1], st)
	d, ok := dv.(vDelta)
	if !ok {
		st.problem("%s: jump operand patched with a value that is not a distance to a known position", a.pos(e))
		return vUnknown{}, one
	}
	target := d.To
	bindOne := func(h *Lin, desc string) {
		if !st.Sub.Unify(h, target.H) {
			st.problem("%s: jump %s taken at height %s is bound to %s at height %s", a.pos(e), desc, st.Sub.Apply(h), target.Desc, st.Sub.Apply(target.H))
		}
	}
	switch s := siteV.(type) {
	case vPos:
		bindOne(s.L.H, s.L.Desc)
		delete(st.Pending, s.L.ID)
	case vElemOf:
		sd := st.Sets[s.ID]
		if sd == nil {
			st.problem("%s: bind of element of unknown position set", a.pos(e))
			break
		}
		if sd.H == nil {
			sd.H = a.expectedLoopSetHeight(s.ID, st)
		}
		if sd.H == nil {
			sd.H = Sym(fmt.Sprintf("?%d", a.id()))
		}
		bindOne(sd.H, "elem("+sd.Desc+")")
		sd.Bound = true
	default:
		st.problem("%s: patched jump site is not a known position (%T)", a.pos(e), siteV)
	}
	return vUnknown{}, one
}

// childContract: stack effect of compiling a child of static type t.
func (a *caiAn) childContract(t types.Type, sym string, st *cState) *Lin {
	if v, known := a.isExprOfType(t); known {
		nt := core.NamedOf(t)
		if _, isI := nt.Underlying().(*types.Interface); !isI {
			if inf, ok := a.inferred[nt]; ok {
				return inf
			}
		}
		if v {
			return Const(1)
		}
		return Const(0)
	}
	nt := core.NamedOf(t)
	if nt != nil {
		if _, isI := nt.Underlying().(*types.Interface); !isI {
			// computed IsExpression: evaluate on the symbolic child
			if m := core.Method(nt, "IsExpression"); m != nil {
				if v, ok := a.evalASTMethod(m, vNode{Sym: sym, Typ: t}, st); ok {
					if b, ok := v.(vBool); ok {
						return a.indicator(b, st)
					}
				}
			}
		}
	}
	pred := "isExpr(" + sym + ")"
	if dom := a.domainOf(sym, st); dom == "expr" {
		return Const(1)
	}
	return a.indicator(vBool{Pred: pred}, st)
}

func (a *caiAn) indicator(b vBool, st *cState) *Lin {
	if b.Known {
		if b.B {
			return Const(1)
		}
		return Const(0)
	}
	if f, ok := st.Facts[b.Pred]; ok {
		if f != b.Neg {
			return Const(1)
		}
		return Const(0)
	}
	if b.Neg {
		return Const(1).Sub(Sym("[" + b.Pred + "]"))
	}
	return Sym("[" + b.Pred + "]")
}

func (a *caiAn) doCompileChild(e *ast.CallExpr, st *cState) (cVal, []*cState) {
	arg := e.Args[0]
	v, _ := a.evalPure(arg, st)
	t := a.info.TypeOf(arg)
	sym := exprStr(arg)
	if n, ok := v.(vNode); ok {
		t = n.Typ
		sym = n.Sym
	}
	eff := a.childContract(t, sym, st)
	off := "DEAD"
	var offLin *Lin
	if st.H != nil {
		offLin = st.Sub.Apply(st.H)
		off = offLin.String()
	}
	inLoop, kind := false, ""
	for _, l := range st.Loops {
		if !l.Generic && l.BodyH == nil && st.H != nil {
			open := true
			for _, sid := range l.Sets {
				if st.Sets[sid] != nil && st.Sets[sid].Bound {
					open = false
				}
			}
			if open {
				l.BodyH = st.H
			}
		}
		if !l.Generic && st.H != nil {
			open := true
			for _, sid := range l.Sets {
				if st.Sets[sid] != nil && st.Sets[sid].Bound {
					open = false
				}
			}
			if open {
				l.Slots = append(l.Slots, loopSlot{Child: sym, H: st.H})
			}
		}
		if !l.Generic {
			open := true
			for _, sid := range l.Sets {
				if st.Sets[sid] != nil && st.Sets[sid].Bound {
					open = false
				}
			}
			if open {
				inLoop = true
				kind = "loop"
			}
		}
	}
	_ = off
	if st.H != nil {
		st.SlotRecs = append(st.SlotRecs, &caiSlot{Fn: a.curFn.Name(), Site: a.pos(e), OffLin: st.H, Typ: t, Child: sym, InLoopBody: inLoop, LoopKind: kind, CtxDepth: len(st.Ctx)})
	}
	if st.H != nil {
		st.H = st.H.Add(eff)
	}
	st.Trace = append(st.Trace, fmt.Sprintf("compile(%s)", sym))
	return vNil{}, []*cState{st}
}

func (a *caiAn) inline(m *types.Func, e *ast.CallExpr, st *cState) (cVal, []*cState) {
	if a.depth > 6 {
		core.Undecidedf("CAI: inlining depth exceeded at %s", a.pos(e))
	}
	fd := a.methods[m]
	var args []cVal
	for _, arg := range e.Args {
		v, _ := a.evalPure(arg, st)
		args = append(args, v)
	}
	saved := st.Env
	env := map[types.Object]cVal{}
	for k, v := range saved {
		env[k] = v
	}
	i := 0
	for _, f := range fd.Type.Params.List {
		for _, n := range f.Names {
			if i < len(args) {
				env[a.info.Defs[n]] = args[i]
			}
			i++
		}
	}
	st.Env = env
	a.depth++
	outs := a.execBlock(fd.Body.List, []*cState{st})
	a.depth--
	sig := m.Type().(*types.Signature)
	var res []*cState
	for _, o := range outs {
		switch o.St {
		case stRetOK, stNormal:
			o.St = stNormal
			res = append(res, o)
		case stRetErr:
			// the caller propagates the error: path dropped
		default:
			res = append(res, o)
		}
	}
	// result value: error-returning helpers yield nil on the surviving paths
	if sig.Results().Len() == 1 && isErrorType(sig.Results().At(0).Type()) {
		return vNil{}, res
	}
	if sig.Results().Len() == 0 {
		return vUnknown{Why: "void"}, res
	}
	return a.resultByType(e), res
}

// expectedLoopSetHeight: the jumps that break/continue statements of the body
// will add to a loop record's position sets are emitted (by the Control compile
// function, analysed separately) at the body's height, minus the iterator for
// the break of a range loop.  C04-R3 checks that every slot of the loop sits at
// that height and that no nesting path adds temporaries.
func (a *caiAn) expectedLoopSetHeight(setID int, st *cState) *Lin {
	for _, l := range st.Loops {
		if l.Generic || l.BodyH == nil {
			continue
		}
		for f, sid := range l.Sets {
			if sid != setID {
				continue
			}
			h := l.BodyH
			if f.Name() == a.breakField {
				if b, ok := a.flagOn(l); ok {
					if b.Known && b.B {
						h = h.AddK(-1)
					} else if !b.Known {
						h = h.Sub(Sym("[" + b.Pred + "]"))
					}
				}
			}
			return h
		}
	}
	return nil
}

// flagOn evaluates the "breaking pops the iterator" predicate (a.flagField: a
// bool field "f", or an enum test "eq:loop.f:K") on a concrete loop record.
func (a *caiAn) flagOn(l *loopRec) (vBool, bool) {
	pred := a.flagField
	if strings.HasPrefix(pred, "eq:loop.") {
		rest := strings.TrimPrefix(pred, "eq:loop.")
		i := strings.LastIndex(rest, ":")
		if i < 0 {
			return vBool{}, false
		}
		fname, kstr := rest[:i], rest[i+1:]
		for f, v := range l.Bools {
			if f.Name() != fname {
				continue
			}
			if iv, ok := v.(vInt); ok && iv.L.IsConst() {
				return vBool{Known: true, B: fmt.Sprint(iv.L.K) == kstr}, true
			}
			return vBool{Pred: pred}, true
		}
		// never assigned: the zero value
		return vBool{Known: true, B: kstr == "0"}, true
	}
	for f, v := range l.Bools {
		if f.Name() == pred {
			if b, ok := v.(vBool); ok {
				return b, true
			}
		}
	}
	return vBool{}, false
}
