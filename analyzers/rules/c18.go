package rules

import (
	"go/ast"
	"go/token"
	"go/types"
	"sort"

	"risorcheck/core"
)

func init() {
	core.Register(&core.Property{
		ID: "C18",
		Decided: "A rejected piece leaves the accumulated program untouched, and a resumed run continues where the last one ended (equivalence of incremental and whole-program evaluation over all splits is NOT decided): " +
			"(R1) rollback on the error path: every error return of (*Compiler).Compile that is reachable after compilation started is preceded by a restore of what the attempt mutated — the main code's instructions, constants, names and source text, the root symbol table and the emission context; " +
			"(R2) transient compiler flags kept on the shared code object are reset on every exit: a bool field of compiler.Code set to true inside a compile function is cleared by a deferred function installed before any return; " +
			"(R3) resume point: Run continues at the saved instruction pointer, and reloading the grown main code carries over every global of the old code object with an unconditional whole-slice copy.",
		NotCovered:  "The equivalence itself; the REPL's handling of run-time errors (cmd/risor is a separate module, not loaded in the quick tier).",
		Assumptions: []string{"the compiler instance and the VM are the ones the REPL reuses between pieces"},
		Rules: []*core.Rule{
			{ID: "C18-R1", Title: "Compile rolls back on error", Floor: 1, Run: c18r1},
			{ID: "C18-R2", Title: "transient flags on shared code are reset on every exit", Floor: 1, Run: c18r2},
			{ID: "C18-R3", Title: "resume at the saved ip; reload carries every global over", Floor: 2, Run: c18r3},
			{ID: "C18-R4", Title: "run-state reset on entry only (never on the way out of a failed piece)", Floor: 1, Run: resetDiscipline},
			{ID: "C18-R6", Title: "every piece starts with an empty operand stack", Floor: 1, Run: runStartsEmpty},
			{ID: "C18-R7", Title: "Code.Root returns a parentless code object", Floor: 1, Run: rootHasNoParent},
			{ID: "C18-R8", Title: "a rejected declaration leaves no symbol behind: initializer compiled before the name is inserted (shared with C02-R5)", Floor: 2, Run: c02r5},
			{ID: "C18-R9", Title: "index maps follow their slice through the rollback", Floor: 1, Run: indexMapsFollowTheirSlice},
			{ID: "C18-R10", Title: "the instruction pointer can be parked at the end of the code", Floor: 1, Run: setIPAcceptsTheEnd},
			{ID: "C18-R5", Title: "VM-level caches are filled only after the fallible work succeeded (shared with C07-R5)", Floor: 1, Run: c07r5},
			{ID: "C18-R11", Title: "the halt flag is cleared on every successful start", Floor: 1, Run: haltClearedOnEveryStart},
			{ID: "C18-R12", Title: "the declaration pre-pass walks every statement", Floor: 1, Run: prePassVisitsEveryStatement},
			{ID: "C18-R13", Title: "Run resumes at the saved ip only for code that is still loaded (shared with C07)", Floor: 1, Run: savedIPBelongsToLoadedCode},
			{ID: "C18-R14", Title: "the stack pointer is advanced only after the slot was written (it always indexes the array)", Floor: 1, Run: spStaysInRange},
			{ID: "C18-R15", Title: "a failure kept in the compiler is cleared before compiling", Floor: 1, Run: stickyFailureClearedBeforeCompiling},
			{ID: "C18-R16", Title: "clones share the code wrappers by pointer", Floor: 1, Run: clonesShareCodeWrappers},
			{ID: "C18-R17", Title: "global slots are never Go nil", Floor: 1, Run: globalSlotsAreNeverGoNil},
			{ID: "C18-R18", Title: "the rollback restores what compilation moves", Floor: 1, Run: rollbackRestoresWhatCompilationMoves},
			{ID: "C18-R19", Title: "evaluations run under the caller's context", Floor: 1, Run: evaluationsRunUnderTheCallersContext},
			{ID: "C18-R20", Title: "the snapshot comes first", Floor: 1, Run: theSnapshotComesFirst},
			{ID: "C18-R21", Title: "importers remember only successes", Floor: 1, Run: importersRememberOnlySuccesses},
			{ID: "C18-R22", Title: "a rollback only takes away", Floor: 1, Run: rollbackOnlyTakesAway},
			{ID: "C18-R23", Title: "a host Call leaves the resume point alone (shared with C07-R32)", Floor: 1, Run: aHostCallLeavesTheResumePointAlone},
			{ID: "C18-R24", Title: "symbols are written by the symbol table only", Floor: 1, Run: symbolsAreWrittenByTheSymbolTableOnly},
			{ID: "C18-R25", Title: "names are read from their storage", Floor: 3, Run: namesAreReadFromTheirStorage},
			{ID: "C18-R26", Title: "a rollback puts every part back on every path", Floor: 1, Run: aRollbackPutsEveryPartBack},
			{ID: "C18-R27", Title: "blocks put the enclosing table back in a deferred function", Floor: 1, Run: blocksPutTheEnclosingTableBack},
			{ID: "C18-R28", Title: "a context that is over already is refused before the VM is marked running (shared with C06-R12)", Floor: 1, Run: finishedContextIsRefused},
			{ID: "C18-R29", Title: "what a function counts up it counts down on every way out", Floor: 1, Run: whatAFunctionCountsUpItCountsDownOnEveryWayOut},
			{ID: "C18-R30", Title: "a recorded length cuts the container it was taken from", Floor: 3, Run: aSnapshotLengthCutsTheContainerItWasTakenFrom},
			{ID: "C18-R31", Title: "the rollback covers what compiling grows (shared with C17-R26)", Floor: 3, Run: theRollbackCoversWhatCompilingGrows},
			{ID: "C18-R32", Title: "every piece compiles to code that leaves what its contract says (shared with C04-R2)", Floor: 35, Run: c04r2},
		},
	})
}

func c18r1(c *core.Ctx) {
	p := c.P
	cp := p.Pkg("compiler")
	info := cp.TypesInfo
	ct := core.MustType(cp, "Compiler")
	codeT := core.MustType(cp, "Code")
	m := core.MustMethod(ct, "Compile")
	fd := p.Decl(m)
	// fields of Code / Compiler written by emission: instructions, constants, names (append targets in package compiler)
	mutated := map[*types.Var]bool{}
	funcBodies(cp, func(fn *types.Func, d *ast.FuncDecl) {
		if core.RecvNamed(fn) != ct && core.RecvNamed(fn) != codeT {
			return
		}
		ast.Inspect(d.Body, func(n ast.Node) bool {
			if as, ok := n.(*ast.AssignStmt); ok && len(as.Lhs) == 1 && len(as.Rhs) == 1 {
				if ce, ok := ast.Unparen(as.Rhs[0]).(*ast.CallExpr); ok && isBuiltinCall(info, ce, "append") {
					if f := fieldOf(info, as.Lhs[0]); f != nil && core.RecvNamedOfField(codeT, f) {
						mutated[f] = true
					}
				}
			}
			return true
		})
	})
	// restore = an assignment to such a field (truncation / reassignment) that is executed on the error path:
	// inside an if-block that returns a non-nil error, or inside a deferred function
	restored := map[*types.Var]bool{}
	var visit func(n ast.Node, onErrPath bool)
	visit = func(n ast.Node, onErrPath bool) {
		ast.Inspect(n, func(k ast.Node) bool {
			switch x := k.(type) {
			case *ast.DeferStmt:
				if fl, ok := x.Call.Fun.(*ast.FuncLit); ok {
					visit(fl.Body, true)
				} else if cal := calleeOf(info, x.Call); cal != nil {
					if d := p.Decl(cal); d != nil && d.Body != nil {
						visit(d.Body, true)
					}
				}
				return false
			case *ast.IfStmt:
				returnsErr := false
				for _, s := range x.Body.List {
					if r, ok := s.(*ast.ReturnStmt); ok && len(r.Results) == 2 && !isNilIdent(info, r.Results[1]) {
						returnsErr = true
					}
				}
				if returnsErr {
					visit(x.Body, true)
					return false
				}
			case *ast.CallExpr:
				if onErrPath {
					if cal := calleeOf(info, x); cal != nil && (core.RecvNamed(cal) == ct || core.RecvNamed(cal) == codeT) {
						if d := p.Decl(cal); d != nil && d.Body != nil && d != fd {
							visit(d.Body, true)
						}
					}
				}
			case *ast.AssignStmt:
				if onErrPath {
					for _, l := range x.Lhs {
						if f := fieldOf(info, l); f != nil && mutated[f] {
							restored[f] = true
						}
					}
				}
			}
			return true
		})
	}
	visit(fd.Body, false)
	var missing []string
	for f := range mutated {
		if !restored[f] {
			missing = append(missing, f.Name())
		}
	}
	sort.Strings(missing)
	// error returns after compilation started
	nerr := 0
	ast.Inspect(fd.Body, func(n ast.Node) bool {
		if r, ok := n.(*ast.ReturnStmt); ok && len(r.Results) == 2 && !isNilIdent(info, r.Results[1]) {
			nerr++
		}
		return true
	})
	c.Check(len(missing) == 0, "compiler.Compiler.Compile|rollback-on-error", posOf(p, fd),
		sprintf("Compile appends to the main code object shared by all pieces; each of its %d error returns must restore what the rejected piece appended (%v are never restored): otherwise the rejected piece's instructions run with the next accepted piece, and its symbols stay defined", nerr, missing))
	c.Stat("mutated_code_fields", len(mutated))
}

func c18r2(c *core.Ctx) {
	p := c.P
	cp := p.Pkg("compiler")
	info := cp.TypesInfo
	codeT := core.MustType(cp, "Code")
	n := 0
	funcBodies(cp, func(fn *types.Func, fd *ast.FuncDecl) {
		var setPos token.Pos
		var field *types.Var
		for _, s := range fd.Body.List {
			if as, ok := s.(*ast.AssignStmt); ok && len(as.Lhs) == 1 && len(as.Rhs) == 1 {
				if f := fieldOf(info, as.Lhs[0]); f != nil && core.RecvNamedOfField(codeT, f) && isBoolish(f.Type()) {
					if tv := info.Types[as.Rhs[0]]; tv.Value != nil && tv.Value.String() == "true" {
						field, setPos = f, as.Pos()
					}
				}
			}
		}
		if field == nil {
			// also nested (inside a block) sets
			ast.Inspect(fd.Body, func(k ast.Node) bool {
				if as, ok := k.(*ast.AssignStmt); ok && len(as.Lhs) == 1 && len(as.Rhs) == 1 {
					if f := fieldOf(info, as.Lhs[0]); f != nil && core.RecvNamedOfField(codeT, f) && isBoolish(f.Type()) {
						if tv := info.Types[as.Rhs[0]]; tv.Value != nil && tv.Value.String() == "true" {
							field, setPos = f, as.Pos()
						}
					}
				}
				return true
			})
		}
		if field == nil {
			return
		}
		n++
		// deferred reset installed after the set and before any return that follows the set
		deferPos := token.NoPos
		ast.Inspect(fd.Body, func(k ast.Node) bool {
			ds, ok := k.(*ast.DeferStmt)
			if !ok {
				return true
			}
			if fl, ok := ds.Call.Fun.(*ast.FuncLit); ok {
				ast.Inspect(fl.Body, func(m ast.Node) bool {
					if as, ok := m.(*ast.AssignStmt); ok && len(as.Lhs) == 1 && fieldOf(info, as.Lhs[0]) == field {
						deferPos = ds.Pos()
					}
					return true
				})
			}
			return true
		})
		ok := deferPos != token.NoPos
		why := "no deferred reset of " + field.Name()
		if ok {
			ast.Inspect(fd.Body, func(k ast.Node) bool {
				if r, isRet := k.(*ast.ReturnStmt); isRet && r.Pos() > setPos && r.Pos() < deferPos {
					ok = false
					why = "a return between setting " + field.Name() + " and installing the deferred reset"
				}
				return true
			})
		}
		c.Check(ok, "compiler."+declName(fd)+"|flag:"+field.Name()+"-reset-on-every-exit", posOf(p, fd),
			declName(fd)+" sets "+field.Name()+" on the code object that all pieces share; it must be cleared by a deferred function so that an error return (a rejected piece) cannot leave it set for the pieces that follow"+ifs(!ok, ": "+why))
	})
	c.Stat("transient_flags", n)
}

func c18r3(c *core.Ctx) {
	p := c.P
	vmp := p.Pkg("vm")
	info := vmp.TypesInfo
	vmT := core.MustType(vmp, "VirtualMachine")
	ipF := fieldByName(vmT, "ip")
	loaded := fieldByName(vmT, "loadedCode")
	if ipF == nil || loaded == nil {
		core.Undecidedf("VirtualMachine.ip / loadedCode not found")
	}
	// reload function: VM method that deletes from loadedCode and returns a *code
	var reload *types.Func
	for _, m := range core.Methods(vmT) {
		fd := p.Decl(m)
		if fd == nil || fd.Body == nil {
			continue
		}
		ast.Inspect(fd.Body, func(n ast.Node) bool {
			if ce, ok := n.(*ast.CallExpr); ok && isBuiltinCall(info, ce, "delete") && len(ce.Args) == 2 && fieldOf(info, ce.Args[0]) == loaded {
				reload = m
			}
			return true
		})
	}
	if reload == nil {
		core.Undecidedf("reload function (deletes an entry of loadedCode) not found")
	}
	fd := p.Decl(reload)
	// unconditional top-level copy(new.Globals, old.Globals)
	okCopy := false
	for _, s := range fd.Body.List {
		es, ok := s.(*ast.ExprStmt)
		if !ok {
			continue
		}
		ce, ok := es.X.(*ast.CallExpr)
		if !ok || !isBuiltinCall(info, ce, "copy") || len(ce.Args) != 2 {
			continue
		}
		df, sf := fieldOf(info, ce.Args[0]), fieldOf(info, ce.Args[1])
		if df != nil && df == sf && objOf(info, ce.Args[0].(*ast.SelectorExpr).X) != objOf(info, ce.Args[1].(*ast.SelectorExpr).X) {
			okCopy = true
		}
	}
	c.Check(okCopy, "vm.VirtualMachine."+reload.Name()+"|copies-all-globals", posOf(p, fd),
		"reloading the grown main code copies the whole globals slice of the old code object into the new one, unconditionally (a per-slot condition lets freshly bound host globals overwrite values the earlier pieces assigned)")
	// the functions loaded by earlier pieces share the globals array: the reload re-points them
	rebinds := false
	unguarded := ""
	codeT := core.MustType(vmp, "code")
	gf := fieldByName(codeT, "Globals")
	ast.Inspect(fd.Body, func(n ast.Node) bool {
		rs, ok := n.(*ast.RangeStmt)
		if !ok || fieldOf(info, rs.X) != loaded {
			return true
		}
		walkStack(rs.Body, func(k ast.Node, stack []ast.Node) bool {
			as, ok := k.(*ast.AssignStmt)
			if !ok {
				return true
			}
			for _, l := range as.Lhs {
				if gf == nil || fieldOf(info, l) != gf {
					continue
				}
				rebinds = true
				// guarded by a test that the code object's root is the reloaded code
				guarded := false
				for _, anc := range stack {
					ifs, ok := anc.(*ast.IfStmt)
					if !ok {
						continue
					}
					ast.Inspect(ifs.Cond, func(c2 ast.Node) bool {
						be, ok := c2.(*ast.BinaryExpr)
						if !ok || be.Op != token.EQL {
							return true
						}
						isRootCall := func(e ast.Expr) bool {
							ce, ok := ast.Unparen(e).(*ast.CallExpr)
							if !ok {
								return false
							}
							cal := calleeOf(info, ce)
							return cal != nil && cal.Name() == "Root"
						}
						isParam := func(e ast.Expr) bool {
							o := objOf(info, e)
							return o != nil && enclosingParams(info, []ast.Node{fd})[o]
						}
						if (isRootCall(be.X) && isParam(be.Y)) || (isRootCall(be.Y) && isParam(be.X)) {
							guarded = true
						}
						return true
					})
				}
				if !guarded {
					unguarded = posOf(p, as)
				}
			}
			return true
		})
		return true
	})
	c.Check(unguarded == "", "vm.VirtualMachine."+reload.Name()+"|rebinds-only-own-functions", posOf(p, fd),
		"only code objects whose Root() is the reloaded main code are given its globals array (functions of imported modules keep their module's array)"+ifs(unguarded != "", ": the store at "+unguarded+" is not under such a test"))
	c.Check(rebinds, "vm.VirtualMachine."+reload.Name()+"|rebinds-loaded-functions", posOf(p, fd),
		"the reload gives the main code a new globals array; the code objects of functions loaded by earlier pieces (which alias the old array) are re-pointed to it — otherwise a function defined in an earlier piece keeps reading and writing the globals as they were before the reload")
	// resume point: the run function passes vm.ip (not 0) as start when state is kept
	var runInternal *ast.FuncDecl
	funcBodies(vmp, func(fn *types.Func, d *ast.FuncDecl) {
		if core.RecvNamed(fn) != vmT {
			return
		}
		ast.Inspect(d.Body, func(n ast.Node) bool {
			if ce, ok := n.(*ast.CallExpr); ok && calleeOf(info, ce) == reload {
				runInternal = d
			}
			return true
		})
	})
	okIP := false
	if runInternal != nil {
		ast.Inspect(runInternal.Body, func(n ast.Node) bool {
			if as, ok := n.(*ast.AssignStmt); ok && len(as.Rhs) == 1 && fieldOf(info, as.Rhs[0]) == ipF {
				okIP = true
			}
			return true
		})
	}
	c.Check(okIP, "vm.VirtualMachine|resume-at-saved-ip", posOf(p, fd), "a run that keeps state starts at the VM's saved instruction pointer (the end of the previously executed code)")
}
