package rules

import (
	"go/token"
	"go/types"
	"sort"
	"strings"

	"golang.org/x/tools/go/ssa"

	"risorcheck/core"
)

// validatedPathIsStoredPath (C14-R8): the string the parser validates as an
// import path is the string of the node it keeps — the accessor result itself,
// not a cleaned or otherwise transformed copy.  Validating a normalised copy
// while keeping the raw text gives one file several module names ("lib//m",
// "./lib/m"): its body runs once per spelling and the importers disagree.
func validatedPathIsStoredPath(c *core.Ctx) {
	p := c.P
	pp := p.Pkg("parser")
	var validate *ssa.Function
	for _, fn := range repoFns(p, "parser") {
		if fn.Name() == "validateImportPath" {
			validate = fn
		}
	}
	if validate == nil {
		core.Undecidedf("parser.validateImportPath not found")
	}
	_ = pp
	n := 0
	for _, fn := range repoFns(p, "parser") {
		k := 0
		for _, b := range fn.Blocks {
			for _, in := range b.Instrs {
				call, ok := in.(*ssa.Call)
				if !ok || call.Call.StaticCallee() != validate || len(call.Call.Args) == 0 {
					continue
				}
				n++
				k++
				why := ""
				for _, o := range core.Origins(call.Call.Args[0]) {
					oc, isCall := o.(*ssa.Call)
					if !isCall {
						why = "it is " + o.String()
						continue
					}
					cal := oc.Call.StaticCallee()
					if cal == nil || cal.Pkg == nil || cal.Pkg.Pkg == nil || cal.Pkg.Pkg.Path() != pkgPath("ast") {
						name := oc.String()
						if cal != nil {
							name = cal.String()
						}
						why = "it is the result of " + name
					}
				}
				c.Check(why == "", core.SSAName(fn)+"|validate#"+itoa(k)+"|validated-string-is-the-kept-string", p.Pos(call.Pos()),
					"the import path that is validated is the node's own text, unchanged"+ifs(why != "", ": "+why+", while the node keeps the raw spelling"))
			}
		}
	}
	if n == 0 {
		core.Undecidedf("validateImportPath is never called")
	}
}

// bindingDoesNotFallBackOutward (C02-R9, C01): where the compiler binds a name
// it declares (the function's own name, a variable), the symbol is one it
// inserted into — or found in — the current table.  A binding site whose symbol
// may be either a fresh insertion or the result of an outward Resolve stores
// into an enclosing scope's slot when the name happens to exist there.
func bindingDoesNotFallBackOutward(c *core.Ctx) {
	p := c.P
	cp := p.Pkg("compiler")
	stT := core.MustType(cp, "SymbolTable")
	resT := core.MustType(cp, "Resolution")
	symT := core.MustType(cp, "Symbol")
	indexM := p.SSAFunc(core.MustMethod(symT, "Index"))
	classify := func(v ssa.Value) (inserted, outward bool) {
		var walk func(v ssa.Value, d int)
		walk = func(v ssa.Value, d int) {
			if d > 6 {
				return
			}
			for _, o := range core.Origins(v) {
				switch x := o.(type) {
				case *ssa.Extract:
					if call, ok := x.Tuple.(*ssa.Call); ok {
						if cal := call.Call.StaticCallee(); cal != nil && cal.Signature.Recv() != nil && core.NamedOf(cal.Signature.Recv().Type()) == stT {
							if strings.HasPrefix(cal.Name(), "Insert") {
								inserted = true
							}
							if cal.Name() == "Resolve" {
								outward = true
							}
						}
					}
				case *ssa.Call:
					if cal := x.Call.StaticCallee(); cal != nil && cal.Signature.Recv() != nil && core.NamedOf(cal.Signature.Recv().Type()) == resT && len(x.Call.Args) > 0 {
						walk(x.Call.Args[0], d+1) // resolution.Symbol()
						outward = true
					}
				case *ssa.UnOp:
					if fa, ok := x.X.(*ssa.FieldAddr); ok && core.NamedOf(fa.X.Type()) == resT {
						outward = true
					}
				}
			}
		}
		walk(v, 0)
		return
	}
	n := 0
	for _, fn := range repoFns(p, "compiler") {
		bad := ""
		k := 0
		for _, b := range fn.Blocks {
			for _, in := range b.Instrs {
				call, ok := in.(*ssa.Call)
				if !ok || call.Call.StaticCallee() != indexM || len(call.Call.Args) == 0 {
					continue
				}
				ins, out := classify(call.Call.Args[0])
				if !ins {
					continue
				}
				k++
				if out {
					bad = p.Pos(call.Pos())
				}
			}
		}
		if k == 0 {
			continue
		}
		n++
		c.Check(bad == "", core.SSAName(fn)+"|declared-name-binds-in-current-scope", p.Pos(fn.Pos()),
			fn.Name()+" binds the names it declares to symbols of the current table"+ifs(bad != "", "; the symbol used at "+bad+" is either freshly inserted or found by resolving outward — an existing outer variable of that name would be overwritten"))
	}
	c.Stat("declaring_functions", n)
}

// operationResultsAreNewObjects (C16-R9): a container method whose result is a
// container of the receiver's type (union, intersection, copy, keys, ...) returns
// an object it made, never the receiver or an argument.  "Nothing to merge, hand
// back the operand" makes the result and the operand one object, and a later
// add() on either changes both.
func operationResultsAreNewObjects(c *core.Ctx) {
	p := c.P
	cs := objectContainers(p)
	n := 0
	for _, ci := range cs {
		if !ci.Mutable {
			continue
		}
		for _, m := range core.Methods(ci.T) {
			sf := p.SSAFunc(m)
			if sf == nil || sf.Blocks == nil || len(sf.Params) == 0 {
				continue
			}
			res := sf.Signature.Results()
			if res.Len() == 0 || core.NamedOf(res.At(0).Type()) != ci.T {
				continue
			}
			// fluent mutators (return the receiver after changing it) are not operations of this kind
			if mutatesOwnStorage(sf, ci) {
				continue
			}
			n++
			bad := ""
			for _, b := range sf.Blocks {
				for _, in := range b.Instrs {
					r, ok := in.(*ssa.Return)
					if !ok {
						continue
					}
					rv := spilledResult(b, r.Results[0])
					for _, o := range core.Origins(rv) {
						if prm, ok := o.(*ssa.Parameter); ok {
							bad = "it can return its " + map[bool]string{true: "receiver", false: "argument " + prm.Name()}[prm == sf.Params[0]] + " (" + p.Pos(r.Pos()) + ")"
						}
					}
				}
			}
			c.Check(bad == "", "object."+ci.T.Obj().Name()+"."+m.Name()+"|returns-a-new-object", p.Pos(sf.Pos()),
				ci.T.Obj().Name()+"."+m.Name()+" returns a container it created"+ifs(bad != "", ": "+bad))
		}
	}
	c.Stat("container_valued_methods", n)
}

func mutatesOwnStorage(sf *ssa.Function, ci containerInfo) bool {
	recv := sf.Params[0]
	for _, b := range sf.Blocks {
		for _, in := range b.Instrs {
			var addr ssa.Value
			switch x := in.(type) {
			case *ssa.Store:
				addr = x.Addr
			case *ssa.MapUpdate:
				addr = x.Map
			default:
				continue
			}
			if core.DependsOn(addr, func(w ssa.Value) bool {
				fa, ok := w.(*ssa.FieldAddr)
				return ok && fa.Field == ci.Storage && isRecvValue(fa.X, recv)
			}) {
				return true
			}
		}
	}
	return false
}

// sprintOfObjects (C05-R6): script values are never rendered with fmt's default
// formatting (Sprint, Sprintln, %v, %+v).  For the object types that have no
// String method fmt prints the Go struct, heap addresses included, and the
// result of the program then differs from run to run.
func sprintOfObjects(c *core.Ctx) {
	p := c.P
	op := p.Pkg("object")
	objI := core.MustType(op, "Object")
	n := 0
	for _, fn := range repoFns(p, "builtins", "object", "vm", "modules/fmt", "modules/strings") {
		k := 0
		for _, b := range fn.Blocks {
			for _, in := range b.Instrs {
				ci, ok := in.(ssa.CallInstruction)
				if !ok {
					continue
				}
				cal := ci.Common().StaticCallee()
				if cal == nil || cal.Pkg == nil || cal.Pkg.Pkg == nil || cal.Pkg.Pkg.Path() != "fmt" {
					continue
				}
				switch cal.Name() {
				case "Sprint", "Sprintln", "Fprint", "Fprintln", "Print", "Println":
				default:
					continue
				}
				// variadic ...any: the slice literal's elements
				for _, a := range ci.Common().Args {
					sl, ok := a.(*ssa.Slice)
					if !ok {
						continue
					}
					al, ok := sl.X.(*ssa.Alloc)
					if !ok || al.Referrers() == nil {
						continue
					}
					for _, r := range *al.Referrers() {
						ia, ok := r.(*ssa.IndexAddr)
						if !ok || ia.Referrers() == nil {
							continue
						}
						for _, r2 := range *ia.Referrers() {
							st, ok := r2.(*ssa.Store)
							if !ok {
								continue
							}
							v := st.Val
							if mi, ok := v.(*ssa.MakeInterface); ok {
								v = mi.X
							}
							if ch, ok := v.(*ssa.ChangeInterface); ok {
								v = ch.X
							}
							if core.NamedOf(v.Type()) == objI {
								n++
								k++
								c.Fail(core.SSAName(fn)+"|fmt."+cal.Name()+"#"+itoa(k)+"|default-formatting-of-object", p.Pos(in.Pos()),
									"fmt."+cal.Name()+" renders an object.Object with Go's default formatting: types without a String method print as Go structs with their heap addresses")
							}
						}
					}
				}
			}
		}
	}
	if n == 0 {
		c.Pass("no-default-formatting-of-objects", "builtins,object,vm", "no fmt.Sprint/Print call is given an object.Object")
	}
}

// equalityChecksPresence (C15-R9): Map.Equals and Set.Equals decide whether the
// other container has the key with a two-value lookup.  A one-value lookup (or
// Get, which answers Nil for a missing key) cannot tell an absent key from a
// present nil, and the answer then depends on which operand is on the left.
func equalityChecksPresence(c *core.Ctx) {
	p := c.P
	op := p.Pkg("object")
	n := 0
	for _, name := range []string{"Map", "Set"} {
		nt := core.LookupType(op, name)
		if nt == nil {
			continue
		}
		m := core.Method(nt, "Equals")
		if m == nil {
			continue
		}
		sf := p.SSAFunc(m)
		if sf == nil || sf.Blocks == nil {
			continue
		}
		// Equals may delegate to a helper method of the same type (the cycle-aware walk)
		for _, b := range sf.Blocks {
			for _, in := range b.Instrs {
				if ci, ok := in.(ssa.CallInstruction); ok {
					if cal := ci.Common().StaticCallee(); cal != nil && cal.Blocks != nil && cal.Signature.Recv() != nil && core.NamedOf(cal.Signature.Recv().Type()) == nt && len(ci.Common().Args) > 0 && ci.Common().Args[0] == ssa.Value(sf.Params[0]) {
						sf = cal
					}
				}
			}
		}
		n++
		commaOk := false
		for _, b := range sf.Blocks {
			for _, in := range b.Instrs {
				if lk, ok := in.(*ssa.Lookup); ok && lk.CommaOk {
					if _, isMap := lk.X.Type().Underlying().(*types.Map); isMap {
						// the looked-up map is not the receiver's own
						recvOwn := false
						if u, ok := lk.X.(*ssa.UnOp); ok && u.Op == token.MUL {
							if fa, ok := u.X.(*ssa.FieldAddr); ok && isRecvValue(fa.X, sf.Params[0]) {
								recvOwn = true
							}
						}
						if !recvOwn {
							commaOk = true
						}
					}
				}
			}
		}
		c.Check(commaOk, "object."+name+".Equals|two-value-lookup-in-the-other", p.Pos(sf.Pos()),
			name+".Equals tests each of its keys for presence in the other container with a two-value map lookup")
	}
	if n == 0 {
		core.Undecidedf("Map.Equals / Set.Equals not found")
	}
	_ = sort.Strings
}

// lexerIndexingGuarded (C03-R10, C20-R9): every index or slice operation of the
// lexer functions that the parser's error constructors call (GetLineText) — they
// run outside any recover, for every diagnostic — is bounded by a comparison with
// the length of the indexed value.
func lexerIndexingGuarded(c *core.Ctx) {
	p := c.P
	n := 0
	// the lexer functions the parser calls while it builds an error (they run
	// for every diagnostic, including those positioned at the EOF tokens)
	onErrorPath := map[*ssa.Function]bool{}
	for _, pf := range repoFns(p, "parser") {
		buildsError := false
		for _, b := range pf.Blocks {
			for _, in := range b.Instrs {
				if ci, ok := in.(ssa.CallInstruction); ok {
					if cal := ci.Common().StaticCallee(); cal != nil && strings.HasPrefix(cal.Name(), "NewParserError") {
						buildsError = true
					}
				}
			}
		}
		if !buildsError {
			continue
		}
		for _, b := range pf.Blocks {
			for _, in := range b.Instrs {
				if ci, ok := in.(ssa.CallInstruction); ok {
					if cal := ci.Common().StaticCallee(); cal != nil && cal.Pkg != nil && core.RelPkg(cal.Pkg.Pkg) == "lexer" {
						onErrorPath[cal] = true
					}
				}
			}
		}
	}
	if len(onErrorPath) == 0 {
		core.Undecidedf("no lexer function is called from the parser's error constructors")
	}
	for _, fn := range repoFns(p, "lexer") {
		if !onErrorPath[fn] {
			continue
		}
		has := false
		for _, b := range fn.Blocks {
			for _, in := range b.Instrs {
				switch in.(type) {
				case *ssa.Slice, *ssa.IndexAddr, *ssa.Index, *ssa.Lookup:
					has = true
				}
			}
		}
		if !has {
			continue
		}
		n++
		sites := core.UnguardedIndexing(fn)
		msg := ""
		for _, s := range sites {
			msg += "; " + s.What + " at " + p.Pos(s.Instr.Pos())
		}
		c.Check(len(sites) == 0, core.SSAName(fn)+"|indexing-guarded", p.Pos(fn.Pos()),
			fn.Name()+" indexes and slices only under a comparison with the length of the indexed value"+msg)
	}
	c.Stat("lexer_functions_indexing", n)
}

// fieldNilBelief (C03-R11): on the surface that no recover protects, a struct
// field that a function tests for nil is not dereferenced on a path that the
// test does not cover.  `if f.init == nil && f.post == nil { ... return }`
// followed by f.init.String() believes two things about f.init at once; a
// three-part loop without an init statement panics inside compiler.Compile.
func fieldNilBelief(c *core.Ctx) {
	p := c.P
	surf, _ := unprotectedSurface(p)
	var fns []*ssa.Function
	for f := range surf {
		if f.Blocks != nil {
			fns = append(fns, f)
		}
	}
	sort.Slice(fns, func(i, j int) bool { return core.SSAName(fns[i]) < core.SSAName(fns[j]) })
	n := 0
	for _, fn := range fns {
		type fkey struct {
			base  ssa.Value
			field int
		}
		type load struct {
			v     *ssa.UnOp
			check *ssa.If // an If testing this load against nil
			nilOn int     // successor index taken when nil
			risky ssa.Instruction
		}
		groups := map[fkey][]*load{}
		for _, b := range fn.Blocks {
			for _, in := range b.Instrs {
				u, ok := in.(*ssa.UnOp)
				if !ok || u.Op != token.MUL {
					continue
				}
				fa, ok := u.X.(*ssa.FieldAddr)
				if !ok {
					continue
				}
				switch u.Type().Underlying().(type) {
				case *types.Pointer, *types.Interface:
				default:
					continue
				}
				l := &load{v: u}
				if u.Referrers() != nil {
					for _, r := range *u.Referrers() {
						switch x := r.(type) {
						case *ssa.BinOp:
							k, isC := x.Y.(*ssa.Const)
							if (x.Op == token.EQL || x.Op == token.NEQ) && isC && k.IsNil() && x.Referrers() != nil {
								for _, r2 := range *x.Referrers() {
									if iff, ok := r2.(*ssa.If); ok {
										l.check = iff
										if x.Op == token.EQL {
											l.nilOn = 0
										} else {
											l.nilOn = 1
										}
									}
								}
							}
						case *ssa.Call:
							if x.Call.IsInvoke() && x.Call.Value == ssa.Value(u) {
								l.risky = x
							}
							if !x.Call.IsInvoke() && len(x.Call.Args) > 0 && x.Call.Args[0] == ssa.Value(u) && x.Call.StaticCallee() != nil && x.Call.StaticCallee().Signature.Recv() != nil {
								l.risky = x
							}
						case *ssa.FieldAddr:
							if x.X == ssa.Value(u) {
								l.risky = x
							}
						}
					}
				}
				groups[fkey{fa.X, fa.Field}] = append(groups[fkey{fa.X, fa.Field}], l)
			}
		}
		k := 0
		for key, ls := range groups {
			var checks []*load
			for _, l := range ls {
				if l.check != nil {
					checks = append(checks, l)
				}
			}
			if len(checks) == 0 {
				continue
			}
			for _, l := range ls {
				if l.risky == nil {
					continue
				}
				n++
				// is the dereference reachable from the nil side of one of the tests, along a path that
				// does not re-assign the field and does not take contradictory outcomes of one condition?
				guarded := true
				for _, ch := range checks {
					nilSide := ch.check.Block().Succs[ch.nilOn]
					if nilPathReaches(nilSide, ch.check, ch.nilOn, l.risky, key.base, key.field) {
						guarded = false
					}
				}
				if guarded {
					continue
				}
				fname := "?"
				if f := fieldVarOfAddr(key.base, key.field); f != nil {
					fname = f.Name()
				}
				if why, ok := fieldNilBeliefExceptions[core.SSAName(fn)+"|"+fname]; ok {
					c.Pass(core.SSAName(fn)+"|field-nil-belief:"+fname+"|excepted", p.Pos(l.risky.Pos()), "reasoned exception: "+why)
					continue
				}
				k++
				c.Fail(core.SSAName(fn)+"|field-nil-belief:"+fname+"#"+itoa(k), p.Pos(l.risky.Pos()),
					fn.Name()+" tests ."+fname+" for nil on one path and dereferences it here on a path that test does not cover")
			}
		}
		if k == 0 && len(groups) > 0 {
			any := false
			for _, ls := range groups {
				for _, l := range ls {
					if l.check != nil {
						any = true
					}
				}
			}
			if any {
				c.Pass(core.SSAName(fn)+"|field-nil-belief", p.Pos(fn.Pos()), "every dereference of a nil-tested field is covered by the test")
			}
		}
	}
	c.Stat("field_dereferences_judged", n)
}

func fieldVarOfAddr(base ssa.Value, field int) *types.Var {
	t := base.Type()
	if pt, ok := t.Underlying().(*types.Pointer); ok {
		t = pt.Elem()
	}
	st, ok := t.Underlying().(*types.Struct)
	if !ok || field >= st.NumFields() {
		return nil
	}
	return st.Field(field)
}

// blockAlwaysReturns: every path from b ends in a return without rejoining
// (cheap check: b and the blocks it dominates contain no edge to a block b does
// not dominate).
func blockAlwaysReturns(b *ssa.BasicBlock) bool {
	seen := map[*ssa.BasicBlock]bool{}
	var walk func(x *ssa.BasicBlock) bool
	walk = func(x *ssa.BasicBlock) bool {
		if seen[x] {
			return true
		}
		seen[x] = true
		for _, s := range x.Succs {
			if s != b && !b.Dominates(s) {
				return false
			}
			if !walk(s) {
				return false
			}
		}
		return true
	}
	return walk(b)
}

// One named site each, with the invariant the unchecked path relies on.
var fieldNilBeliefExceptions = map[string]string{
	"(*ast.Var).String|value": "the walrus form `x := e` cannot be parsed without a value (parseDeclaration reports an error and returns no node), so only the `var x` form can have a nil value and only that branch tests it",
}

// localsWrittenOnlyByOwners (C02-R10): the slots of a frame's locals are written
// by the frame's own methods (activation) and by the dispatch function's store
// instruction — nobody else.  Once a closure exists the locals slice is the very
// storage its cells point into, so any "clean-up" that clears the locals of
// frames being unwound wipes the variables of closures that outlive the call.
func localsWrittenOnlyByOwners(c *core.Ctx) {
	p := c.P
	vmp := p.Pkg("vm")
	frameT := core.MustType(vmp, "frame")
	dispatch := p.SSAFunc(dispatchFunc(p))
	isLocalsSource := func(v ssa.Value) bool {
		for _, o := range core.Origins(v) {
			switch x := o.(type) {
			case *ssa.Call:
				if cal := x.Call.StaticCallee(); cal != nil && cal.Signature.Recv() != nil && core.NamedOf(cal.Signature.Recv().Type()) == frameT {
					if sl, ok := cal.Signature.Results().At(0).Type().Underlying().(*types.Slice); ok && core.IsNamed(sl.Elem(), pkgPath("object"), "Object") {
						return true
					}
				}
			case *ssa.UnOp:
				if fa, ok := x.X.(*ssa.FieldAddr); ok && core.NamedOf(fa.X.Type()) == frameT {
					if f := fieldVar(fa); f != nil {
						if sl, ok := f.Type().Underlying().(*types.Slice); ok && core.IsNamed(sl.Elem(), pkgPath("object"), "Object") {
							return true
						}
					}
				}
			}
		}
		return false
	}
	n := 0
	for _, fn := range repoFns(p, "vm") {
		owner := fn == dispatch || (fn.Signature.Recv() != nil && core.NamedOf(fn.Signature.Recv().Type()) == frameT)
		bad := ""
		k := 0
		for _, b := range fn.Blocks {
			for _, in := range b.Instrs {
				st, ok := in.(*ssa.Store)
				if !ok {
					continue
				}
				ia, ok := st.Addr.(*ssa.IndexAddr)
				if !ok || !isLocalsSource(ia.X) {
					continue
				}
				k++
				if !owner {
					bad = p.Pos(st.Pos())
				}
			}
		}
		if k == 0 {
			continue
		}
		n++
		c.Check(bad == "", core.SSAName(fn)+"|locals-written-by-owner", p.Pos(fn.Pos()),
			fn.Name()+" writes frame locals as the frame's own method or as the dispatch function"+ifs(bad != "", "; it is neither, and writes a local slot at "+bad+" (cells of live closures point into that storage)"))
	}
	if n == 0 {
		core.Undecidedf("no function writes frame locals")
	}
}

// errorsAreNotCached (C07-R12, C14-R9): no long-lived map remembers an error.
// An error can be a property of the invocation rather than of the thing looked
// up — a cancelled or timed-out context while a module was being parsed — and a
// negative cache then serves that invocation's failure to every later one.
func errorsAreNotCached(c *core.Ctx) {
	p := c.P
	n := 0
	for _, fn := range repoFns(p, "importer", "vm", "object", "compiler", ".") {
		k := 0
		for _, b := range fn.Blocks {
			for _, in := range b.Instrs {
				var val ssa.Value
				var holder ssa.Value
				switch x := in.(type) {
				case *ssa.MapUpdate:
					val, holder = x.Value, x.Map
				case *ssa.Call:
					if cal := x.Call.StaticCallee(); cal != nil && cal.Name() == "Store" && cal.Signature.Recv() != nil && core.IsNamed(cal.Signature.Recv().Type(), "sync", "Map") && len(x.Call.Args) == 3 {
						val, holder = x.Call.Args[2], x.Call.Args[0]
					}
				}
				if val == nil {
					continue
				}
				if mi, ok := val.(*ssa.MakeInterface); ok {
					val = mi.X
				}
				if !isErrorType(val.Type()) {
					continue
				}
				// long-lived: a map held in a field or a package-level variable (not a local result map)
				long := false
				for _, o := range core.Origins(holder) {
					switch y := o.(type) {
					case *ssa.UnOp:
						switch y.X.(type) {
						case *ssa.FieldAddr, *ssa.Global:
							long = true
						}
					case *ssa.Global, *ssa.FieldAddr:
						long = true
					}
				}
				if !long {
					continue
				}
				n++
				k++
				c.Fail(core.SSAName(fn)+"|cached-error#"+itoa(k), p.Pos(in.Pos()),
					fn.Name()+" stores an error in a long-lived map: a failure that belongs to one invocation (cancellation, timeout) is served to later ones")
			}
		}
	}
	if n == 0 {
		c.Pass("no-error-is-cached", "importer,vm,object,compiler", "no long-lived map holds error values")
	}
}

// partialModeOffForOperands (C01-R12, C10-R8): a compile function that reads the
// "compile calls to partials" flag to decide how it emits its own call compiles
// its operands (function expression, receiver, arguments) with the flag off.  The
// flag is state on the shared code object; left on, every call nested in the
// arguments of a piped or spawned call is turned into a partial too, and the
// callee receives an un-called partial instead of a value.
func partialModeOffForOperands(c *core.Ctx) {
	p := c.P
	cp := p.Pkg("compiler")
	codeT := core.MustType(cp, "Code")
	ct := core.MustType(cp, "Compiler")
	// the flag: the bool field of Code that some function sets to true and clears in a deferred function (C18-R2's subject)
	var flag *types.Var
	st := codeT.Underlying().(*types.Struct)
	for _, fn := range repoFns(p, "compiler") {
		for _, b := range fn.Blocks {
			for _, in := range b.Instrs {
				s, ok := in.(*ssa.Store)
				if !ok {
					continue
				}
				fa, ok := s.Addr.(*ssa.FieldAddr)
				if !ok || core.NamedOf(fa.X.Type()) != codeT {
					continue
				}
				f := st.Field(fa.Field)
				if b2, ok := f.Type().Underlying().(*types.Basic); !ok || b2.Kind() != types.Bool {
					continue
				}
				if k, isC := s.Val.(*ssa.Const); isC && k.Value != nil && k.Value.ExactString() == "true" {
					flag = f
				}
			}
		}
	}
	if flag == nil {
		core.Undecidedf("no transient bool flag on compiler.Code found")
	}
	compile := p.SSAFunc(core.MustMethod(ct, "compile"))
	isFlagAddr := func(v ssa.Value) bool {
		fa, ok := v.(*ssa.FieldAddr)
		return ok && fieldVar(fa) == flag
	}
	n := 0
	readers := map[*ssa.Function]bool{}
	// helperReaders: readers that are not reached from the dispatcher, only from other compile functions
	helperReaders := map[*ssa.Function]bool{}
	for _, fn := range repoFns(p, "compiler") {
		if fn.Signature.Recv() == nil || core.NamedOf(fn.Signature.Recv().Type()) != ct {
			continue
		}
		// reads the flag in a branch that emits (the reader decides its own emission by it)
		reads := false
		var stores []*ssa.Store
		for _, b := range fn.Blocks {
			for _, in := range b.Instrs {
				if u, ok := in.(*ssa.UnOp); ok && u.Op == token.MUL && isFlagAddr(u.X) {
					if u.Referrers() != nil {
						for _, r := range *u.Referrers() {
							if _, isIf := r.(*ssa.If); isIf {
								reads = true
							}
						}
					}
				}
				if s, ok := in.(*ssa.Store); ok && isFlagAddr(s.Addr) {
					stores = append(stores, s)
				}
			}
		}
		if !reads {
			continue
		}
		// functions that set the flag themselves for a whole construct (the pipe) are the producers, not readers of this kind
		setsTrue := false
		for _, s := range stores {
			if k, isC := s.Val.(*ssa.Const); isC && k.Value != nil && k.Value.ExactString() == "true" {
				setsTrue = true
			}
		}
		if setsTrue {
			continue
		}
		readers[fn] = true
		calledByDispatcher := false
		for _, b := range compile.Blocks {
			for _, in := range b.Instrs {
				if ci, ok := in.(ssa.CallInstruction); ok && ci.Common().StaticCallee() == fn {
					calledByDispatcher = true
				}
			}
		}
		helperReaders[fn] = !calledByDispatcher
		n++
		bad := ""
		for _, b := range fn.Blocks {
			for i, in := range b.Instrs {
				ci, ok := in.(ssa.CallInstruction)
				if !ok {
					continue
				}
				cal := ci.Common().StaticCallee()
				if cal == nil || cal.Signature.Recv() == nil || core.NamedOf(cal.Signature.Recv().Type()) != ct {
					continue
				}
				if cal != compile && !strings.HasPrefix(cal.Name(), "compile") {
					continue
				}
				// nearest preceding/dominating store to the flag must be `false`
				var nearest *ssa.Store
				for _, s := range stores {
					sb := s.Block()
					dominates := false
					if sb == b {
						for j, x := range b.Instrs {
							if x == ssa.Instruction(s) && j < i {
								dominates = true
							}
						}
					} else if sb.Dominates(b) {
						dominates = true
					}
					if !dominates {
						continue
					}
					if nearest == nil || nearest.Block().Dominates(sb) && nearest.Block() != sb || (nearest.Block() == sb && s.Pos() > nearest.Pos()) {
						nearest = s
					}
				}
				okc := false
				if nearest != nil {
					if k, isC := nearest.Val.(*ssa.Const); isC && k.Value != nil && k.Value.ExactString() == "false" {
						okc = true
					}
				}
				if !okc {
					bad = cal.Name() + " at " + p.Pos(in.Pos())
				}
			}
		}
		c.Check(bad == "", core.SSAName(fn)+"|operands-compiled-with-"+flag.Name()+"-off", p.Pos(fn.Pos()),
			fn.Name()+" decides by "+flag.Name()+" whether its own call becomes a partial and compiles its operands with the flag switched off"+ifs(bad != "", "; "+bad+" runs with the flag as it was: calls nested in the operands become partials too"))
	}
	// ... and a function that leaves the decision to a helper (it calls a
	// reader, and reads the flag no longer itself) compiles what it compiles
	// before the helper with the flag off as well: the callee of a call is an
	// operand like the arguments are
	for _, fn := range repoFns(p, "compiler") {
		if fn.Signature.Recv() == nil || core.NamedOf(fn.Signature.Recv().Type()) != ct || readers[fn] || fn == compile {
			continue
		}
		var stores []*ssa.Store
		setsTrue := false
		var readerCalls []ssa.Instruction
		for _, b := range fn.Blocks {
			for _, in := range b.Instrs {
				if s, ok := in.(*ssa.Store); ok && isFlagAddr(s.Addr) {
					stores = append(stores, s)
					if k, isC := s.Val.(*ssa.Const); isC && k.Value != nil && k.Value.ExactString() == "true" {
						setsTrue = true
					}
				}
				if ci, ok := in.(ssa.CallInstruction); ok {
					if cal := ci.Common().StaticCallee(); cal != nil && readers[cal] && helperReaders[cal] {
						readerCalls = append(readerCalls, in)
					}
				}
			}
		}
		if setsTrue || len(readerCalls) == 0 {
			continue
		}
		n++
		bad := ""
		for _, b := range fn.Blocks {
			for _, in := range b.Instrs {
				ci, ok := in.(ssa.CallInstruction)
				if !ok {
					continue
				}
				cal := ci.Common().StaticCallee()
				if cal == nil || cal.Signature.Recv() == nil || core.NamedOf(cal.Signature.Recv().Type()) != ct || readers[cal] {
					continue
				}
				if cal != compile && !strings.HasPrefix(cal.Name(), "compile") {
					continue
				}
				before := false
				for _, rc := range readerCalls {
					if instrReaches(in, rc) {
						before = true
					}
				}
				if !before {
					continue
				}
				off := false
				for _, s := range stores {
					if k, isC := s.Val.(*ssa.Const); isC && k.Value != nil && k.Value.ExactString() == "false" && instrDominates(s, in) {
						off = true
					}
				}
				if !off {
					bad = cal.Name() + " at " + p.Pos(in.Pos())
				}
			}
		}
		c.Check(bad == "", core.SSAName(fn)+"|operands-compiled-with-"+flag.Name()+"-off", p.Pos(fn.Pos()),
			fn.Name()+" leaves it to a helper to decide by "+flag.Name()+" whether its call becomes a partial, and compiles what comes before the helper with the flag switched off"+ifs(bad != "", "; "+bad+" runs with the flag as it was: calls nested in the callee or the receiver become partials too"))
	}
	if n == 0 {
		core.Undecidedf("no compile function reads %s", flag.Name())
	}
}

// parseResultsTestedBeforeUse (C03-R12): the result of parseExpression /
// parseNode (which is nil, without an error, when the token is a newline) is
// tested for nil before it is put into a syntax-tree node.  The compiler
// dereferences every child of a node, outside any recover.
func parseResultsTestedBeforeUse(c *core.Ctx) {
	p := c.P
	pp := p.Pkg("parser")
	parserT := core.MustType(pp, "Parser")
	var sources []*ssa.Function
	for _, name := range []string{"parseExpression", "parseNode"} {
		if m := core.Method(parserT, name); m != nil {
			sources = append(sources, p.SSAFunc(m))
		}
	}
	if len(sources) == 0 {
		core.Undecidedf("parser.parseExpression / parseNode not found")
	}
	// every other parse method that can return nil: one result of an ast type and a path that returns nil
	for _, m := range core.Methods(parserT) {
		sf := p.SSAFunc(m)
		if sf == nil || sf.Blocks == nil || sf.Signature.Results().Len() != 1 || !strings.HasPrefix(m.Name(), "parse") {
			continue
		}
		rt := sf.Signature.Results().At(0).Type()
		if pt, ok := rt.(*types.Pointer); ok {
			rt = pt.Elem()
		}
		nt, ok := rt.(*types.Named)
		if !ok || nt.Obj().Pkg() == nil || nt.Obj().Pkg().Path() != pkgPath("ast") {
			continue
		}
		already, returnsNil := false, false
		for _, s0 := range sources {
			if s0 == sf {
				already = true
			}
		}
		for _, b := range sf.Blocks {
			for _, in := range b.Instrs {
				if ret, ok := in.(*ssa.Return); ok && len(ret.Results) == 1 {
					for _, o := range core.Origins(ret.Results[0]) {
						if k, ok := o.(*ssa.Const); ok && k.IsNil() {
							returnsNil = true
						}
					}
				}
			}
		}
		if !already && returnsNil {
			sources = append(sources, sf)
		}
	}
	errorful := errorfulNilSources(p, sources)
	isSource := func(f *ssa.Function) bool {
		for _, s := range sources {
			if s == f {
				return true
			}
		}
		return false
	}
	n := 0
	for _, fn := range repoFns(p, "parser") {
		k := 0
		for _, b := range fn.Blocks {
			for _, in := range b.Instrs {
				call, ok := in.(*ssa.Call)
				if !ok || !isSource(call.Call.StaticCallee()) || call.Referrers() == nil {
					continue
				}
				// uses as an argument of an ast constructor, possibly through an interface conversion
				type use struct {
					call *ssa.Call
					at   *ssa.BasicBlock // where the value must already be known non-nil
					elem ssa.Instruction // or: the value becomes an element of a list / map that a node is built from
				}
				var uses []use
				var visit func(v ssa.Value, d int, at *ssa.BasicBlock)
				visit = func(v ssa.Value, d int, at *ssa.BasicBlock) {
					if d > 3 || v.Referrers() == nil {
						return
					}
					for _, r := range *v.Referrers() {
						switch x := r.(type) {
						case *ssa.Call:
							if cal := x.Call.StaticCallee(); cal != nil && cal.Pkg != nil && cal.Pkg.Pkg != nil && cal.Pkg.Pkg.Path() == pkgPath("ast") && strings.HasPrefix(cal.Name(), "New") {
								if optionalChildren[cal.Name()] != "" {
									continue
								}
								blk := at
								if blk == nil {
									blk = x.Block()
								}
								uses = append(uses, use{x, blk, nil})
							}
						case *ssa.MapUpdate:
							if x.Key == v || x.Value == v {
								blk := at
								if blk == nil {
									blk = x.Block()
								}
								uses = append(uses, use{nil, blk, x})
							}
						case *ssa.Store:
							if _, isElem := x.Addr.(*ssa.IndexAddr); isElem && x.Val == v {
								blk := at
								if blk == nil {
									blk = x.Block()
								}
								uses = append(uses, use{nil, blk, x})
							}
						case *ssa.ChangeInterface:
							visit(x, d+1, at)
						case *ssa.MakeInterface:
							visit(x, d+1, at)
						case *ssa.Phi:
							// the value enters the phi at the end of the predecessor that carries it
							for i, e := range x.Edges {
								if e == v && at == nil {
									// the edge itself may be the non-nil branch of a test of v
									pred := x.Block().Preds[i]
									if iff, ok := pred.Instrs[len(pred.Instrs)-1].(*ssa.If); ok {
										if bo, ok := iff.Cond.(*ssa.BinOp); ok && (bo.X == v || bo.Y == v) && (isNilValue(bo.X) || isNilValue(bo.Y)) {
											nonNil := pred.Succs[1]
											if bo.Op == token.NEQ {
												nonNil = pred.Succs[0]
											}
											if (bo.Op == token.EQL || bo.Op == token.NEQ) && nonNil == x.Block() {
												continue
											}
										}
									}
									visit(x, d+1, pred)
								}
							}
						}
					}
				}
				visit(call, 0, nil)
				for _, uu := range uses {
					u := uu.call
					n++
					k++
					guarded := nonNilGuardDominates(call, uu.at) || nilBranchReportsError(call) || errorful[call.Call.StaticCallee()]
					if u == nil {
						c.Check(guarded, core.SSAName(fn)+"|"+call.Call.StaticCallee().Name()+"#"+itoa(k)+"|nil-tested-before-element", p.Pos(uu.elem.Pos()),
							fn.Name()+" makes the result of "+call.Call.StaticCallee().Name()+" an element of the list / map a node is built from only after testing it for nil")
						continue
					}
					c.Check(guarded, core.SSAName(fn)+"|"+call.Call.StaticCallee().Name()+"#"+itoa(k)+"|nil-tested-before-"+u.Call.StaticCallee().Name(), p.Pos(u.Pos()),
						fn.Name()+" gives the result of "+call.Call.StaticCallee().Name()+" to ast."+u.Call.StaticCallee().Name()+" only after testing it for nil")
				}
			}
		}
	}
	c.Stat("parse_results_into_constructors", n)
}

// Constructors whose expression children may be absent (the compiler tests them
// for nil): a nil there is a legitimate "not given".
var optionalChildren = map[string]string{
	"NewFor":   "init, condition and post of a for loop are all optional (for ;; { }), compileFor tests each",
	"NewSlice": "both bounds of a slice expression are optional (x[:n], x[n:], x[:])",
}

// nilBranchReportsError: some test of v against nil leads to a block that calls
// a Parser method reporting an error (the tree is then discarded by Parse).
func nilBranchReportsError(v ssa.Value) bool {
	if v.Referrers() == nil {
		return false
	}
	for _, r := range *v.Referrers() {
		bo, ok := r.(*ssa.BinOp)
		if !ok || (bo.Op != token.EQL && bo.Op != token.NEQ) || bo.Referrers() == nil {
			continue
		}
		for _, r2 := range *bo.Referrers() {
			iff, ok := r2.(*ssa.If)
			if !ok {
				continue
			}
			nilSide := iff.Block().Succs[0]
			if bo.Op == token.NEQ {
				nilSide = iff.Block().Succs[1]
			}
			for _, in := range nilSide.Instrs {
				if ci, ok := in.(ssa.CallInstruction); ok {
					if cal := ci.Common().StaticCallee(); cal != nil && strings.Contains(cal.Name(), "Error") {
						return true
					}
				}
			}
		}
	}
	return false
}

// condKey normalises a branch condition `load(x.f) == K` / `!= K` (also against
// nil and for len(...) == 0 style tests it gives up) to a key and the truth of
// "equals" on the taken edge.
func condKey(iff *ssa.If, succ int) (string, bool, bool) {
	bo, ok := iff.Cond.(*ssa.BinOp)
	if !ok || (bo.Op != token.EQL && bo.Op != token.NEQ) {
		return "", false, false
	}
	ld, ok := bo.X.(*ssa.UnOp)
	if !ok || ld.Op != token.MUL {
		return "", false, false
	}
	fa, ok := ld.X.(*ssa.FieldAddr)
	if !ok {
		return "", false, false
	}
	k, ok := bo.Y.(*ssa.Const)
	if !ok {
		return "", false, false
	}
	kv := "nil"
	if k.Value != nil {
		kv = k.Value.ExactString()
	}
	key := fa.X.Name() + "." + itoa(fa.Field) + "==" + kv
	equalsOnTrue := bo.Op == token.EQL
	truth := equalsOnTrue
	if succ == 1 {
		truth = !equalsOnTrue
	}
	return key, truth, true
}

func nilPathReaches(start *ssa.BasicBlock, check *ssa.If, nilOn int, target ssa.Instruction, base ssa.Value, field int) bool {
	type frame struct {
		b     *ssa.BasicBlock
		facts map[string]bool
	}
	init := map[string]bool{}
	if k, t, ok := condKey(check, nilOn); ok {
		init[k] = t
	}
	seen := map[*ssa.BasicBlock]int{}
	var dfs func(b *ssa.BasicBlock, facts map[string]bool, depth int) bool
	dfs = func(b *ssa.BasicBlock, facts map[string]bool, depth int) bool {
		if depth > 40 || seen[b] > 3 {
			return false
		}
		seen[b]++
		defer func() { seen[b]-- }()
		for _, in := range b.Instrs {
			if in == target {
				return true
			}
			if st, ok := in.(*ssa.Store); ok {
				if fa, ok := st.Addr.(*ssa.FieldAddr); ok && fa.Field == field && (fa.X == base || core.SameStorage(fa.X, base)) {
					return false // re-assigned on this path
				}
			}
		}
		iff, isIf := (ssa.Instruction)(nil), false
		if len(b.Instrs) > 0 {
			iff, isIf = b.Instrs[len(b.Instrs)-1], true
		}
		for i, s := range b.Succs {
			nf := facts
			if isIf {
				if ifi, ok := iff.(*ssa.If); ok {
					if k, t, ok := condKey(ifi, i); ok {
						if old, had := facts[k]; had && old != t {
							continue // contradicts an outcome taken earlier on this path
						}
						nf = map[string]bool{}
						for kk, vv := range facts {
							nf[kk] = vv
						}
						nf[k] = t
					}
				}
			}
			if dfs(s, nf, depth+1) {
				return true
			}
		}
		return false
	}
	return dfs(start, init, 0)
}

// errorfulNilSources: the parse methods whose every nil result comes with a
// recorded parse error (Parse then discards the tree): each `return nil` is
// reached through a call of an error-recording method, the error branch of a
// call that records one (nextToken, expectPeek), or the nil branch of another
// such method's result.  Computed to a fixpoint.
func errorfulNilSources(p *core.Program, sources []*ssa.Function) map[*ssa.Function]bool {
	errorful := map[*ssa.Function]bool{}
	recordsOnFailure := func(f *ssa.Function) bool {
		if f == nil {
			return false
		}
		switch f.Name() {
		case "nextToken", "expectPeek":
			return true
		}
		return false
	}
	justified := func(fn *ssa.Function, ret *ssa.BasicBlock) bool {
		for _, b := range fn.Blocks {
			if b != ret && !b.Dominates(ret) {
				continue
			}
			for _, in := range b.Instrs {
				if ci, ok := in.(ssa.CallInstruction); ok {
					if cal := ci.Common().StaticCallee(); cal != nil && strings.Contains(cal.Name(), "Error") {
						return true
					}
				}
			}
			// b is the failing branch of a recording call, or the nil branch of an errorful source
			for _, pred := range b.Preds {
				if len(pred.Succs) != 2 {
					continue
				}
				iff, ok := pred.Instrs[len(pred.Instrs)-1].(*ssa.If)
				if !ok {
					continue
				}
				isTrue := pred.Succs[0] == b
				cond := iff.Cond
				if u, ok := cond.(*ssa.UnOp); ok && u.Op == token.NOT {
					cond, isTrue = u.X, !isTrue
				}
				switch x := cond.(type) {
				case *ssa.Call:
					if recordsOnFailure(x.Call.StaticCallee()) && !isTrue && len(b.Preds) == 1 {
						return true
					}
				case *ssa.BinOp:
					if x.Op != token.EQL && x.Op != token.NEQ {
						continue
					}
					var v ssa.Value
					if isNilValue(x.Y) {
						v = x.X
					} else if isNilValue(x.X) {
						v = x.Y
					}
					call, ok := v.(*ssa.Call)
					if !ok || len(b.Preds) != 1 {
						continue
					}
					nilBranch := (x.Op == token.EQL) == isTrue
					cal := call.Call.StaticCallee()
					if isErrorType(call.Type()) && recordsOnFailure(cal) && !nilBranch {
						return true
					}
					if errorful[cal] && nilBranch {
						return true
					}
				}
			}
		}
		return false
	}
	for changed := true; changed; {
		changed = false
		for _, fn := range sources {
			if errorful[fn] {
				continue
			}
			all, any := true, false
			for _, b := range fn.Blocks {
				for _, in := range b.Instrs {
					ret, ok := in.(*ssa.Return)
					if !ok || len(ret.Results) != 1 {
						continue
					}
					isNil := false
					for _, o := range core.Origins(ret.Results[0]) {
						if k, ok := o.(*ssa.Const); ok && k.IsNil() {
							isNil = true
						}
					}
					if !isNil {
						continue
					}
					any = true
					if !justified(fn, b) {
						all = false
					}
				}
			}
			if any && all {
				errorful[fn] = true
				changed = true
			}
		}
	}
	return errorful
}
