// Package rules: the repository-specific rules, one file per property.
package rules

import (
	"strconv"
	"fmt"
	"go/ast"
	"go/constant"
	"go/token"
	"go/types"
	"sort"
	"strings"

	"golang.org/x/tools/go/packages"

	"risorcheck/core"
)

const mod = core.ModPath

func pkgPath(rel string) string {
	if rel == "" || rel == "." {
		return mod
	}
	return mod + "/" + rel
}

// funcBodies calls f for every function declaration with a body in pk, in
// source order.
func funcBodies(pk *packages.Package, f func(fn *types.Func, fd *ast.FuncDecl)) {
	for _, file := range pk.Syntax {
		for _, d := range file.Decls {
			if fd, ok := d.(*ast.FuncDecl); ok && fd.Body != nil {
				if obj, ok := pk.TypesInfo.Defs[fd.Name].(*types.Func); ok {
					f(obj, fd)
				}
			}
		}
	}
}

// walkStack walks n keeping the stack of enclosing nodes (outermost first).
func walkStack(n ast.Node, f func(n ast.Node, stack []ast.Node) bool) {
	var stack []ast.Node
	ast.Inspect(n, func(x ast.Node) bool {
		if x == nil {
			stack = stack[:len(stack)-1]
			return true
		}
		ok := f(x, stack)
		if ok {
			stack = append(stack, x)
		}
		return ok
	})
}

// declName renders a FuncDecl as Recv.Name or Name.
func declName(fd *ast.FuncDecl) string {
	if fd.Recv != nil && len(fd.Recv.List) > 0 {
		t := fd.Recv.List[0].Type
		if s, ok := t.(*ast.StarExpr); ok {
			t = s.X
		}
		if ix, ok := t.(*ast.IndexExpr); ok {
			t = ix.X
		}
		if id, ok := t.(*ast.Ident); ok {
			return id.Name + "." + fd.Name.Name
		}
	}
	return fd.Name.Name
}

// qual renders pkgrel.Decl
func qual(pk *packages.Package, fd *ast.FuncDecl) string {
	return core.RelPkg(pk.Types) + "." + declName(fd)
}

// isContext reports whether t is context.Context.
func isContext(t types.Type) bool {
	return core.IsNamed(t, "context", "Context")
}

// constString returns the constant string value of e, if any.
func constString(info *types.Info, e ast.Expr) (string, bool) {
	if tv, ok := info.Types[e]; ok && tv.Value != nil && tv.Value.Kind() == constant.String {
		return constant.StringVal(tv.Value), true
	}
	return "", false
}

// constInt returns the constant integer value of e, if any.
func constInt(info *types.Info, e ast.Expr) (int64, bool) {
	if tv, ok := info.Types[e]; ok && tv.Value != nil && tv.Value.Kind() == constant.Int {
		v, ok := constant.Int64Val(tv.Value)
		return v, ok
	}
	return 0, false
}

// objOf resolves an identifier or selector to the object it uses.
func objOf(info *types.Info, e ast.Expr) types.Object {
	switch x := ast.Unparen(e).(type) {
	case *ast.Ident:
		if o := info.Uses[x]; o != nil {
			return o
		}
		return info.Defs[x]
	case *ast.SelectorExpr:
		if sel, ok := info.Selections[x]; ok {
			return sel.Obj()
		}
		return info.Uses[x.Sel]
	}
	return nil
}

// fieldOf: if e is a selector of a struct field, return the field var.
func fieldOf(info *types.Info, e ast.Expr) *types.Var {
	if se, ok := ast.Unparen(e).(*ast.SelectorExpr); ok {
		if sel, ok := info.Selections[se]; ok && sel.Kind() == types.FieldVal {
			if v, ok := sel.Obj().(*types.Var); ok {
				return v
			}
		}
	}
	return nil
}

// isNilIdent reports whether e is the predeclared nil.
func isNilIdent(info *types.Info, e ast.Expr) bool {
	if id, ok := ast.Unparen(e).(*ast.Ident); ok {
		_, isNil := info.Uses[id].(*types.Nil)
		return isNil
	}
	return false
}

// exprStr is types.ExprString (for messages only, never for matching).
func exprStr(e ast.Expr) string { return types.ExprString(e) }

func sortedKeys[V any](m map[string]V) []string {
	var ks []string
	for k := range m {
		ks = append(ks, k)
	}
	sort.Strings(ks)
	return ks
}

// enclosingFuncParams collects parameter objects of all functions (decl and
// literals) enclosing a node given its stack.
func enclosingParams(info *types.Info, stack []ast.Node) map[types.Object]bool {
	out := map[types.Object]bool{}
	add := func(ft *ast.FuncType) {
		if ft == nil || ft.Params == nil {
			return
		}
		for _, f := range ft.Params.List {
			for _, n := range f.Names {
				if o := info.Defs[n]; o != nil {
					out[o] = true
				}
			}
		}
	}
	for _, n := range stack {
		switch x := n.(type) {
		case *ast.FuncDecl:
			add(x.Type)
			if x.Recv != nil {
				for _, f := range x.Recv.List {
					for _, n := range f.Names {
						if o := info.Defs[n]; o != nil {
							out[o] = true
						}
					}
				}
			}
		case *ast.FuncLit:
			add(x.Type)
		}
	}
	return out
}

// calleeOf resolves the static callee of a call.
func calleeOf(info *types.Info, call *ast.CallExpr) *types.Func { return core.Callee(info, call) }

// isBuiltinCall reports whether call invokes the named Go builtin.
func isBuiltinCall(info *types.Info, call *ast.CallExpr, name string) bool {
	if id, ok := ast.Unparen(call.Fun).(*ast.Ident); ok && id.Name == name {
		_, ok := info.Uses[id].(*types.Builtin)
		return ok
	}
	return false
}

// localAssignments maps local variables to every expression assigned to them
// inside body (":=", "=", var specs). Tuple assignments from a single call map
// each variable to the call expression.
func localAssignments(info *types.Info, body ast.Node) map[types.Object][]ast.Expr {
	out := map[types.Object][]ast.Expr{}
	ast.Inspect(body, func(n ast.Node) bool {
		switch s := n.(type) {
		case *ast.AssignStmt:
			if len(s.Lhs) == len(s.Rhs) {
				for i, l := range s.Lhs {
					if id, ok := l.(*ast.Ident); ok {
						if o := objOfIdent(info, id); o != nil {
							out[o] = append(out[o], s.Rhs[i])
						}
					}
				}
			} else if len(s.Rhs) == 1 {
				for _, l := range s.Lhs {
					if id, ok := l.(*ast.Ident); ok {
						if o := objOfIdent(info, id); o != nil {
							out[o] = append(out[o], s.Rhs[0])
						}
					}
				}
			}
		case *ast.ValueSpec:
			for i, id := range s.Names {
				if o := info.Defs[id]; o != nil {
					if len(s.Values) == len(s.Names) {
						out[o] = append(out[o], s.Values[i])
					} else if len(s.Values) == 1 {
						out[o] = append(out[o], s.Values[0])
					}
				}
			}
		}
		return true
	})
	return out
}

func objOfIdent(info *types.Info, id *ast.Ident) types.Object {
	if o := info.Defs[id]; o != nil {
		return o
	}
	return info.Uses[id]
}

func posOf(p *core.Program, n ast.Node) string { return p.Pos(n.Pos()) }

func sprintf(format string, a ...interface{}) string { return fmt.Sprintf(format, a...) }

var _ = token.NoPos
var _ = strings.TrimSpace

func unquote(s string) (string, error) { return strconv.Unquote(s) }

func constantInt64(v constant.Value) (int64, bool) {
	if v == nil || v.Kind() != constant.Int {
		return 0, false
	}
	return constant.Int64Val(v)
}
