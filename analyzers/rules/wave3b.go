package rules

import (
	"go/ast"
	"go/token"
	"go/types"
	"sort"
	"strings"

	"golang.org/x/tools/go/packages"
	"golang.org/x/tools/go/ssa"

	"risorcheck/core"
)

// boundaryAgreement: sibling sites that compare the same struct field with the
// same named constant agree on which side of the constant is "large".  One
// site treating `count > Limit` as the heap case and another `count >= Limit`
// disagree for exactly count == Limit (Engler et al.: one of two beliefs is wrong).
func boundaryAgreement(c *core.Ctx, rels ...string) {
	p := c.P
	type site struct {
		class string
		pos   string
		fn    string
	}
	type key struct {
		f *types.Var
		k *types.Const
	}
	sites := map[key][]site{}
	for _, rel := range rels {
		if !p.HasPkg(rel) {
			continue
		}
		pk := p.Pkg(rel)
		info := pk.TypesInfo
		funcBodies(pk, func(fn *types.Func, fd *ast.FuncDecl) {
			ast.Inspect(fd.Body, func(nd ast.Node) bool {
				be, ok := nd.(*ast.BinaryExpr)
				if !ok {
					return true
				}
				var cls string
				switch be.Op {
				case token.GTR, token.LEQ:
					cls = "gt"
				case token.GEQ, token.LSS:
					cls = "ge"
				default:
					return true
				}
				side := func(e ast.Expr) (*types.Var, *types.Const) {
					e = ast.Unparen(e)
					if ce, ok := e.(*ast.CallExpr); ok && len(ce.Args) == 1 {
						if tv, ok := info.Types[ce.Fun]; ok && tv.IsType() {
							e = ast.Unparen(ce.Args[0]) // conversion
						} else if isBuiltinCall(info, ce, "len") {
							e = ast.Unparen(ce.Args[0])
						}
					}
					if f := fieldOf(info, e); f != nil {
						return f, nil
					}
					if k, _ := objOf(info, e).(*types.Const); k != nil && k.Parent() == k.Pkg().Scope() {
						return nil, k
					}
					return nil, nil
				}
				lf, lk := side(be.X)
				rf, rk := side(be.Y)
				var f *types.Var
				var k *types.Const
				switch {
				case lf != nil && rk != nil:
					f, k = lf, rk
				case rf != nil && lk != nil:
					f, k = rf, lk
					// const OP field: flip
					if cls == "gt" {
						cls = "ge"
					} else {
						cls = "gt"
					}
				default:
					return true
				}
				sites[key{f, k}] = append(sites[key{f, k}], site{cls, posOf(p, be), declName(fd)})
				return true
			})
		})
	}
	var keys []key
	for k := range sites {
		keys = append(keys, k)
	}
	sort.Slice(keys, func(i, j int) bool {
		return keys[i].f.Name()+keys[i].k.Name() < keys[j].f.Name()+keys[j].k.Name()
	})
	n := 0
	for _, k := range keys {
		ss := sites[k]
		if len(ss) < 2 {
			continue
		}
		n++
		classes := map[string]bool{}
		desc := ""
		for _, s := range ss {
			classes[s.class] = true
			desc += "; " + s.fn + " (" + map[string]string{"gt": "> / <=", "ge": ">= / <"}[s.class] + ") " + s.pos
		}
		c.Check(len(classes) == 1, "boundary|"+k.f.Name()+"~"+k.k.Name(), ss[0].pos,
			"every comparison of ."+k.f.Name()+" with "+k.k.Name()+" puts the boundary on the same side"+desc)
	}
	if n == 0 {
		c.Pass("boundary|none-shared", strings.Join(rels, ","), "no field is compared with the same named constant at more than one site")
	}
	c.Stat("shared_boundaries", n)
}

// spawnCopiesArgs (C10-R7): the argument slice that a spawned call receives is
// a copy made by Spawn, not (a re-slice of) the caller's slice: the caller —
// list.map re-using one argument buffer, the VM's argument array — overwrites
// its slice while the new goroutine is starting.
func spawnCopiesArgs(c *core.Ctx) {
	p := c.P
	op := p.Pkg("object")
	f := core.LookupFunc(op, "Spawn")
	if f == nil {
		core.Undecidedf("object.Spawn not found")
	}
	sf := p.SSAFunc(f)
	var argsP *ssa.Parameter
	for _, prm := range sf.Params {
		if sl, ok := prm.Type().Underlying().(*types.Slice); ok && core.IsNamed(sl.Elem(), pkgPath("object"), "Object") {
			argsP = prm
		}
	}
	if argsP == nil {
		core.Undecidedf("object.Spawn has no []Object parameter")
	}
	n := 0
	for _, b := range sf.Blocks {
		for _, in := range b.Instrs {
			ci, ok := in.(ssa.CallInstruction)
			if !ok || ci.Common().StaticCallee() != nil || ci.Common().IsInvoke() {
				continue
			}
			if _, isB := ci.Common().Value.(*ssa.Builtin); isB {
				continue
			}
			// a call through a function value (the spawn function from the context)
			for _, a := range ci.Common().Args {
				sl, ok := a.Type().Underlying().(*types.Slice)
				if !ok || !core.IsNamed(sl.Elem(), pkgPath("object"), "Object") {
					continue
				}
				n++
				fresh := true
				for _, o := range core.Origins(a) {
					switch x := o.(type) {
					case *ssa.MakeSlice:
					case *ssa.Slice:
						if _, isAlloc := x.X.(*ssa.Alloc); !isAlloc {
							fresh = false
						}
					default:
						fresh = false
					}
				}
				c.Check(fresh, "object.Spawn|args#"+itoa(n)+"|copied", p.Pos(in.Pos()),
					"the spawned call is given a slice allocated by Spawn (make + copy); a re-slice of the caller's slice shares its backing array")
			}
		}
	}
	if n == 0 {
		core.Undecidedf("object.Spawn passes no argument slice to a function value")
	}
}

// configOwnsItsMaps (C11-R8): the map fields of risor.Config are maps the
// Config made itself; an option never installs the host's map, because
// Config.init writes the default globals into it and deletes denied names from it.
func configOwnsItsMaps(c *core.Ctx) {
	p := c.P
	root := p.Pkg("")
	cfgT := core.MustType(root, "Config")
	n := 0
	for _, fn := range repoFns(p, "") {
		for _, b := range fn.Blocks {
			for _, in := range b.Instrs {
				st, ok := in.(*ssa.Store)
				if !ok {
					continue
				}
				fa, ok := st.Addr.(*ssa.FieldAddr)
				if !ok || core.NamedOf(fa.X.Type()) != cfgT {
					continue
				}
				f := fieldVar(fa)
				if f == nil {
					continue
				}
				if _, isMap := f.Type().Underlying().(*types.Map); !isMap {
					continue
				}
				n++
				okv := true
				for _, o := range core.Origins(st.Val) {
					switch x := o.(type) {
					case *ssa.MakeMap, *ssa.Const:
					case *ssa.Call:
						// result of a repository function that makes the map
						if cal := x.Call.StaticCallee(); cal == nil || !core.RepoFunc(cal) {
							okv = false
						}
					default:
						okv = false
					}
				}
				c.Check(okv, core.SSAName(fn)+"|Config."+f.Name()+"|own-map", p.Pos(st.Pos()),
					"Config."+f.Name()+" is set to a map made here, never to one supplied by the caller (init edits it in place)")
			}
		}
	}
	c.Stat("config_map_stores", n)
}

// virtualOSStaysVirtual (C12-R6, C13-R6): no method of VirtualOS references a
// host-touching function of the Go standard library; everything goes to the
// mounted filesystems and the configured streams.
func virtualOSStaysVirtual(c *core.Ctx) {
	p := c.P
	ros := p.Pkg("os")
	vT := core.MustType(ros, "VirtualOS")
	allowed := map[string]string{
		"os.Exit": "Exit is the one operation a virtual OS forwards on purpose (process exit)",
	}
	n := 0
	funcBodies(ros, func(fn *types.Func, fd *ast.FuncDecl) {
		if core.RecvNamed(fn) != vT {
			return
		}
		n++
		bad := ""
		ast.Inspect(fd.Body, func(nd ast.Node) bool {
			id, ok := nd.(*ast.Ident)
			if !ok {
				return true
			}
			if touching, why := hostTouching(ros.TypesInfo.Uses[id]); touching {
				if _, ok := allowed[why]; !ok {
					bad = why + " at " + posOf(p, id)
				}
			}
			return true
		})
		c.Check(bad == "", "os.VirtualOS."+fn.Name()+"|stays-virtual", posOf(p, fd),
			"VirtualOS."+fn.Name()+" reaches files, environment and processes only through its mounts and configured values"+ifs(bad != "", "; it references "+bad))
	})
	c.Stat("virtualos_methods", n)
	_ = packages.NeedName
}

// longestMountWins (C13-R7): the mount lookup examines every mount and keeps
// the longest match: it contains a comparison of lengths and does not leave the
// loop at the first prefix hit.
func longestMountWins(c *core.Ctx) {
	p := c.P
	ros := p.Pkg("os")
	info := ros.TypesInfo
	vT := core.MustType(ros, "VirtualOS")
	m := core.Method(vT, "findMount")
	if m == nil {
		core.Undecidedf("VirtualOS.findMount not found")
	}
	fd := p.Decl(m)
	lenCmp, early := false, ""
	loops := 0
	ast.Inspect(fd.Body, func(nd ast.Node) bool {
		var body *ast.BlockStmt
		switch x := nd.(type) {
		case *ast.RangeStmt:
			body = x.Body
		case *ast.ForStmt:
			body = x.Body
		}
		if body == nil {
			return true
		}
		loops++
		ast.Inspect(body, func(k ast.Node) bool {
			switch x := k.(type) {
			case *ast.FuncLit:
				return false
			case *ast.BinaryExpr:
				isLen := func(e ast.Expr) bool {
					ce, ok := ast.Unparen(e).(*ast.CallExpr)
					return ok && isBuiltinCall(info, ce, "len")
				}
				switch x.Op {
				case token.GTR, token.LSS, token.GEQ, token.LEQ:
					if isLen(x.X) || isLen(x.Y) {
						lenCmp = true
					}
				}
			case *ast.IfStmt:
				// an exact match is the longest possible: leaving the loop for it is fine
				if be, ok := ast.Unparen(x.Cond).(*ast.BinaryExpr); ok && be.Op == token.EQL && x.Init == nil {
					if x.Else != nil {
						ast.Inspect(x.Else, func(k2 ast.Node) bool {
							if r, ok := k2.(*ast.ReturnStmt); ok {
								early = "return at " + posOf(p, r)
							}
							return true
						})
					}
					return false
				}
			case *ast.ReturnStmt:
				early = "return at " + posOf(p, x)
			case *ast.BranchStmt:
				if x.Tok == token.BREAK {
					early = "break at " + posOf(p, x)
				}
			}
			return true
		})
		return true
	})
	c.Check(loops > 0 && lenCmp && early == "", "os.VirtualOS.findMount|longest-match", posOf(p, fd),
		"findMount looks at every mount and keeps the longest matching mount point (a length comparison inside the loop, no exit at the first hit)"+ifs(early != "", ": "+early)+ifs(!lenCmp, ": no length comparison"))
}

// builtinsDoNotSortOperandStorage (C16-R7): a builtin never sorts or writes the
// storage it was handed by a container accessor.  List.Value() returns the
// list's own slice; sorting it in place changes the operand of a read-only
// operation, and the result shares its backing array.
func builtinsDoNotMutateOperandStorage(c *core.Ctx) {
	p := c.P
	op := p.Pkg("object")
	// accessors that return a receiver field as it is
	exposing := map[*ssa.Function]string{}
	for _, fn := range repoFns(p, "object") {
		if fn.Signature.Recv() == nil || len(fn.Params) == 0 || fn.Signature.Results().Len() != 1 {
			continue
		}
		if _, isSl := fn.Signature.Results().At(0).Type().Underlying().(*types.Slice); !isSl {
			continue
		}
		all := true
		nret := 0
		for _, b := range fn.Blocks {
			for _, in := range b.Instrs {
				r, ok := in.(*ssa.Return)
				if !ok {
					continue
				}
				nret++
				u, ok := r.Results[0].(*ssa.UnOp)
				if !ok || u.Op != token.MUL {
					all = false
					continue
				}
				fa, ok := u.X.(*ssa.FieldAddr)
				if !ok || fa.X != ssa.Value(fn.Params[0]) {
					all = false
				}
			}
		}
		if all && nret > 0 {
			exposing[fn] = fn.Name()
		}
	}
	_ = op
	if len(exposing) == 0 {
		core.Undecidedf("no storage-exposing accessor found in package object")
	}
	// repository functions that sort / write a slice parameter in place
	mutatesParam := map[*ssa.Function]map[int]bool{}
	isSortCall := func(cal *ssa.Function) bool {
		if cal == nil || cal.Pkg == nil || cal.Pkg.Pkg == nil {
			return false
		}
		pth := cal.Pkg.Pkg.Path()
		if pth != "sort" && pth != "slices" {
			return false
		}
		return strings.HasPrefix(cal.Name(), "Sort") || strings.HasPrefix(cal.Name(), "Slice") || cal.Name() == "Stable" || cal.Name() == "Reverse"
	}
	all := repoFns(p)
	for changed := true; changed; {
		changed = false
		for _, fn := range all {
			for pi, prm := range fn.Params {
				if _, isSl := prm.Type().Underlying().(*types.Slice); !isSl || mutatesParam[fn][pi] {
					continue
				}
				hit := false
				for _, b := range fn.Blocks {
					for _, in := range b.Instrs {
						switch x := in.(type) {
						case ssa.CallInstruction:
							cal := x.Common().StaticCallee()
							for ai, a := range x.Common().Args {
								if mi, ok := a.(*ssa.MakeInterface); ok {
									a = mi.X
								}
								isPrm := false
								for _, o := range core.Origins(a) {
									if o == ssa.Value(prm) {
										isPrm = true
									}
								}
								if !isPrm {
									continue
								}
								if (isSortCall(cal) && ai == 0) || (cal != nil && mutatesParam[cal][ai]) {
									hit = true
								}
							}
						case *ssa.Store:
							if ia, ok := x.Addr.(*ssa.IndexAddr); ok && ia.X == ssa.Value(prm) {
								hit = true
							}
						}
					}
				}
				if hit {
					if mutatesParam[fn] == nil {
						mutatesParam[fn] = map[int]bool{}
					}
					mutatesParam[fn][pi] = true
					changed = true
				}
			}
		}
	}
	n := 0
	for _, fn := range repoFns(p, "builtins", "modules/math", "modules/strings", "modules/rand", "modules/json") {
		idx := 0
		for _, b := range fn.Blocks {
			for _, in := range b.Instrs {
				fromAccessor := func(v ssa.Value) string {
					name := ""
					for _, o := range core.Origins(v) {
						if call, ok := o.(*ssa.Call); ok {
							if cal := call.Call.StaticCallee(); cal != nil && exposing[cal] != "" {
								// the storage of an object that was made a moment ago, for this call
								// alone (m.Keys().Value()), is nobody else's
								if len(call.Call.Args) > 0 && madeForThisCall(call.Call.Args[0]) {
									continue
								}
								name = core.SSAName(cal)
							}
						}
					}
					return name
				}
				switch x := in.(type) {
				case ssa.CallInstruction:
					cal := x.Common().StaticCallee()
					if cal == nil {
						continue
					}
					for ai, a := range x.Common().Args {
						if !(isSortCall(cal) && ai == 0) && !mutatesParam[cal][ai] {
							continue
						}
						if mi, ok := a.(*ssa.MakeInterface); ok {
							a = mi.X
						}
						n++
						idx++
						src := fromAccessor(a)
						c.Check(src == "", core.SSAName(fn)+"|sort#"+itoa(idx)+"|on-own-storage", p.Pos(in.Pos()),
							fn.Name()+" hands "+cal.Name()+" (which sorts or writes it in place) a slice of its own"+ifs(src != "", ": the slice comes from "+src+", which returns the operand's storage"))
					}
				case *ssa.Store:
					ia, ok := x.Addr.(*ssa.IndexAddr)
					if !ok {
						continue
					}
					if src := fromAccessor(ia.X); src != "" {
						n++
						idx++
						c.Fail(core.SSAName(fn)+"|store#"+itoa(idx)+"|on-own-storage", p.Pos(in.Pos()), fn.Name()+" writes an element of the slice returned by "+src+" (the operand's storage)")
					}
				}
			}
		}
	}
	c.Stat("sorts_and_element_stores_checked", n)
	c.Stat("exposing_accessors", len(exposing))
}

// madeForThisCall: v is the result of a call of a function that hands out a
// new object on new storage on every path (Map.Keys, Set.List): an Alloc whose
// slice fields are filled from make/append, or from another such function.
func madeForThisCall(v ssa.Value) bool {
	for _, o := range core.Origins(v) {
		call, ok := o.(*ssa.Call)
		if !ok {
			return false
		}
		cal := call.Call.StaticCallee()
		if cal == nil || !freshMaker(cal, 0) {
			return false
		}
	}
	return true
}

func freshMaker(g *ssa.Function, depth int) bool {
	if g.Blocks == nil || depth > 2 || !core.RepoFunc(g) {
		return false
	}
	nret := 0
	for _, b := range g.Blocks {
		for _, in := range b.Instrs {
			r, ok := in.(*ssa.Return)
			if !ok || len(r.Results) == 0 {
				continue
			}
			nret++
			for _, o := range core.Origins(r.Results[0]) {
				switch x := o.(type) {
				case *ssa.Alloc:
					if !x.Heap || x.Referrers() == nil {
						return false
					}
					// every slice stored into a field of the new object is new
					for _, ref := range *x.Referrers() {
						fa, ok := ref.(*ssa.FieldAddr)
						if !ok || fa.Referrers() == nil {
							continue
						}
						for _, r2 := range *fa.Referrers() {
							if st, ok := r2.(*ssa.Store); ok && st.Addr == ssa.Value(fa) {
								if _, isSl := st.Val.Type().Underlying().(*types.Slice); isSl && !freshSlice(st.Val, depth) {
									return false
								}
							}
						}
					}
				case *ssa.MakeSlice:
				case *ssa.Call:
					if c2 := x.Call.StaticCallee(); c2 == nil || !freshMaker(c2, depth+1) {
						if bi, ok := x.Call.Value.(*ssa.Builtin); !ok || bi.Name() != "append" || !freshSlice(x, depth) {
							return false
						}
					}
				default:
					return false
				}
			}
		}
	}
	return nret > 0
}

// freshSlice: the slice was made in this function (make, or appends to one
// that was), or by a function that hands out new slices.
func freshSlice(v ssa.Value, depth int) bool {
	seen := map[ssa.Value]bool{}
	var walk func(v ssa.Value) bool
	walk = func(v ssa.Value) bool {
		if seen[v] {
			return true
		}
		seen[v] = true
		for _, o := range core.Origins(v) {
			switch x := o.(type) {
			case *ssa.MakeSlice:
			case *ssa.Const:
			case *ssa.Slice:
				if !walk(x.X) {
					return false
				}
			case *ssa.Alloc:
				if !x.Heap {
					return false
				}
			case *ssa.Call:
				if bi, ok := x.Call.Value.(*ssa.Builtin); ok && bi.Name() == "append" && len(x.Call.Args) > 0 {
					if !walk(x.Call.Args[0]) {
						return false
					}
					continue
				}
				if c2 := x.Call.StaticCallee(); c2 == nil || !freshMaker(c2, depth+1) {
					return false
				}
			default:
				return false
			}
		}
		return true
	}
	return walk(v)
}
