package rules

import (
	"go/token"
	"go/types"
	"sync"

	"golang.org/x/tools/go/ssa"

	"risorcheck/core"
)

// The clone model: how VirtualMachine.Clone builds the new VM, followed through
// the helpers that Clone hands part of the work to.  The rules about clones
// ask it their questions instead of looking at the body of the one function
// named Clone, so that a Clone that is split in two (a locking wrapper and a
// worker), or that copies its tables with a helper (a generic "snapshot", or
// maps.Clone), is read the same way as a Clone that does it all in line.
//
//   - builders: Clone, and every function of package vm that a builder calls
//     with the VM being cloned among its arguments and that either returns a
//     *VirtualMachine or is handed the new VM as another argument;
//   - orig[f]: the value that is the VM being cloned in builder f;
//   - isNew(f, v): v is the VM under construction in builder f (a composite
//     literal made there, or a parameter bound to one);
//   - inits: the stores into fields of the new VM, each classified as
//     alias (the original's field value itself), copy (a new map filled entry
//     by entry from a field of the original, in a loop or by a copier), or other.

type cloneInit struct {
	Field   int
	Kind    string // "alias", "copy", "other"
	Source  int    // field of the original that is aliased or copied; -1 for other
	Fn      *ssa.Function
	Store   *ssa.Store
	Read    ssa.Instruction  // where the original's table is read: the range, the call of the copier, or the store for an alias
	Updates []*ssa.MapUpdate // the stores of entries, for a copy made by a loop (in the builder or in the copier)
}

type cloneModel struct {
	VM       *types.Named
	Clone    *ssa.Function
	Builders []*ssa.Function
	orig     map[*ssa.Function]ssa.Value
	news     map[*ssa.Function]map[ssa.Value]bool
	Inits    []cloneInit
}

func (m *cloneModel) IsBuilder(fn *ssa.Function) bool { _, ok := m.orig[fn]; return ok }
func (m *cloneModel) Orig(fn *ssa.Function) ssa.Value { return m.orig[fn] }
func (m *cloneModel) IsNew(fn *ssa.Function, v ssa.Value) bool {
	if m.news[fn][v] {
		return true
	}
	if core.NamedOf(v.Type()) == m.VM && isFreshAlloc(v) {
		return true
	}
	return false
}

// InitOf returns the inits of one field (several when it is stored on several paths).
func (m *cloneModel) InitOf(field int) []cloneInit {
	var out []cloneInit
	for _, in := range m.Inits {
		if in.Field == field {
			out = append(out, in)
		}
	}
	return out
}

var (
	cloneModelMu    sync.Mutex
	cloneModelCache = map[*core.Program]*cloneModel{}
)

func cloneModelOf(p *core.Program) *cloneModel {
	cloneModelMu.Lock()
	defer cloneModelMu.Unlock()
	if m, ok := cloneModelCache[p]; ok {
		return m
	}
	m := buildCloneModel(p)
	cloneModelCache[p] = m
	return m
}

func buildCloneModel(p *core.Program) *cloneModel {
	vmT := vmType(p)
	m := &cloneModel{VM: vmT, orig: map[*ssa.Function]ssa.Value{}, news: map[*ssa.Function]map[ssa.Value]bool{}}
	for _, fn := range repoFns(p, "vm") {
		if fn.Name() == "Clone" && fn.Signature.Recv() != nil && core.NamedOf(fn.Signature.Recv().Type()) == vmT && fn.Parent() == nil {
			m.Clone = fn
		}
	}
	if m.Clone == nil || len(m.Clone.Params) == 0 {
		core.Undecidedf("VirtualMachine.Clone not found")
	}
	m.orig[m.Clone] = m.Clone.Params[0]
	m.Builders = []*ssa.Function{m.Clone}
	returnsVM := func(fn *ssa.Function) bool {
		res := fn.Signature.Results()
		for i := 0; i < res.Len(); i++ {
			if core.NamedOf(res.At(i).Type()) == vmT {
				return true
			}
		}
		return false
	}
	for i := 0; i < len(m.Builders) && i < 16; i++ {
		fn := m.Builders[i]
		for _, b := range fn.Blocks {
			for _, in := range b.Instrs {
				ci, ok := in.(ssa.CallInstruction)
				if !ok {
					continue
				}
				cal := ci.Common().StaticCallee()
				if cal == nil || cal.Blocks == nil || cal.Pkg == nil || cal.Pkg != m.Clone.Pkg || m.IsBuilder(cal) {
					continue
				}
				args := ci.Common().Args
				if len(args) != len(cal.Params) {
					continue
				}
				origAt, newAt := -1, []int{}
				for k, a := range args {
					if a == m.orig[fn] {
						origAt = k
					} else if core.NamedOf(a.Type()) == vmT && m.IsNew(fn, a) {
						newAt = append(newAt, k)
					}
				}
				if origAt < 0 || (!returnsVM(cal) && len(newAt) == 0) {
					continue
				}
				m.orig[cal] = cal.Params[origAt]
				for _, k := range newAt {
					if m.news[cal] == nil {
						m.news[cal] = map[ssa.Value]bool{}
					}
					m.news[cal][cal.Params[k]] = true
				}
				m.Builders = append(m.Builders, cal)
			}
		}
	}
	for _, fn := range m.Builders {
		for _, b := range fn.Blocks {
			for _, in := range b.Instrs {
				s, ok := in.(*ssa.Store)
				if !ok {
					continue
				}
				fa, ok := s.Addr.(*ssa.FieldAddr)
				if !ok || core.NamedOf(fa.X.Type()) != vmT || fa.X == m.orig[fn] || !m.IsNew(fn, fa.X) {
					continue
				}
				m.Inits = append(m.Inits, m.classify(fn, fa.Field, s))
			}
		}
	}
	return m
}

// fieldOfOrig: v is a load of a field of the VM being cloned; returns the field index.
func (m *cloneModel) fieldOfOrig(fn *ssa.Function, v ssa.Value) (int, bool) {
	u, ok := v.(*ssa.UnOp)
	if !ok || u.Op != token.MUL {
		return 0, false
	}
	fa, ok := u.X.(*ssa.FieldAddr)
	if !ok || core.NamedOf(fa.X.Type()) != m.VM || fa.X != m.orig[fn] {
		return 0, false
	}
	return fa.Field, true
}

func (m *cloneModel) classify(fn *ssa.Function, field int, s *ssa.Store) cloneInit {
	ci := cloneInit{Field: field, Kind: "other", Source: -1, Fn: fn, Store: s, Read: s}
	for _, o := range core.Origins(s.Val) {
		if f, ok := m.fieldOfOrig(fn, o); ok {
			ci.Kind, ci.Source = "alias", f
			return ci
		}
		switch x := o.(type) {
		case *ssa.MakeMap:
			if src, rg, ups := filledFromRangeOver(fn, x, func(v ssa.Value) (int, bool) { return m.fieldOfOrig(fn, v) }); rg != nil {
				ci.Kind, ci.Source, ci.Read, ci.Updates = "copy", src, rg, ups
				return ci
			}
		case *ssa.Call:
			cal := x.Call.StaticCallee()
			if cal == nil || len(x.Call.Args) == 0 {
				continue
			}
			f, ok := m.fieldOfOrig(fn, x.Call.Args[0])
			if !ok {
				continue
			}
			if ups, is := isMapCopier(cal); is {
				ci.Kind, ci.Source, ci.Read, ci.Updates = "copy", f, x, ups
				return ci
			}
		}
	}
	return ci
}

// filledFromRangeOver: the entries stored into the map made at mk (in fn) come
// from a range over a value that src recognises; returns what src said, the
// range instruction and the stores of entries.
func filledFromRangeOver(fn *ssa.Function, mk ssa.Value, src func(ssa.Value) (int, bool)) (int, *ssa.Range, []*ssa.MapUpdate) {
	var ups []*ssa.MapUpdate
	var found *ssa.Range
	source := -1
	for _, b := range fn.Blocks {
		for _, in := range b.Instrs {
			mu, ok := in.(*ssa.MapUpdate)
			if !ok {
				continue
			}
			mine := false
			for _, o := range core.Origins(mu.Map) {
				if o == mk {
					mine = true
				}
			}
			if !mine {
				continue
			}
			ups = append(ups, mu)
			for _, part := range []ssa.Value{mu.Value, mu.Key} {
				core.DependsOn(part, func(w ssa.Value) bool {
					nx, ok := w.(*ssa.Next)
					if !ok {
						return false
					}
					if rg, ok := nx.Iter.(*ssa.Range); ok {
						if f, ok := src(rg.X); ok && found == nil {
							found, source = rg, f
						}
					}
					return false
				})
			}
		}
	}
	return source, found, ups
}

// isMapCopier: cal returns a new map that holds the entries of its first
// argument: maps.Clone, or a function (generic or not) that makes a map, fills
// it in a range over its first parameter and returns it.
func isMapCopier(cal *ssa.Function) ([]*ssa.MapUpdate, bool) {
	org := cal
	if o := cal.Origin(); o != nil {
		org = o
	}
	if org.Pkg != nil && org.Pkg.Pkg.Path() == "maps" && org.Name() == "Clone" {
		return nil, true
	}
	if cal.Blocks == nil || len(cal.Params) == 0 {
		return nil, false
	}
	if _, isMap := cal.Params[0].Type().Underlying().(*types.Map); !isMap {
		return nil, false
	}
	for _, b := range cal.Blocks {
		for _, in := range b.Instrs {
			ret, ok := in.(*ssa.Return)
			if !ok || len(ret.Results) == 0 {
				continue
			}
			for _, o := range core.Origins(ret.Results[0]) {
				mk, ok := o.(*ssa.MakeMap)
				if !ok {
					continue
				}
				_, rg, ups := filledFromRangeOver(cal, mk, func(v ssa.Value) (int, bool) { return 0, v == ssa.Value(cal.Params[0]) })
				if rg != nil {
					return ups, true
				}
			}
		}
	}
	return nil, false
}
