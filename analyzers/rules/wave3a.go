package rules

import (
	"go/ast"
	"go/token"
	"go/types"
	"sort"
	"strings"

	"golang.org/x/tools/go/ssa"

	"risorcheck/core"
)

// repoFns: the repository's non-test functions with bodies, in a stable order.
func repoFns(p *core.Program, rels ...string) []*ssa.Function {
	want := map[string]bool{}
	for _, r := range rels {
		if r == "" {
			r = "."
		}
		want[r] = true
	}
	var fns []*ssa.Function
	for fn := range p.AllFunctions() {
		if fn.Blocks == nil || !core.RepoFunc(fn) || fn.Pkg == nil {
			continue
		}
		if strings.HasSuffix(p.Fset.Position(fn.Pos()).Filename, "_test.go") {
			continue
		}
		if len(want) > 0 && !want[core.RelPkg(fn.Pkg.Pkg)] {
			continue
		}
		fns = append(fns, fn)
	}
	sort.Slice(fns, func(i, j int) bool { return core.SSAName(fns[i]) < core.SSAName(fns[j]) })
	return fns
}

func staticCalleeIs(in ssa.Instruction, pkg, name string) (*ssa.CallCommon, bool) {
	ci, ok := in.(ssa.CallInstruction)
	if !ok {
		return nil, false
	}
	cal := ci.Common().StaticCallee()
	if cal == nil || cal.Name() != name {
		return nil, false
	}
	if cal.Pkg != nil && cal.Pkg.Pkg != nil && cal.Pkg.Pkg.Path() == pkg {
		return ci.Common(), true
	}
	// methods of types of that package (Pool.Get)
	if recv := cal.Signature.Recv(); recv != nil {
		if nt := core.NamedOf(recv.Type()); nt != nil && nt.Obj().Pkg() != nil && nt.Obj().Pkg().Path() == pkg {
			return ci.Common(), true
		}
	}
	return nil, false
}

// pooledResult: no function returns storage of an object that it has handed
// back to a sync.Pool.  buf := pool.Get(); defer pool.Put(buf); return
// buf.Bytes() gives the caller a slice that the next user of the pool rewrites.
func pooledResult(c *core.Ctx, rels ...string) {
	p := c.P
	n := 0
	for _, fn := range repoFns(p, rels...) {
		var gets []ssa.Value
		puts := false
		for _, b := range fn.Blocks {
			for _, in := range b.Instrs {
				if _, ok := staticCalleeIs(in, "sync", "Get"); ok {
					if v, isV := in.(ssa.Value); isV {
						gets = append(gets, v)
					}
				}
				if _, ok := staticCalleeIs(in, "sync", "Put"); ok {
					puts = true
				}
			}
		}
		if len(gets) == 0 {
			continue
		}
		n++
		bad := ""
		if puts {
			for _, b := range fn.Blocks {
				for _, in := range b.Instrs {
					r, ok := in.(*ssa.Return)
					if !ok {
						continue
					}
					for _, rv := range r.Results {
						rv = spilledResult(b, rv)
						switch rv.Type().Underlying().(type) {
						case *types.Basic:
							continue // strings and numbers are copies
						}
						if isErrorType(rv.Type()) {
							continue
						}
						for _, g := range gets {
							g := g
							if core.DependsOn(rv, func(w ssa.Value) bool { return w == g }) {
								bad = p.Pos(r.Pos())
							}
						}
					}
				}
			}
		}
		c.Check(bad == "", core.SSAName(fn)+"|pooled-storage-not-returned", p.Pos(fn.Pos()),
			fn.Name()+" takes an object from a sync.Pool: nothing it returns is storage of an object it puts back"+ifs(bad != "", "; the value returned at "+bad+" is computed from the pooled object, which the next Get hands to someone else"))
	}
	if n == 0 {
		c.Pass("no-pool-users", "repo", "no function of the analysed packages uses a sync.Pool")
	}
	c.Stat("pool_users", n)
}

// ctxNotDetached (C06-R6): code that runs scripts never cuts the link to the
// caller's cancellation: no context.WithoutCancel, and no context.Background /
// TODO in a function that was given a context.
func ctxNotDetached(c *core.Ctx) {
	p := c.P
	n := 0
	for _, fn := range repoFns(p, "vm", "object", "builtins", "", "importer") {
		hasCtx := false
		root := fn
		for root != nil {
			for _, prm := range root.Params {
				if core.IsNamed(prm.Type(), "context", "Context") {
					hasCtx = true
				}
			}
			root = root.Parent()
		}
		if !hasCtx {
			continue
		}
		n++
		bad := ""
		for _, b := range fn.Blocks {
			for _, in := range b.Instrs {
				for _, name := range []string{"WithoutCancel", "Background", "TODO"} {
					if _, ok := staticCalleeIs(in, "context", name); ok {
						bad = "context." + name + " at " + p.Pos(in.Pos())
					}
				}
			}
		}
		c.Check(bad == "", core.SSAName(fn)+"|ctx-not-detached", p.Pos(fn.Pos()),
			fn.Name()+" was given a context and runs everything under it or under contexts derived from it"+ifs(bad != "", ": "+bad+" drops the caller's cancellation, so what runs under it (deferred calls, callbacks) no longer stops when the evaluation is cancelled"))
	}
	c.Stat("functions_with_ctx", n)
}

// runCtxFromArgument (C07-R9, C12-R5): a function that takes a context and
// returns one returns a context derived from its argument on every path — not
// one remembered from an earlier invocation (which carries that invocation's
// OS and cancellation).
func runCtxFromArgument(c *core.Ctx) {
	p := c.P
	n := 0
	for _, fn := range repoFns(p, "vm") {
		var ctxP *ssa.Parameter
		for _, prm := range fn.Params {
			if core.IsNamed(prm.Type(), "context", "Context") {
				ctxP = prm
			}
		}
		res := fn.Signature.Results()
		if ctxP == nil || res.Len() != 1 || !core.IsNamed(res.At(0).Type(), "context", "Context") {
			continue
		}
		n++
		bad := ""
		for _, b := range fn.Blocks {
			for _, in := range b.Instrs {
				r, ok := in.(*ssa.Return)
				if !ok {
					continue
				}
				rv := spilledResult(b, r.Results[0])
				for _, o := range core.Origins(rv) {
					if o == ssa.Value(ctxP) {
						continue
					}
					if !core.DependsOn(o, func(w ssa.Value) bool { return w == ssa.Value(ctxP) }) {
						bad = p.Pos(r.Pos()) + " (" + o.String() + ")"
					}
				}
			}
		}
		c.Check(bad == "", core.SSAName(fn)+"|returned-context-derives-from-argument", p.Pos(fn.Pos()),
			fn.Name()+" returns a context built from the context it was given"+ifs(bad != "", "; the value returned at "+bad+" does not depend on it"))
	}
	c.Stat("context_transformers", n)
}

// freshClonePerCall (C09-R6, C10-R4b): every function that runs a callable on
// "a clone" obtains that clone from Clone() in the same activation.  A clone
// kept in a field and handed to every caller makes overlapping callbacks share
// one stack, frame array and ip/sp/fp.
func freshClonePerCall(c *core.Ctx) {
	p := c.P
	vmp := p.Pkg("vm")
	vmT := core.MustType(vmp, "VirtualMachine")
	cloneM := p.SSAFunc(core.MustMethod(vmT, "Clone"))
	n := 0
	for _, fn := range repoFns(p, "vm") {
		if fn.Signature.Recv() == nil || core.NamedOf(fn.Signature.Recv().Type()) != vmT || len(fn.Params) == 0 {
			continue
		}
		recv := fn.Params[0]
		if !strings.HasPrefix(fn.Name(), "clone") && !strings.HasPrefix(fn.Name(), "Clone") {
			continue
		}
		if fn == cloneM || cloneModelOf(p).IsBuilder(fn) {
			continue // Clone itself and the helpers that build the new VM for it: the VM is made in that very call
		}
		// method calls on a VirtualMachine value other than the receiver
		for _, b := range fn.Blocks {
			for _, in := range b.Instrs {
				ci, ok := in.(ssa.CallInstruction)
				if !ok {
					continue
				}
				cal := ci.Common().StaticCallee()
				if cal == nil || cal.Signature.Recv() == nil || core.NamedOf(cal.Signature.Recv().Type()) != vmT || len(ci.Common().Args) == 0 {
					continue
				}
				target := ci.Common().Args[0]
				if target == ssa.Value(recv) {
					continue
				}
				n++
				fresh := true
				for _, o := range core.Origins(target) {
					ex, isEx := o.(*ssa.Extract)
					var call *ssa.Call
					if isEx {
						call, _ = ex.Tuple.(*ssa.Call)
					} else {
						call, _ = o.(*ssa.Call)
					}
					if call == nil || call.Call.StaticCallee() != cloneM || len(call.Call.Args) == 0 || call.Call.Args[0] != ssa.Value(recv) {
						fresh = false
					}
				}
				c.Check(fresh, core.SSAName(fn)+"|"+cal.Name()+"|on-fresh-clone", p.Pos(in.Pos()),
					fn.Name()+" calls "+cal.Name()+" on a VM obtained from Clone() in this very call (clones are single-use: two overlapping calls on one VM share its stack and registers)")
			}
		}
	}
	c.Stat("calls_on_clones", n)
}

// resetIndependentOfState (C07-R10): the function that resets the run state
// does not read the state it resets.  After a recovered stack overflow sp is
// out of range; a reset whose loops run "up to sp" indexes past the array and
// the VM can never be reset again.
func resetIndependentOfState(c *core.Ctx) {
	p := c.P
	r := resolveVMRoles(p)
	reset := vmResetFunc(p)
	fd := p.Decl(reset)
	w := fieldsWritten(r.info, fd.Body, r.vmT)
	bad := ""
	n := 0
	ast.Inspect(fd.Body, func(nd ast.Node) bool {
		switch x := nd.(type) {
		case *ast.AssignStmt:
			for _, rh := range x.Rhs {
				ast.Inspect(rh, func(k ast.Node) bool {
					if se, ok := k.(*ast.SelectorExpr); ok {
						if f := fieldOf(r.info, se); f != nil && w[f] && isIntegerType(f.Type()) {
							bad = f.Name() + " at " + posOf(p, se)
						}
					}
					return true
				})
			}
			for _, lh := range x.Lhs {
				if ix, ok := lh.(*ast.IndexExpr); ok {
					ast.Inspect(ix.Index, func(k ast.Node) bool {
						if se, ok := k.(*ast.SelectorExpr); ok {
							if f := fieldOf(r.info, se); f != nil && w[f] && isIntegerType(f.Type()) {
								bad = f.Name() + " at " + posOf(p, se)
							}
						}
						return true
					})
				}
			}
			return false
		case *ast.ForStmt:
			n++
			for _, part := range []ast.Node{x.Init, x.Cond, x.Post} {
				if part == nil {
					continue
				}
				ast.Inspect(part, func(k ast.Node) bool {
					if se, ok := k.(*ast.SelectorExpr); ok {
						if f := fieldOf(r.info, se); f != nil && w[f] && isIntegerType(f.Type()) {
							bad = f.Name() + " at " + posOf(p, se)
						}
					}
					return true
				})
			}
		case *ast.IfStmt:
			ast.Inspect(x.Cond, func(k ast.Node) bool {
				if se, ok := k.(*ast.SelectorExpr); ok {
					if f := fieldOf(r.info, se); f != nil && w[f] && isIntegerType(f.Type()) {
						bad = f.Name() + " at " + posOf(p, se)
					}
				}
				return true
			})
		}
		return true
	})
	c.Check(bad == "", "vm.VirtualMachine."+reset.Name()+"|independent-of-the-state-it-resets", posOf(p, fd),
		reset.Name()+" clears the run state without reading the registers it resets (after a recovered stack overflow they are out of range)"+ifs(bad != "", ": it reads "+bad))
	c.Stat("reset_loops", n)
}

// dispatchUsesLiveFrameState (C01-R8, C02-R7): the dispatch function keeps no
// copy, made before its loop, of state that handlers replace while it runs
// (the active frame's locals move to the heap when the first cell is made; the
// active frame and code change on every call and return).
func dispatchUsesLiveFrameState(c *core.Ctx) {
	p := c.P
	t := VMTable(p)
	vmp := p.Pkg("vm")
	info := vmp.TypesInfo
	fd := p.Decl(t.Eval)
	vmT := core.MustType(vmp, "VirtualMachine")
	frameT := core.MustType(vmp, "frame")
	var loop *ast.ForStmt
	for _, s := range fd.Body.List {
		if f, ok := s.(*ast.ForStmt); ok {
			loop = f
		}
	}
	if loop == nil {
		core.Undecidedf("dispatch function has no top-level loop")
	}
	bad := ""
	n := 0
	for _, s := range fd.Body.List {
		if s == ast.Stmt(loop) {
			break
		}
		as, ok := s.(*ast.AssignStmt)
		if !ok || as.Tok != token.DEFINE {
			continue
		}
		for i, l := range as.Lhs {
			id, ok := l.(*ast.Ident)
			if !ok || i >= len(as.Rhs) {
				continue
			}
			obj := info.Defs[id]
			// derived from VM / frame state?
			derived := false
			ast.Inspect(as.Rhs[i], func(k ast.Node) bool {
				if se, ok := k.(*ast.SelectorExpr); ok {
					if f := fieldOf(info, se); f != nil && (core.RecvNamedOfField(vmT, f) || core.RecvNamedOfField(frameT, f)) {
						derived = true
					}
				}
				if ce, ok := k.(*ast.CallExpr); ok {
					if cal := calleeOf(info, ce); cal != nil && (core.RecvNamed(cal) == vmT || core.RecvNamed(cal) == frameT) {
						derived = true
					}
				}
				return true
			})
			if !derived || obj == nil {
				continue
			}
			n++
			used := false
			ast.Inspect(loop, func(k ast.Node) bool {
				if x, ok := k.(*ast.Ident); ok && info.Uses[x] == obj {
					used = true
				}
				return true
			})
			if used {
				bad = id.Name + " (" + posOf(p, as) + ")"
			}
		}
	}
	c.Check(bad == "", "vm."+t.Eval.Name()+"|no-frame-state-cached-across-the-loop", posOf(p, fd),
		"the dispatch loop reads frame and code state where it uses it; nothing derived from the VM or the active frame is computed once before the loop and used inside it"+ifs(bad != "", ": "+bad+" is"))
	c.Stat("pre_loop_vm_derived_locals", n)
}
