package rules

import (
	"go/ast"
	"go/token"
	"go/types"
	"sort"
	"strings"

	"golang.org/x/tools/go/ssa"

	"risorcheck/core"
)

func init() {
	core.Register(&core.Property{
		ID: "C17",
		Decided: "Writer/reader agreement of the bytecode serialisation (behavioural equivalence of reloaded code is NOT decided): " +
			"(R1) field coverage: every field of Code, Function, SymbolTable, Symbol and Resolution that is read at run time (by the accessor methods that packages other than compiler call, and by what those call) is assigned by the unmarshalling functions; " +
			"and every field of the intermediate wire structs is both written by the marshalling side and read by the unmarshalling side; " +
			"(R2) constant tables: the Go types the compiler puts into constant pools are arms of marshalConstant, the tags it writes are the tags unmarshalConstant accepts, the types unmarshalConstant returns are arms of the VM's constant wrapper, and no integer is reconstructed through a float64; " +
			"(R3) marshalling is order-free: the map ranges of the (un)marshalling functions are order-independent (C05-R1) and encoding/json sorts map keys; " +
			"(R4) lookups by hierarchical symbol-table id compare whole ids or respect the component separator.",
		NotCovered:  "That the reloaded code evaluates like the original; byte-for-byte idempotence of marshal∘unmarshal∘marshal.",
		Assumptions: []string{"encoding/json round-trips int64, float64, string and bool fields of typed structs exactly and sorts map keys"},
		Rules: []*core.Rule{
			{ID: "C17-R1", Title: "run-time fields and wire fields survive the round trip", Floor: 30, Run: c17r1},
			{ID: "C17-R2", Title: "constant type tables agree (compiler, marshal, unmarshal, VM)", Floor: 12, Run: c17r2},
			{ID: "C17-R4", Title: "symbol-table id lookups respect the separator", Floor: 1, Run: c17r4},
			{ID: "C17-R5", Title: "the loader links functions and code objects by id", Floor: 1, Run: c17r5},
			{ID: "C17-R6", Title: "the compiler package keeps no state between loads (shared with C05-R4)", Floor: 3, Run: c05r4},
			{ID: "C17-R7", Title: "marshalled bytes are not storage of a pooled object", Floor: 1, Run: func(c *core.Ctx) { pooledResult(c) }},
			{ID: "C17-R8", Title: "Code.Root returns a parentless code object (shared with C18-R7)", Floor: 1, Run: rootHasNoParent},
			{ID: "C17-R9", Title: "marshalling iterates maps in a determined order (C05-R1 over package compiler)", Floor: 3, Run: func(c *core.Ctx) { c05r1Scoped(c, "compiler") }},
			{ID: "C17-R10", Title: "child symbol tables are only appended (a table's id is its position)", Floor: 1, Run: childTablesAppendOnly},
			{ID: "C17-R11", Title: "instruction arrays are not classified element by element (operands are not opcodes)", Floor: 1, Run: operandsAreNotOpcodes},
			{ID: "C17-R12", Title: "string constants are JSON strings only when they are valid UTF-8", Floor: 1, Run: scriptStringsAreJSONStringsOnlyWhenUTF8},
			{ID: "C17-R13", Title: "instruction words are not narrowed", Floor: 1, Run: instructionWordsNotNarrowed},
			{ID: "C17-R14", Title: "function ids come from the compiler's counter", Floor: 1, Run: functionIDsFromTheCounter},
			{ID: "C17-R15", Title: "stored numbers are taken at face value", Floor: 0, Run: storedNumbersAreTakenAtFaceValue},
			{ID: "C17-R16", Title: "tables are found the way they are numbered", Floor: 1, Run: tablesAreFoundTheWayTheyAreNumbered},
			{ID: "C17-R17", Title: "scalars of a loaded code object come from its own definition", Floor: 3, Run: loadedScalarsComeFromTheirOwnDefinition},
			{ID: "C17-R18", Title: "the loader does not single out names", Floor: 1, Run: theLoaderDoesNotSingleOutNames},
			{ID: "C17-R19", Title: "numbering continues where the code handed in left off", Floor: 1, Run: numberingContinuesWhereTheCodeLeftOff},
			{ID: "C17-R20", Title: "the marshaller refuses what the loader cannot read", Floor: 1, Run: theMarshallerRefusesWhatTheLoaderCannotRead},
			{ID: "C17-R21", Title: "the loader limits what the compiler limits", Floor: 1, Run: theLoaderLimitsWhatTheCompilerLimits},
			{ID: "C17-R22", Title: "the writers of the stored form agree", Floor: 1, Run: theWritersOfTheStoredFormAgree},
			{ID: "C17-R23", Title: "floats are written in their own width", Floor: 1, Run: floatsAreWrittenInTheirOwnWidth},
			{ID: "C17-R24", Title: "the loader takes symbols as they were stored", Floor: 5, Run: theLoaderTakesSymbolsAsTheyWereStored},
			{ID: "C17-R25", Title: "a recorded length cuts the container it was taken from (shared with C18-R30)", Floor: 3, Run: aSnapshotLengthCutsTheContainerItWasTakenFrom},
			{ID: "C17-R26", Title: "the rollback covers what compiling grows", Floor: 3, Run: theRollbackCoversWhatCompilingGrows},
		},
	})
}

// reachableIn: functions of package sp reachable from roots through static calls inside the package.
func reachableIn(sp *ssa.Package, roots []*ssa.Function) map[*ssa.Function]bool {
	seen := map[*ssa.Function]bool{}
	q := append([]*ssa.Function{}, roots...)
	for len(q) > 0 {
		f := q[0]
		q = q[1:]
		if f == nil || seen[f] || f.Blocks == nil {
			continue
		}
		seen[f] = true
		for _, b := range f.Blocks {
			for _, in := range b.Instrs {
				if ci, ok := in.(ssa.CallInstruction); ok {
					if callee := ci.Common().StaticCallee(); callee != nil && callee.Pkg == sp {
						q = append(q, callee)
					}
				}
			}
		}
		q = append(q, f.AnonFuncs...)
	}
	return seen
}

type fieldKey struct {
	T *types.Named
	I int
}

func fieldAccesses(fns map[*ssa.Function]bool, want map[*types.Named]bool) (reads, writes map[fieldKey]bool) {
	reads, writes = map[fieldKey]bool{}, map[fieldKey]bool{}
	for f := range fns {
		for _, b := range f.Blocks {
			for _, in := range b.Instrs {
				switch x := in.(type) {
				case *ssa.FieldAddr:
					nt := core.NamedOf(x.X.Type())
					if !want[nt] {
						continue
					}
					k := fieldKey{nt, x.Field}
					if refs := x.Referrers(); refs != nil {
						for _, r := range *refs {
							switch y := r.(type) {
							case *ssa.Store:
								if y.Addr == ssa.Value(x) {
									writes[k] = true
								} else {
									reads[k] = true
								}
							default:
								reads[k] = true
							}
						}
					}
				case *ssa.Field:
					if nt := core.NamedOf(x.X.Type()); want[nt] {
						reads[fieldKey{nt, x.Field}] = true
					}
				}
			}
		}
	}
	return
}

func c17r1(c *core.Ctx) {
	p := c.P
	cp := p.Pkg("compiler")
	sp := p.SSAPkg(cp)
	runtimeT := map[*types.Named]bool{}
	for _, n := range []string{"Code", "Function", "SymbolTable", "Symbol", "Resolution"} {
		runtimeT[core.MustType(cp, n)] = true
	}
	// accessor roots: methods of the five types called from outside package compiler
	var roots []*ssa.Function
	seenRoot := map[*types.Func]bool{}
	for _, pk := range p.Pkgs {
		rel := core.RelPkg(pk.Types)
		if rel == "compiler" || strings.HasPrefix(rel, "cmd/") || rel == "dis" {
			continue
		}
		funcBodies(pk, func(fn *types.Func, fd *ast.FuncDecl) {
			ast.Inspect(fd.Body, func(n ast.Node) bool {
				if ce, ok := n.(*ast.CallExpr); ok {
					if cal := calleeOf(pk.TypesInfo, ce); cal != nil && runtimeT[core.RecvNamed(cal)] && !seenRoot[cal] {
						seenRoot[cal] = true
						if sf := p.SSAFunc(cal); sf != nil {
							roots = append(roots, sf)
						}
					}
				}
				return true
			})
		})
	}
	// restrict the closure to methods of the five types (package-level functions such as Compile are not run-time readers)
	rt := map[*ssa.Function]bool{}
	for f := range reachableIn(sp, roots) {
		if o, _ := f.Object().(*types.Func); o != nil && runtimeT[core.RecvNamed(o)] {
			rt[f] = true
		}
	}
	rtReads, _ := fieldAccesses(rt, runtimeT)
	// unmarshalling side
	unm := core.LookupFunc(cp, "UnmarshalCode")
	mar := core.LookupFunc(cp, "MarshalCode")
	if unm == nil || mar == nil {
		core.Undecidedf("MarshalCode / UnmarshalCode not found")
	}
	unmFns := reachableIn(sp, []*ssa.Function{p.SSAFunc(unm)})
	marFns := reachableIn(sp, []*ssa.Function{p.SSAFunc(mar)})
	_, unmWrites := fieldAccesses(unmFns, runtimeT)
	var keys []fieldKey
	for k := range rtReads {
		keys = append(keys, k)
	}
	sort.Slice(keys, func(i, j int) bool {
		if keys[i].T != keys[j].T {
			return keys[i].T.Obj().Name() < keys[j].T.Obj().Name()
		}
		return keys[i].I < keys[j].I
	})
	for _, k := range keys {
		f := k.T.Underlying().(*types.Struct).Field(k.I)
		if f.Embedded() {
			continue
		}
		c.Check(unmWrites[k], "compiler."+k.T.Obj().Name()+"."+f.Name()+"|rebuilt-on-reload", p.Pos(f.Pos()),
			"field "+k.T.Obj().Name()+"."+f.Name()+" is read at run time (through accessors that the VM/object packages call) and must be assigned when code is unmarshalled")
	}
	c.Stat("runtime_read_fields", len(keys))
	// wire structs: struct types of package compiler used by both sides with json tags / names ending in Def or named state
	wireT := map[*types.Named]bool{}
	for _, n := range cp.Types.Scope().Names() {
		tn, ok := cp.Types.Scope().Lookup(n).(*types.TypeName)
		if !ok {
			continue
		}
		nt, ok := tn.Type().(*types.Named)
		if !ok {
			continue
		}
		st, ok := nt.Underlying().(*types.Struct)
		if !ok || runtimeT[nt] {
			continue
		}
		tagged := false
		for i := 0; i < st.NumFields(); i++ {
			if strings.Contains(st.Tag(i), "json:") {
				tagged = true
			}
		}
		if tagged {
			wireT[nt] = true
		}
	}
	marReads, marWrites := fieldAccesses(marFns, wireT)
	unmReads, unmW2 := fieldAccesses(unmFns, wireT)
	_, _ = marReads, unmW2
	var wts []*types.Named
	for t := range wireT {
		wts = append(wts, t)
	}
	sort.Slice(wts, func(i, j int) bool { return wts[i].Obj().Name() < wts[j].Obj().Name() })
	nw := 0
	for _, t := range wts {
		st := t.Underlying().(*types.Struct)
		for i := 0; i < st.NumFields(); i++ {
			k := fieldKey{t, i}
			nw++
			name := "compiler." + t.Obj().Name() + "." + st.Field(i).Name()
			// the discriminator field "Type" of constant defs is read through the generic constantDef
			c.Check(marWrites[k], name+"|written-by-marshal", p.Pos(st.Field(i).Pos()), "wire field "+t.Obj().Name()+"."+st.Field(i).Name()+" is set by the marshalling functions (a field that is only read back is always zero after a round trip)")
			readOK := unmReads[k] || (st.Field(i).Name() == "Type" && strings.HasSuffix(t.Obj().Name(), "ConstantDef"))
			c.Check(readOK, name+"|read-by-unmarshal", p.Pos(st.Field(i).Pos()), "wire field "+t.Obj().Name()+"."+st.Field(i).Name()+" is read by the unmarshalling functions (a field that is written but never read back is a dropped datum)")
		}
	}
	c.Stat("wire_fields", nw)
}

func c17r2(c *core.Ctx) {
	p := c.P
	cp := p.Pkg("compiler")
	info := cp.TypesInfo
	ct := core.MustType(cp, "Compiler")
	constM := core.Method(ct, "constant")
	marshalC := core.LookupFunc(cp, "marshalConstant")
	unmarshalC := core.LookupFunc(cp, "unmarshalConstant")
	if constM == nil || marshalC == nil || unmarshalC == nil {
		core.Undecidedf("constant / marshalConstant / unmarshalConstant not found")
	}
	typeArms := func(fd *ast.FuncDecl, inf *types.Info) map[string]bool {
		out := map[string]bool{}
		ast.Inspect(fd.Body, func(n ast.Node) bool {
			ts, ok := n.(*ast.TypeSwitchStmt)
			if !ok {
				return true
			}
			for _, cc := range ts.Body.List {
				for _, e := range cc.(*ast.CaseClause).List {
					if isNilIdent(inf, e) {
						out["nil"] = true
					} else if t := inf.TypeOf(e); t != nil {
						out[types.TypeString(t, func(pk *types.Package) string { return pk.Name() })] = true
					}
				}
			}
			return true
		})
		return out
	}
	marArms := typeArms(p.Decl(marshalC), info)
	// (a) types passed to c.constant(x)
	poolTypes := map[string]token.Pos{}
	funcBodies(cp, func(fn *types.Func, fd *ast.FuncDecl) {
		ast.Inspect(fd.Body, func(n ast.Node) bool {
			ce, ok := n.(*ast.CallExpr)
			if !ok || calleeOf(info, ce) != constM || len(ce.Args) != 1 {
				return true
			}
			t := info.TypeOf(ce.Args[0])
			if t == nil {
				return true
			}
			if _, isI := t.Underlying().(*types.Interface); isI {
				// `any`-typed argument: the values assigned to it
				if id, ok := ast.Unparen(ce.Args[0]).(*ast.Ident); ok {
					for _, rhs := range localAssignments(info, fd.Body)[info.Uses[id]] {
						if isNilIdent(info, rhs) {
							poolTypes["nil"] = ce.Pos()
						} else if rt := info.TypeOf(rhs); rt != nil {
							if _, isI2 := rt.Underlying().(*types.Interface); !isI2 {
								poolTypes[types.TypeString(rt, func(pk *types.Package) string { return pk.Name() })] = ce.Pos()
							}
						}
					}
				}
				return true
			}
			poolTypes[types.TypeString(t, func(pk *types.Package) string { return pk.Name() })] = ce.Pos()
			return true
		})
	})
	for _, t := range sortedKeys(poolTypes) {
		c.Check(marArms[t], "compiler.marshalConstant|arm:"+t, p.Pos(poolTypes[t]), "constants of Go type "+t+" are put into constant pools by the compiler and must have an arm in marshalConstant")
	}
	// (b) tags written = tags accepted
	written := map[string]bool{}
	ast.Inspect(p.Decl(marshalC).Body, func(n ast.Node) bool {
		if kv, ok := n.(*ast.KeyValueExpr); ok {
			if id, ok := kv.Key.(*ast.Ident); ok && id.Name == "Type" {
				if s, ok := constString(info, kv.Value); ok {
					written[s] = true
				}
			}
		}
		return true
	})
	accepted := map[string]bool{}
	ast.Inspect(p.Decl(unmarshalC).Body, func(n ast.Node) bool {
		if cc, ok := n.(*ast.CaseClause); ok {
			for _, e := range cc.List {
				if s, ok := constString(info, e); ok {
					accepted[s] = true
				}
			}
		}
		return true
	})
	for _, t := range sortedKeys(written) {
		c.Check(accepted[t], "compiler.unmarshalConstant|tag:"+t, posOf(p, p.Decl(unmarshalC)), "constant tag "+t+" written by marshalConstant is accepted by unmarshalConstant")
	}
	for _, t := range sortedKeys(accepted) {
		c.Check(written[t], "compiler.marshalConstant|tag:"+t, posOf(p, p.Decl(marshalC)), "constant tag "+t+" accepted by unmarshalConstant is produced by marshalConstant")
	}
	// (c) types returned by unmarshalConstant ⊆ arms of the VM wrapper's type switch
	vmp := p.Pkg("vm")
	var wrapDecl *ast.FuncDecl
	funcBodies(vmp, func(fn *types.Func, fd *ast.FuncDecl) {
		ast.Inspect(fd.Body, func(n ast.Node) bool {
			if ts, ok := n.(*ast.TypeSwitchStmt); ok {
				// the switch over a constant fetched from compiler.Code
				for _, cc := range ts.Body.List {
					for _, e := range cc.(*ast.CaseClause).List {
						if core.IsNamed(vmp.TypesInfo.TypeOf(e), pkgPath("compiler"), "Function") {
							wrapDecl = fd
						}
					}
				}
			}
			return true
		})
	})
	if wrapDecl == nil {
		core.Undecidedf("the VM function that wraps compiler constants (type switch with a *compiler.Function arm) was not found")
	}
	wrapArms := typeArms(wrapDecl, vmp.TypesInfo)
	sf := p.SSAFunc(unmarshalC)
	retTypes := map[string]bool{}
	for _, b := range sf.Blocks {
		if len(b.Instrs) == 0 {
			continue
		}
		ret, ok := b.Instrs[len(b.Instrs)-1].(*ssa.Return)
		if !ok || len(ret.Results) != 2 {
			continue
		}
		if cst, ok := ret.Results[1].(*ssa.Const); !ok || !cst.IsNil() {
			continue
		}
		for _, o := range core.Origins(ret.Results[0]) {
			switch x := o.(type) {
			case *ssa.MakeInterface:
				retTypes[types.TypeString(x.X.Type(), func(pk *types.Package) string { return pk.Name() })] = true
			case *ssa.Const:
				if x.IsNil() {
					retTypes["nil"] = true
				}
			}
		}
	}
	for _, t := range sortedKeys(retTypes) {
		tt := strings.Replace(t, "*Function", "*compiler.Function", 1)
		if !strings.Contains(tt, "compiler.") {
			tt = strings.Replace(tt, "*Function", "*compiler.Function", 1)
		}
		c.Check(wrapArms[tt] || wrapArms[t], "vm."+declName(wrapDecl)+"|arm:"+t, posOf(p, wrapDecl), "constants of Go type "+t+" come out of unmarshalConstant and must have an arm in the VM's constant wrapper (its default arm panics)")
	}
	// (d) no integer reconstructed through float64 on the unmarshalling path
	sp := p.SSAPkg(cp)
	unm := core.LookupFunc(cp, "UnmarshalCode")
	bad := ""
	for f := range reachableIn(sp, []*ssa.Function{p.SSAFunc(unm)}) {
		for _, b := range f.Blocks {
			for _, in := range b.Instrs {
				if cv, ok := in.(*ssa.Convert); ok {
					if isFloatType(cv.X.Type()) && isIntType(cv.Type()) {
						bad = core.SSAName(f) + " at " + p.Pos(cv.Pos())
					}
				}
				if ta, ok := in.(*ssa.TypeAssert); ok && isFloatType(ta.AssertedType) {
					// a float64 assertion on a decoded `any` feeding an int conversion is the same defect; plain float constants are fine
					if refs := ta.Referrers(); refs != nil {
						for _, r := range *refs {
							if cv, ok := r.(*ssa.Convert); ok && isIntType(cv.Type()) {
								bad = core.SSAName(f) + " at " + p.Pos(cv.Pos())
							}
							if e, ok := r.(*ssa.Extract); ok {
								if rr := e.Referrers(); rr != nil {
									for _, r2 := range *rr {
										if cv, ok := r2.(*ssa.Convert); ok && isIntType(cv.Type()) {
											bad = core.SSAName(f) + " at " + p.Pos(cv.Pos())
										}
									}
								}
							}
						}
					}
				}
			}
		}
	}
	c.Check(bad == "", "compiler.UnmarshalCode|no-int-through-float64", posOf(p, p.Decl(unm)), "no integer is reconstructed from a float64 while unmarshalling (encoding/json decodes numbers held in `any` as float64, which rounds integers above 2^53)"+ifs(bad != "", ": "+bad))
}

func isFloatType(t types.Type) bool {
	b, ok := t.Underlying().(*types.Basic)
	return ok && b.Info()&types.IsFloat != 0
}

func c17r4(c *core.Ctx) {
	p := c.P
	cp := p.Pkg("compiler")
	info := cp.TypesInfo
	n := 0
	funcBodies(cp, func(fn *types.Func, fd *ast.FuncDecl) {
		idx := 0
		ast.Inspect(fd.Body, func(nd ast.Node) bool {
			call, ok := nd.(*ast.CallExpr)
			if !ok {
				return true
			}
			cal := calleeOf(info, call)
			if !core.IsPkgFunc(cal, "strings", "HasPrefix") || len(call.Args) != 2 {
				return true
			}
			if _, isConst := constString(info, call.Args[1]); isConst {
				return true
			}
			if _, isConst := constString(info, call.Args[0]); isConst {
				return true
			}
			n++
			idx++
			okb := hasBoundaryConditionSep(info, fd, call, ".")
			c.Check(okb, "compiler."+declName(fd)+"|HasPrefix#"+itoa(idx), posOf(p, call),
				"prefix test between two hierarchical ids must respect the component separator: \"root.1\" is a string prefix of \"root.10\" but not its ancestor")
			return true
		})
	})
	if n == 0 {
		c.Pass("compiler|no-id-prefix-tests", "compiler", "package compiler compares symbol-table ids as whole strings (no prefix tests between ids)")
	}
	c.Stat("id_prefix_tests", n)
}

// hasBoundaryConditionSep: like hasBoundaryCondition (C13) for an arbitrary separator.
func hasBoundaryConditionSep(info *types.Info, fd *ast.FuncDecl, call *ast.CallExpr, sep string) bool {
	if be, ok := ast.Unparen(call.Args[1]).(*ast.BinaryExpr); ok && be.Op == token.ADD {
		if s, ok := constString(info, be.Y); ok && s == sep {
			return true
		}
	}
	pathObj := objOf(info, call.Args[0])
	preObj := objOf(info, call.Args[1])
	found := false
	ast.Inspect(fd.Body, func(n ast.Node) bool {
		switch x := n.(type) {
		case *ast.CallExpr:
			cal := calleeOf(info, x)
			if core.IsPkgFunc(cal, "strings", "HasSuffix") && len(x.Args) == 2 && preObj != nil && objOf(info, x.Args[0]) == preObj {
				if s, ok := constString(info, x.Args[1]); ok && s == sep {
					found = true
				}
			}
		case *ast.BinaryExpr:
			if x.Op == token.EQL || x.Op == token.NEQ {
				for _, side := range [][2]ast.Expr{{x.X, x.Y}, {x.Y, x.X}} {
					if ie, ok := ast.Unparen(side[0]).(*ast.IndexExpr); ok && pathObj != nil && objOf(info, ie.X) == pathObj {
						if v, ok := constInt(info, side[1]); ok && len(sep) == 1 && v == int64(sep[0]) {
							found = true
						}
					}
				}
			}
		}
		return true
	})
	return found
}
