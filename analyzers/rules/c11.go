package rules

import (
	"go/ast"
	"go/token"
	"go/types"
	"sort"
	"strings"

	"golang.org/x/tools/go/ssa"

	"risorcheck/core"
)

func init() {
	core.Register(&core.Property{
		ID: "C11",
		Decided: "The layering that makes the configured map the only source of globals (unreachability over all access paths of the object graph is a run-time property and is NOT decided): " +
			"(R1) every method of risor.Config that reads the globals map calls init() first (deny-list and overrides are applied before anything is handed out); " +
			"(R2) per-configuration freshness: no package-level variable of the module/builtin packages holds script objects (object.Object, *Builtin, *Module or containers of them) that module constructors hand out — objects shared between configurations carry state such as the __module__ back-reference and overrides; " +
			"(R3) single source: only the root package's DefaultGlobals path calls the module constructors (no function of vm, compiler, importer, object or builtins that product code reaches does), and vm.importModule serves modules only from the VM's module table or the importer; " +
			"(R4) edit order in Config.init: default globals are inserted, then the deny-list is applied, then the overrides, each exactly once behind the initialized flag; " +
			"(R5) the VM's module table is rebuilt for new code: the reset that runs when a reused VM gets new code clears it, so modules of an earlier configuration cannot be imported.",
		NotCovered:  "Back-references inside the reachable object graph, name splitting of dotted deny-list entries, what getattr can reach at run time.",
		Assumptions: []string{"module constructors are the functions named Module/Builtins in the modules/* and builtins packages"},
		Rules: []*core.Rule{
			{ID: "C11-R1", Title: "Config reads globals only after init()", Floor: 3, Run: c11r1},
			{ID: "C11-R2", Title: "module constructors hand out fresh objects", Floor: 10, Run: c11r2},
			{ID: "C11-R3", Title: "module constructors have a single caller chain", Floor: 3, Run: c11r3},
			{ID: "C11-R4", Title: "defaults, then deny-list, then overrides", Floor: 1, Run: c11r4},
			{ID: "C11-R5", Title: "module table is rebuilt for new code", Floor: 1, Run: c11r5},
			{ID: "C11-R6", Title: "deny-list and override loops visit every entry", Floor: 2, Run: c11r6},
			{ID: "C11-R7", Title: "top-level globals are not members of a module", Floor: 1, Run: c11r7},
			{ID: "C11-R8", Title: "Config owns its maps", Floor: 2, Run: configOwnsItsMaps},
			{ID: "C11-R9", Title: "VMs are not recycled across configurations", Floor: 1, Run: vmNotPooled},
			{ID: "C11-R10", Title: "Import returns a module object built in that call (shared with C14)", Floor: 1, Run: importersReturnFreshModules},
			{ID: "C11-R11", Title: "options record into the deferred tables on every path", Floor: 2, Run: optionsRecordUnconditionally},
			{ID: "C11-R12", Title: "the deny-list and the overrides only grow", Floor: 2, Run: deferredTablesOnlyGrow},
			{ID: "C11-R13", Title: "the error of Config.init reaches the caller of Eval/EvalCode/Call", Floor: 1, Run: initErrorReachesTheCaller},
			{ID: "C11-R14", Title: "dotted names are resolved one module per element", Floor: 1, Run: pathDescentAdvances},
			{ID: "C11-R15", Title: "member builtins point back at the module that holds them, unconditionally", Floor: 1, Run: membersPointBackUnconditionally},
			{ID: "C11-R16", Title: "the reset before RunCode is decided by what is loaded", Floor: 1, Run: resetLooksAtWhatIsLoaded},
			{ID: "C11-R17", Title: "configuration errors are not discarded", Floor: 1, Run: configurationErrorsAreNotDiscarded},
			{ID: "C11-R18", Title: "loaded code entries are fresh (shared with C07)", Floor: 1, Run: loadedCodeEntriesAreFresh},
			{ID: "C11-R19", Title: "supplied globals replace the old ones", Floor: 1, Run: suppliedGlobalsReplaceTheOldOnes},
			{ID: "C11-R20", Title: "member names are last segments", Floor: 1, Run: memberNamesAreLastSegments},
			{ID: "C11-R21", Title: "risor.Call runs the given code before it looks the function up (shared with C07-R13)", Floor: 1, Run: callRunsTheCodeFirst},
			{ID: "C11-R22", Title: "a refused invocation writes nothing to the VM (shared with C06-R22)", Floor: 8, Run: refusedInvocationsWriteNothing},
			{ID: "C11-R23", Title: "options that are refused are rolled back (shared with C07-R31)", Floor: 3, Run: refusedOptionsAreRolledBack},
			{ID: "C11-R24", Title: "a Config is applied to the VM as a whole", Floor: 3, Run: theConfigurationIsAppliedAsAWhole},
			{ID: "C11-R25", Title: "a configuration edits only modules it owns", Floor: 1, Run: aConfigurationEditsOnlyModulesItOwns},
			{ID: "C11-R26", Title: "mutex-guarded VM maps are copied, not aliased, into another VM (shared with C09-R5)", Floor: 2, Run: c09r5},
			{ID: "C11-R27", Title: "defaults do not replace what the host gave (shared with C08-R33)", Floor: 1, Run: defaultsDoNotReplaceWhatTheHostGave},
			{ID: "C11-R28", Title: "removals come last", Floor: 1, Run: removalsComeLast},
			{ID: "C11-R29", Title: "a module that is made with members points their back-reference at itself", Floor: 1, Run: membersPointAtTheModuleTheyAreIn},
			{ID: "C11-R30", Title: "an option of the VM sets its field whatever the value is (shared with C14-R26)", Floor: 1, Run: vmOptionsSetWhatTheyAreGiven},
			{ID: "C11-R31", Title: "what is noted as the configuration's own is the copy", Floor: 1, Run: whatIsNotedAsOwnIsTheCopy},
			{ID: "C11-R32", Title: "removals are applied also when an override fails", Floor: 1, Run: removalsAreAppliedAlsoWhenAnOverrideFails},
			{ID: "C11-R33", Title: "a module copy has tables of its own", Floor: 1, Run: aModuleCopyHasTablesOfItsOwn},
		},
	})
}

func c11r1(c *core.Ctx) {
	p := c.P
	root := p.Pkg("")
	info := root.TypesInfo
	cfgT := core.MustType(root, "Config")
	globals := fieldByName(cfgT, "globals")
	initM := core.MustMethod(cfgT, "init")
	if globals == nil {
		core.Undecidedf("Config.globals not found")
	}
	// helpers only reached from init
	calledFromInit := map[*types.Func]bool{}
	ast.Inspect(p.Decl(initM).Body, func(n ast.Node) bool {
		if ce, ok := n.(*ast.CallExpr); ok {
			if cal := calleeOf(info, ce); cal != nil && core.RecvNamed(cal) == cfgT {
				calledFromInit[cal] = true
			}
		}
		return true
	})
	// ... and the helpers of those helpers (the init phase as a whole)
	for changed := true; changed; {
		changed = false
		for f := range calledFromInit {
			d := p.Decl(f)
			if d == nil || d.Body == nil {
				continue
			}
			ast.Inspect(d.Body, func(n ast.Node) bool {
				if ce, ok := n.(*ast.CallExpr); ok {
					if cal := calleeOf(info, ce); cal != nil && core.RecvNamed(cal) == cfgT && cal != initM && !calledFromInit[cal] {
						calledFromInit[cal] = true
						changed = true
					}
				}
				return true
			})
		}
	}
	n := 0
	for _, m := range core.Methods(cfgT) {
		fd := p.Decl(m)
		if fd == nil || fd.Body == nil || m == initM {
			continue
		}
		readPos := token.NoPos
		ast.Inspect(fd.Body, func(nd ast.Node) bool {
			if se, ok := nd.(*ast.SelectorExpr); ok && fieldOf(info, se) == globals {
				if readPos == token.NoPos || se.Pos() < readPos {
					readPos = se.Pos()
				}
			}
			return true
		})
		if readPos == token.NoPos {
			continue
		}
		n++
		if calledFromInit[m] {
			// must not be called from anywhere else
			others := 0
			funcBodies(root, func(fn *types.Func, d *ast.FuncDecl) {
				if fn == initM || calledFromInit[fn] {
					return
				}
				ast.Inspect(d.Body, func(k ast.Node) bool {
					if ce, ok := k.(*ast.CallExpr); ok && calleeOf(info, ce) == m {
						others++
					}
					return true
				})
			})
			c.Check(others == 0, "..Config."+m.Name()+"|only-from-init", posOf(p, fd), m.Name()+" edits the globals and is reached only from init()")
			continue
		}
		// first top-level statement calling init, before the first read
		initPos := token.NoPos
		for _, s := range fd.Body.List {
			ast.Inspect(s, func(k ast.Node) bool {
				if ce, ok := k.(*ast.CallExpr); ok && calleeOf(info, ce) == initM && initPos == token.NoPos {
					initPos = ce.Pos()
				}
				return true
			})
			if initPos != token.NoPos {
				// must be at statement level (unconditional)
				if _, isExpr := s.(*ast.ExprStmt); !isExpr {
					if _, isIf := s.(*ast.IfStmt); !isIf { // `if err := cfg.init(); err != nil`
						if _, isAs := s.(*ast.AssignStmt); !isAs {
							initPos = token.NoPos
						}
					}
				}
				break
			}
		}
		c.Check(initPos != token.NoPos && initPos < readPos, "..Config."+m.Name()+"|init-before-read", posOf(p, fd), m.Name()+" calls init() before it reads the globals map (otherwise the deny-list and overrides are skipped)")
	}
	c.Stat("config_methods_reading_globals", n)
}

// holdsScriptObjects: type contains object.Object / *Builtin / *Module / containers of them.
func holdsScriptObjects(t types.Type, depth int) bool {
	if depth > 4 || t == nil {
		return false
	}
	if nt := core.NamedOf(t); nt != nil && nt.Obj().Pkg() != nil && nt.Obj().Pkg().Path() == pkgPath("object") {
		switch nt.Obj().Name() {
		case "Object", "Builtin", "Module", "Map", "List":
			return true
		}
	}
	switch u := t.Underlying().(type) {
	case *types.Pointer:
		return holdsScriptObjects(u.Elem(), depth+1)
	case *types.Map:
		return holdsScriptObjects(u.Elem(), depth+1)
	case *types.Slice:
		return holdsScriptObjects(u.Elem(), depth+1)
	case *types.Array:
		return holdsScriptObjects(u.Elem(), depth+1)
	}
	return false
}

func c11r2(c *core.Ctx) {
	p := c.P
	n := 0
	for _, pk := range p.Pkgs {
		rel := core.RelPkg(pk.Types)
		if !(strings.HasPrefix(rel, "modules/") || rel == "builtins") {
			continue
		}
		sp := p.SSAPkg(pk)
		if sp == nil {
			continue
		}
		n++
		bad := 0
		var names []string
		for name := range sp.Members {
			names = append(names, name)
		}
		sort.Strings(names)
		for _, name := range names {
			g, ok := sp.Members[name].(*ssa.Global)
			if !ok || strings.HasPrefix(name, "init$") {
				continue
			}
			t := g.Type().(*types.Pointer).Elem()
			if !holdsScriptObjects(t, 0) {
				continue
			}
			// read by some function other than init?
			read := ""
			for f := range p.AllFunctions() {
				if f.Pkg != sp || f.Blocks == nil || isInitFunc(f) {
					continue
				}
				for _, b := range f.Blocks {
					for _, in := range b.Instrs {
						for _, op := range in.Operands(nil) {
							if *op == ssa.Value(g) {
								read = core.SSAName(f)
							}
						}
					}
				}
			}
			if read == "" {
				continue
			}
			// singletons that are values by design (typed constants such as a module's sentinel) are still shared: report
			bad++
			c.Fail(rel+"."+name+"|shared-script-object", p.Pos(g.Pos()), "package-level variable "+name+" ("+t.String()+") holds script objects and is used by "+read+": every configuration receives the same objects, so an override, a removed attribute or the __module__ back-reference of one configuration is visible in the others")
		}
		if bad == 0 {
			c.Pass(rel+"|no-shared-script-objects", rel, "package "+rel+" keeps no script objects in package-level variables")
		}
	}
	c.Stat("module_packages", n)
}

func c11r3(c *core.Ctx) {
	p := c.P
	// module constructors: functions named Module / Builtins in modules/* and builtins returning *object.Module or map[string]object.Object
	ctors := map[*types.Func]bool{}
	for _, pk := range p.Pkgs {
		rel := core.RelPkg(pk.Types)
		if !(strings.HasPrefix(rel, "modules/") || rel == "builtins") {
			continue
		}
		for _, name := range []string{"Module", "Builtins"} {
			if f := core.LookupFunc(pk, name); f != nil {
				ctors[f] = true
			}
		}
	}
	root := p.Pkg("")
	if dg := core.LookupFunc(root, "DefaultGlobals"); dg != nil {
		ctors[dg] = true
	}
	// callers
	n := 0
	for _, pk := range p.Pkgs {
		rel := core.RelPkg(pk.Types)
		info := pk.TypesInfo
		funcBodies(pk, func(fn *types.Func, fd *ast.FuncDecl) {
			ast.Inspect(fd.Body, func(nd ast.Node) bool {
				ce, ok := nd.(*ast.CallExpr)
				if !ok {
					return true
				}
				cal := calleeOf(info, ce)
				if cal == nil || !ctors[cal] {
					return true
				}
				n++
				callerOK := rel == "." || strings.HasPrefix(rel, "modules/") || rel == "builtins" || strings.HasPrefix(rel, "cmd/")
				// package vm: only its test scaffolding (unexported helpers that nothing in product code calls)
				if rel == "vm" && !fn.Exported() && !calledByProduct(p, fn, map[*types.Func]bool{}) {
					callerOK = true
				}
				c.Check(callerOK, rel+"."+declName(fd)+"|calls:"+core.FuncName(cal), posOf(p, ce),
					"module constructor "+core.FuncName(cal)+" is called from "+rel+"."+declName(fd)+": outside the configuration path a script would get globals the host did not configure")
				return true
			})
		})
	}
	c.Stat("constructor_call_sites", n)
	// importModule: returns modules only from vm.modules or importer.Import
	vmp := p.Pkg("vm")
	vmT := core.MustType(vmp, "VirtualMachine")
	im := core.Method(vmT, "importModule")
	if im == nil {
		core.Undecidedf("vm.importModule not found")
	}
	sf := p.SSAFunc(im)
	modulesIdx := -1
	st := vmT.Underlying().(*types.Struct)
	for i := 0; i < st.NumFields(); i++ {
		if st.Field(i).Name() == "modules" {
			modulesIdx = i
		}
	}
	okSrc := true
	why := ""
	for _, b := range sf.Blocks {
		if len(b.Instrs) == 0 {
			continue
		}
		ret, ok := b.Instrs[len(b.Instrs)-1].(*ssa.Return)
		if !ok || len(ret.Results) == 0 {
			continue
		}
		for _, o := range core.Origins(ret.Results[0]) {
			switch x := o.(type) {
			case *ssa.Const:
				continue
			case *ssa.Extract:
				if lk, ok := x.Tuple.(*ssa.Lookup); ok {
					if u, ok := lk.X.(*ssa.UnOp); ok {
						if fa, ok := u.X.(*ssa.FieldAddr); ok && fa.Field == modulesIdx {
							continue
						}
					}
				}
				if call, ok := x.Tuple.(*ssa.Call); ok && call.Call.IsInvoke() && call.Call.Method.Name() == "Import" {
					continue
				}
			case *ssa.Lookup:
				continue
			}
			okSrc = false
			why = o.String()
		}
	}
	c.Check(okSrc, "vm.VirtualMachine.importModule|module-sources", p.Pos(sf.Pos()), "importModule returns a module only from the VM's module table (the configured module globals) or from the importer"+ifs(!okSrc, ": also "+why))
}

// calledByProduct: fn is (transitively) called by an exported function of its package.
func calledByProduct(p *core.Program, fn *types.Func, seen map[*types.Func]bool) bool {
	if seen[fn] {
		return false
	}
	seen[fn] = true
	pk := p.DeclPkg(fn)
	if pk == nil {
		return true
	}
	res := false
	funcBodies(pk, func(caller *types.Func, fd *ast.FuncDecl) {
		if res || caller == fn {
			return
		}
		calls := false
		ast.Inspect(fd.Body, func(n ast.Node) bool {
			if ce, ok := n.(*ast.CallExpr); ok && calleeOf(pk.TypesInfo, ce) == fn {
				calls = true
			}
			return true
		})
		if !calls {
			return
		}
		if caller.Exported() || calledByProduct(p, caller, seen) {
			res = true
		}
	})
	return res
}

func c11r4(c *core.Ctx) {
	p := c.P
	root := p.Pkg("")
	info := root.TypesInfo
	cfgT := core.MustType(root, "Config")
	initM := core.MustMethod(cfgT, "init")
	fd := p.Decl(initM)
	initialized := fieldByName(cfgT, "initialized")
	denylist := fieldByName(cfgT, "denylist")
	overrides := fieldByName(cfgT, "overrides")
	// classify helper calls in init by what they read: default globals (calls DefaultGlobals), denylist field, overrides field
	role := func(m *types.Func) string {
		d := p.Decl(m)
		if d == nil {
			return ""
		}
		r := ""
		ast.Inspect(d.Body, func(n ast.Node) bool {
			switch x := n.(type) {
			case *ast.CallExpr:
				if cal := calleeOf(info, x); cal != nil && cal.Name() == "DefaultGlobals" {
					r = "defaults"
				}
			case *ast.SelectorExpr:
				if f := fieldOf(info, x); f == denylist && r == "" {
					r = "denylist"
				} else if f == overrides && r == "" {
					r = "overrides"
				}
			}
			return true
		})
		return r
	}
	var order []string
	guardOK := false
	for i, s := range fd.Body.List {
		if ifs, ok := s.(*ast.IfStmt); ok && i == 0 {
			if fieldOf(info, ifs.Cond) == initialized {
				for _, bs := range ifs.Body.List {
					if _, isRet := bs.(*ast.ReturnStmt); isRet {
						guardOK = true
					}
				}
			}
		}
		ast.Inspect(s, func(n ast.Node) bool {
			if ce, ok := n.(*ast.CallExpr); ok {
				if cal := calleeOf(info, ce); cal != nil && core.RecvNamed(cal) == cfgT {
					if r := role(cal); r != "" {
						order = append(order, r)
					}
				}
			}
			return true
		})
	}
	c.Check(guardOK, "..Config.init|once", posOf(p, fd), "init() returns at once when the configuration is already initialised (edits are applied exactly once)")
	// The defaults come first and both edits after them: a deny-list (or an override) applied before the
	// defaults are there edits nothing.  (Which of the two edits comes first is C11-R28's obligation; this rule
	// used to demand deny-list before overrides, which is more than the property asks and the wrong way round
	// for a module that is put in place of a default one.)
	editOrderOK := len(order) == 3 && order[0] == "defaults" && ((order[1] == "denylist" && order[2] == "overrides") || (order[1] == "overrides" && order[2] == "denylist"))
	c.Check(editOrderOK, "..Config.init|edit-order", posOf(p, fd),
		"init() inserts the default globals first and applies the deny-list and the overrides after them (found: "+strings.Join(order, ", ")+"); an edit applied before the defaults are there edits nothing")
	// the flag is set inside init
	sets := false
	ast.Inspect(fd.Body, func(n ast.Node) bool {
		if as, ok := n.(*ast.AssignStmt); ok {
			for _, l := range as.Lhs {
				if fieldOf(info, l) == initialized {
					sets = true
				}
			}
		}
		return true
	})
	c.Check(sets, "..Config.init|sets-flag", posOf(p, fd), "init() sets the initialized flag")
}

func c11r5(c *core.Ctx) {
	p := c.P
	r := resolveVMRoles(p)
	info := r.info
	sp, ip, fp := fieldByName(r.vmT, "sp"), fieldByName(r.vmT, "ip"), fieldByName(r.vmT, "fp")
	modules := fieldByName(r.vmT, "modules")
	if modules == nil {
		core.Undecidedf("VirtualMachine.modules not found")
	}
	var reset *types.Func
	for _, m := range core.Methods(r.vmT) {
		fd := p.Decl(m)
		if fd == nil || fd.Body == nil || m.Type().(*types.Signature).Params().Len() != 0 || m == r.arm {
			continue
		}
		w := fieldsWritten(info, fd.Body, r.vmT)
		if w[sp] && w[ip] && w[fp] {
			reset = m
		}
	}
	if reset == nil {
		core.Undecidedf("reset function not found")
	}
	fd := p.Decl(reset)
	w := fieldsWritten(info, fd.Body, r.vmT)
	c.Check(w[modules], "vm.VirtualMachine."+reset.Name()+"|clears-module-table", posOf(p, fd),
		"when a reused VM is given new code the module table is cleared after the options were applied: the table was seeded from globals that accumulate over the VM's life (WithGlobals adds, never removes), so without the reset a module removed by the current configuration stays importable")
	// seeding of the module table from globals happens only in the option-applying function
	seeders := 0
	for _, m := range core.Methods(r.vmT) {
		d := p.Decl(m)
		if d == nil || d.Body == nil {
			continue
		}
		ast.Inspect(d.Body, func(n ast.Node) bool {
			rs, ok := n.(*ast.RangeStmt)
			if !ok {
				return true
			}
			if f := fieldOf(info, rs.X); f == nil || f.Name() != "globals" {
				return true
			}
			ast.Inspect(rs.Body, func(k ast.Node) bool {
				if as, ok := k.(*ast.AssignStmt); ok {
					for _, l := range as.Lhs {
						if ix, ok := l.(*ast.IndexExpr); ok && fieldOf(info, ix.X) == modules {
							seeders++
							c.Pass("vm.VirtualMachine."+m.Name()+"|seeds-module-table", posOf(p, rs), m.Name()+" seeds the module table from the VM's globals")
						}
					}
				}
				return true
			})
			return true
		})
	}
	c.Stat("module_table_seeders", seeders)
}
