// risorcheck: repository-specific static checker for risor-io/risor.
//
//	risorcheck -property C04 -tier quick -repo /repo -verif /verif
//
// exit 0: every obligation discharged or listed as a known finding
// exit 1: VIOLATION (unlisted failing obligation)
// exit 2: UNDECIDED (load failure, unresolved anchor, vacuity, checker fault)
package main

import (
	"encoding/json"
	"flag"
	"fmt"
	"os"
	"os/exec"
	"path/filepath"
	"sort"
	"strconv"
	"strings"
	"time"

	"risorcheck/core"
	"risorcheck/rules"
)

type subResult struct {
	Variant string
	Out     *core.Outcome
}

func main() {
	var o core.RunOpts
	var sub bool
	var list bool
	flag.StringVar(&o.Property, "property", "", "property id (C01..C20)")
	flag.StringVar(&o.Tier, "tier", "quick", "quick|thorough")
	flag.StringVar(&o.Repo, "repo", "/repo", "repository root")
	flag.StringVar(&o.Verif, "verif", "/verif", "verif root")
	flag.StringVar(&o.OnlyRule, "rule", "", "run only this rule")
	flag.StringVar(&o.Explain, "explain", "", "print every obligation whose key contains this string")
	flag.StringVar(&o.Load.GOOS, "goos", "", "GOOS variant")
	flag.StringVar(&o.Load.GOARCH, "goarch", "", "GOARCH variant")
	flag.StringVar(&o.Load.Dir, "moddir", "", "module directory relative to repo root")
	flag.BoolVar(&sub, "sub", false, "sub-run: print JSON outcome, write no evidence")
	flag.BoolVar(&list, "list", false, "list registered properties and rules")
	var hints bool
	flag.BoolVar(&hints, "fieldhints", false, "print the table of field types that rules/fieldhints.go freezes (fields whose type is unique in their struct)")
	flag.Parse()
	if hints {
		lc := o.Load
		lc.Root = o.Repo
		prog, err := core.Load(lc)
		if err != nil {
			fmt.Fprintln(os.Stderr, err)
			os.Exit(2)
		}
		rules.DumpFieldHints(prog)
		return
	}
	if list {
		for _, id := range core.Properties() {
			p := core.Lookup(id)
			for _, r := range p.Rules {
				fmt.Printf("%s\t%s\t%s\n", id, r.ID, r.Title)
			}
		}
		return
	}
	if s := os.Getenv("VERIF_SEED"); s != "" {
		o.Seed, _ = strconv.Atoi(s)
	}
	if t := os.Getenv("VERIF_TIER"); t != "" && o.Tier == "" {
		o.Tier = t
	}
	if core.Lookup(o.Property) == nil {
		fmt.Fprintf(os.Stderr, "UNDECIDED: unknown property %q\n", o.Property)
		os.Exit(2)
	}
	start := time.Now()
	out := core.RunProperty(o)
	if sub {
		json.NewEncoder(os.Stdout).Encode(out)
		os.Exit(out.Exit)
	}
	extra := map[string]interface{}{}
	if o.Tier == "thorough" && o.OnlyRule == "" {
		thorough(&o, out, extra)
	}
	out.Wall = time.Since(start).Seconds()
	report(&o, out, extra)
}

func report(o *core.RunOpts, out *core.Outcome, extra map[string]interface{}) {
	fmt.Printf("== %s (%s): %d packages analysed\n", o.Property, o.Tier, out.Pkgs)
	for _, r := range out.Rules {
		fmt.Printf("rule %-8s obligations=%-4d discharged=%-4d known=%-3d violations=%-3d  %s\n", r.ID, r.Obligations, r.Discharged, r.Known, r.Violations, r.Title)
	}
	for _, s := range out.Infos {
		fmt.Println("info:", s)
	}
	if o.Explain != "" {
		for _, ob := range out.Obs {
			if strings.Contains(ob.Key, o.Explain) {
				fmt.Printf("explain: %s @%s ok=%v known=%v: %s\n", ob.Key, ob.Pos, ob.OK, ob.Known, ob.Msg)
				for _, d := range ob.Detail {
					fmt.Println("    ", d)
				}
			}
		}
	}
	for _, l := range out.KnownLines {
		fmt.Println(l)
	}
	if err := core.WriteEvidence(*o, out, extra); err != nil {
		fmt.Fprintln(os.Stderr, "UNDECIDED: cannot write evidence:", err)
		os.Exit(2)
	}
	replay := filepath.Join(o.Verif, "evidence", o.Property+".violations.json")
	for _, ob := range out.Obs {
		if !ob.OK && !ob.Known {
			fmt.Printf("violation: %s at %s: %s\n", ob.Key, ob.Pos, ob.Msg)
			for _, d := range ob.Detail {
				fmt.Println("    ", d)
			}
		}
	}
	for _, ob := range out.Obs {
		if !ob.OK && !ob.Known {
			fmt.Printf("VIOLATION property=%s replay=%s\n", o.Property, replay)
			break
		}
	}
	for _, u := range out.Undecided {
		fmt.Println("UNDECIDED:", u)
	}
	os.Exit(out.Exit)
}

// thorough: the same rules under other build configurations (each in its own
// process) and the seeded-change self-test.
func thorough(o *core.RunOpts, out *core.Outcome, extra map[string]interface{}) {
	self, _ := os.Executable()
	variants := [][2]string{{"linux", "386"}, {"darwin", "arm64"}, {"windows", "amd64"}}
	var vres []map[string]interface{}
	have := map[string]bool{}
	for _, ob := range out.Obs {
		have[ob.Key] = true
	}
	for _, v := range variants {
		cmd := exec.Command(self, "-sub", "-property", o.Property, "-tier", "thorough", "-repo", o.Repo, "-verif", o.Verif, "-goos", v[0], "-goarch", v[1])
		cmd.Stderr = os.Stderr
		b, _ := cmd.Output()
		var so core.Outcome
		name := v[0] + "/" + v[1]
		if err := json.Unmarshal(b, &so); err != nil {
			vres = append(vres, map[string]interface{}{"variant": name, "status": "not analysed: " + err.Error()})
			continue
		}
		added := 0
		for _, ob := range so.Obs {
			if !have[ob.Key] {
				have[ob.Key] = true
				ob.Msg = "[" + name + "] " + ob.Msg
				out.Obs = append(out.Obs, ob)
				added++
			} else if !ob.OK && !ob.Known {
				// failing only in this variant
				for i := range out.Obs {
					if out.Obs[i].Key == ob.Key && out.Obs[i].OK {
						ob.Msg = "[" + name + "] " + ob.Msg
						out.Obs[i] = ob
					}
				}
			}
		}
		for _, kl := range so.KnownLines {
			dup := false
			for _, x := range out.KnownLines {
				if x == kl {
					dup = true
				}
			}
			if !dup {
				out.KnownLines = append(out.KnownLines, kl)
			}
		}
		for _, u := range so.Undecided {
			out.Undecided = append(out.Undecided, "["+name+"] "+u)
		}
		vres = append(vres, map[string]interface{}{"variant": name, "packages": so.Pkgs, "obligations": len(so.Obs), "new_obligations": added, "exit": so.Exit})
		if so.Exit == 1 && out.Exit != 1 {
			out.Exit = 1
		} else if so.Exit == 2 && out.Exit == 0 {
			out.Exit = 2
		}
	}
	sort.SliceStable(out.Obs, func(i, j int) bool { return out.Obs[i].Key < out.Obs[j].Key })
	extra["build_variants"] = vres
	extra["seeded_selftest"] = seededSelfTest(o, self)
}

// seededSelfTest applies every /verif/seeded/<name>/patch.diff that targets
// this property to a scratch copy of the repository and expects exit 1.
func seededSelfTest(o *core.RunOpts, self string) interface{} {
	dirs, _ := filepath.Glob(filepath.Join(o.Verif, "seeded", "*", "meta.json"))
	sort.Strings(dirs)
	type res struct {
		Name     string `json:"name"`
		Status   string `json:"status"`
		Reported string `json:"reported,omitempty"`
	}
	var out []res
	applied, detected := 0, 0
	for _, m := range dirs {
		var meta struct {
			Property string `json:"property"`
		}
		b, _ := os.ReadFile(m)
		json.Unmarshal(b, &meta)
		if meta.Property != o.Property {
			continue
		}
		name := filepath.Base(filepath.Dir(m))
		patch := filepath.Join(filepath.Dir(m), "patch.diff")
		scratch, err := os.MkdirTemp("", "risorcheck-seed-")
		if err != nil {
			out = append(out, res{name, "skipped: " + err.Error(), ""})
			continue
		}
		func() {
			defer os.RemoveAll(scratch)
			cp := exec.Command("rsync", "-a", "--exclude", ".git", "--exclude", "vscode", "--exclude", "research", "--exclude", "terraform", o.Repo+"/", scratch+"/")
			if e, err := cp.CombinedOutput(); err != nil {
				out = append(out, res{name, "skipped: copy failed: " + string(e), ""})
				return
			}
			ap := exec.Command("patch", "-p1", "-s", "-i", patch)
			ap.Dir = scratch
			if e, err := ap.CombinedOutput(); err != nil {
				out = append(out, res{name, "skipped: patch no longer applies: " + strings.TrimSpace(string(e)), ""})
				return
			}
			applied++
			cmd := exec.Command(self, "-sub", "-property", o.Property, "-tier", "quick", "-repo", scratch, "-verif", o.Verif)
			b, _ := cmd.Output()
			var so core.Outcome
			if err := json.Unmarshal(b, &so); err != nil {
				out = append(out, res{name, "checker failed: " + err.Error(), ""})
				return
			}
			var keys []string
			for _, ob := range so.Obs {
				if !ob.OK && !ob.Known {
					keys = append(keys, ob.Key)
				}
			}
			if so.Exit == 1 {
				detected++
				out = append(out, res{name, "detected", strings.Join(keys, "; ")})
			} else {
				out = append(out, res{name, fmt.Sprintf("MISSED (exit %d)", so.Exit), ""})
			}
		}()
	}
	return map[string]interface{}{"applied": applied, "detected": detected, "results": out}
}
